#!/bin/bash
# Full clean build of the Coq development and the extracted driver, offline.
set -e
cd "$(dirname "$0")"
exec /venv/bin/python tools/check.py --setup
