#!/venv/bin/python
"""Deterministic interleaving of library calls at source-line granularity (C14).

Each call runs in its own thread under sys.settrace; at every 'line' event inside schwifty's own
files the thread hands control back to a scheduler, which decides who moves next.  So a schedule is
a sequence of thread indices, and every run is exactly reproducible (no reliance on the GIL's switch
interval).  Used as a module by tools/props.py and as a replay command:

    sched.py replay <replay.json>
"""
from __future__ import annotations

import json
import os
import sys
import threading

REPO = os.environ.get("VERIF_REPO", "/repo")
if REPO not in sys.path:
    sys.path.insert(0, REPO)
if os.path.dirname(os.path.abspath(__file__)) not in sys.path:
    sys.path.append(os.path.dirname(os.path.abspath(__file__)))
PKG = os.path.join(REPO, "schwifty") + os.sep


def canon(f):
    try:
        r = f()
        return "OK " + repr(r if isinstance(r, (bool, str, type(None), list)) else str(r))
    except Exception as e:  # noqa: BLE001
        return "EXC " + type(e).__name__


class Interleaver:
    def __init__(self, calls, schedule, max_steps=20000):
        self.calls = calls
        self.schedule = list(schedule)       # thread indices; when exhausted: round robin over unfinished threads
        self.n = len(calls)
        self.go = [threading.Semaphore(0) for _ in calls]
        self.back = threading.Semaphore(0)
        self.done = [False] * self.n
        self.results = [None] * self.n
        self.steps = [0] * self.n
        self.trace_log = []
        self.max_steps = max_steps

    def _tracer(self, i):
        def local(frame, event, arg):
            if event == "line" and frame.f_code.co_filename.startswith(PKG):
                self.steps[i] += 1
                self.trace_log.append((i, os.path.relpath(frame.f_code.co_filename, REPO), frame.f_lineno))
                self.back.release()
                self.go[i].acquire()
            return local

        def glob(frame, event, arg):
            if frame.f_code.co_filename.startswith(PKG):
                return local
            return None
        return glob

    def _worker(self, i):
        self.go[i].acquire()
        sys.settrace(self._tracer(i))
        try:
            self.results[i] = canon(self.calls[i])
        finally:
            sys.settrace(None)
            self.done[i] = True
            self.back.release()

    def run(self):
        ts = [threading.Thread(target=self._worker, args=(i,), daemon=True) for i in range(self.n)]
        for t in ts:
            t.start()
        k = 0
        rr = 0
        total = 0
        while not all(self.done):
            if k < len(self.schedule):
                i = self.schedule[k]
                k += 1
                if i >= self.n or self.done[i]:
                    continue
            else:
                while self.done[rr % self.n]:
                    rr += 1
                i = rr % self.n
            self.go[i].release()
            self.back.acquire()
            total += 1
            if total > self.max_steps:
                raise RuntimeError("interleaver: too many steps")
        for t in ts:
            t.join(timeout=5)
        return self.results


def solo_steps(call):
    it = Interleaver([call], [])
    res = it.run()
    return res[0], it.steps[0]


def make_call(desc):
    """desc: {'kind': 'algo_validate'|'iban'|'bic_from_bank_code'|..., ...} -> zero-argument callable"""
    from schwifty import BIC, IBAN
    from schwifty import checksum
    k = desc["kind"]
    if k == "algo_validate":
        algo = checksum.algorithms[desc["key"]]
        return lambda: algo.validate([desc["account"]], "")
    if k == "algo_compute":
        algo = checksum.algorithms[desc["key"]]
        return lambda: algo.compute([desc["account"]])
    if k == "iban":
        return lambda: str(IBAN(desc["text"], validate_bban=desc.get("validate_bban", True)))
    if k == "bic":
        return lambda: str(BIC(desc["text"]))
    if k == "from_bank_code":
        return lambda: str(BIC.from_bank_code(desc["cc"], desc["code"]))
    if k == "runner":
        # a call of the harness' implementation runner (tools/impl_runner.py): {'fn': name, 'args': [encoded arguments]}
        import impl_runner
        if not impl_runner.FACTS and os.environ.get("VERIF_FACTS"):
            impl_runner.FACTS.update(json.load(open(os.environ["VERIF_FACTS"])))
        f = impl_runner.FUNCS[desc["fn"]]
        return lambda: f(list(desc["args"]))
    if k == "generate":
        return lambda: str(IBAN.generate(desc["cc"], desc["bank"], desc["account"], desc.get("branch", "")))
    raise ValueError(k)


def explore_pair(d1, d2, rng=None, random_schedules=0, max_schedules=None, recheck=False):
    """All schedules 'T2 runs atomically after k steps of T1' (every k) and the symmetric ones, plus some random
    fine-grained interleavings.  -> list of failing records.
    max_schedules: take evenly spaced k instead of every k.  recheck: after every interleaved run ask both calls again,
    alone - damage left behind by an interleaving (a memo holding one call's key with the other's value) shows there."""
    c1, c2 = make_call(d1), make_call(d2)
    r1, n1 = solo_steps(c1)
    r2, n2 = solo_steps(c2)
    fails = []
    runs = 0
    ks1, ks2 = list(range(n1 + 1)), list(range(n2 + 1))
    if max_schedules and len(ks1) + len(ks2) > max_schedules:
        st = max(1, (len(ks1) + len(ks2)) // max_schedules)
        ks1, ks2 = ks1[::st] + [n1], ks2[::st] + [n2]
    scheds = [[0] * k + [1] * (n2 + 2) for k in ks1] + [[1] * k + [0] * (n1 + 2) for k in ks2]
    if rng is not None:
        for _ in range(random_schedules):
            scheds.append([rng.randrange(2) for _ in range(n1 + n2 + 4)])
    for s in scheds:
        it = Interleaver([make_call(d1), make_call(d2)], s)
        res = it.run()
        runs += 1
        if res != [r1, r2]:
            fails.append({"calls": [d1, d2], "schedule": s, "solo": [r1, r2], "interleaved": res,
                          "trace_tail": it.trace_log[-12:]})
            break
        if recheck:
            again = [canon(make_call(d1)), canon(make_call(d2))]
            if again != [r1, r2]:
                fails.append({"calls": [d1, d2], "schedule": s, "solo": [r1, r2], "interleaved": res,
                              "asked_again_alone_afterwards": again, "trace_tail": it.trace_log[-12:]})
                break
    return fails, runs


def replay(path):
    rec = json.load(open(path))
    d1, d2 = rec["calls"]
    it = Interleaver([make_call(d1), make_call(d2)], rec["schedule"])
    res = it.run()
    solo = [solo_steps(make_call(d1))[0], solo_steps(make_call(d2))[0]]
    print("solo       :", solo)
    print("interleaved:", res)
    return 1 if res != solo else 0


def explore_main():
    import random
    job = json.load(sys.stdin)
    rng = random.Random(job.get("seed", 0))
    out = {"runs": 0, "pairs": 0, "fails": []}
    for d1, d2 in job["pairs"]:
        try:
            fails, runs = explore_pair(d1, d2, rng, job.get("random_schedules", 0), job.get("max_schedules"),
                                       job.get("recheck", False))
        except Exception as e:  # noqa: BLE001
            out["fails"].append({"calls": [d1, d2], "error": type(e).__name__ + ": " + str(e)[:200]})
            continue
        out["runs"] += runs
        out["pairs"] += 1
        out["fails"].extend(fails)
        if len(out["fails"]) >= 3:
            break
    print(json.dumps(out))


if __name__ == "__main__":
    if len(sys.argv) == 2 and sys.argv[1] == "explore":
        explore_main()
        sys.exit(0)
    if len(sys.argv) == 3 and sys.argv[1] == "replay":
        sys.exit(replay(sys.argv[2]))
    print(__doc__)
