"""Structural matching of Python function bodies against templates with holes.

A template is Python source.  Names of the form H_int_x / H_str_x / H_name_x / H_any_x are holes:
they match an int constant / str constant / identifier-or-attribute name / any expression and the
match is returned under the key x.  Docstrings, annotations, exception-message arguments of
`raise X(...)`, and `# noqa` comments are ignored on both sides.
"""
from __future__ import annotations

import ast


class Mismatch(Exception):
    pass


def strip(node: ast.AST) -> ast.AST:
    """Normalise: drop docstrings, annotations, and the arguments of raised exceptions."""

    class N(ast.NodeTransformer):
        def visit_FunctionDef(self, n):
            self.generic_visit(n)
            n.returns = None
            n.decorator_list = [d for d in n.decorator_list]
            for a in n.args.args + n.args.kwonlyargs + n.args.posonlyargs:
                a.annotation = None
            if n.args.vararg:
                n.args.vararg.annotation = None
            if n.args.kwarg:
                n.args.kwarg.annotation = None
            if n.body and isinstance(n.body[0], ast.Expr) and isinstance(n.body[0].value, ast.Constant) \
                    and isinstance(n.body[0].value.value, str):
                n.body = n.body[1:] or [ast.Pass()]
            return n

        def visit_AnnAssign(self, n):
            self.generic_visit(n)
            if n.value is None:
                return None
            return ast.Assign(targets=[n.target], value=n.value)

        def visit_Raise(self, n):
            self.generic_visit(n)
            if isinstance(n.exc, ast.Call):
                n.exc = n.exc.func
            n.cause = None
            return n

    return ast.fix_missing_locations(N().visit(node))


def _name_of(node):
    if isinstance(node, ast.Name):
        return node.id
    if isinstance(node, ast.Attribute):
        base = _name_of(node.value)
        return None if base is None else base + "." + node.attr
    return None


def match(tmpl: ast.AST, node: ast.AST, out: dict) -> None:
    if isinstance(tmpl, ast.Name) and tmpl.id.startswith("H_"):
        _, kind, key = tmpl.id.split("_", 2)
        if kind == "int":
            if not (isinstance(node, ast.Constant) and type(node.value) is int):
                # allow a negative literal
                if isinstance(node, ast.UnaryOp) and isinstance(node.op, ast.USub) and \
                        isinstance(node.operand, ast.Constant) and type(node.operand.value) is int:
                    val = -node.operand.value
                else:
                    raise Mismatch(f"hole {key}: expected int constant, got {ast.dump(node)[:80]}")
            else:
                val = node.value
        elif kind == "str":
            if not (isinstance(node, ast.Constant) and isinstance(node.value, str)):
                raise Mismatch(f"hole {key}: expected str constant")
            val = node.value
        elif kind == "name":
            val = _name_of(node)
            if val is None:
                raise Mismatch(f"hole {key}: expected a name")
        elif kind == "any":
            val = node
        else:
            raise Mismatch(f"bad hole kind {kind}")
        if key in out and kind != "any" and out[key] != val:
            raise Mismatch(f"hole {key}: inconsistent {out[key]!r} vs {val!r}")
        out[key] = val
        return
    if type(tmpl) is not type(node):
        raise Mismatch(f"{type(tmpl).__name__} vs {type(node).__name__}")
    for field in tmpl._fields:
        if field in ("ctx", "type_comment", "kind"):
            continue
        a, b = getattr(tmpl, field, None), getattr(node, field, None)
        if isinstance(a, list):
            if not isinstance(b, list) or len(a) != len(b):
                raise Mismatch(f"{type(tmpl).__name__}.{field}: length {len(a)} vs {len(b) if isinstance(b, list) else '?'}")
            for x, y in zip(a, b):
                if isinstance(x, ast.AST):
                    match(x, y, out)
                elif x != y:
                    raise Mismatch(f"{field}: {x!r} vs {y!r}")
        elif isinstance(a, ast.AST):
            if not isinstance(b, ast.AST):
                raise Mismatch(f"{type(tmpl).__name__}.{field}: missing")
            match(a, b, out)
        elif isinstance(a, str) and a.startswith("H_name_") and isinstance(b, str):
            key = a[len("H_name_"):]
            if key in out and out[key] != b:
                raise Mismatch(f"hole {key}: inconsistent")
            out[key] = b
        elif a != b:
            raise Mismatch(f"{type(tmpl).__name__}.{field}: {a!r} vs {b!r}")


def match_function(template_src: str, func_node: ast.AST) -> dict | None:
    """Match a function definition against a template function source; None if it does not fit."""
    import copy
    import textwrap

    t = strip(ast.parse(textwrap.dedent(template_src))).body[0]
    f = strip(copy.deepcopy(func_node))
    out: dict = {}
    try:
        match(t, f, out)
    except Mismatch as e:
        out.clear()
        out["__why__"] = str(e)
        return None
    return out


def find_def(tree: ast.AST, qualname: str):
    """Find Class.method or function by dotted name in a module AST."""
    parts = qualname.split(".")
    scope = tree.body
    node = None
    for p in parts:
        node = None
        for n in scope:
            if isinstance(n, (ast.FunctionDef, ast.ClassDef)) and n.name == p:
                node = n
                break
        if node is None:
            return None
        scope = node.body
    return node


def norm_dump(node: ast.AST) -> str:
    import copy
    return ast.dump(strip(copy.deepcopy(node)), annotate_fields=False)
