#!/usr/bin/env python3
"""Writes MANIFEST.json from tools/claims.py-style table below (single source of truth)."""
import json, os, sys
HERE = os.path.dirname(os.path.abspath(__file__))
ROOT = os.path.dirname(HERE)
sys.path.insert(0, HERE)
from claims import CLAIMS, NOT_APPLICABLE  # noqa: E402

props = [json.loads(l) for l in open(os.path.join(ROOT, "properties.jsonl"))]
ids = [p["id"] for p in props]
checks = []
for pid in ids:
    if pid not in CLAIMS:
        continue
    c = CLAIMS[pid]
    checks.append({
        "property_id": pid,
        "quick_cmd": f"./check {pid} --tier quick",
        "thorough_cmd": f"./check {pid} --tier thorough",
        "evidence_file": f"/verif/evidence/{pid}.json",
        "replay_cmd_template": f"./check {pid} --replay {{path}}",
        "engine": "coq-model",
        "level_claimed": {"category": "proof", "text": c["text"], "design_ref": c.get("design_ref", "DESIGN.md §4")},
        "level_note": c["note"],
        "technique": c["technique"],
    })
na = [{"property_id": pid, "reason": NOT_APPLICABLE.get(pid, "check not built yet in this development; no claim made")}
      for pid in ids if pid not in CLAIMS]
manifest = {
    "version": 1,
    "setup_cmd": "./setup.sh",
    "hooks": {
        "guard": "SCHWIFTY_VERIF",
        "enable": "no hooks are needed: the checks instrument schwifty from outside (Random subclass, wrappers, sys.settrace); the guard name is reserved only",
        "baseline_off_cmd": "cd /repo && /venv/bin/python -m pytest -ra -q -p no:cacheprovider --timeout=900 --continue-on-collection-errors",
        "source_commits": [],
        "add_only": True,
    },
    "engines": [{
        "name": "coq-model",
        "path": "/verif/coq",
        "serves_properties": [c["property_id"] for c in checks],
        "kind_free_text": "Coq 8.16.1 model of schwifty: Gen/ regenerated from /repo by tools/translate.py on every run, Model/ hand-written Gallina tied by an extracted-OCaml correspondence harness, Props/ one theorem file per property",
    }],
    "checks": checks,
    "not_applicable": na,
    "notes": "Every check: translate /repo -> coq/theories/Gen, rebuild the property's theorem cone with coqc (full .vo), run the correspondence streams model-vs-implementation, replay known findings. See DESIGN.md.",
}
json.dump(manifest, open(os.path.join(ROOT, "MANIFEST.json"), "w"), indent=1)
print("wrote MANIFEST.json with", len(checks), "checks,", len(na), "not_applicable")
