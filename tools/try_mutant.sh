#!/bin/bash
# usage: tools/try_mutant.sh <patch-file> <ID>...   applies to /repo, runs pytest + checks, reverts
set -u
patch="$1"; shift
cd /repo && git apply "$patch" || { echo "patch failed"; exit 2; }
trap 'git -C /repo checkout -- . ' EXIT
echo "--- pytest"; (cd /repo && /venv/bin/python -m pytest -q -p no:cacheprovider --deselect tests/test_bic.py::test_pydantic_protocol --deselect tests/test_iban.py::test_pydantic_protocol 2>&1 | tail -2)
for id in "$@"; do echo "--- check $id"; (cd /verif && ./check $id --tier quick 2>&1 | tail -4); done
