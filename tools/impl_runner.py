#!/venv/bin/python
"""Runs cases against the implementation in /repo (the tree being checked).

stdin : one case per line, tab separated: function name, arguments (same encoding as the OCaml
        driver: text = comma separated code points, "-" = empty; bool = 0/1; lists ';'-separated)
stdout: one canonical result per line: OK <payload> | ERR <schwifty class> | CRASH <python class>
"""
from __future__ import annotations

import os
import sys

REPO = os.environ.get("VERIF_REPO", "/repo")
sys.path.insert(0, REPO)

import re  # noqa: E402

from schwifty import IBAN, BIC, common, exceptions, registry  # noqa: E402,F401
from schwifty.bban import BBAN  # noqa: E402,F401
import schwifty.iban as iban_mod  # noqa: E402


def dec(s: str) -> str:
    return "" if s == "-" else "".join(chr(int(x)) for x in s.split(","))


def enc(s: str) -> str:
    return "-" if s == "" else ",".join(str(ord(c)) for c in s)


def decl(s: str) -> list:
    return [] if s == "" else [dec(x) for x in s.split(";")]


def encl(l) -> str:
    return ";".join(enc(x) for x in l)


def b(s: str) -> bool:
    return s == "1"


def eb(x: bool) -> str:
    return "1" if x else "0"


SCHWIFTY = {
    "SchwiftyException", "InvalidLength", "InvalidStructure", "InvalidCountryCode",
    "InvalidBankCode", "InvalidBranchCode", "InvalidAccountCode", "InvalidChecksumDigits",
    "InvalidBBANChecksum", "GenerateRandomOverflowError",
}


def canon_exc(e: BaseException) -> str:
    if isinstance(e, exceptions.SchwiftyException):
        for cls in type(e).__mro__:
            if cls.__name__ in SCHWIFTY:
                return "ERR " + cls.__name__
        return "ERR SchwiftyException"
    for cls in type(e).__mro__:
        if cls.__name__ in ("ValueError", "KeyError", "IndexError", "TypeError", "AssertionError"):
            # KeyError/IndexError are LookupErrors, not ValueErrors; UnicodeError is a ValueError
            return "CRASH " + cls.__name__
    return "CRASH " + type(e).__name__


def jenc(x, sort=False) -> str:
    """JSON value -> prefix token stream (see driver/main.ml)."""
    if x is None:
        return "n"
    if x is True:
        return "t"
    if x is False:
        return "f"
    if isinstance(x, int):
        return "i" + str(x)
    if isinstance(x, str):
        return "s" + enc(x)
    if isinstance(x, (list, tuple)):
        return " ".join(["a" + str(len(x))] + [jenc(v, sort) for v in x])
    if isinstance(x, dict):
        items = list(x.items())
        if sort:
            items.sort(key=lambda kv: [ord(c) for c in kv[0]])
        out = ["o" + str(len(items))]
        for k, v in items:
            if not isinstance(k, str):
                raise TypeError("non-str key")
            out += [enc(k), jenc(v, sort)]
        return " ".join(out)
    raise TypeError(f"not JSON: {type(x).__name__}")


def jdec(s: str):
    toks = s.split(" ")
    pos = [0]

    def nxt():
        t = toks[pos[0]]
        pos[0] += 1
        return t

    def go():
        t = nxt()
        c, rest = t[0], t[1:]
        if c == "n":
            return None
        if c == "t":
            return True
        if c == "f":
            return False
        if c == "i":
            return int(rest)
        if c == "s":
            return dec(rest)
        if c == "a":
            return [go() for _ in range(int(rest))]
        if c == "o":
            d = {}
            for _ in range(int(rest)):
                k = dec(nxt())
                d[k] = go()
            return d
        raise ValueError("json token " + t)
    return go()


def guard(f):
    try:
        return "OK " + f()
    except Exception as e:  # noqa: BLE001
        return canon_exc(e)


# ------------------------------------------------------------------------------------------------
FACTS = {}


def f_clean(a):
    return enc(common.clean(dec(a[0])))


def f_iban_new(a):
    return guard(lambda: enc(str(IBAN(dec(a[0]), allow_invalid=b(a[1]), validate_bban=b(a[2])))))


def f_iban_validate(a):
    return guard(lambda: eb(IBAN(dec(a[0]), allow_invalid=True).validate(b(a[1]))))


_TWINS = None


def _twin_countries(n):
    """other countries whose BBAN has length n"""
    global _TWINS
    if _TWINS is None:
        _TWINS = {}
        for cc, row in FACTS["iban_rows"].items():
            _TWINS.setdefault(row["bban_length"], []).append(cc)
    return _TWINS.get(n, [])


def _touch(o):
    for n in list(FACTS["components"]) + ["bank", "bic", "bank_name", "bank_short_name", "formatted", "numeric"]:
        try:
            getattr(o, n)
        except Exception:  # noqa: BLE001
            pass
    for vb in (False, True):
        try:
            o.validate(vb)
        except Exception:  # noqa: BLE001
            pass


def _lenient_first(text):
    """uses that may precede a strict validation in one process, outcomes ignored: the lenient constructor, is_valid and
    validate() without the national step on the same text; and IBANs of OTHER countries carrying the very same BBAN string
    (their BBAN objects are equal as strings), with every accessor read"""
    for f in (lambda: IBAN(text), lambda: IBAN(text, allow_invalid=True).is_valid, lambda: IBAN(text, allow_invalid=True).validate()):
        try:
            f()
        except Exception:  # noqa: BLE001
            pass
    try:
        o = IBAN(text, allow_invalid=True)
        bb = str(o.bban)
        for cc2 in [c for c in _twin_countries(len(bb)) if c != o.country_code][:3]:
            try:
                _touch(IBAN.from_bban(cc2, bb, allow_invalid=True))
                _touch(BBAN(cc2, bb))
            except Exception:  # noqa: BLE001
                pass
    except Exception:  # noqa: BLE001
        pass


def f_iban_new_after(a):
    """IBAN(text, ...) after lenient uses of the same text: the outcome must be that of a first call"""
    _lenient_first(dec(a[0]))
    return f_iban_new(a)


def f_iban_validate_after(a):
    """validate(validate_bban) on an object that was already validated leniently (is_valid, validate())"""
    _lenient_first(dec(a[0]))

    def run():
        o = IBAN(dec(a[0]), allow_invalid=True)
        try:
            o.is_valid
            o.validate()
        except Exception:  # noqa: BLE001
            pass
        return eb(o.validate(b(a[1])))
    return guard(run)


def f_iban_new_inst(a):
    """the constructor handed an IBAN INSTANCE (built leniently before) instead of a str: same outcome as for the text"""
    t = dec(a[0])
    try:
        inst = IBAN(t)
    except Exception:  # noqa: BLE001
        inst = IBAN(t, allow_invalid=True)
    return guard(lambda: enc(str(IBAN(inst, allow_invalid=b(a[1]), validate_bban=b(a[2])))))


def f_bic_new_inst(a):
    """the constructor handed a BIC INSTANCE (validated in the lenient mode before, if it can be) instead of a str"""
    t = dec(a[0])
    try:
        inst = BIC(t)
    except Exception:  # noqa: BLE001
        inst = BIC(t, allow_invalid=True)
    return guard(lambda: enc(str(BIC(inst, allow_invalid=b(a[1]), enforce_swift_compliance=b(a[2])))))


def f_iban_is_valid(a):
    return guard(lambda: eb(IBAN(dec(a[0]), allow_invalid=True).is_valid))


def f_iban_from_bban(a):
    return guard(lambda: enc(str(IBAN.from_bban(dec(a[0]), dec(a[1]), allow_invalid=b(a[2]),
                                                validate_bban=b(a[3])))))


def f_iban_formatted(a):
    return enc(IBAN(dec(a[0]), allow_invalid=True).formatted)


def f_re_chars(a):
    site = FACTS["chars_site"]
    rx = re.compile(site["pattern"], site["flags"])
    return eb(getattr(rx, site["method"])(dec(a[0])) is not None)


def f_re_row(a):
    spec = registry.get("iban").get(dec(a[0]))
    if spec is None:
        return "NOROW"
    return eb(getattr(spec["regex"], a[1])(dec(a[2])) is not None)


def f_bic_new(a):
    return guard(lambda: enc(str(BIC(dec(a[0]), allow_invalid=b(a[1]), enforce_swift_compliance=b(a[2])))))


def f_bic_validate(a):
    return guard(lambda: eb(BIC(dec(a[0]), allow_invalid=True).validate(b(a[1]))))


def f_bic_is_valid(a):
    return guard(lambda: eb(BIC(dec(a[0]), allow_invalid=True).is_valid))


def f_bic_formatted(a):
    return enc(BIC(dec(a[0]), allow_invalid=True).formatted)


def f_bic_parts(a):
    x = BIC(dec(a[0]), allow_invalid=True)
    return encl([x.bank_code, x.country_code, x.location_code, x.branch_code])


def f_re_bic(a):
    import schwifty.bic as bicmod
    rx = bicmod._bic_swift_re if b(a[0]) else bicmod._bic_iso9362_re
    return eb(getattr(rx, a[1])(dec(a[2])) is not None)


def _accepts(f):
    try:
        r = f()
        return r is not False
    except Exception:  # noqa: BLE001
        return False


def f_spec_iban_accept_any(a):
    """'1' when ANY validating entry point accepts the text - each of them demands at least the ISO 13616 rules
    (national validation can only reject): constructor with and without validate_bban, validate() with and without it
    and is_valid on the unvalidated object, the constructor handed an unvalidated instance"""
    t = dec(a[0])
    ways = (lambda: IBAN(t), lambda: IBAN(t, validate_bban=True),
            lambda: IBAN(t, allow_invalid=True).validate(), lambda: IBAN(t, allow_invalid=True).validate(validate_bban=True),
            lambda: IBAN(t, allow_invalid=True).is_valid, lambda: IBAN(IBAN(t, allow_invalid=True)),
            lambda: IBAN(IBAN(t, allow_invalid=True), validate_bban=True))
    got = [_accepts(f) for f in ways]
    if got[0] != got[2] or got[0] != got[4] or got[0] != got[5] or got[1] != got[3] or got[1] != got[6]:
        return "ENTRY-POINTS-DISAGREE " + "".join("1" if g else "0" for g in got)
    return "1" if any(got) else "0"


def f_spec_bic_accept_any(a):
    """'1' when any entry point accepts the text in the given compliance mode (constructor, validate() on the
    unvalidated object, the constructor handed an instance that was validated in the lenient mode or not at all)"""
    t, strict = dec(a[0]), b(a[1])

    def via_instance():
        try:
            inst = BIC(t)
        except Exception:  # noqa: BLE001
            inst = BIC(t, allow_invalid=True)
        return BIC(inst, enforce_swift_compliance=strict)
    ways = (lambda: BIC(t, enforce_swift_compliance=strict),
            lambda: BIC(t, allow_invalid=True).validate(enforce_swift_compliance=strict), via_instance)
    got = [_accepts(f) for f in ways]
    if len(set(got)) != 1:
        return "ENTRY-POINTS-DISAGREE " + "".join("1" if g else "0" for g in got)
    return "1" if got[0] else "0"


def f_spec_bic_accept(a):
    try:
        BIC(dec(a[0]), enforce_swift_compliance=b(a[1]))
        return "1"
    except Exception:  # noqa: BLE001
        return "0"


def _outcome(f):
    try:
        o = f()
        return ("OK", str(o), o)
    except Exception as e:  # noqa: BLE001
        return (canon_exc(e), None, None)


def f_spec_variant_same(a):
    t1, t2 = dec(a[0]), dec(a[1])
    for mk in (lambda t: IBAN(t), lambda t: IBAN(t, allow_invalid=True), lambda t: BIC(t), lambda t: BIC(t, allow_invalid=True)):
        o1, o2 = _outcome(lambda: mk(t1)), _outcome(lambda: mk(t2))
        if o1[:2] != o2[:2]:
            return "DIFF"
        if o1[2] is not None and not (o1[2] == o2[2] and hash(o1[2]) == hash(o2[2]) and o1[2].compact == o2[2].compact):
            return "DIFF"
    return "SAME"


def f_spec_variant_same_api(a):
    """white-space / case variants of the ARGUMENTS of the building entry points give the same outcome (C10_generate_arguments):
    args = cc, bank, account, branch, bank', account', branch'  (the primed ones are variants of the others)"""
    cc = dec(a[0])
    x, y = [dec(v) for v in a[1:4]], [dec(v) for v in a[4:7]]
    # (the lookups BIC.from_bank_code / candidates_from_bank_code take their key as it is - they do not clean it - and are
    #  not part of this: "498\r" is simply not a listed code)
    calls = (("generate", lambda v: str(IBAN.generate(cc, v[0], v[1], v[2]))),
             ("from_components", lambda v: str(BBAN.from_components(cc, bank_code=v[0], account_code=v[1], branch_code=v[2]))))
    for name, f in calls:
        o1, o2 = _outcome(lambda: f(x)), _outcome(lambda: f(y))
        if o1[:2] != o2[:2] or o1[2] != o2[2]:
            return f"DIFF {name}: {o1[:2]} {o1[2]!r} / {o2[:2]} {o2[2]!r}"[:300]
    return "SAME"


def f_iban_formatted_rt(a):
    o = IBAN(dec(a[0]), allow_invalid=True)
    f = o.formatted
    back = IBAN(f, allow_invalid=True)
    return enc(f) + "|RT" + eb(back == o and str(back) == str(o) and IBAN(o.compact, allow_invalid=True) == o)


def f_bic_formatted_rt(a):
    o = BIC(dec(a[0]), allow_invalid=True)
    f = o.formatted
    back = BIC(f, allow_invalid=True)
    return enc(f) + "|RT" + eb(back == o and str(back) == str(o))


def f_iban_decomp(a):
    o = IBAN(dec(a[0]), allow_invalid=True)
    names = decl(a[1])
    parts = [enc(o.country_code), enc(o.checksum_digits), enc(str(o.bban))]
    for n in names:
        def both(n=n):
            x, y = getattr(o, n), getattr(o.bban, n)
            if x != y:
                raise AssertionError("IBAN/BBAN accessor disagree")
            return enc(x)
        parts.append(guard(both))
    def reassembled():
        x = IBAN.from_bban(o.country_code, o.bban, allow_invalid=True)
        y = _outcome(lambda: IBAN.from_bban(o.country_code, str(o.bban), allow_invalid=True))
        if y[0] != "OK" or str(y[2]) != str(x):
            raise AssertionError("from_bban differs between the BBAN object and its text")
        return enc(str(x))
    parts.append(guard(reassembled))
    return " / ".join(parts)


def f_iban_decomp_bbanobj(a):
    """IBAN.from_bban(cc, <BBAN object of country cc2>): the result decomposes by cc's published positions"""
    cc, cc2, bb = dec(a[0]), dec(a[1]), dec(a[2])
    try:
        o = IBAN.from_bban(cc, BBAN(cc2, bb), allow_invalid=True)
    except Exception as e:  # noqa: BLE001
        return canon_exc(e)
    names = decl(a[3])
    parts = [enc(o.country_code), enc(o.checksum_digits), enc(str(o.bban))]
    for n in names:
        def both(n=n):
            x, y = getattr(o, n), getattr(o.bban, n)
            if x != y:
                raise AssertionError("IBAN/BBAN accessor disagree")
            return enc(x)
        parts.append(guard(both))
    parts.append(guard(lambda: enc(str(IBAN.from_bban(o.country_code, o.bban, allow_invalid=True)))))
    return " / ".join(parts)


def f_merge_dicts(a):
    import copy
    l, r = jdec(a[0]), jdec(a[1])
    if not (isinstance(l, dict) and isinstance(r, dict)):
        return "NOT-OBJECTS"
    l0, r0 = copy.deepcopy(l), copy.deepcopy(r)
    m = registry.merge_dicts(l, r)
    if l != l0 or r != r0:
        return "MUTATED-ARGUMENT"
    return jenc(m, sort=True)


def f_parse_v2(a):
    return guard(lambda: jenc(registry.parse_v2(jdec(a[0])), sort=True))


def f_registry_get(a):
    """args: name, then (file name, json) pairs; runs the real registry.get on a scratch directory."""
    import json as _json
    import pathlib
    import shutil
    import tempfile
    name = "verifscratch"
    tmp = pathlib.Path(tempfile.mkdtemp(prefix="verif_reg_", dir="/dev/shm"))
    try:
        d = tmp / f"{name}_registry"
        d.mkdir()
        for i in range(0, len(a), 2):
            (d / dec(a[i])).write_text(_json.dumps(jdec(a[i + 1])), encoding="utf-8")
        old_files = registry.files
        registry.files = lambda _pkg: tmp
        registry._registry.pop(name, None)
        try:
            def run():
                v = registry.get(name)
                return jenc(v, sort=True)
            return guard(run)
        finally:
            registry.files = old_files
            registry._registry.pop(name, None)
    finally:
        shutil.rmtree(tmp, ignore_errors=True)


def f_candidates(a):
    return guard(lambda: encl([str(x) for x in BIC.candidates_from_bank_code(dec(a[0]), dec(a[1]))]))


def f_from_bank_code(a):
    return guard(lambda: enc(str(BIC.from_bank_code(dec(a[0]), dec(a[1])))))


def f_bic_domestic(a):
    x = BIC(dec(a[0]), allow_invalid=True)
    return encl(x.domestic_bank_codes) + " exists=" + eb(x.exists)


def f_bic_names(a):
    return _json_dumps(BIC(dec(a[0]), allow_invalid=True).bank_names)


def f_bic_short_names(a):
    return _json_dumps(BIC(dec(a[0]), allow_invalid=True).bank_short_names)


def _json_dumps(x):
    import json as _json
    return _json.dumps(x, ensure_ascii=True)


_BANK_IDS = None
_BANK_IDS_LOCK = __import__("threading").Lock()


def _bank_id(entry):
    global _BANK_IDS
    if _BANK_IDS is None:
        with _BANK_IDS_LOCK:               # the harness' own table: built once, also when several threads ask first
            if _BANK_IDS is None:
                _BANK_IDS = {id(en): i for i, en in enumerate(registry.get("bank"))}
    return _BANK_IDS.get(id(entry), -1)


def f_iban_bank_lookup(a):
    def run():
        o = IBAN.from_bban(dec(a[0]), dec(a[1]))
        bank = o.bank
        bic = o.bic
        if (bank is None) != (o.bank_name is None) or (bank is not None and (o.bank_name != bank["name"] or o.bank_short_name != bank["short_name"])):
            return "bank/bank_name disagree"
        return "bank=" + ("none" if bank is None else str(_bank_id(bank))) + " bic=" + ("none" if bic is None else enc(str(bic)))
    return guard(run)


def f_n_banks(a):
    return str(len(registry.get("bank")))


def f_spec_wf_bank(a):
    return "1"


def f_spec_wf_country(a):
    return "1"


def f_algo_validate(a):
    from schwifty import checksum
    algo = checksum.algorithms[dec(a[0])]
    return guard(lambda: eb(algo.validate(decl(a[1]), dec(a[2]))))


def f_algo_compute(a):
    from schwifty import checksum
    algo = checksum.algorithms[dec(a[0])]
    return guard(lambda: enc(algo.compute(decl(a[1]))))


def f_spec_german(a):
    from schwifty import checksum
    algo = checksum.algorithms.get("DE:" + dec(a[0]))
    if algo is None:
        return "NOSPEC"
    try:
        r = algo.validate([dec(a[1])], "")
        return "1" if r is True else ("0" if r is False else "RETURNED-" + repr(r))
    except exceptions.InvalidBBANChecksum:
        return "0"
    except Exception as e:  # noqa: BLE001
        return canon_exc(e)


def f_validate_national(a):
    return guard(lambda: eb(BBAN(dec(a[0]), dec(a[1])).validate_national_checksum()))


def f_from_components(a):
    return guard(lambda: enc(str(BBAN.from_components(dec(a[0]), bank_code=dec(a[1]), branch_code=dec(a[2]),
                                                      account_code=dec(a[3])))))


def f_from_components_partial(a):
    """from_components with the empty components OMITTED (same meaning as passing "")"""
    vals = {k: dec(v) for k, v in (("bank_code", a[1]), ("branch_code", a[2]), ("account_code", a[3])) if dec(v) != ""}
    return guard(lambda: enc(str(BBAN.from_components(dec(a[0]), **vals))))


def f_generate(a):
    return guard(lambda: enc(str(IBAN.generate(dec(a[0]), dec(a[1]), dec(a[2]), dec(a[3])))))


def f_generated_published(a):
    """IBAN.generate, handing its BBAN to the published-rule specification (second phase on the model side)"""
    try:
        o = IBAN.generate(dec(a[0]), dec(a[1]), dec(a[2]), dec(a[3]))
        return "GEN ## " + enc(o.bban)
    except Exception:  # noqa: BLE001   (what generate raises is C08's business)
        return "NONE ## "


def f_spec_national_accept(a):
    try:
        IBAN(dec(a[0]), validate_bban=True)
        return "1"
    except Exception:  # noqa: BLE001
        return "0"


def f_spec_national_accept_after(a):
    """the strict verdict (constructor and validate(validate_bban=True) on an object validated leniently before) after
    lenient uses of the same text: '1' / '0', or what differs between the two strict entry points"""
    t = dec(a[0])
    _lenient_first(t)
    try:
        IBAN(t, validate_bban=True)
        r1 = "1"
    except Exception:  # noqa: BLE001
        r1 = "0"
    o = IBAN(t, allow_invalid=True)
    try:
        o.is_valid
        o.validate()
    except Exception:  # noqa: BLE001
        pass
    try:
        o.validate(validate_bban=True)
        r2 = "1"
    except Exception:  # noqa: BLE001
        r2 = "0"
    return r1 if r1 == r2 else f"constructor:{r1} validate:{r2}"


def f_spec_published(a):
    """national verdict of the implementation on a structure-conforming BBAN: true / raises"""
    try:
        r = BBAN(dec(a[0]), dec(a[1])).validate_national_checksum()
        return "1" if r is True else ("RETURNED-" + repr(r))
    except exceptions.SchwiftyException:      # failure is reported by raising (Norway: InvalidAccountCode when no digit exists)
        return "0"
    except Exception as e:  # noqa: BLE001
        return canon_exc(e)


def f_spec_only_rejects(a):
    t = dec(a[0])

    def acc(vb):
        try:
            IBAN(t, validate_bban=vb)
            return True
        except exceptions.SchwiftyException:
            return False
    try:
        return "OK" if (not acc(True)) or acc(False) else "ACCEPTED-ONLY-WITH-NATIONAL-VALIDATION"
    except Exception as e:  # noqa: BLE001
        return canon_exc(e)


# ---- C15: digest of everything that must not change
_PROBE_OBJECTS = []


def _pycountry_digest():
    try:
        import pycountry
        return sorted(c.alpha_2 for c in pycountry.countries)
    except Exception as e:  # noqa: BLE001
        return type(e).__name__


def f_history_probe(a):
    import hashlib
    import json as _json
    if not _PROBE_OBJECTS:
        _PROBE_OBJECTS.extend([IBAN("DE89370400440532013000"), BIC("GENODEM1GLS"), IBAN("XX00", allow_invalid=True),
                               IBAN("DE89370400440532013000").bban])

    def norm(x):
        if isinstance(x, dict):
            return {str(k): norm(v) for k, v in sorted(x.items(), key=lambda kv: str(kv[0]))}
        if isinstance(x, (list, tuple)):
            return [norm(v) for v in x]
        if isinstance(x, re.Pattern):
            return ["re", x.pattern, x.flags]
        return x if isinstance(x, (str, int, bool, type(None))) else str(x)
    from schwifty import checksum
    state = {
        "registry": norm(registry._registry),
        "algorithms": sorted(checksum.algorithms),
        "pycountry": _pycountry_digest(),
        "objects": [[type(o).__name__, str(o), getattr(o, "country_code", None), norm(getattr(o, "__dict__", {}))] for o in _PROBE_OBJECTS],
    }
    return hashlib.sha256(_json.dumps(state, sort_keys=True).encode()).hexdigest()


# ---- C16: value semantics and copies on the real objects
def _mk(kind, t):
    if kind == "iban":
        return IBAN(t, allow_invalid=True)
    if kind == "bic":
        return BIC(t, allow_invalid=True)
    if kind == "bban":
        return BBAN(t[:2], t[2:])
    return t


def f_spec_value_laws(a):
    """pairs of objects/strings: ==, !=, <, <=, >, >=, hash and dict lookup are those of the compact strings"""
    k1, t1, k2, t2 = a[0], dec(a[1]), a[2], dec(a[3])
    x, y = _mk(k1, t1), _mk(k2, t2)
    sx, sy = str(x), str(y)
    checks = {
        "eq": (x == y) == (sx == sy), "ne": (x != y) == (sx != sy), "lt": (x < y) == (sx < sy),
        "le": (x <= y) == (sx <= sy), "gt": (x > y) == (sx > sy), "ge": (x >= y) == (sx >= sy),
        "hash": (sx != sy) or hash(x) == hash(y), "hash-str": hash(x) == hash(sx),
        "dict": {x: 1}.get(y) == ({sx: 1}.get(sy)), "sorted": [str(v) for v in sorted([x, y])] == sorted([sx, sy]),
    }
    bad = [k for k, v in checks.items() if not v]
    return "OK" if not bad else "DIFFERS " + ",".join(bad)


def f_spec_copies(a):
    import copy
    import pickle
    kind, t = a[0], dec(a[1])
    o = _mk(kind, t)

    def same(c):
        if type(c) is not type(o) or c != o or str(c) != str(o):
            return False
        if getattr(c, "country_code", None) != getattr(o, "country_code", None):
            return False
        if kind == "iban":
            if type(c.bban) is not type(o.bban) or c.bban != o.bban or c.bban.country_code != o.bban.country_code:
                return False
            names = FACTS["components"]

            def acc(obj, n):
                try:
                    return ("ok", getattr(obj, n))
                except Exception as e:  # noqa: BLE001
                    return ("exc", type(e).__name__)
            if any(acc(c, n) != acc(o, n) for n in names):
                return False
        return True
    bad = []
    for name, op in (("copy", copy.copy), ("deepcopy", copy.deepcopy), ("pickle", lambda v: pickle.loads(pickle.dumps(v))),
                     ("pickle0", lambda v: pickle.loads(pickle.dumps(v, protocol=0)))):
        try:
            if not same(op(o)):
                bad.append(name + ":different")
        except Exception as e:  # noqa: BLE001
            bad.append(name + ":" + type(e).__name__)
    return "OK" if not bad else "FAILS " + ",".join(bad)


# ---- C13: random generation, instrumented from outside (no hooks in schwifty)
def _random_run(kind, cc, use_registry, pins, seed):
    """-> (canonical outcome, log) where log = (country idx, bank idx, xeger draws) as the implementation saw them"""
    import random as _random
    import rstr as _rstr

    log = {"choices": [], "draws": [], "in_xeger": 0}

    class LoggingRandom(_random.Random):
        def choice(self, seq):
            i = self._randbelow(len(seq))
            if not log["in_xeger"]:
                log["choices"].append((i, len(seq)))
            return seq[i]

    orig = _rstr.Rstr.xeger

    def xeger(self, pattern):
        log["in_xeger"] += 1
        try:
            r = orig(self, pattern)
        finally:
            log["in_xeger"] -= 1
        log["draws"].append(r)
        return r

    _rstr.Rstr.xeger = xeger
    try:
        rnd = LoggingRandom(seed)
        f = BBAN.random if kind == "bban" else IBAN.random
        try:
            o = f(cc, random=rnd, use_registry=use_registry, **pins)
            res = ("OK " + (enc(o.country_code) + " " + enc(str(o)) if kind == "bban" else enc(str(o))), o)
        except Exception as e:  # noqa: BLE001
            res = (canon_exc(e), None)
    finally:
        _rstr.Rstr.xeger = orig
    return res, log


def _pins(s):
    out = {}
    if s:
        for kv in s.split(";"):
            k, v = kv.split("=")
            out[dec(k)] = dec(v)
    return out


def f_random(a):
    import json as _json
    kind, cc, use_registry, pins, seed = a[0], dec(a[1]), b(a[2]), _pins(a[3]), int(a[4])
    (res, _o), log = _random_run(kind, cc, use_registry, pins, seed)
    ch = list(log["choices"])
    ci = ch.pop(0)[0] if (not cc and ch) else 0
    bi = ch.pop(0)[0] if ch else 0
    return res + " ## " + _json.dumps({"ci": ci, "bi": bi, "draws": [enc(d) for d in log["draws"]]})


def f_random_plain(a):
    """a seeded draw with nothing instrumented"""
    import random as _random
    kind, cc, use_registry, pins, seed = a[0], dec(a[1]), b(a[2]), _pins(a[3] if a[3] != "-" else ""), int(a[4])
    f = BBAN.random if kind == "bban" else IBAN.random
    return guard(lambda: enc(str(f(cc, random=_random.Random(seed), use_registry=use_registry, **pins))))


def f_spec_random(a):
    """C13 on the implementation: valid / conforming result of the requested country carrying every pinned component,
    or the documented overflow error; identical on a second equally seeded call; listed bank when applicable."""
    kind, cc, use_registry, pins, seed = a[0], dec(a[1]), b(a[2]), _pins(a[3]), int(a[4])
    (res, o), log = _random_run(kind, cc, use_registry, pins, seed)
    (res2, _), _ = _random_run(kind, cc, use_registry, pins, seed)
    if res != res2:
        return "NOT-REPRODUCIBLE"
    if o is None:
        return "OK" if res == "ERR GenerateRandomOverflowError" or (res == "ERR InvalidCountryCode" and cc not in FACTS["iban_rows"]) \
            else "RAISED " + res
    ccode = o.country_code
    if cc and ccode != cc:
        return "WRONG-COUNTRY " + ccode
    row = FACTS["iban_rows"].get(ccode)
    bban = str(o) if kind == "bban" else str(o)[4:]
    full = ccode + "00" + bban if kind == "bban" else str(o)
    if kind == "iban":
        if not _iso_valid(str(o)):
            return "INVALID " + str(o)
    else:
        kinds = "".join(k * int(n) for n, k in re.findall(r"(\d+)!([nac])", row["bban_spec"]))
        cls = {"n": "0123456789", "a": "ABCDEFGHIJKLMNOPQRSTUVWXYZ"}
        cls["c"] = cls["n"] + cls["a"]
        if len(kinds) != len(bban) or any(ch not in cls[k] for k, ch in zip(kinds, bban)):
            return "NOT-CONFORMING " + bban
    pos = row.get("positions") or {}
    if pins and not pos:
        return "PIN-IGNORED-NO-POSITIONS"
    for k, v in pins.items():
        s, e_ = pos.get(k, [0, 0])
        if bban[s:e_] != v:
            return f"PIN-NOT-HONOURED {k}: {bban[s:e_]!r} != {v!r}"
    if use_registry and "bank_code" not in pins and "branch_code" not in pins:
        entries = [en for en in registry.get("bank") if en["country_code"] == ccode]
        if entries and all(en["bank_code"] for en in entries):
            holder = o if kind == "bban" else o.bban
            if holder.bank is None:
                return "NOT-A-LISTED-BANK " + str(o)
    return "OK"


# ---- C08 / C09: property oracles written against the translated table (facts), not against schwifty
def _clean(v):
    return re.sub(r"\s+", "", v).upper()


def _num(s):
    return int("".join(str(int(c, 36)) for c in s))


def _iso_valid(iban):
    row = FACTS["iban_rows"].get(iban[:2])
    if row is None or len(iban) != row["iban_length"] or not iban[2:4].isdigit() or not iban.isascii():
        return False
    kinds = "".join(k * int(n) for n, k in re.findall(r"(\d+)!([nac])", row["bban_spec"]))
    b = iban[4:]
    cls = {"n": "0123456789", "a": "ABCDEFGHIJKLMNOPQRSTUVWXYZ"}
    cls["c"] = cls["n"] + cls["a"]
    if len(kinds) != len(b) or any(ch not in cls[k] for k, ch in zip(kinds, b)):
        return False
    return _num(b + iban[:4]) % 97 == 1 and 2 <= int(iban[2:4]) <= 98


def f_spec_generate(a):
    """OK when IBAN.generate behaves as C08 demands on this input, else what is wrong."""
    cc, bank, account, branch = dec(a[0]), dec(a[1]), dec(a[2]), dec(a[3])
    row = FACTS["iban_rows"].get(cc)
    pos = (row or {}).get("positions") or {}
    width = {k: pos.get(k, [0, 0])[1] - pos.get(k, [0, 0])[0] for k in ("bank_code", "branch_code", "account_code")}
    given = {"bank_code": _clean(bank), "branch_code": _clean(branch), "account_code": _clean(account)}
    try:
        iban = str(IBAN.generate(cc, bank, account, branch))
    except exceptions.SchwiftyException as e:
        if row is None or not pos:
            return "OK"
        # an over-long component must raise its own class (when several things are wrong, any of their classes)
        names = {"bank_code": "InvalidBankCode", "branch_code": "InvalidBranchCode", "account_code": "InvalidAccountCode"}
        combined = width["bank_code"] + width["branch_code"]
        is_combined = width["branch_code"] > 0 and len(given["bank_code"]) == combined
        over = [k for k in ("bank_code", "branch_code", "account_code")
                if len(given[k]) > width[k] and not (k == "bank_code" and is_combined)]
        ok_classes = {names[k] for k in over}
        if is_combined and branch:
            ok_classes.add("InvalidBranchCode")
        kinds = "".join(kk * int(n) for n, kk in re.findall(r"(\d+)!?([nace])", row["bban_spec"]))
        cls = {"n": "0123456789", "a": "ABCDEFGHIJKLMNOPQRSTUVWXYZ", "e": " "}
        cls["c"] = cls["n"] + cls["a"]
        for k in ("bank_code", "branch_code", "account_code"):
            s0 = pos.get(k, [0, 0])[0]
            v = given[k].zfill(width[k])
            if any(s0 + i < len(kinds) and ch not in cls[kinds[s0 + i]] for i, ch in enumerate(v[:max(width[k], 0)])) \
                    or (k == "bank_code" and is_combined):
                ok_classes.add(names[k])
                if k == "bank_code" and is_combined:
                    ok_classes.add("InvalidBranchCode")
        if over and type(e).__name__ not in ok_classes:
            return f"WRONG-CLASS raised {type(e).__name__} for over-long {over}"
        return "OK"
    except Exception as e:  # noqa: BLE001
        return "CRASH " + type(e).__name__
    if row is None or not pos:
        return "RETURNED-WITHOUT-POSITIONS"
    if not _iso_valid(iban):
        return "INVALID-IBAN " + iban
    b = iban[4:]
    combined = width["bank_code"] + width["branch_code"]
    exp = dict(given)
    if width["branch_code"] > 0 and len(given["bank_code"]) == combined and combined > width["bank_code"]:
        exp["bank_code"], split_branch = given["bank_code"][:width["bank_code"]], given["bank_code"][width["bank_code"]:]
        if given["branch_code"] and given["branch_code"].zfill(width["branch_code"]) != split_branch:
            return "DROPPED branch_code (combined bank code overrides it)"
        exp["branch_code"] = split_branch
    for k in ("bank_code", "branch_code", "account_code"):
        v = exp[k]
        if not v:
            continue
        s, e_ = pos.get(k, [0, 0])
        if e_ - s == 0:
            return f"DROPPED {k} (country has no such field)"
        if len(v) > e_ - s:
            return f"TRUNCATED {k}"
        if b[s:e_] != v.zfill(e_ - s):
            return f"ALTERED {k}: {b[s:e_]!r} != {v.zfill(e_ - s)!r}"
    return "OK"


def f_spec_generate_national(a):
    """C09: what generate builds also passes national validation."""
    try:
        iban = IBAN.generate(dec(a[0]), dec(a[1]), dec(a[2]), dec(a[3]))
    except exceptions.SchwiftyException:
        return "OK"
    except Exception as e:  # noqa: BLE001
        return "CRASH " + type(e).__name__
    try:
        iban.validate(validate_bban=True)
        return "OK"
    except exceptions.SchwiftyException as e:
        return "GENERATED-BUT-NATIONALLY-INVALID " + str(iban) + " " + type(e).__name__


def f_spec_components_national(a):
    """C09 with the check-digit component supplied as well: whatever from_components builds - keeping, replacing or
    refusing the supplied digits - passes the national validation"""
    cc, bk, ac, br, nat = [dec(v) for v in a[:5]]
    try:
        bb = BBAN.from_components(cc, bank_code=bk, account_code=ac, branch_code=br, national_checksum_digits=nat)
    except exceptions.SchwiftyException:
        return "OK"
    except Exception as e:  # noqa: BLE001
        return "CRASH " + type(e).__name__
    try:
        bb.validate_national_checksum()
        return "OK"
    except exceptions.SchwiftyException as e:
        return "BUILT-BUT-NATIONALLY-INVALID " + str(bb) + " " + type(e).__name__


def f_spec_lookup_empty_code(a):
    """an entry without a bank code cannot be looked up by bank code: the empty code names no bank (C17: a bank code is
    empty - absent - or fits the field), so both lookups refuse it with the library's own error"""
    cc = dec(a[0])
    out = []
    for name, f in (("from_bank_code", lambda: str(BIC.from_bank_code(cc, ""))),
                    ("candidates_from_bank_code", lambda: [str(x) for x in BIC.candidates_from_bank_code(cc, "")])):
        try:
            r = f()
            out.append(f"{name} FOUND {r!r}"[:120])
        except exceptions.InvalidBankCode:
            pass
        except Exception as e:  # noqa: BLE001
            out.append(f"{name} RAISED {type(e).__name__}")
    return "OK" if not out else "; ".join(out)


def f_spec_unlisted_pair(a):
    """a (country, bank code) pair that no bundled entry carries is refused by both lookups with the library's own error -
    also when it differs from a listed code only by leading zeros"""
    cc, code = dec(a[0]), dec(a[1])
    out = []
    for name, f in (("from_bank_code", lambda: str(BIC.from_bank_code(cc, code))),
                    ("candidates_from_bank_code", lambda: [str(x) for x in BIC.candidates_from_bank_code(cc, code)])):
        try:
            r = f()
            out.append(f"{name} FOUND {r!r}"[:120])
        except exceptions.InvalidBankCode:
            pass
        except Exception as e:  # noqa: BLE001
            out.append(f"{name} RAISED {type(e).__name__}")
    return "OK" if not out else "; ".join(out)


def f_touch_all(a):
    """read every public attribute of an (unvalidated) object - properties must be read-only in effect; result: their
    values, so that the call can be compared with itself in other circumstances"""
    kind, t = a[0], dec(a[1])
    o = _mk(kind, t)
    out = []
    import warnings
    with warnings.catch_warnings():
        warnings.simplefilter("ignore")
        for n in sorted(dir(type(o))):
            if n.startswith("_") or n in dir(str):
                continue
            attr = getattr(type(o), n, None)
            if not isinstance(attr, property):
                continue
            try:
                v = getattr(o, n)
                out.append(n + "=" + (repr(v) if isinstance(v, (str, int, bool, type(None), list)) else type(v).__name__ + ":" + str(getattr(v, "alpha_2", v))[:40]))
            except Exception as e:  # noqa: BLE001
                out.append(n + "!" + type(e).__name__)
    return enc(";".join(out))


def f_spec_rebuild(a):
    """C09: rebuilding the BBAN from the components read off a nationally valid IBAN reproduces it, apart from
    positions that belong to no component."""
    t = dec(a[0])
    try:
        o = IBAN(t, validate_bban=True)
    except exceptions.SchwiftyException:
        return "OK"
    row = FACTS["iban_rows"].get(o.country_code)
    pos = (row or {}).get("positions")
    if not pos:
        return "OK"
    comps = {k: getattr(o.bban, k) for k in FACTS["components"]}
    try:
        b2 = str(BBAN.from_components(o.country_code, **comps))
    except Exception as e:  # noqa: BLE001
        return "REBUILD-RAISED " + type(e).__name__
    b1 = str(o.bban)
    covered = set()
    for k, (s, e_) in pos.items():
        covered |= set(range(s, e_))
    diff = [i for i in range(len(b1)) if i in covered and (i >= len(b2) or b1[i] != b2[i])]
    if len(b1) != len(b2) or diff:
        return f"REBUILT-DIFFERS {b1} -> {b2} at {diff}"
    return "OK"


# property oracles: the implementation side of a spec comparison
def _verdict(make, make_unvalidated):
    """ACCEPT | <schwifty class> | CRASH <cls> | INCONSISTENT <what>  (constructor, validate(), is_valid)"""
    try:
        make()
        res = "ACCEPT"
    except Exception as e:  # noqa: BLE001
        res = canon_exc(e)
        res = res[4:] if res.startswith("ERR ") else res
    try:
        obj = make_unvalidated()
        iv = obj.is_valid
    except Exception as e:  # noqa: BLE001
        return "CRASH is_valid raised " + type(e).__name__
    if iv is not (res == "ACCEPT") and not res.startswith("CRASH"):
        return f"INCONSISTENT is_valid={iv} constructor={res}"
    return res


def f_spec_no_foreign_exception(a):
    """C05 on every IBAN entry point, with and without the national step: whatever escapes is a SchwiftyException, and
    is_valid never raises"""
    t = dec(a[0])
    ways = (("IBAN(t)", lambda: IBAN(t)), ("IBAN(t, validate_bban=True)", lambda: IBAN(t, validate_bban=True)),
            ("validate()", lambda: IBAN(t, allow_invalid=True).validate()),
            ("validate(validate_bban=True)", lambda: IBAN(t, allow_invalid=True).validate(validate_bban=True)),
            ("IBAN(t, allow_invalid=True, validate_bban=True)", lambda: IBAN(t, allow_invalid=True, validate_bban=True)))
    for name, f in ways:
        try:
            f()
        except exceptions.SchwiftyException:
            pass
        except Exception as e:  # noqa: BLE001
            return f"ESCAPED {type(e).__name__} from {name}"
    try:
        IBAN(t, allow_invalid=True).is_valid
    except Exception as e:  # noqa: BLE001
        return f"ESCAPED {type(e).__name__} from is_valid"
    return "OK"


def f_spec_iban_verdict(a):
    t = dec(a[0])
    return _verdict(lambda: IBAN(t), lambda: IBAN(t, allow_invalid=True))


def f_spec_bic_verdict(a):
    t = dec(a[0])
    strict = b(a[1])
    if strict:
        # is_valid has no strict mode: compare constructor and validate(strict) only
        try:
            BIC(t, enforce_swift_compliance=True)
            return "ACCEPT"
        except Exception as e:  # noqa: BLE001
            r = canon_exc(e)
            return r[4:] if r.startswith("ERR ") else r
    return _verdict(lambda: BIC(t), lambda: BIC(t, allow_invalid=True))



def f_spec_iban_accept(a):
    try:
        IBAN(dec(a[0]))
        return "1"
    except Exception:  # noqa: BLE001   (a foreign exception is "not accepted" here; C05 reports it)
        return "0"


def f_spec_from_bban(a):
    return guard(lambda: enc(str(IBAN.from_bban(dec(a[0]), dec(a[1])))))


FUNCS = {k[2:]: v for k, v in globals().items() if k.startswith("f_")}


def main():
    import json
    fp = os.environ.get("VERIF_FACTS")
    if fp and os.path.exists(fp):
        FACTS.update(json.load(open(fp)))
    out = sys.stdout
    for line in sys.stdin:
        parts = line.rstrip("\n").split("\t")
        fn, args = parts[0], parts[1:]
        f = FUNCS.get(fn)
        if f is None:
            out.write("UNKNOWN-FUNCTION " + fn + "\n")
            continue
        try:
            r = f(args)
        except Exception as e:  # noqa: BLE001
            r = "RUNNER-ERROR " + type(e).__name__ + " " + str(e)[:100].replace("\n", " ")
        out.write(r + "\n")
    out.flush()


if __name__ == "__main__":
    main()
