"""Per-property claims that go into MANIFEST.json (tools/gen_manifest.py)."""

COMMON_NOTE = (
    "Trusted: Coq 8.16.1 kernel + vm_compute; tools/translate.py (regenerates coq/theories/Gen from /repo on every run); "
    "the hand-written procedural model is tied to the code by differential execution of the extracted model "
    "(ExtrOcamlBasic only) against the implementation, which is testing; CPython's str.upper/\\s/\\d tables are "
    "re-read from the running interpreter. No axioms (Print Assumptions: closed under the global context). "
    "Streams ask each question through every public entry point and in variant forms (after other uses of the same text or "
    "of a twin of another country, through an instance, with components omitted, padded with white space), and each "
    "property's stream is replayed in other circumstances (opposite order with a digest of all registries around it, "
    "python -OO, first use of a fresh process from 8 threads, pairs under line-level interleavings asked again alone "
    "afterwards); the bank list of the model is read from the JSON files by the translator itself (the library's loader "
    "is compared with it)."
)

CLAIMS = {
    "C01": {
        "text": "Theorem C01_accept: for every text, the model of IBAN(text) succeeds iff the extracted ISO 13616 predicate "
                "holds of clean(text) over the table regenerated from the tree; C01_alphabet: accepted => 0-9A-Z only, length <= 34. "
                "Generic proof + data obligations (cfg_ok, row_ok per country, env_wf) re-discharged by vm_compute on every run; "
                "model tied to the code by translator (regex sites/patterns/flags, step list, table) and correspondence streams. "
                "'After removing whitespace' is pinned independently of the code: C01_ws_obl demands that the regenerated set of "
                "code points the cleaning removes equals the hand-written white-space list of Spec/Whitespace.v (both inclusions), "
                "C01_accept_ws restates acceptance against strip_whitespace, the specification side of the streams cleans with that "
                "list, and valid texts get every differing code point and common separators / invisible characters inserted.",
        "note": COMMON_NOTE,
        "technique": "Coq proof (regex-derivative matcher correctness, mod-97 arithmetic) + generated data obligations + extracted-model correspondence",
        "design_ref": "DESIGN.md §4 C01",
    },
    "C02": {
        "text": "Theorems C02_generate / C02_unique / C02_range: for every country row and every structure-conforming BBAN of any "
                "length, from_bban yields the ISO check digits and a valid IBAN; among all 100 digit pairs exactly the computed "
                "one is accepted and it lies in 02..98 (lia over Euclidean division; no bound on the BBAN).",
        "note": COMMON_NOTE,
        "technique": "Coq proof (mod-97 uniqueness by lia) + generated data obligations + extracted-model correspondence",
        "design_ref": "DESIGN.md §4 C02",
    },
    "C03": {
        "text": "Theorems C03_substitution / C03_transposition: for every valid IBAN (any country, any length), every same-kind "
                "substitution at position >= 2 and every adjacent same-kind transposition (country code, check digits, the "
                "check-digit/BBAN seam, inside the BBAN) yields an ISO-invalid text, hence (C03_constructor, via C01) one the "
                "constructor rejects. Number theory: 97 does not divide d*10^k, 9d*10^k, 99d*10^k (|d|<36) nor d*(10^K-1) for "
                "K<=95 (the latter a vm_compute sweep lifted by forallb_forall; K<=67 follows from the proved length bound 34).",
        "note": COMMON_NOTE,
        "technique": "Coq proof (positional expansion of the rearranged number, coprimality with 97 by induction, lia) + data obligations + correspondence",
        "design_ref": "DESIGN.md §4 C03",
    },
    "C04": {
        "text": "Theorem C04_accept: for every text and both compliance modes, the model of BIC(text) succeeds iff clean(text) "
                "has the ISO 9362 structure 4!c2!a2!c[3!c] (4!a.. when strict) and its 5th-6th characters are in the ISO 3166 "
                "list regenerated from pycountry. Generic proof over any configuration passing bic_cfg_ok (patterns as counted "
                "class runs with an optional tail, full-match site, lengths {8,11}, all three steps present), obligation "
                "re-discharged on the translated bic.py on every run. Found and fixed: prefix match (df13fbc). Whitespace is pinned "
                "as for C01: C04_ws_obl (the cleaning removes exactly Spec/Whitespace.v), C04_accept_ws, insertion streams.",
        "note": COMMON_NOTE + " pycountry's case-insensitive get is modelled as exact membership in its upper-case code list (coincide on [A-Z]{2}; exercised by the stream).",
        "technique": "Coq proof (regex language of runs+optional tail) + generated data obligations + extracted-model correspondence",
        "design_ref": "DESIGN.md §4 C04",
    },
    "C05": {
        "text": "Theorems C05_iban_total / C05_bic_total (no text makes the validating constructors raise outside the library "
                "family: the only partial operation, numerify, is guarded because the character and format steps precede the "
                "checksum step and admit only 0-9A-Z), C05_*_is_valid (is_valid never raises and is true iff validated "
                "construction succeeds), C05_iban_named / C05_bic_named (a raised class names a defect present per the independent "
                "Spec/Defects.v). Obligations on the generated step list (steps_guarded), regex classes (exact ASCII classes) "
                "re-discharged every run. With national validation requested: C05_national_total (BBAN.validate_national_checksum "
                "raises no foreign exception on any structurally conforming BBAN of any country: the classes at the positions "
                "each national algorithm reads are what its arithmetic needs - Proofs/ComputeTotal.v, NationalTotal.v - and no "
                "German method does on a ten-digit account number - C07_total) and C05_iban_total_national (hence no text makes "
                "IBAN(text, validate_bban=True) raise outside the family; obligation: the national step comes after the "
                "character and format steps), C05_iban_named_national (an error raised with validate_bban=True names a defect of "
                "the text as before or - every ISO 13616 check having passed - is the national check's own error, whose meaning "
                "is C06/C07). Found and fixed: Unicode \\d (d369466). Streams include lenient-then-strict histories on the same text and the same object (memoised verdicts that ignore validate_bban).",
        "note": COMMON_NOTE,
        "technique": "Coq proof (step-guard invariant over the generated step list, exact regex classes) + data obligations + spec-oracle and correspondence streams",
        "design_ref": "DESIGN.md §4 C05",
    },
    "C10": {
        "text": "Theorems C10_whitespace, C10_case (texts differing only by inserted whitespace of any \\s kind or by ASCII letter "
                "case have the same compact form), C10_outcome_* (every constructor outcome and object is a function of the "
                "compact form), C10_compact (no whitespace, no ASCII lower case, fixpoint of upper and clean), "
                "C10_iban_formatted (groups of four joined by single spaces; parses back, for every IBAN object), "
                "C10_bic_formatted (parts joined by single spaces; parses back, for every BIC of length 8 or 11 — for other lengths of "
                "unvalidated BICs the round trip is false, e.g. 'GENOD', so the clause is stated for accepted lengths). Environment laws "
                "(env_wf: upper() outputs are non-space upper fixpoints) are discharged by vm_compute on the interpreter's tables. C10_generate_arguments: IBAN.generate reads its component arguments through clean() only (apart from the raw emptiness of the branch code), so white space and case in them do not matter; stream spec_variant_same_api asks generate and from_components with variant arguments (the bank-code lookups take their key as it is).",
        "note": COMMON_NOTE,
        "technique": "Coq proof (list lemmas over filter/flat_map, finite environment check by vm_compute) + correspondence",
        "design_ref": "DESIGN.md §4 C10",
    },
    "C11": {
        "text": "Theorems C11_iban_parts (cc ++ dd ++ bban = compact; from_bban(cc, bban) = the same IBAN), C11_component (each component "
                "is the substring at the published range, empty if none), C11_disjoint (ranges in bounds, pairwise disjoint: data "
                "obligation over all rows), C11_bic_parts; accessor tables (IBAN.p -> bban.p -> Component p, slice constants) are "
                "regenerated from the one-line property bodies and checked by obligation C11_acc_obl.",
        "note": COMMON_NOTE,
        "technique": "Coq proof (slice lemmas, C02 uniqueness) + generated accessor/position obligations + correspondence",
        "design_ref": "DESIGN.md §4 C11",
    },
    "C12": {
        "text": "Generic theorems for ANY registry contents: C12_index / C12_index_bic (the dict-of-lists index built by the model of "
                "registry.build_index returns for every key exactly the entries carrying it, in file order; keys with empty/null "
                "components are skipped), C12_choice (selection rule: a candidate; without branch code if any, else branch XXX, "
                "else the first; a lone candidate is chosen; none -> InvalidBankCode), C12_invertible (every candidate lists the "
                "bank code among its domestic bank codes and exists). On the bundled data: C12_candidates (candidates = non-empty "
                "listed BICs, primaries first; unlisted -> InvalidBankCode) under the obligation that every registry BIC passes "
                "the BIC model (vm_compute over all entries). IBAN level, for any registry: C12_iban_bank (BBAN.bank is the first "
                "entry the index holds under (country, bank-identifying field), None when there is none), C12_iban_bic (BBAN.bic "
                "is BIC.from_bank_code on that field, None on a library error), C12_iban_unlisted; bank names stay in Python and "
                "are compared through entry ids by correspondence over the registry keys.",
        "note": COMMON_NOTE + " Bank names stay in Python and are compared through entry ids.",
        "technique": "Coq proof (fold_left refinement of the index to a filter spec, list lemmas) + data obligation over all bank entries + correspondence",
        "design_ref": "DESIGN.md §4 C12",
    },
    "C17": {
        "text": "C17_countries and C17_banks: the decidable predicates of Spec/RegistrySpec.v (structure string parses to exactly "
                "bban_length positions; iban_length = +4 <= 34; two-capital country codes, no duplicates; positions in bounds and "
                "pairwise disjoint; bank entry country in the table, BIC null/empty/ISO-9362-valid, bank code empty or conforming - "
                "length and classes - to the country's bank-identifying field) evaluated by vm_compute over every row and every "
                "entry the tree bundles now (exhaustive over the finite data, redone on every run). C17_every_bank: for every entry "
                "with a bank code there is a structurally conforming BBAN carrying it in the bank-identifying field (a witness "
                "built and checked for each of the entries by vm_compute: C17_occurs_obl), IBAN.from_bban of it is a valid IBAN, "
                "and BBAN.bank of it is a listed entry with that code (index refinement, Proofs/BankFacts.v). The same is "
                "exercised through the real API for every entry (thorough) / 800 entries (quick). "
                "C17_algorithm_fields: for every country with a registered default algorithm the fields it reads have the classes - and the non-emptiness - its arithmetic needs, and the check-digit field is absent or of the computed width (total_row_ok / shape_row_ok on every row); the stream runs generate for each such country.",
        "note": COMMON_NOTE,
        "technique": "Coq: exhaustive evaluation of decidable well-formedness predicates and of a per-entry witness over the regenerated data (forallb = true by vm_compute) + generic lookup lemma + API stream",
        "design_ref": "DESIGN.md §4 C17",
    },
    "C18": {
        "text": "Generic theorems over arbitrary JSON: C18_merge_get (one-level law of merge_dicts: both dicts -> recursive, else the "
                "later value, one-sided keys kept), C18_overlay_only_named, C18_order_independent (every path lookup is independent "
                "of the hash-seed-dependent set iteration order), C18_fold / C18_concat (registry.get = left fold of merge / "
                "concatenation in the given file order), C18_parse_v2 (one entry per listed value, other keys kept, primary "
                "defaulted). C18_effective_table: the table all other theorems use equals, field by field, the model of "
                "registry.get applied to the tree's raw JSON files (vm_compute). The bank list and the real registry.get on "
                "scratch directories are tied by correspondence (random documents, and 2-5 files that are edits of one base document "
                "so that one key goes dict -> scalar -> dict across files).",
        "note": COMMON_NOTE + " File-name sorting and v2 detection by stem are done by the harness when feeding the model (the model takes files in order with a v2 flag).",
        "technique": "Coq proof over a JSON inductive with an explicit set-order oracle + data obligation + correspondence on scratch registries",
        "design_ref": "DESIGN.md §4 C18",
    },
    "C06": {
        "text": "Proved: C06_only_rejects (for any national step, acceptance with validate_bban implies acceptance without), "
                "C06_returns_true (the BBAN-level check never returns false: true or raises), C06_unaffected (no registered "
                "algorithm => true); the algorithm registry (keys, class, accepts) is regenerated from the live "
                "checksum.algorithms. The 22 published rules are Spec/NationalPublished.v (congruence forms, weight tables); the "
                "implementation is compared against that extracted spec on spec-selected accepting inputs and perturbations for "
                "every country, and against the line-by-line model. Per-country equivalence theorems 'the model's BBAN-level check "
                "accepts a structurally conforming BBAN iff the published rule holds, and otherwise raises' are proved for "
                "all 22 countries with a registered default algorithm: BA ME MK PT RS SI TL (C06_iso97), MR TN (C06_rib), BE (C06_be), "
                "PL EE ES NO CZ SK IS (C06_pl .. C06_is), FI (C06_fi, Luhn), IT SM (C06_it, CIN tables), FR MC (C06_fr, RIB key with "
                "letter substitution; 10^18, 10^13, 10^2 = 89, 15, 3 mod 97), each under data obligations on the regenerated spec "
                "table (component positions, character classes, length, registered class). At IBAN level: C06_iban_accept "
                "(IBAN(text, validate_bban=True) succeeds iff the cleaned text is ISO 13616-valid and the BBAN-level check returns "
                "true) and C06_iban_level (hence, for a country whose BBAN-level check is 'rule ? true : raise', iff ISO-valid and "
                "the published rule holds; instantiated for PL and FR). "
                "Found and fixed: returns False on success (6f07eec), BA registered as BT (6931682). Streams include lenient-then-strict histories on the same text and the same object (memoised verdicts that ignore validate_bban).",
        "note": COMMON_NOTE + " Spec/NationalPublished.v is a hand transcription of the published rules (no network), cross-validated against the implementation on all 22 countries; Norway's '00' account rule is transcribed from the code.",
        "technique": "Coq proof (structural theorems; model = published rule for all 22 registered countries) + extracted published-rule spec as oracle + correspondence",
        "design_ref": "DESIGN.md §4 C06",
    },
    "C07": {
        "text": "The model of germany.py is the WeightedModulus template plus the hook bodies, with the class table (resolved "
                "MRO: which class defines which hook, effective positions/weights/modulus/minuend/reverse) regenerated from the "
                "live classes on every run and every method body fingerprinted; Spec/Bundesbank.v states the 39 methods in the "
                "Bundesbank's vocabulary and is validated by Examples on the 60 valid / 10 invalid Bundesbank test numbers the "
                "suite quotes. Proved, for every ten-digit account number: the model's verdict under a method's registered class "
                "equals the Bundesbank description's verdict (method_statement), for 38 of the 39 methods (C07_methods; C07_codes_obl: the registry knows no other code) - 00 01 02 03 04 05 06 07 "
                "10 11 13 14 15 18 19 20 22 28 32 33 34 38 60 (C07_std: one theorem about the WeightedModulus template, "
                "Proofs/GermanFacts.v, plus the obligation that each regenerated class row carries the Bundesbank parameters and "
                "overrides no hook), 08 09 63 99 (wrappers), 88 26 25 16 23 91 17 21 61 24 68 (one extra rule or digit selection each); "
                "method 76: C07_m76_partial (equivalence whenever the weighted sum does not leave remainder 10) and C07_m76_refuted "
                "(for remainder 10 it is false of the code as it stands: witness 0000005000 - the open known finding). "
                "C07_iban (the property as stated: a cleaned German IBAN text whose bank is listed with a proved method validates "
                "with validate_bban=True iff it is ISO 13616-valid and the Bundesbank method accepts the account number). "
                "C07_national / C07_unlisted / C07_unimplemented lift the method theorems through "
                "BBAN.validate_national_checksum for any bank index: a conforming German BBAN whose bank names a proven method is "
                "accepted iff the Bundesbank method accepts its account number and otherwise raises InvalidBBANChecksum; unlisted "
                "banks and unimplemented methods are accepted. Also "
                "C07_only_account (the verdict is a function of method and account only). The implementation "
                "is compared with the extracted Bundesbank spec on random, boundary (literal-harvested) and check-digit-swept "
                "accounts for every method, and with the model; DE IBANs through the public API for every distinct checksum_algo "
                "of the registry and unlisted banks. "
                "Found and fixed: methods 08, 11, 16, 23, 99 (five commits); open known finding: method 76 remainder 10.",
        "note": COMMON_NOTE + " Spec/Bundesbank.v is a hand transcription of the Bundesbank method descriptions (no network); retry clauses for omitted sub-account numbers (13, 63, 76) are deliberately excluded.",
        "technique": "Coq proof (template theorem + per-method obligations on the generated class table, 38/39 methods; 76 proved up to, and refuted at, remainder 10) + extracted Bundesbank spec as oracle + correspondence",
        "design_ref": "DESIGN.md §4 C07",
    },
    "C08": {
        "text": "Proved for every country, every bank/branch/account string: C08_valid (a generated IBAN is ISO-valid), "
                "C08_placed_all (each supplied component, cleaned and zero-padded to its field width, is the BBAN substring at the "
                "published position and has exactly that width), C08_placed_combined_all (a bank code of combined width is split across "
                "both fields; no separate branch code then), C08_kept (padding only prepends), C08_long_bank/_branch/_account (the "
                "over-long component's own error class), C08_unknown_country, C08_no_positions, C08_library_errors_only (generate never "
                "raises an exception from outside the library's family: the structure check leaves every component value of its "
                "positions' classes, and each national computation is total on such input - Proofs/ComputeTotal.v, GenerateTotal.v); "
                "by list surgery over the placement "
                "loop (Proofs/PlaceFacts.v) and the shape of what each check-digit algorithm returns (Proofs/ComputeShape.v), under "
                "data obligations on the regenerated table (layout, algorithm widths). The model follows the code line by line and is "
                "tied by correspondence on exact/short/long/combined/odd-character components for every country; the property is "
                "also checked on the implementation by a table-driven oracle. Found and fixed: silently dropped branch code "
                "(fa6d1f2), out-of-class characters escaping as ValueError/KeyError (4d4423d).",
        "note": COMMON_NOTE + " The C08 stream oracle (tools/impl_runner.py f_spec_generate) is Python written against Gen/facts.json; the theorems are about the Coq model.",
        "technique": "Coq proof (list surgery over the placement loop, algorithm output shapes) + data obligations + correspondence + table-driven oracle",
        "design_ref": "DESIGN.md §4 C08",
    },
    "C09": {
        "text": "Proved: C09_generated_valid (for every country whose default algorithm computes digits - C09_countries_obl: "
                "exactly the 19 the property names - every IBAN that IBAN.generate returns passes the model's "
                "BBAN.validate_national_checksum: the digits written into the field are what the algorithm computes from the "
                "placed components, and the default validate recomputes and compares), C09_rebuild (for every country with "
                "positions and every structurally conforming, nationally valid BBAN: BBAN.from_components on the components read "
                "off it succeeds, has the same length and agrees with it at every component's position; filler positions are "
                "unconstrained), via Proofs/PlaceFacts.v, RebuildFacts.v, ComputeShape.v under data obligations on the regenerated "
                "tables (layout, widths, accepted fields, no bank-specific algorithm outside DE), C09_random_valid (the same for every "
                "BBAN that BBAN.random returns, for all generator/rstr outputs that are clean text, by the fact that the retry loop "
                "returns only what from_components built). Streams: "
                "generate + validate(validate_bban=True) on component combinations of every width for the 19 countries incl. "
                "edge digits; decompose/rebuild on spec-selected nationally valid IBANs for every country; correspondence. Stream generated_published: the BBAN generate builds for each of the 19 named countries is judged by the extracted published-rule specification (not by the library's own validation, which passes vacuously where no algorithm is registered).",
        "note": COMMON_NOTE + " The random producer's theorem assumes what rstr returns is clean text once upper-cased (true of matches of the country patterns).",
        "technique": "Coq proof (placement loop, check-digit agreement, rebuild) + data obligations + correspondence + spec-selected inputs",
        "design_ref": "DESIGN.md §4 C09",
    },
    "C13": {
        "text": "The model of BBAN.random / IBAN.random takes what the caller's generator and rstr produced (country index, bank "
                "index, the xeger draw of each attempt) as explicit arguments and follows the overlay / truncation / retry loop. "
                "Proved for every value of those arguments: C13_valid (IBAN.random never returns an ISO-invalid IBAN), C13_country "
                "(the requested country), C13_errors (BBAN.random's only library errors are the documented overflow error or an "
                "unknown country), C13_library_errors_only (no foreign exception, for clean pins and draws), C13_pins / C13_iban_pins (with clean pins and draws, in a country with positions: the BBAN has "
                "the country's length, is clean text, and every pinned component of its field's width other than the computed "
                "check-digit field is read back unchanged) - the exact side conditions are the three open findings' complements. "
                "C13_listed_bank (a registry-based draw with bank and branch not pinned carries the chosen entry's code in the "
                "bank-identifying field, so the bank looked up from the result is a listed bank of that country - for the "
                "countries whose entries all carry a code of the field's width, all_fit, e.g. DE GB NL). "
                "C13_conforms (with clean non-empty pins and draws of the country's BBAN length, in a country with positions, what "
                "BBAN.random returns conforms to the country's BBAN structure at every position and has its length: placed values "
                "passed the structure check, the computed check digits are of the class their field names, untouched positions "
                "keep a '0' their class admits - per-row data obligation gen_conform_obl), C13_no_positions (without positions "
                "the upper-cased draw itself comes back). "
                "Not a theorem: reproducibility (the model is a function of the oracle outputs; the tie is that it is fed the "
                "very choices the implementation saw, via a Random subclass and a wrapped Rstr.xeger, and must return the same "
                "object) are decided by the streams: table-driven oracle (validity/conformity, country, pins, listed bank, second "
                "equally seeded call identical) and a subprocess sweep over PYTHONHASHSEED. Fixed: pinned branch overridden "
                "(b2d8752), out-of-class pins on other components (9a4a92a). Open findings: pinned computed digits replaced, "
                "over-long pin truncated, pin ignored without positions.",
        "note": COMMON_NOTE + " rstr and random.Random are oracles (their outputs are inputs of the model); the C13 stream oracle is Python written against Gen/facts.json. Partial: hash-seed independence is stream-checked, not proved.",
        "technique": "Coq proof over a model with explicit randomness oracle (validity, structure conformity, country, error class, pins, listed bank) + instrumented correspondence + table-driven property oracle + hash-seed subprocess sweep",
        "design_ref": "DESIGN.md §4 C13",
    },
    "C16": {
        "text": "Theorems C16_equality / C16_with_strings / C16_hash / C16_order (equality on compact forms is an equivalence that "
                "agrees with plain strings, equal objects hash alike for any hash function of the compact form, < is a strict total "
                "order and <= agrees with it) and C16_copies (shallow copy, pickle round trip and deepcopy return the same value) "
                "under the obligation C16_proto_obl on protocol facts regenerated from the tree: __new__ arity of each class equals "
                "what its __getnewargs__ supplies, the inherited __deepcopy__ does not re-validate, __eq__/__hash__/__lt__ bodies are "
                "the compact-form ones. copyreg/pickle internals are CPython's: the real copy/deepcopy/pickle (two protocols) run on "
                "every object kind, valid and unvalidated. Fixed: BBAN copy/pickle TypeError (04934b9), deepcopy re-validation (ac55b33).",
        "note": COMMON_NOTE + " The copy protocol itself (copyreg.__newobj__, pickle) is an oracle exercised by the stream.",
        "technique": "Coq proof (order/equivalence laws on code-point lists; protocol consistency) + generated protocol obligation + object stream",
        "design_ref": "DESIGN.md §4 C16",
    },
    "C14": {
        "text": "PARTIAL. Theorem C14_noninterference (any number of threads, any step programs over shared cells, any schedule: "
                "if no thread reads a cell some thread writes, every thread ends with its solo result; induction on the schedule) and "
                "its corollary for write-free programs; data obligations on the mutation table regenerated from the whole package "
                "(C14_no_shared_writes: no statement that can run after import stores into an object outliving the call - "
                "algorithm singletons, registries, module globals, parameters; C14_registry_loaded: every registry read at run time "
                "was loaded at import). On the implementation: deterministic exploration (sys.settrace) of every schedule in which "
                "one call runs atomically after k source lines of the other, all k, both orders, plus random fine-grained schedules, "
                "for pairs routed to the same shared objects. Not modelled: CPython bytecode-level atomicity, thread-safety of dicts, "
                "the re cache and pycountry's lazy load. Found and fixed: shared self.remainder (1c60465).",
        "note": COMMON_NOTE + " The link between 'empty mutation table' and 'calls are write-free programs' is the translator's static mutation scan (tools/translate.py gen_access), which is trusted.",
        "technique": "Coq proof (schedule induction, non-interference) + generated mutation-table obligations + deterministic schedule exploration on the real code",
        "design_ref": "DESIGN.md §4 C14",
    },
    "C15": {
        "text": "Theorem C15_history_independent (a call that writes every cell before reading it returns the same after any history) "
                "with data obligations on tables regenerated from the package: every post-import store targets a scratch attribute "
                "of an algorithm object (C15_only_scratch), each scratch attribute is written before it is read on every entry point "
                "of every algorithm class (C15_write_before_read, on flat load/store sequences of the inlined call trees), and no "
                "lazy registry load can happen at run time; memoising decorators / cache factories count as shared writes in the scan. "
                "On the implementation: a long shuffled history in one process vs the pure "
                "model, the same calls in two orders in two fresh processes, a digest of registries and earlier objects before/after, "
                "and twin calls (IBANs of different countries carrying the same BBAN string, in both orders).",
        "note": COMMON_NOTE + " Event sequences ignore control flow (source order of the inlined call tree), which over-approximates reads before writes.",
        "technique": "Coq proof (write-before-read independence) + generated access-table obligations + history streams",
        "design_ref": "DESIGN.md §4 C15",
    },
}
NOT_APPLICABLE = {}
