"""Per-property claims that go into MANIFEST.json (tools/gen_manifest.py)."""
CLAIMS = {}
NOT_APPLICABLE = {}
