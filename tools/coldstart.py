#!/venv/bin/python
"""First use of the library from several threads at once, in a fresh process (C14's concern, asked by every property's own
command for a few of its calls): job on stdin = {"lines": ["fn\\targ\\t...", ...], "threads": n}; the threads are released
together by a barrier and run lines[t::n]; prints the results as a JSON list in the order of the lines."""
import json
import os
import sys
import threading

sys.path.insert(0, os.environ.get("VERIF_REPO", "/repo"))
sys.path.append(os.path.dirname(os.path.abspath(__file__)))


def main():
    job = json.load(sys.stdin)
    import impl_runner
    fp = os.environ.get("VERIF_FACTS")
    if fp and os.path.exists(fp):
        impl_runner.FACTS.update(json.load(open(fp)))
    lines, n = job["lines"], job["threads"]
    out = [None] * len(lines)
    bar = threading.Barrier(n)
    sys.setswitchinterval(1e-5)

    def work(t):
        bar.wait()
        for i in range(t, len(lines), n):
            parts = lines[i].split("\t")
            f = impl_runner.FUNCS.get(parts[0])
            try:
                out[i] = f(parts[1:])
            except Exception as e:  # noqa: BLE001
                out[i] = "RUNNER-ERROR " + type(e).__name__ + " " + str(e)[:100].replace("\n", " ")
    ts = [threading.Thread(target=work, args=(t,)) for t in range(n)]
    for t in ts:
        t.start()
    for t in ts:
        t.join()
    print(json.dumps(out))


if __name__ == "__main__":
    main()
