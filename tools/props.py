"""Per-property stream definitions (case generators) and known-finding matching.

A Case is run through the implementation (tools/impl_runner.py) and through the extracted Coq
function of the same name (coq/driver/main.ml); the two canonical results must be equal.
 kind 'corr': the Coq side is the *model of the code*   (a difference breaks the correspondence)
 kind 'prop': the Coq side is the *specification*        (a difference is a failing input)
"""
from __future__ import annotations

import json
import os
import re
import subprocess
from dataclasses import dataclass, field

HERE = os.path.dirname(os.path.abspath(__file__))


def enc(s: str) -> str:
    return "-" if s == "" else ",".join(str(ord(c)) for c in s)


def dec(s: str) -> str:
    return "" if s == "-" else "".join(chr(int(x)) for x in s.split(","))


def show_arg(x: str):
    """Readable form of an encoded argument for evidence/replay files."""
    if x in ("0", "1") or x == "":
        return x
    if re.fullmatch(r"-|\d+(,\d+)*", x):
        try:
            return dec(x)
        except Exception:  # noqa: BLE001
            return x
    return x


@dataclass
class Case:
    kind: str
    fn: str
    args: list
    tag: str
    nontrivial: bool = True
    cmp: str = "eq"      # "eq": results equal; "member": implementation result is one of the '|'-separated spec results
    margs: list = None   # arguments for the Coq side when they differ from the implementation's
    post: object = None  # callable(impl_result) -> (impl_result_to_compare, margs): second phase fed by the implementation


NAMES = {}
# calls whose result legitimately depends on their place in the stream (snapshots taken around a history)
ORDER_SENSITIVE = {"history_probe"}
# implementation-side variants of a call (asked after other uses of the same text / of a twin, through an instance instead
# of a str, with empty components omitted, with a BBAN object of another country): the model answers the plain question
# harness functions that patch module attributes while they run (a scratch registry directory, a logging xeger): they cannot
# be run concurrently with each other
NOT_CONCURRENT = {"registry_get", "random", "spec_random", "history_probe"}
VARIANT_SUFFIXES = ("_after", "_inst", "_partial", "_bbanobj")


def agree(case, impl: str, model: str) -> bool:
    if case.cmp == "member":
        return impl in model.split("|")
    if case.cmp.startswith("names:"):
        # model: ids of the registry entries; implementation: sorted set of their (short) names
        col = 0 if case.cmp == "names:name" else 1
        ids = [int(x) for x in model.split(",")] if model else []
        expect = sorted({NAMES["bank_names"][i][col] for i in ids})
        return json.loads(impl) == expect
    return impl == model


@dataclass
class Ctx:
    facts: dict
    rng: object
    tier: str
    seed: int
    cache: dict = field(default_factory=dict)
    spec_eval: object = None     # callable: list of driver lines -> list of results (extracted Coq spec/model)

    @property
    def quick(self):
        return self.tier == "quick"


# ------------------------------------------------------------------------------------------------
# generator helpers

DIGITS = "0123456789"
UPPER = "ABCDEFGHIJKLMNOPQRSTUVWXYZ"
KINDS = {"n": DIGITS, "a": UPPER, "c": DIGITS + UPPER, "e": " "}

CONFUSABLES = "АВЕКМНОРСТХаеорсухΑΒΕΖΗΙΚΜΝΟΡΤΥΧＡＢＺ０１９ıſßǆǅǈŉΐᾳﬁﬀKſ"
ASCII_PRINTABLE = "".join(chr(c) for c in range(32, 127))


def wide_alphabet(ctx) -> str:
    if "wide" not in ctx.cache:
        ws = "".join(chr(c) for c in ctx.facts["ws"])
        nd = "٠١٩۰۹߀०९০๐０９𝟎𝟗"
        ctx.cache["wide"] = ASCII_PRINTABLE + ws + nd + CONFUSABLES + "\x00\x7f​﻿\U0001F600"
    return ctx.cache["wide"]


# white space in the sense of the properties (the hand-written list of coq/theories/Spec/Whitespace.v)
REF_WS = [9, 10, 11, 12, 13, 28, 29, 30, 31, 32, 133, 160, 5760] + list(range(8192, 8203)) + [8232, 8233, 8239, 8287, 12288]
# characters people paste between groups and invisible format characters: none of them is white space
SEPARATORS = "-._/:,;|'" + "\u00ad\u200b\u200c\u200d\u200e\u200f\u2060\ufeff\u180e"


def insertion_probes(ctx) -> str:
    """Characters to insert into valid texts: every code point on which the library's cleaning and the reference
    white space disagree (empty on an unchanged tree; this directs the search when the whitespace obligation breaks),
    the reference white space itself, and common separators / invisible characters."""
    delta = sorted(set(ctx.facts["ws"]) ^ set(REF_WS))
    return "".join(chr(c) for c in delta[:64]) + "".join(chr(c) for c in REF_WS) + SEPARATORS


def insertions(ctx, v: str, chars: str):
    """v with one of the characters inserted: at the start, at the end, between groups, and at a random place"""
    rng = ctx.rng
    for ch in chars:
        k = rng.choice([0, len(v), 4 if len(v) > 4 else 0, rng.randrange(len(v) + 1)])
        yield v[:k] + ch + v[k:]
    if chars:
        ch = rng.choice(chars)
        yield ch.join(v[i:i + 4] for i in range(0, len(v), 4))


def padded(ctx, v: str):
    """raw texts that are long only because of white space (a fixed-width record field, blanks or line ends between all
    characters, a long run in front): they mean the same as v"""
    rng = ctx.rng
    yield v.ljust(80)
    yield " " * 50 + v
    yield "   ".join(v)
    yield "\r\n".join(v)
    yield "\t".join(v[i:i + 4] for i in range(0, len(v), 4)) + "\n" * rng.randrange(30, 60)
    yield v.rjust(rng.randrange(43, 130))


def parse_structure(spec: str):
    out = []
    for n, bang, k in re.findall(r"(\d+)(!)?([nace])", spec):
        out.append((int(n), bool(bang), k))
    return out


def random_bban(ctx, cc: str) -> str:
    row = ctx.facts["iban_rows"][cc]
    s = ""
    for n, _bang, k in parse_structure(row["bban_spec"]):
        s += "".join(ctx.rng.choice(KINDS[k]) for _ in range(n))
    return s


def numerify(s: str) -> int:
    return int("".join(str(int(c, 36)) for c in s))


def iso_digits(cc: str, bban: str) -> str:
    return f"{98 - numerify(bban + cc + '00') % 97:02d}"


def valid_iban(ctx, cc: str) -> str:
    b = random_bban(ctx, cc)
    return cc + iso_digits(cc, b) + b


def countries(ctx):
    return sorted(ctx.facts["iban_rows"].keys())


def same_kind_other(ctx, ch: str) -> str:
    pool = DIGITS if ch in DIGITS else UPPER
    return ctx.rng.choice([c for c in pool if c != ch])


def both(fn_corr, fn_prop, args, tag, nontrivial=True):
    """The same input through the correspondence function and the property oracle."""
    return [Case("corr", fn_corr, args, tag, nontrivial), Case("prop", fn_prop, args[:1], tag, nontrivial)]


# ------------------------------------------------------------------------------------------------
# C01

def c01_inputs(ctx):
    """(text, tag, nontrivial) triples around valid IBANs of every country."""
    rng = ctx.rng
    wide = wide_alphabet(ctx)
    n_valid = 1 if ctx.quick else 2
    n_mut = 12 if ctx.quick else 10 ** 9
    must = "0Aa-٠ \n"
    for cc in countries(ctx):
        for _ in range(n_valid):
            v = valid_iban(ctx, cc)
            yield v, "valid", True
            # formatting variants
            yield " ".join(v[i:i + 4] for i in range(0, len(v), 4)), "valid-formatted", True
            yield v.lower(), "valid-lower", True
            ws = chr(rng.choice(ctx.facts["ws"]))
            k = rng.randrange(len(v) + 1)
            yield v[:k] + ws + v[k:], "valid-ws", True
            # single-position mutations over a wide alphabet
            positions = list(range(len(v)))
            if len(positions) * len(wide) > n_mut:
                pairs = [(rng.choice(positions), rng.choice(wide)) for _ in range(n_mut)]
            else:
                # thorough: every position x (a fixed core + 40 sampled characters of the wide alphabet)
                pairs = [(p, ch) for p in positions for ch in must + "".join(rng.sample(wide, 40))]
            for p, ch in pairs:
                m = v[:p] + ch + v[p + 1:]
                yield m, "mutation", True
                if not ctx.quick or rng.random() < 0.3:
                    # same mutation with recomputed check digits (isolates the class check)
                    try:
                        body = m[4:].upper()
                        d = iso_digits(m[:2].upper(), "".join(body.split()))
                        yield m[:2] + d + m[4:], "mutation-rechecked", True
                    except Exception:  # noqa: BLE001
                        pass
            # lengths
            for L in (range(0, 41) if not ctx.quick else rng.sample(range(0, 41), 4)):
                t = (v + random_bban(ctx, cc))[:L]
                yield t, "length", L >= 4
                if L >= 5:
                    try:
                        yield t[:2] + iso_digits(t[:2], t[4:]) + t[4:], "length-rechecked", True
                    except Exception:  # noqa: BLE001
                        pass
    # insertions: white space is ignored wherever it stands, nothing else is (separators, invisible characters)
    probes = insertion_probes(ctx)
    for cc in (countries(ctx) if not ctx.quick else rng.sample(countries(ctx), 4)):
        for t in insertions(ctx, valid_iban(ctx, cc), probes):
            yield t, "insertion", True
    # labels and punctuation people put around the number: none of it is white space
    for cc in (countries(ctx) if not ctx.quick else rng.sample(countries(ctx), 3)):
        v = valid_iban(ctx, cc)
        for pre in ("IBAN", "IBAN ", "IBAN:", "iban: ", "IBAN-Nr. ", "BIC ", "Konto ", "No. ", "(", "\"", "<"):
            yield pre + v, "decorated", True
        for suf in (" EUR", ".", ",", ";", ")", "\"", " (IBAN)", "/", ">"):
            yield v + suf, "decorated", True
    # long only because of white space
    for cc in (countries(ctx) if not ctx.quick else rng.sample(countries(ctx), 4)):
        v = valid_iban(ctx, cc)
        for t in padded(ctx, v):
            yield t, "padded", True
        p = rng.randrange(4, len(v))
        w = v[:p] + same_kind_other(ctx, v[p]) + v[p + 1:]
        for t in list(padded(ctx, w))[:2]:
            yield t, "padded", True
    # check-digit aliases: 00/01/99 leave remainder 1 as well and must be rejected
    for cc in (countries(ctx) if not ctx.quick else rng.sample(countries(ctx), 12)):
        for _ in range(400):
            b = random_bban(ctx, cc)
            d = iso_digits(cc, b)
            if d in ("02", "97", "98"):
                alias = {"02": "99", "97": "00", "98": "01"}[d]
                yield cc + d + b, "alias-base", True
                yield cc + alias + b, "alias", True
                break
    # every two-letter prefix
    v = valid_iban(ctx, "DE")
    letters = UPPER if not ctx.quick else rng.sample(UPPER, 6)
    for a in letters:
        for b_ in letters:
            body = v[4:]
            yield a + b_ + iso_digits(a + b_, body) + body, "prefix", True
    for g in ("", " ", "\n", "DE", "DE8", "DE89", "٤٤", "DE٨٩370400440532013000",
              "DE89370400440532013000\n", "DE89 3704 0044 0532 0130 00\n\n", "de89370400440532013000",
              "DE89370400440532013000 ", " DE89370400440532013000", "DE89370400440532013000\x00",
              "DE89370400440532013OOO", "ſE89370400440532013000", "Dﬁ"):
        yield g, "special", True


def c01_streams(ctx):
    k = 0
    for t, tag, nt in c01_inputs(ctx):
        yield from both("iban_new", "spec_iban_accept", [enc(t), "0", "0"], tag, nt)
        k += 1
        if tag in ("valid", "padded", "insertion", "special", "alias") or k % (5 if ctx.quick else 11) == 0:
            # every validating entry point demands (at least) the same: constructor and validate() with and without the
            # national step, is_valid, the constructor handed an instance
            yield Case("prop", "spec_iban_accept_any", [enc(t)], tag + "-any-entry-point", nt)
            yield Case("corr", "iban_new_inst", [enc(t), "0", "0"], tag + "-instance", nt)
    # the regex model against the live compiled patterns
    rng = ctx.rng
    wide = wide_alphabet(ctx)
    for cc in (countries(ctx) if not ctx.quick else rng.sample(countries(ctx), 25)):
        b = random_bban(ctx, cc)
        cand = [b, b + "\n", b + "\n\n", b[:-1], b + "0", "", b.lower()]
        for _ in range(3):
            k = rng.randrange(len(b))
            cand.append(b[:k] + rng.choice(wide) + b[k + 1:])
        for s in cand:
            for meth in ("match", "fullmatch", "search"):
                yield Case("corr", "re_row", [enc(cc), meth, enc(s)], "regex-row", True)
    for s in ["DE89", "DE89X", "DE8", "de89", "DE٨٩", "DE89\n", "1E89", "DEE9", "", "XDE89", "DE89 \x00"]:
        yield Case("corr", "re_chars", [enc(s)], "regex-chars", True)


# ------------------------------------------------------------------------------------------------
# C02

def c02_streams(ctx):
    rng = ctx.rng
    n = 1 if ctx.quick else 8
    for cc in countries(ctx):
        for _ in range(n):
            b = random_bban(ctx, cc)
            yield Case("prop", "spec_from_bban", [enc(cc), enc(b)], "from_bban", True)
            yield Case("corr", "iban_from_bban", [enc(cc), enc(b), "0", "0"], "from_bban", True)
            for dd in range(100):
                t = f"{cc}{dd:02d}{b}"
                yield from both("iban_new", "spec_iban_accept", [enc(t), "0", "0"], "all-100-pairs", True)
    # extreme BBANs: the last / first letter or digit wherever the structure admits it (longest numeric expansions)
    for cc in countries(ctx):
        row = ctx.facts["iban_rows"][cc]
        kinds = "".join(k * cnt for cnt, _b, k in parse_structure(row["bban_spec"]))
        for pick in ({"n": "9", "a": "Z", "c": "Z", "e": " "}, {"n": "0", "a": "A", "c": "A", "e": " "}, {"n": "9", "a": "Z", "c": "9", "e": " "}):
            b = "".join(pick[k] for k in kinds)
            yield Case("prop", "spec_from_bban", [enc(cc), enc(b)], "from_bban-extreme", True)
            yield from both("iban_new", "spec_iban_accept", [enc(cc + iso_digits(cc, b) + b), "0", "0"], "extreme", True)
    # BBANs that begin like an IBAN of their own country (country code and two digits), where the structure allows it;
    # and other two-letter/two-digit heads
    for cc in countries(ctx):
        row = ctx.facts["iban_rows"][cc]
        kinds = "".join(k * cnt for cnt, _b, k in parse_structure(row["bban_spec"]))
        if len(kinds) >= 4 and all(k in "ac" for k in kinds[:2]) and all(k in "nc" for k in kinds[2:4]):
            for head in (cc, rng.choice(countries(ctx))):
                b = head + "".join(rng.choice(DIGITS) for _ in range(2)) + random_bban(ctx, cc)[4:]
                yield Case("prop", "spec_from_bban", [enc(cc), enc(b)], "from_bban-iban-like", True)
                yield Case("corr", "iban_from_bban", [enc(cc), enc(b), "0", "0"], "from_bban-iban-like", True)
                yield Case("corr", "iban_from_bban", [enc(cc), enc(b), "1", "0"], "from_bban-iban-like", True)
    # BBANs that begin with a word people write in front of such numbers, where the structure admits the letters
    for cc in countries(ctx):
        row = ctx.facts["iban_rows"][cc]
        kinds = "".join(k * cnt for cnt, _b, k in parse_structure(row["bban_spec"]))
        for word in ("IBAN", "BIC", "BBAN", "SWIFT", "KONTO", "ACCT"):
            if len(kinds) > len(word) and all(k in "ac" for k in kinds[:len(word)]):
                b = word + random_bban(ctx, cc)[len(word):]
                yield Case("prop", "spec_from_bban", [enc(cc), enc(b)], "from_bban-word-head", True)
                yield Case("corr", "iban_from_bban", [enc(cc), enc(b), "0", "0"], "from_bban-word-head", True)
                yield from both("iban_new", "spec_iban_accept", [enc(cc + iso_digits(cc, b) + b), "0", "0"], "word-head", True)
    # BBANs whose computed check digits are 02 / 97 / 98: the aliases 99 / 00 / 01 leave remainder 1 too
    for cc in (countries(ctx) if not ctx.quick else rng.sample(countries(ctx), 40)):
        for _ in range(600):
            b = random_bban(ctx, cc)
            if iso_digits(cc, b) in ("02", "97", "98"):
                for dd in ("00", "01", "02", "97", "98", "99"):
                    yield from both("iban_new", "spec_iban_accept", [enc(cc + dd + b), "0", "0"], "alias-pairs", True)
                break
    # malformed arguments of from_bban (correspondence only)
    for cc, b in [("de", "370400440532013000"), ("DE", "37040044053201300"), ("DE", "3704004405320130000"),
                  ("XX", "1234"), ("", ""), ("DE", ""), ("DE", "37040044 0532013000"), ("D", "E370400440532013000"),
                  ("DE", "37040044053201300٠"), ("DE", "3704004405320130-0"), (" DE", "370400440532013000")]:
        yield Case("corr", "iban_from_bban", [enc(cc), enc(b), "0", "0"], "from_bban-malformed", True)
        yield Case("corr", "iban_from_bban", [enc(cc), enc(b), "1", "0"], "from_bban-malformed", True)


# ------------------------------------------------------------------------------------------------
# C03

def c03_streams(ctx):
    rng = ctx.rng
    n = 1 if ctx.quick else 5
    for cc in countries(ctx):
        for _ in range(n):
            v = valid_iban(ctx, cc)
            yield from both("iban_new", "spec_iban_accept", [enc(v), "0", "0"], "valid", True)
            positions = range(2, len(v))
            for p in positions:
                pool = DIGITS if v[p] in DIGITS else UPPER
                others = [c for c in pool if c != v[p]]
                if ctx.quick:
                    others = rng.sample(others, 2)
                for ch in others:
                    yield from both("iban_new", "spec_iban_accept", [enc(v[:p] + ch + v[p + 1:]), "0", "0"],
                                    "substitution", True)
                    if rng.random() < (0.15 if ctx.quick else 0.05):
                        # ... and by every other validating entry point (with the national step, through validate(), ...)
                        yield Case("prop", "spec_iban_accept_any", [enc(v[:p] + ch + v[p + 1:])], "substitution-any-entry-point", True)
            for p in range(len(v) - 1):
                a, b_ = v[p], v[p + 1]
                if a != b_ and ((a in DIGITS) == (b_ in DIGITS)):
                    tag = "transposition-seam" if p == 3 else "transposition"
                    yield from both("iban_new", "spec_iban_accept", [enc(v[:p] + b_ + a + v[p + 2:]), "0", "0"], tag, True)
                    if rng.random() < (0.3 if ctx.quick else 0.1):
                        yield Case("prop", "spec_iban_accept_any", [enc(v[:p] + b_ + a + v[p + 2:])], tag + "-any-entry-point", True)
    # country-code transpositions where both orders are countries (e.g. BG/GB)
    ccs = set(countries(ctx))
    for cc in sorted(ccs):
        if cc[::-1] in ccs and cc[0] != cc[1]:
            v = valid_iban(ctx, cc)
            yield from both("iban_new", "spec_iban_accept", [enc(v[1] + v[0] + v[2:]), "0", "0"], "transposition-cc", True)


# ------------------------------------------------------------------------------------------------
# C04

ALNUM = DIGITS + UPPER


def random_bic(ctx, long=None, strict=False, cc=None):
    rng = ctx.rng
    if long is None:
        long = rng.random() < 0.5
    cc = cc or rng.choice(ctx.facts["iso3166"])
    s = "".join(rng.choice(UPPER if strict else ALNUM) for _ in range(4)) + cc
    s += "".join(rng.choice(ALNUM) for _ in range(2))
    if long:
        s += "".join(rng.choice(ALNUM) for _ in range(3))
    return s


def c04_inputs(ctx):
    rng = ctx.rng
    wide = wide_alphabet(ctx)
    n = 6 if ctx.quick else 40
    for long in (False, True):
        for _ in range(n):
            v = random_bic(ctx, long)
            yield v, "valid", True
            yield v.lower(), "valid-lower", True
            k = rng.randrange(len(v) + 1)
            yield v[:k] + chr(rng.choice(ctx.facts["ws"])) + v[k:], "valid-ws", True
            for p in range(len(v)):
                chars = rng.sample(wide, 10 if ctx.quick else 60) + ["-", "0", "A", "a", "٠"]
                for ch in chars:
                    yield v[:p] + ch + v[p + 1:], "mutation", True
            # lengths 0..14
            for L in range(0, 15):
                yield (v + "XXXXXX")[:L], "length", L in (8, 11)
            # appended / prepended garbage at accepted total lengths
            if not long:
                for tail in ("-SS", "GL٠", "G S", "\n\n\n", "...", "gls", "ßßß"):
                    yield v + tail, "trailing", True
    # insertions: white space is ignored wherever it stands, nothing else is (separators, invisible characters)
    probes = insertion_probes(ctx)
    for long in (False, True):
        for _ in range(2 if ctx.quick else 12):
            for t in insertions(ctx, random_bic(ctx, long), probes):
                yield t, "insertion", True
            # three insertions bring an 8-character BIC to an accepted total length
            v8 = random_bic(ctx, False)
            ch = rng.choice(probes)
            yield v8 + ch * 3, "insertion", True
            yield ch + v8[:4] + ch + v8[4:] + ch, "insertion", True
    for long in (False, True):
        for t in padded(ctx, random_bic(ctx, long)):
            yield t, "padded", True
    # all 676 two-letter codes
    letters = UPPER
    base = random_bic(ctx, True)
    pairs = [(a, b_) for a in letters for b_ in letters]
    if ctx.quick:
        pairs = rng.sample(pairs, 60) + [("D", "E"), ("X", "K"), ("X", "X"), ("E", "U"), ("U", "K"), ("A", "N")]
    for a, b_ in pairs:
        yield base[:4] + a + b_ + base[6:], "country", True
    for g in ("", "GENODEM1GLS", "GENODEM1G-S", "GENODEM1GL٠", "GENO DE M1 GLS", "genodem1gls", "GENODEM1", "GENODEM1 ",
              "1234DEWWXXX", "GENODEKM1GLS"[:11], "GENOKDM1", "GENODEM1\n", "GENODEM1GLS\n", "GENOD\u212aM1",
              "GENO\u0130EM1", "ſENODEM1", "GENODEM1GLSX", "AAAA", "GENOXKM1"):
        yield g, "special", True


def c04_streams(ctx):
    k = 0
    for t, tag, nt in c04_inputs(ctx):
        k += 1
        for strict in ("0", "1"):
            yield Case("corr", "bic_new", [enc(t), "0", strict], tag, nt)
            yield Case("prop", "spec_bic_accept", [enc(t), strict], tag, nt)
            if tag in ("valid", "valid-lower", "padded", "special", "country") or k % 7 == 0:
                # the same by every entry point: validate() on the unvalidated object, the constructor handed an instance
                # that was validated in the lenient mode
                yield Case("prop", "spec_bic_accept_any", [enc(t), strict], tag + "-any-entry-point", nt)
                yield Case("corr", "bic_new_inst", [enc(t), "0", strict], tag + "-instance", nt)
    for strict in ("0", "1"):
        for s in ("GENODEM1", "GENODEM1GLS", "GENODEM1G", "GENODEM1GLSX", "GENODEM1G-S", "GENODEM", "genodem1", "", "GENODEM1\n",
                  "1234DEWW", "GENODEM1GL\n"):
            for meth in ("match", "fullmatch", "search"):
                yield Case("corr", "re_bic", [strict, meth, enc(s)], "regex-bic", True)


# ------------------------------------------------------------------------------------------------
# C05

def c05_streams(ctx):
    for t, tag, nt in c01_inputs(ctx):
        yield Case("prop", "spec_iban_verdict", [enc(t)], "iban-" + tag, nt, "member")
        yield Case("corr", "iban_new", [enc(t), "0", "0"], "iban-" + tag, nt)
        yield Case("corr", "iban_is_valid", [enc(t)], "iban-" + tag, nt)
        yield Case("corr", "iban_validate", [enc(t), "0"], "iban-" + tag, nt)
    for t, tag, nt in c04_inputs(ctx):
        for strict in ("0", "1"):
            yield Case("prop", "spec_bic_verdict", [enc(t), strict], "bic-" + tag, nt, "member")
            yield Case("corr", "bic_validate", [enc(t), strict], "bic-" + tag, nt)
        yield Case("corr", "bic_is_valid", [enc(t)], "bic-" + tag, nt)
    # multi-defect inputs: several things wrong at once
    rng = ctx.rng
    wide = wide_alphabet(ctx)
    for cc in (countries(ctx) if not ctx.quick else rng.sample(countries(ctx), 30)):
        v = valid_iban(ctx, cc)
        for _ in range(6 if ctx.quick else 40):
            t = list(v)
            for _k in range(rng.randrange(2, 5)):
                op = rng.randrange(3)
                p = rng.randrange(len(t)) if t else 0
                if op == 0 and t:
                    t[p] = rng.choice(wide)
                elif op == 1 and t:
                    del t[p]
                else:
                    t.insert(p, rng.choice(wide))
            t = "".join(t)
            yield Case("prop", "spec_iban_verdict", [enc(t)], "iban-multi-defect", True, "member")
            yield Case("corr", "iban_new", [enc(t), "0", "0"], "iban-multi-defect", True)
    # every entry point, with and without the national step, on structure-conforming IBANs of every country (letters
    # wherever the structure admits them) and on a sample of the malformed texts
    for cc in countries(ctx):
        for _ in range(2 if ctx.quick else 12):
            yield Case("prop", "spec_no_foreign_exception", [enc(valid_iban(ctx, cc))], "all-entry-points", True)
    k = 0
    for t, tag, nt in c01_inputs(ctx):
        k += 1
        if k % (23 if ctx.quick else 9) == 0:
            yield Case("prop", "spec_no_foreign_exception", [enc(t)], "all-entry-points-" + tag, nt)
    # the entry points agree whatever was asked before: strict validation of a nationally invalid IBAN after lenient
    # uses of the same text / on an object already validated leniently
    for cc in (NATIONAL if not ctx.quick else rng.sample(NATIONAL, 6)):
        if cc not in ctx.facts["iban_rows"]:
            continue
        bad = [b for b, v in national_candidates(ctx, cc, 1) if v == "0"]
        for b in rng.sample(bad, min(len(bad), 2 if ctx.quick else 6)):
            iban = cc + iso_digits(cc, b) + b
            yield Case("prop", "spec_national_accept_after", [enc(iban)], "iban-after-lenient", True)
            yield Case("corr", "iban_validate_after", [enc(iban), "1"], "iban-after-lenient", True)
            yield Case("corr", "iban_new_after", [enc(iban), "0", "1"], "iban-after-lenient", True)


# ------------------------------------------------------------------------------------------------
# C10 / C11

def random_text(ctx, n=None):
    rng = ctx.rng
    wide = wide_alphabet(ctx)
    up = ctx.facts["upper"]
    specials = [chr(int(k)) for k in rng.sample(sorted(up.keys()), min(40, len(up)))]
    pool = list(wide) + specials
    n = rng.randrange(0, 30) if n is None else n
    return "".join(rng.choice(pool) for _ in range(n))


def variant(ctx, t):
    """Insert whitespace anywhere and flip the case of ASCII letters."""
    rng = ctx.rng
    out = []
    for ch in t:
        while rng.random() < 0.2:
            out.append(chr(rng.choice(ctx.facts["ws"])))
        if ch.isascii() and ch.isalpha() and rng.random() < 0.5:
            ch = ch.swapcase()
        out.append(ch)
    while rng.random() < 0.3:
        out.append(chr(rng.choice(ctx.facts["ws"])))
    return "".join(out)


def c10_streams(ctx):
    rng = ctx.rng
    # texts carrying a label, and texts that merely begin with the letters of one: all white-space / case variants agree
    labelled = []
    for cc in rng.sample(countries(ctx), 3 if ctx.quick else 20):
        v = valid_iban(ctx, cc)
        labelled += ["IBAN " + v, "IBAN: " + v, "BBAN " + v[4:]]
    bics = sorted({b[2] for b in ctx.facts["banks"] if b[2] and b[2][:3] in ("BIC", "IBA", "BBA")})
    for bic in bics[:6] + ["BICKNL2A", "BIC " + random_bic(ctx), "BIC: " + random_bic(ctx, False)]:
        labelled += [bic, bic[:3] + " " + bic[3:]]
    for t in labelled:
        for v2 in (" " + t, t.lower(), t.replace(" ", "\t"), t.replace(" ", "\u00a0"), t.replace(" ", "  "), t[:1] + " " + t[1:],
                   t.replace(" ", "")):
            yield Case("prop", "spec_variant_same", [enc(t), enc(v2)], "labelled-variants", True, "member")
    # white space and case in the ARGUMENTS of generate / from_components (the bank-code lookups take their key as it is)
    for cc in (countries(ctx) if not ctx.quick else rng.sample(countries(ctx), 12) + ["GB", "FR", "IT", "ES", "DE"]):
        row = ctx.facts["iban_rows"][cc]
        pos = row.get("positions") or {}
        if not pos:
            continue
        w = {k: pos.get(k, [0, 0])[1] - pos.get(k, [0, 0])[0] for k in ("bank_code", "branch_code", "account_code")}
        bk, ac, br = [component_values(ctx, cc, k, w[k])[0] if w[k] else "" for k in ("bank_code", "account_code", "branch_code")]
        combos = [(bk, ac, br)]
        if w["branch_code"]:
            combos.append((bk + br, ac, ""))                      # the combined notation
        for x in combos:
            for _ in range(2 if ctx.quick else 6):
                y = tuple(variant(ctx, v) if v else v for v in x)
                yield Case("prop", "spec_variant_same_api", [enc(cc)] + [enc(v) for v in x] + [enc(v) for v in y], "api-argument-variants", True)
            ws = chr(rng.choice(ctx.facts["ws"]))
            y = (x[0][:len(bk)] + ws + x[0][len(bk):], x[1], x[2]) if len(x[0]) > len(bk) else (x[0] + ws * max(w["branch_code"], 1), x[1], x[2])
            yield Case("prop", "spec_variant_same_api", [enc(cc)] + [enc(v) for v in x] + [enc(v) for v in y], "api-argument-variants", True)
    n = 150 if ctx.quick else 4000
    for _ in range(n):
        t = random_text(ctx)
        yield Case("corr", "clean", [enc(t)], "clean-random", True)
        yield Case("corr", "clean", [enc(t.lower())], "clean-random", True)
    # every whitespace code point and every special-casing code point on its own and embedded
    for c in ctx.facts["ws"]:
        yield Case("corr", "clean", [enc("A" + chr(c) + "b")], "clean-ws", True)
    ups = sorted(int(k) for k in ctx.facts["upper"].keys())
    for c in (ups if not ctx.quick else rng.sample(ups, 150)):
        yield Case("corr", "clean", [enc("x" + chr(c) + "y")], "clean-upper", True)
    texts = []
    for cc in (countries(ctx) if not ctx.quick else rng.sample(countries(ctx), 30)):
        texts.append(valid_iban(ctx, cc))
    texts += [random_bic(ctx) for _ in range(30 if ctx.quick else 300)]
    texts += [random_bic(ctx, long=False) + "XXX" for _ in range(4)] + ["ABNAJPJTXXX", "DEUTDEFFXXX", "GENODEM1XXX"]
    texts += [random_text(ctx) for _ in range(40 if ctx.quick else 600)]
    texts += ["", "DE", "GENOD", "GENODEM1G", "A", "DE89 3704", "ß", "ǆ"]
    for t in texts:
        for _ in range(2):
            v = variant(ctx, t)
            yield Case("prop", "spec_variant_same", [enc(t), enc(v)], "variants", True, "member")
        yield Case("prop", "iban_formatted_rt", [enc(t)], "iban-formatted", True)
        yield Case("corr", "iban_formatted", [enc(t)], "iban-formatted", True)
        yield Case("prop", "bic_formatted_rt", [enc(t)], "bic-formatted", True)
        yield Case("corr", "bic_parts", [enc(t)], "bic-parts", True)


def c11_streams(ctx):
    rng = ctx.rng
    names = ";".join(enc(x) for x in ctx.facts["components"])
    # building for every country (also those without published positions, where it is refused) before decomposing
    for cc in countries(ctx):
        yield Case("corr", "generate", [enc(cc), enc("1"), enc("1"), enc("")], "generate-before-decomposing", True)
        yield Case("corr", "from_components", [enc(cc), enc(""), enc(""), enc("1")], "generate-before-decomposing", True)
    n = 2 if ctx.quick else 12
    for cc in countries(ctx):
        for _ in range(n):
            v = valid_iban(ctx, cc)
            yield Case("prop", "iban_decomp", [enc(v), names], "iban-decomp", True)
            yield from both("iban_new", "spec_iban_accept", [enc(v), "0", "0"], "iban-valid", True)
    # BBANs that begin with the letters of their own country code (all West-African ones do), where the structure admits it
    for cc in countries(ctx):
        kinds = "".join(k * cnt for cnt, _b, k in parse_structure(ctx.facts["iban_rows"][cc]["bban_spec"]))
        if len(kinds) > 2 and all(k in "ac" for k in kinds[:2]):
            b = cc + random_bban(ctx, cc)[2:]
            yield Case("prop", "iban_decomp", [enc(cc + iso_digits(cc, b) + b), names], "iban-decomp-own-code-head", True)
    # re-assembly from a BBAN OBJECT that belongs to another country (or spells the country differently): the IBAN's own
    # country decides the positions
    bylen = {}
    for cc in countries(ctx):
        bylen.setdefault(ctx.facts["iban_rows"][cc]["bban_length"], []).append(cc)
    groups = [g for g in bylen.values() if len(g) >= 2]
    for g in (groups if not ctx.quick else rng.sample(groups, min(len(groups), 6))):
        for _ in range(1 if ctx.quick else 4):
            c1, c2 = rng.sample(g, 2)
            b = random_bban(ctx, c1)
            for cc_obj in (c2, c1.lower(), c1):
                yield Case("corr", "iban_decomp_bbanobj", [enc(c1), enc(cc_obj), enc(b), names], "iban-from-foreign-bban-object", True,
                           "eq", [enc(c1 + iso_digits(c1, b) + b), names])
    # unvalidated objects: short, over-long, unknown country (the model must agree on every accessor)
    for t in ["", "D", "DE", "DE8", "DE89", "DE893", "XX89370400440532013000", "DE8937040044053201300",
              "DE89370400440532013000000", "de89 3704 0044 0532 0130 00"] + [random_text(ctx) for _ in range(20)]:
        yield Case("corr", "iban_decomp", [enc(t), names], "iban-decomp-unvalidated", True)
    for _ in range(40 if ctx.quick else 400):
        b = random_bic(ctx)
        yield Case("prop", "bic_parts", [enc(b)], "bic-parts", True)
        yield Case("prop", "spec_bic_accept", [enc(b), "0"], "bic-valid", True)
    for t in ["", "GENO", "GENODE", "GENODEM", "GENODEM1G", "GENODEM1GLSX"]:
        yield Case("corr", "bic_parts", [enc(t)], "bic-parts-unvalidated", True)


# ------------------------------------------------------------------------------------------------
# C18

def jenc(x) -> str:
    if x is None:
        return "n"
    if x is True:
        return "t"
    if x is False:
        return "f"
    if isinstance(x, int):
        return "i" + str(x)
    if isinstance(x, str):
        return "s" + enc(x)
    if isinstance(x, list):
        return " ".join(["a" + str(len(x))] + [jenc(v) for v in x])
    if isinstance(x, dict):
        out = ["o" + str(len(x))]
        for k, v in x.items():
            out += [enc(k), jenc(v)]
        return " ".join(out)
    raise TypeError(type(x).__name__)


KEYS = ["a", "b", "c", "positions", "DE", "bank_code", "x y", "", "ä"]


def rand_scalar(rng):
    return rng.choice([None, True, False, 0, 1, -7, 34, "", "x", "8!n10!n", [0, 8], [], ["bank_code"], [1, [2]]])


def rand_dict(rng, depth=3, width=4):
    d = {}
    for k in rng.sample(KEYS, rng.randrange(0, width + 1)):
        if depth > 0 and rng.random() < 0.45:
            d[k] = rand_dict(rng, depth - 1, width)
        else:
            d[k] = rand_scalar(rng)
    return d


def related_dicts(rng, k):
    """k documents that are edits of one base document, so that the same key carries a dictionary in one file, a scalar
    or null in the next and a dictionary again in a third (conflicts random documents almost never produce)"""
    def mutate(d, depth):
        out = {}
        for key, v in d.items():
            x = rng.random()
            if x < 0.12:
                continue                                   # key absent from this file
            if x < 0.42:
                if isinstance(v, dict):
                    out[key] = rng.choice([None, rand_scalar(rng), rand_dict(rng, 1, 3)])
                else:
                    out[key] = rand_dict(rng, max(depth - 1, 0), 3) if rng.random() < 0.6 else rand_scalar(rng)
            elif isinstance(v, dict):
                out[key] = mutate(v, depth - 1)
            else:
                out[key] = v
        if rng.random() < 0.3:
            out[rng.choice(KEYS)] = rand_dict(rng, 1, 2) if rng.random() < 0.5 else rand_scalar(rng)
        return out
    base = rand_dict(rng, 3, 4)
    while not any(isinstance(v, dict) for v in base.values()):
        base = rand_dict(rng, 3, 4)
    return [mutate(base, 3) for _ in range(k)]


def rand_v2(rng):
    src, dst = rng.choice([("bank_codes", "bank_code"), ("codes", "bic"), ("xs", "name")])
    entries = []
    used = ["0001"]
    for _ in range(rng.randrange(0, 5)):
        codes = []
        for _k in range(rng.randrange(0, 4)):
            # now and then a code that occurs already (in another entry, or twice in one list)
            codes.append(rng.choice(used) if rng.random() < 0.3 else str(rng.randrange(10000)).zfill(4))
            used.append(codes[-1])
        en = {"country_code": rng.choice(["DK", "DE"]), "bic": rng.choice(["", "NDEADKKK", None]),
              "name": rng.choice(["N", "ÆØ bank"]), src: codes}
        if rng.random() < 0.4:
            en["primary"] = rng.choice([True, False])
        if rng.random() < 0.3:
            en[dst] = "preset"
        if rng.random() < 0.2:
            items = list(en.items())
            rng.shuffle(items)
            en = dict(items)
        entries.append(en)
    return {"entries": entries, "expand_from": src, "expand_into": dst}


def registry_case(files, tag):
    """files: list of (file name, document).  The model gets them in sorted-name order with the v2 flag."""
    iargs = []
    for n, doc in files:
        iargs += [enc(n), jenc(doc)]
    margs = []
    for n, doc in sorted((f for f in files if f[0].endswith(".json")), key=lambda f: f[0]):
        margs += ["1" if n[:-len(".json")].endswith("v2") else "0", jenc(doc)]
    return Case("prop", "registry_get", iargs, tag, True, "eq", margs)


def c18_streams(ctx):
    import glob
    import json as _json
    rng = ctx.rng
    n = 300 if ctx.quick else 6000
    for _ in range(n):
        l, r = rand_dict(rng), rand_dict(rng)
        yield Case("prop", "merge_dicts", [jenc(l), jenc(r)], "merge-random", True)
    for _ in range(n // 6):
        yield Case("prop", "parse_v2", [jenc(rand_v2(rng))], "parse_v2-random", True)
    for doc in ({}, {"entries": []}, {"entries": [], "expand_from": "a"}, {"entries": [{"a": 1}], "expand_from": "b", "expand_into": "c"},
                {"entries": [{"b": 5}], "expand_from": "b", "expand_into": "c"}, [], "x"):
        yield Case("corr", "parse_v2", [jenc(doc)], "parse_v2-malformed", True)
    # registry.get on scratch directories: dict registries with overlays, list registries with v2 files
    names = ["generated.json", "overwrite.json", "a.json", "zz_user.json", "Overlay.json", "00.json", "b.v2.json", "notes.txt",
             "overwrite_10.json", "overwrite_2.json", "part08.json", "part7.json", "z9.json", "z10.json", "manual_x.json", "generated_x.json",
             "Z.json", "_a.json", "a b.json", "ä.json"]
    for _ in range(40 if ctx.quick else 600):
        k = rng.randrange(1, 4)
        files = [(nm, rand_dict(rng)) for nm in rng.sample([x for x in names if "v2" not in x], k)]
        yield registry_case(files, "get-dicts")
    # several overlays editing the same keys (dictionary -> scalar -> dictionary across three or more files)
    for _ in range(60 if ctx.quick else 900):
        k = rng.randrange(2, 6)
        docs = related_dicts(rng, k)
        files = list(zip(rng.sample([x for x in names if "v2" not in x and x.endswith(".json")], k), docs))
        yield registry_case(files, "get-dicts-related")
    for fixed in ([{"X": {"old": 1}}, {"X": None}, {"X": {"new": 3}}], [{"X": {"a": {"b": 1}}}, {"X": {"a": 0}}, {"X": {"a": {"c": 2}}}],
                  [{"X": 1}, {"X": {"n": 1}}, {"X": 2}, {"X": {"m": 2}}]):
        yield registry_case(list(zip(["00.json", "a.json", "generated.json", "overwrite.json"], fixed)), "get-dicts-related")
    for _ in range(30 if ctx.quick else 400):
        files = []
        for nm in rng.sample(names, rng.randrange(1, 4)):
            if nm.endswith("v2.json"):
                files.append((nm, rand_v2(rng)))
            else:
                files.append((nm, [rand_dict(rng, 1) for _ in range(rng.randrange(0, 3))]))
        yield registry_case(files, "get-lists")
    # lookups follow the effective data: entries without a bank code are not found under the empty code, countries
    # without a bank-code field find no bank
    empties = sorted({b[0] for b in ctx.facts["banks"] if not b[1]})
    for cc in empties + ["AO", "HN", "DE", "XX", ""]:
        yield Case("prop", "spec_lookup_empty_code", [enc(cc)], "lookup-empty-code", True)
        yield Case("corr", "candidates", [enc(cc), enc("")], "lookup-empty-code", True)
        yield Case("corr", "from_bank_code", [enc(cc), enc("")], "lookup-empty-code", True)
    for cc in countries(ctx):
        if not (ctx.facts["iban_rows"][cc].get("positions") or {}):
            yield Case("corr", "iban_bank_lookup", [enc(cc), enc(random_bban(ctx, cc))], "lookup-no-bank-field", True)
    # the real registries of the tree: effective data = model of get on the raw files
    repo = os.environ.get("VERIF_REPO", "/repo")
    for reg in ("iban", "bank"):
        files = []
        for path in glob.glob(os.path.join(repo, "schwifty", reg + "_registry", "*")):
            if path.endswith(".json"):
                files.append((os.path.basename(path), _json.load(open(path, encoding="utf-8"))))
        if reg == "bank" and ctx.quick:
            # quick: a third of the bank files (all in thorough); always the v2 file
            keep = [f for f in files if "v2" in f[0]] + rng.sample([f for f in files if "v2" not in f[0]], 12)
            files = keep
        yield registry_case(files, "get-real-" + reg)
        # with a user overlay that renames nothing and adds one country / one bank
        if reg == "iban":
            over = {"DE": {"bban_length": 18, "positions": {"branch_code": [4, 8]}}, "ZZ": {"bban_spec": "4!n", "bban_length": 4,
                    "iban_spec": "ZZ2!n4!n", "iban_length": 8}}
            yield registry_case(files + [("zz_user_overlay.json", over)], "get-real-iban-overlay")


# ------------------------------------------------------------------------------------------------
# C12 / C17

FILL = {"n": "0", "a": "A", "c": "0", "e": " "}


def bban_around(ctx, cc, code):
    """A structure-conforming BBAN of country cc carrying `code` in its bank-identifying field (None if it does not fit)."""
    row = ctx.facts["iban_rows"].get(cc)
    if row is None or not row.get("positions"):
        return None
    kinds = "".join(k * n for n, _b, k in parse_structure(row["bban_spec"]))
    b = [ctx.rng.choice(KINDS[k]) if k != "e" else " " for k in kinds]
    lookup = row.get("lookup") or ["bank_code"]
    pos = 0
    for comp in lookup:
        s, e_ = row["positions"].get(comp, [0, 0])
        piece = code[pos:pos + (e_ - s)]
        pos += e_ - s
        if len(piece) != e_ - s:
            return None
        b[s:e_] = list(piece)
    if pos != len(code):
        return None
    return "".join(b)


def c12_keys(ctx):
    banks = ctx.facts["banks"]
    keys = sorted({(cc, code) for cc, code, _bic in banks if cc and code})
    bics = sorted({bic for _cc, _code, bic in banks if bic})
    return keys, bics


def interesting_keys(ctx):
    """(country, bank code) keys with several entries, in particular those whose first entry is not the primary one,
    and keys whose BICs are registered under another country"""
    by = {}
    for cc, code, bic, prim in ctx.facts["banks4"]:
        if cc and code:
            by.setdefault((cc, code), []).append((bic, prim))
    multi = [k for k, v in by.items() if len(v) > 1]
    not_first = [k for k, v in by.items() if len(v) > 1 and not v[0][1] and any(p for _b, p in v)]
    foreign = [k for k, v in by.items() if any(b and len(b) >= 6 and b[4:6] != k[0] for b, _p in v)]
    return multi, not_first, foreign


def c12_targeted(ctx):
    """lookup first, then the IBAN-level bank: the order the registry lists the entries in must survive the lookup"""
    rng = ctx.rng
    multi, not_first, foreign = interesting_keys(ctx)
    pick = (not_first if not ctx.quick else rng.sample(not_first, min(len(not_first), 25))) \
        + rng.sample(multi, min(len(multi), 25 if ctx.quick else 400)) \
        + (foreign if not ctx.quick else rng.sample(foreign, min(len(foreign), 25)))
    for cc, code in pick:
        yield Case("prop", "candidates", [enc(cc), enc(code)], "targeted-candidates", True)
        yield Case("prop", "from_bank_code", [enc(cc), enc(code)], "targeted-from_bank_code", True)
        b = bban_around(ctx, cc, code)
        if b is not None:
            yield Case("prop", "iban_bank_lookup", [enc(cc), enc(b)], "targeted-iban-after-lookup", True)
    bics = sorted({b for _cc, _code, b, _p in ctx.facts["banks4"] if b and any(True for _ in [0])})
    fb = sorted({b for k in foreign for (b, _p) in [(x[2], x[3]) for x in ctx.facts["banks4"] if (x[0], x[1]) == k] if b})
    for b in (fb if not ctx.quick else rng.sample(fb, min(len(fb), 40))):
        yield Case("prop", "bic_domestic", [enc(b)], "targeted-reverse", True)


def c12_streams(ctx):
    rng = ctx.rng
    NAMES["bank_names"] = ctx.facts["bank_names"]
    keys, bics = c12_keys(ctx)
    yield from c12_targeted(ctx)
    ks = keys if not ctx.quick else rng.sample(keys, 500)
    for cc, code in ks:
        yield Case("corr", "candidates", [enc(cc), enc(code)], "candidates", True)
        yield Case("corr", "from_bank_code", [enc(cc), enc(code)], "from_bank_code", True)
    # unlisted pairs
    for _ in range(100 if ctx.quick else 1500):
        cc, code = rng.choice(keys)
        mut = rng.choice([code[:-1], code + "0", code[::-1], "", code.lower(), " " + code, cc + code])
        for c2 in (cc, "XX", "", cc.lower()):
            yield Case("corr", "candidates", [enc(c2), enc(mut)], "unlisted", True)
            yield Case("corr", "from_bank_code", [enc(c2), enc(mut)], "unlisted", True)
    # codes that differ from a listed one only by leading zeros (stripped, or one more) and are not listed themselves
    listed = set(keys)
    zeroish = [(cc, code) for cc, code in keys if code.startswith("0") and code.strip("0")]
    for cc, code in rng.sample(zeroish, min(len(zeroish), 40 if ctx.quick else 600)):
        for mut in (code.lstrip("0"), code[1:], "0" + code):
            if mut and (cc, mut) not in listed:
                yield Case("prop", "spec_unlisted_pair", [enc(cc), enc(mut)], "unlisted-zeros", True)
    bs = bics if not ctx.quick else rng.sample(bics, 300)
    for b in bs + ["GENODEM1XXX", "", "AAAADEFFXXX"]:
        yield Case("prop", "bic_domestic", [enc(b)], "reverse", True)
        yield Case("corr", "bic_names", [enc(b)], "reverse-names", True, "names:name")
        yield Case("corr", "bic_short_names", [enc(b)], "reverse-names", True, "names:short")
    # IBAN-level lookups around listed and unlisted bank codes
    for cc, code in (keys if not ctx.quick else rng.sample(keys, 300)):
        b = bban_around(ctx, cc, code)
        if b is not None:
            yield Case("corr", "iban_bank_lookup", [enc(cc), enc(b)], "iban-lookup", True)
    for cc in countries(ctx):
        yield Case("corr", "iban_bank_lookup", [enc(cc), enc(random_bban(ctx, cc))], "iban-lookup-random", True)


def c17_streams(ctx):
    rng = ctx.rng
    banks = ctx.facts["banks"]
    for cc in countries(ctx):
        yield Case("prop", "spec_wf_country", [enc(cc)], "wf-country", True)
    for i in range(len(banks)):
        yield Case("prop", "spec_wf_bank", [str(i)], "wf-bank", True)
    yield Case("corr", "n_banks", [], "bank-list", True)
    # every country that has a national algorithm registered: the algorithm runs on the fields the country defines
    for key in sorted(ctx.facts["algorithms"]):
        cc, _, name = key.partition(":")
        row = ctx.facts["iban_rows"].get(cc)
        if name != "default" or row is None or not row.get("positions"):
            continue
        pos = row["positions"]
        w = {k: pos.get(k, [0, 0])[1] - pos.get(k, [0, 0])[0] for k in ("bank_code", "branch_code", "account_code")}
        for _ in range(2 if ctx.quick else 8):
            vals = [component_values(ctx, cc, k, w[k])[0] if w[k] else "" for k in ("bank_code", "account_code", "branch_code")]
            yield Case("prop", "spec_generate", [enc(cc)] + [enc(v) for v in vals], "algorithm-runs-" + cc, True)
    # ... also when an IBAN of ANOTHER country with the very same BBAN string was looked up just before
    bylen = {}
    for cc in countries(ctx):
        bylen.setdefault(ctx.facts["iban_rows"][cc]["bban_length"], []).append(cc)
    coded = [b for b in banks if b[1]]
    for cc, code, _bic in rng.sample(coded, 60 if ctx.quick else 1500):
        b = bban_around(ctx, cc, code)
        others = [c for c in bylen.get(len(b) if b else -1, []) if c != cc]
        if b and others:
            yield Case("corr", "iban_bank_lookup", [enc(rng.choice(others)), enc(b)], "reachable-after-twin", True)
            yield Case("corr", "iban_bank_lookup", [enc(cc), enc(b)], "reachable-after-twin", True)
    # every listed bank can occur in a valid IBAN and is found again from it
    for i in (range(len(banks)) if not ctx.quick else rng.sample(range(len(banks)), 800)):
        cc, code, _bic = banks[i]
        if not code:
            continue
        b = bban_around(ctx, cc, code)
        if b is None:
            yield Case("prop", "spec_wf_bank", [str(-1 - i)], "bank-does-not-fit", True)   # reported as a violation
        else:
            yield Case("prop", "iban_bank_lookup", [enc(cc), enc(b)], "reachable", True)


# ------------------------------------------------------------------------------------------------
# C06 / C09

# positions of the BBAN whose values are enumerated to find nationally valid numbers (the check field;
# for CZ/SK the last digit of prefix and of account)
TWEAK = {"BE": [10, 11], "BA": [14, 15], "ME": [16, 17], "MK": [13, 14], "PT": [19, 20], "RS": [16, 17], "SI": [13, 14],
         "TL": [17, 18], "MR": [21, 22], "TN": [18, 19], "FR": [21, 22], "MC": [21, 22], "ES": [8, 9], "IT": [0], "SM": [0],
         "FI": [13], "NO": [10], "PL": [7], "EE": [15], "CZ": [9, 19], "SK": [9, 19], "IS": [20]}
NATIONAL = sorted(TWEAK)


def national_candidates(ctx, cc, n):
    """n random conforming BBANs of cc, each expanded over all values of the tweak positions;
    returns (bban, spec_verdict) pairs with the verdict asked from the extracted published-rule spec."""
    rng = ctx.rng
    row = ctx.facts["iban_rows"][cc]
    kinds = "".join(k * cnt for cnt, _b, k in parse_structure(row["bban_spec"]))
    cands = []
    for _ in range(n):
        b = list(random_bban(ctx, cc))
        if cc == "NO" and rng.random() < 0.3:
            b[4:6] = "00"
        if cc == "IS" and rng.random() < 0.5:
            b[12:20] = rng.choice(["01017000", "12024500", "31129999"])    # plausible dates
        pos = TWEAK[cc]
        pools = [KINDS[kinds[p]] for p in pos]
        combos = [[]]
        for pool in pools:
            combos = [c + [ch] for c in combos for ch in pool]
        for combo in combos:
            for p, ch in zip(pos, combo):
                b[p] = ch
            cands.append("".join(b))
    verdicts = ctx.spec_eval(["\t".join(["spec_published", enc(cc), enc(b)]) for b in cands])
    return list(zip(cands, verdicts))


EDGE_VALUES = {"00", "01", "02", "97", "98", "99", "0", "1", "9", "A", "Z"}


def national_edge_candidates(ctx, cc, scan):
    """Scan `scan` random bodies (each over every value of the check field) with the extracted published-rule spec and keep
    the rare ones: bodies for which NO check value is valid, and bodies whose valid check value is extreme (00/01/02/97/98/99...)."""
    pairs = national_candidates(ctx, cc, scan)
    pos = TWEAK[cc]
    by_body = {}
    for b, v in pairs:
        key = "".join(ch for i, ch in enumerate(b) if i not in pos)
        by_body.setdefault(key, []).append((b, v))
    out = []
    n_none = n_edge = 0
    for key, lst in by_body.items():
        valid = [b for b, v in lst if v == "1"]
        if not valid and n_none < 4:
            n_none += 1
            out += lst
        elif valid and n_edge < 8 and any("".join(b[i] for i in pos) in EDGE_VALUES for b in valid):
            n_edge += 1
            out += lst
    return out


def c06_streams(ctx):
    rng = ctx.rng
    n = 3 if ctx.quick else 40
    for cc in NATIONAL:
        if cc not in ctx.facts["iban_rows"]:
            continue
        pairs = national_candidates(ctx, cc, n)
        edge = national_edge_candidates(ctx, cc, 40 if ctx.quick else 400)
        valid = [b for b, v in pairs if v == "1"]
        invalid = [b for b, v in pairs if v == "0"]
        chosen = valid + rng.sample(invalid, min(len(invalid), max(6, 2 * len(valid)))) + [b for b, _v in edge]
        for b in chosen:
            tag = "accept-side" if b in valid else ("edge" if b not in invalid else "reject-side")
            yield Case("prop", "spec_published", [enc(cc), enc(b)], cc + "-" + tag, True)
            yield Case("corr", "validate_national", [enc(cc), enc(b)], cc + "-" + tag, True)
            iban = cc + iso_digits(cc, b) + b
            yield Case("prop", "spec_national_accept", [enc(iban)], cc + "-iban-" + tag, True)
            yield Case("corr", "iban_new", [enc(iban), "0", "1"], cc + "-iban-" + tag, True)
            yield Case("corr", "iban_validate", [enc(iban), "1"], cc + "-iban-" + tag, True)
            if tag != "accept-side" and (not ctx.quick or rng.random() < 0.5):
                # the same strict questions after lenient uses of the same text / on an object validated leniently before
                yield Case("prop", "spec_national_accept_after", [enc(iban)], cc + "-iban-after-lenient", True)
                yield Case("corr", "iban_validate_after", [enc(iban), "1"], cc + "-iban-after-lenient", True)
                yield Case("corr", "iban_new_after", [enc(iban), "0", "1"], cc + "-iban-after-lenient", True)
        # numbers asked nowhere else in this process: other uses first (lenient ones, twins of other countries), then strict
        for b in [x for x, v in national_candidates(ctx, cc, 1) if v == "0"][: (2 if ctx.quick else 8)]:
            iban = cc + iso_digits(cc, b) + b
            yield Case("prop", "spec_national_accept_after", [enc(iban)], cc + "-iban-after-other-uses", True)
        # single-digit perturbations of valid numbers
        for b in valid[: (4 if ctx.quick else 40)]:
            p = rng.randrange(len(b))
            if b[p] in DIGITS:
                m = b[:p] + str((int(b[p]) + rng.choice([1, 9])) % 10) + b[p + 1:]
                yield Case("prop", "spec_published", [enc(cc), enc(m)], cc + "-perturbed", True)
                yield Case("corr", "validate_national", [enc(cc), enc(m)], cc + "-perturbed", True)
    # countries without a national algorithm: national validation changes nothing (DE is C07)
    for cc in countries(ctx):
        if cc in TWEAK or cc == "DE":
            continue
        for _ in range(1 if ctx.quick else 6):
            v = valid_iban(ctx, cc)
            yield Case("prop", "spec_national_accept", [enc(v)], "unaffected", True)
            yield Case("corr", "iban_new", [enc(v), "0", "1"], "unaffected", True)
            yield Case("prop", "spec_published", [enc(cc), enc(v[4:])], "unaffected", True)
            w = v[:-1] + same_kind_other(ctx, v[-1])
            yield Case("prop", "spec_national_accept", [enc(w)], "unaffected-invalid", True)
    # national validation can only reject
    for t, tag, nt in c01_inputs(ctx):
        if ctx.quick and rng.random() < 0.8:
            continue
        if t[:2].upper() == "DE":
            continue
        yield Case("corr", "iban_new", [enc(t), "0", "1"], "only-rejects", nt)
        yield Case("prop", "spec_only_rejects", [enc(t)], "only-rejects", nt)


# ------------------------------------------------------------------------------------------------
# C08 / C09

def component_values(ctx, cc, k, width):
    """Strings to supply for a component of the given field width: exact, shorter, longer, combined, odd characters."""
    rng = ctx.rng
    row = ctx.facts["iban_rows"][cc]
    kinds = "".join(kk * n for n, _b, kk in parse_structure(row["bban_spec"]))
    s, e_ = (row.get("positions") or {}).get(k, [0, 0])
    pool = lambda i: KINDS[kinds[s + i]] if s + i < len(kinds) else DIGITS   # noqa: E731
    def conforming(n):
        return "".join(rng.choice(pool(i)) for i in range(n))
    vals = [conforming(width)]
    if width > 1:
        vals.append(conforming(rng.randrange(1, width)))
    vals.append(conforming(width) + rng.choice(DIGITS))
    vals.append("")
    if not ctx.quick or rng.random() < 0.5:
        v = conforming(width)
        if v:
            p = rng.randrange(len(v))
            vals.append(v[:p] + rng.choice("-+ _aZ٣.") + v[p + 1:])
            vals.append(" " + v[:p] + " " + v[p:].lower())
    return vals


def c08_inputs(ctx):
    rng = ctx.rng
    for cc in countries(ctx):
        row = ctx.facts["iban_rows"][cc]
        pos = row.get("positions") or {}
        w = {k: pos.get(k, [0, 0])[1] - pos.get(k, [0, 0])[0] for k in ("bank_code", "branch_code", "account_code")}
        banks = component_values(ctx, cc, "bank_code", w["bank_code"])
        if w["branch_code"]:
            comb = component_values(ctx, cc, "bank_code", w["bank_code"])[0] + component_values(ctx, cc, "branch_code", w["branch_code"])[0]
            banks += [comb, comb + rng.choice(DIGITS), comb + "99", comb[:-1]]
        branches = component_values(ctx, cc, "branch_code", w["branch_code"]) if w["branch_code"] else ["", "", "1", "123"]
        accounts = component_values(ctx, cc, "account_code", w["account_code"])
        n = 8 if ctx.quick else 60
        combos = [(rng.choice(banks), rng.choice(accounts), rng.choice(branches)) for _ in range(n)]
        combos.append((banks[0], accounts[0], branches[0] if w["branch_code"] else ""))
        for bk, ac, br in combos:
            yield cc, bk, ac, br
        # components left out (after calls that supplied them)
        yield cc, "", accounts[0], ""
        yield cc, banks[0], "", ""
    for cc in ("XX", "", "de", "D", "DE ", "ZZ"):
        yield cc, "12345678", "1234567890", ""


def c08_streams(ctx):
    # components that are too long by exactly what the library computes itself: the account code followed by the national
    # check digits (read off the MODEL's result for the plain components), the bank code followed by the branch code and more
    rng = ctx.rng
    trips = []
    for cc in sorted(COMPUTING):
        row = ctx.facts["iban_rows"].get(cc)
        pos = (row or {}).get("positions") or {}
        if "national_checksum_digits" not in pos:
            continue
        w = {k: pos.get(k, [0, 0])[1] - pos.get(k, [0, 0])[0] for k in ("bank_code", "branch_code", "account_code")}
        for _ in range(3 if ctx.quick else 20):
            trips.append((cc, [component_values(ctx, cc, k, w[k])[0] if w[k] else "" for k in ("bank_code", "account_code", "branch_code")]))
    res = ctx.spec_eval(["\t".join(["generate", enc(cc), enc(v[0]), enc(v[1]), enc(v[2])]) for cc, v in trips]) if trips else []
    for (cc, v), r in zip(trips, res):
        if not r.startswith("OK "):
            continue
        iban = dec(r[3:])
        s0, e0 = ctx.facts["iban_rows"][cc]["positions"]["national_checksum_digits"]
        digits = iban[4:][s0:e0]
        for ac in (v[1] + digits, digits + v[1], v[1] + digits[:1]):
            args = [enc(cc), enc(v[0]), enc(ac), enc(v[2])]
            yield Case("prop", "spec_generate", args, "account-with-check-digits", True)
            yield Case("corr", "generate", args, "account-with-check-digits", True)
    for cc, bk, ac, br in c08_inputs(ctx):
        args = [enc(cc), enc(bk), enc(ac), enc(br)]
        yield Case("prop", "spec_generate", args, "generate-" + (cc if cc in TWEAK or cc == "DE" else "other"), True)
        yield Case("corr", "generate", args, "generate", True)
        yield Case("corr", "from_components", [enc(cc), enc(bk), enc(br), enc(ac)], "from_components", True)
        if "" in (bk, br, ac):
            yield Case("corr", "from_components_partial", [enc(cc), enc(bk), enc(br), enc(ac)], "from_components-omitted", True)


def generated_post(cc):
    def post(impl_result):
        res, rest = impl_result.split(" ## ", 1)
        if res == "GEN":
            return "1", [enc(cc), rest]
        return "SKIP", ["-"]
    return post


def c09_streams(ctx):
    rng = ctx.rng
    # the check-digit component supplied as well (wrong, right, empty): what is built is nationally valid all the same
    for cc in sorted(COMPUTING):
        row = ctx.facts["iban_rows"].get(cc)
        pos = (row or {}).get("positions") or {}
        if "national_checksum_digits" not in pos:
            continue
        w = {k: pos.get(k, [0, 0])[1] - pos.get(k, [0, 0])[0] for k in ("bank_code", "branch_code", "account_code", "national_checksum_digits")}
        for _ in range(2 if ctx.quick else 10):
            bk, ac, br = [component_values(ctx, cc, k, w[k])[0] if w[k] else "" for k in ("bank_code", "account_code", "branch_code")]
            for nat in (component_values(ctx, cc, "national_checksum_digits", w["national_checksum_digits"])[0], "0" * w["national_checksum_digits"], ""):
                yield Case("prop", "spec_components_national", [enc(cc), enc(bk), enc(ac), enc(br), enc(nat)], "supplied-check-digits", True)
    # other spellings of the country code: whatever generate makes of them, what it returns must be nationally valid
    for cc in sorted(COMPUTING):
        row = ctx.facts["iban_rows"].get(cc)
        if not row or not row.get("positions"):
            continue
        pos = row["positions"]
        w = {k: pos.get(k, [0, 0])[1] - pos.get(k, [0, 0])[0] for k in ("bank_code", "branch_code", "account_code")}
        bk, ac, br = [component_values(ctx, cc, k, w[k])[0] if w[k] else "" for k in ("bank_code", "account_code", "branch_code")]
        for sp in (cc.lower(), cc.title(), " " + cc + " ", cc[0].lower() + cc[1]):
            yield Case("prop", "spec_generate_national", [enc(sp), enc(bk), enc(ac), enc(br)], "computed-validates-spelling", True)
            yield Case("corr", "generate", [enc(sp), enc(bk), enc(ac), enc(br)], "generate-spelling", True)
    # what generate computes for a country the property names is what that country's PUBLISHED rule accepts (asked from
    # the extracted specification, not from the library's own validation - which could be missing altogether)
    for cc in sorted(COMPUTING):
        row = ctx.facts["iban_rows"].get(cc)
        if not row or not row.get("positions"):
            continue
        pos = row["positions"]
        w = {k: pos.get(k, [0, 0])[1] - pos.get(k, [0, 0])[0] for k in ("bank_code", "branch_code", "account_code")}
        for _ in range(3 if ctx.quick else 30):
            bk, ac, br = [component_values(ctx, cc, k, w[k])[0] if w[k] else "" for k in ("bank_code", "account_code", "branch_code")]
            yield Case("prop", "generated_published", [enc(cc), enc(bk), enc(ac), enc(br)], "generated-is-published-" + cc, True,
                       "eq", None, generated_post(cc))
    for cc, bk, ac, br in c08_inputs(ctx):
        if (cc in TWEAK and cc not in ("CZ", "SK", "IS")) or (cc not in TWEAK and ctx.rng.random() < 0.2):
            args = [enc(cc), enc(bk), enc(ac), enc(br)]
            yield Case("prop", "spec_generate_national", args, "computed-validates-" + cc, True)
            yield Case("corr", "generate", args, "generate", True)
    # computed national digits at the ends of their range (00/01/02/97/98/99, 0, 9, A, Z): found by scanning component
    # triples through the MODEL's generate and reading the digits off the model's result
    for cc in sorted(COMPUTING):
        row = ctx.facts["iban_rows"].get(cc)
        if not row or not row.get("positions") or "national_checksum_digits" not in row["positions"]:
            continue
        pos = row["positions"]
        w = {k: pos.get(k, [0, 0])[1] - pos.get(k, [0, 0])[0] for k in ("bank_code", "branch_code", "account_code")}
        trip = []
        for _ in range(120 if ctx.quick else 1200):
            trip.append((component_values(ctx, cc, "bank_code", w["bank_code"])[0],
                         component_values(ctx, cc, "account_code", w["account_code"])[0],
                         component_values(ctx, cc, "branch_code", w["branch_code"])[0] if w["branch_code"] else ""))
        res = ctx.spec_eval(["\t".join(["generate", enc(cc), enc(bk), enc(ac), enc(br)]) for bk, ac, br in trip])
        s0, e0 = pos["national_checksum_digits"]
        kept = 0
        for (bk, ac, br), r_ in zip(trip, res):
            if not r_.startswith("OK "):
                continue
            iban = dec(r_[3:])
            if iban[4:][s0:e0] in EDGE_VALUES and kept < (8 if ctx.quick else 60):
                kept += 1
                args = [enc(cc), enc(bk), enc(ac), enc(br)]
                yield Case("prop", "spec_generate_national", args, "computed-edge-" + cc, True)
                yield Case("corr", "generate", args, "generate-edge", True)
    # rebuild: nationally valid IBANs of every country with positions
    n = 2 if ctx.quick else 20
    for cc in NATIONAL:
        if cc not in ctx.facts["iban_rows"]:
            continue
        valid = [b for b, v in national_candidates(ctx, cc, n) if v == "1"]
        edge = [b for b, _v in national_edge_candidates(ctx, cc, 30 if ctx.quick else 300)]
        for b in valid[: (3 if ctx.quick else 40)] + edge:
            iban = cc + iso_digits(cc, b) + b
            yield Case("prop", "spec_rebuild", [enc(iban)], "rebuild-" + cc, True)
            yield Case("corr", "iban_decomp", [enc(iban), ";".join(enc(x) for x in ctx.facts["components"])], "rebuild-decomp", True)
    for cc in countries(ctx):
        if cc in TWEAK or cc == "DE":
            continue
        for _ in range(1 if ctx.quick else 5):
            yield Case("prop", "spec_rebuild", [enc(valid_iban(ctx, cc))], "rebuild-other", True)


# ------------------------------------------------------------------------------------------------
# C13

def random_post(case_args):
    def post(impl_result):
        if " ## " not in impl_result:
            return impl_result, None
        res, log = impl_result.split(" ## ", 1)
        lg = json.loads(log)
        kind, cc, ur, pins, _seed = case_args
        return res, [kind, cc, ur, pins, str(lg["ci"]), str(lg["bi"]), ";".join(lg["draws"])]
    return post


def pins_str(pins):
    return ";".join(enc(k) + "=" + enc(v) for k, v in pins.items())


def c13_cases(ctx):
    rng = ctx.rng
    ccs = countries(ctx)
    n_seeds = 1 if ctx.quick else 6
    with_banks = {b[0] for b in ctx.facts["banks"] if b[1]}
    for cc in ccs + [""]:
        row = ctx.facts["iban_rows"].get(cc, {})
        pos = row.get("positions") or {}
        for _ in range(n_seeds):
            for ur in ("1", "0"):
                seed = rng.randrange(10 ** 6)
                yield cc, ur, {}, seed
        if cc in with_banks:
            # registry-backed draws: several seeds even in the quick tier (a draw that misses the registry is a matter of chance)
            for _ in range(3 if ctx.quick else 6):
                yield cc, "1", {}, rng.randrange(10 ** 6)
            # pinned components taken from a valid IBAN of the country
            if cc and pos:
                b = random_bban(ctx, cc)
                names = [k for k in pos if pos[k][1] > pos[k][0]]
                for k in (names if not ctx.quick else rng.sample(names, min(2, len(names)))):
                    s, e_ = pos[k]
                    yield cc, rng.choice("10"), {k: b[s:e_]}, rng.randrange(10 ** 6)
                if len(names) >= 2:
                    ks = rng.sample(names, 2)
                    yield cc, rng.choice("10"), {k: b[pos[k][0]:pos[k][1]] for k in ks}, rng.randrange(10 ** 6)
                # malformed pins: longer than the field, out-of-class characters
                k = rng.choice(names)
                s, e_ = pos[k]
                yield cc, rng.choice("10"), {k: b[s:e_] + "7"}, rng.randrange(10 ** 6)
                yield cc, rng.choice("10"), {k: "-" + b[s:e_][1:]}, rng.randrange(10 ** 6)
                # the same value typed with full-width / Arabic-Indic digits and accented or full-width capitals
                fw = "".join(chr(0xFF10 + int(ch)) if ch in DIGITS else chr(0xFF21 + ord(ch) - 65) for ch in b[s:e_])
                ai = "".join(chr(0x0660 + int(ch)) if ch in DIGITS else {"A": "\u00c4", "E": "\u00c9", "O": "\u00d6"}.get(ch, ch) for ch in b[s:e_])
                yield cc, rng.choice("10"), {k: fw}, rng.randrange(10 ** 6)
                if ai != b[s:e_]:
                    yield cc, rng.choice("10"), {k: ai}, rng.randrange(10 ** 6)
            if cc and not pos:
                yield cc, "0", {"bank_code": "1"}, rng.randrange(10 ** 6)


HASHSEED_SCRIPT = r"""
import sys, random
sys.path.insert(0, sys.argv[1])
from schwifty import IBAN, BBAN
out = []
for seed in (1, 7, 424242):
    for cc in ("", "DE", "PL", "IT", "GB", "NO", "MU", "AO"):
        for ur in (True, False):
            try:
                out.append(str(IBAN.random(cc, random=random.Random(seed), use_registry=ur)))
            except Exception as e:
                out.append(type(e).__name__)
            try:
                out.append(str(BBAN.random(cc, random=random.Random(seed), use_registry=ur, account_code="1")))
            except Exception as e:
                out.append(type(e).__name__)
print("|".join(out))
"""


def hashseed_sweep(ctx):
    """Equally seeded draws must be identical in every process and under every hash seed."""
    repo = os.environ.get("VERIF_REPO", "/repo")
    seeds = ["0", "1", "2", "12345", "random"] if ctx.quick else ["0", "1", "2", "3", "77", "12345", "4294967295", "random", "random"]
    results = {}
    for hs in seeds:
        env = dict(os.environ)
        env.update({"PYTHONHASHSEED": hs, "PYTHONPATH": repo})
        r = subprocess.run(["/venv/bin/python", "-c", HASHSEED_SCRIPT, repo], capture_output=True, text=True, env=env, timeout=600)
        if r.returncode != 0:
            return {"ok": False, "cases": len(results), "detail": "subprocess failed: " + r.stderr[-300:]}
        results.setdefault(r.stdout.strip(), []).append(hs)
    if len(results) != 1:
        groups = list(results.values())
        return {"ok": False, "cases": len(seeds),
                "violation": {"call": "IBAN.random / BBAN.random with random.Random(seed) under PYTHONHASHSEED",
                              "args": [], "args_shown": [f"hash seeds giving different results: {groups}"],
                              "observed_implementation": "results differ between processes", "expected_by_spec": "identical"}}
    return {"ok": True, "cases": len(seeds) * 96}


def c13_streams(ctx):
    # plain seeded draws (nothing patched): compared with themselves in the opposite order, under -OO, from several threads and
    # under interleavings - equally seeded draws agree whatever else is going on
    rng = ctx.rng
    for cc in rng.sample(countries(ctx), 6 if ctx.quick else 40) + ["", "DE", "NO"]:
        for kind in ("bban", "iban"):
            yield Case("self", "random_plain", [kind, enc(cc), rng.choice("10"), "-", str(rng.randrange(10 ** 6))], "seeded-draw", True)
    for cc, ur, pins, seed in c13_cases(ctx):
        for kind in ("bban", "iban"):
            args = [kind, enc(cc), ur, pins_str(pins), str(seed)]
            yield Case("prop", "spec_random", args, "random-" + ("pinned" if pins else "free"), True)
            yield Case("corr", "random", args, "random-" + ("pinned" if pins else "free"), True, "eq", None, random_post(args))


# ------------------------------------------------------------------------------------------------
# C14 / C15

def c14_pairs(ctx):
    rng = ctx.rng
    pairs = []
    methods = german_methods(ctx)
    for m in (methods if not ctx.quick else rng.sample(methods, 5) + ["02", "16", "25"]):
        accs = german_accounts(ctx, 4 if ctx.quick else 16) + ["0000001211", "0000000014"]
        for _ in range(1 if ctx.quick else 8):
            a1, a2 = rng.sample(accs, 2)
            pairs.append(({"kind": "algo_validate", "key": "DE:" + m, "account": a1},
                          {"kind": "algo_validate", "key": "DE:" + m, "account": a2}))
        pairs.append(({"kind": "algo_validate", "key": "DE:" + m, "account": "0000001211"},
                      {"kind": "algo_compute", "key": "DE:" + m, "account": "0000000014"}))
    # cross-method pairs that share a class hierarchy, and public API calls routed to the same singleton
    for _ in range(3 if ctx.quick else 40):
        m1, m2 = rng.sample(methods, 2)
        pairs.append(({"kind": "algo_validate", "key": "DE:" + m1, "account": german_accounts(ctx, 1)[0]},
                      {"kind": "algo_validate", "key": "DE:" + m2, "account": german_accounts(ctx, 1)[0]}))
    tsv = os.path.join(os.path.dirname(HERE), "coq", "theories", "Gen", "banks.tsv")
    de = [dec(l.split("\t")[2]) for l in open(tsv) if dec(l.split("\t")[1]) == "DE" and l.split("\t")[5].strip() not in ("none",)]
    for _ in range(2 if ctx.quick else 30):
        ibans = []
        for _k in range(2):
            b = rng.choice(de) + german_accounts(ctx, 1)[0]
            ibans.append("DE" + iso_digits("DE", b) + b)
        pairs.append(({"kind": "iban", "text": ibans[0]}, {"kind": "iban", "text": ibans[1]}))
    for cc in (["ES", "IT"] if ctx.quick else NATIONAL):
        if cc in ctx.facts["iban_rows"]:
            pairs.append(({"kind": "iban", "text": valid_iban(ctx, cc)}, {"kind": "iban", "text": valid_iban(ctx, cc)}))
    pairs.append(({"kind": "from_bank_code", "cc": "DE", "code": "43060967"}, {"kind": "from_bank_code", "cc": "DE", "code": "01010101"}))
    pairs.append(({"kind": "generate", "cc": "DE", "bank": "43060967", "account": "532013000"},
                  {"kind": "iban", "text": "DE89370400440532013000"}))
    pairs.append(({"kind": "bic", "text": "GENODEM1GLS"}, {"kind": "iban", "text": "DE89370400440532013000", "validate_bban": False}))
    # the same bank's registry entries read by two lookups at once (names, domestic codes, existence), and by the same lookup twice
    seen = {}
    for cc, code, bic in ctx.facts["banks"]:
        if bic:
            seen[bic] = seen.get(bic, 0) + 1
    multi = sorted(b for b, n in seen.items() if n >= 2)
    single = sorted(b for b, n in seen.items() if n == 1)
    for bic in rng.sample(multi, min(len(multi), 3 if ctx.quick else 12)) + rng.sample(single, min(len(single), 2 if ctx.quick else 6)):
        look = [{"kind": "runner", "fn": fn, "args": [enc(bic)]} for fn in ("bic_names", "bic_domestic", "bic_short_names")]
        pairs.append((look[0], look[1]))
        pairs.append((look[0], look[0]))
        pairs.append((look[2], look[1]))
    # building for different countries at the same time (anything shared between calls of from_components / generate)
    gen = [{"kind": "generate", "cc": "DE", "bank": "37040044", "account": "0532013000"},
           {"kind": "generate", "cc": "GB", "bank": "NWBK", "account": "31926819", "branch": "601613"},
           {"kind": "generate", "cc": "NL", "bank": "ABNA", "account": "0417164300"},
           {"kind": "generate", "cc": "IT", "bank": "05428", "account": "000000123456", "branch": "11101"},
           {"kind": "generate", "cc": "DE", "bank": "37040044", "account": "05320130AB"}]
    for i in range(len(gen)):
        for j in range(len(gen)):
            if i != j and (not ctx.quick or rng.random() < 0.5):
                pairs.append((gen[i], gen[j]))
    return pairs


def schedules(ctx):
    """C14 on the implementation: every 'T2 runs atomically after k source lines of T1' schedule (all k, both orders) and
    random fine-grained schedules, for pairs of calls routed to the same shared objects."""
    pairs = c14_pairs(ctx)
    env = dict(os.environ)
    env.update({"PYTHONPATH": os.environ.get("VERIF_REPO", "/repo"), "PYTHONHASHSEED": "0",
                "VERIF_FACTS": os.path.join(os.path.dirname(HERE), "coq", "theories", "Gen", "facts.json")})
    # the pairs are independent: explore them in parallel processes (each process is still fully deterministic)
    nshards = max(1, min(12, len(pairs) // 4))
    procs = []
    for i in range(nshards):
        job = {"pairs": pairs[i::nshards], "seed": ctx.seed + i, "random_schedules": 3 if ctx.quick else 12}
        pr = subprocess.Popen(["/venv/bin/python", os.path.join(HERE, "sched.py"), "explore"], stdin=subprocess.PIPE,
                              stdout=subprocess.PIPE, stderr=subprocess.PIPE, text=True, env=env)
        pr.stdin.write(json.dumps(job))
        pr.stdin.close()
        procs.append(pr)
    out = {"runs": 0, "pairs": 0, "fails": []}
    for pr in procs:
        try:
            pr.wait(timeout=3000)
        except subprocess.TimeoutExpired:
            pr.kill()
            return {"ok": False, "cases": out["runs"], "detail": "sched.py timed out"}
        so, se = pr.stdout.read(), pr.stderr.read()
        if pr.returncode != 0 or not so.strip():
            return {"ok": False, "cases": out["runs"], "detail": "sched.py failed: " + se[-400:]}
        o = json.loads(so.strip().splitlines()[-1])
        out["runs"] += o["runs"]
        out["pairs"] += o["pairs"]
        out["fails"].extend(o["fails"])
    ctx.cache["sched_stats"] = {"pairs": out["pairs"], "schedules": out["runs"]}
    if out["fails"]:
        f = out["fails"][0]
        return {"ok": False, "cases": out["runs"], "kind": "schedule",
                "violation": {"kind": "schedule", "call": "two concurrent calls", "args": [], "calls": f.get("calls"),
                              "schedule": f.get("schedule"), "args_shown": [json.dumps(f.get("calls"))],
                              "observed_implementation": json.dumps(f.get("interleaved", f.get("error"))),
                              "expected_by_spec": json.dumps(f.get("solo")), "trace_tail": f.get("trace_tail")}}
    return {"ok": True, "cases": out["runs"]}


def c14_streams(ctx):
    # the same library calls, sequentially, against the model (the model is pure: any dependence on shared state shows)
    for m in german_methods(ctx):
        for a in ["0000001211", "0000000014"] + german_accounts(ctx, 3 if ctx.quick else 30):
            yield Case("corr", "algo_validate", [enc("DE:" + m), enc(a), "-"], "sequential-DE:" + m, True)


def history_orders(ctx):
    """C15 on the implementation: the same calls in two different orders in two fresh processes must give the same
    per-call results; the registries and earlier objects must be unchanged at the end."""
    rng = ctx.rng
    cases = []
    for gen in (c07_streams, c06_streams, c08_streams, c12_streams, c04_streams):
        try:
            cs = [c for c in gen(ctx) if c.post is None]
        except Exception:  # noqa: BLE001
            cs = []
        rng.shuffle(cs)
        cases += cs[: (150 if ctx.quick else 2500)]
    cases += list(c12_targeted(ctx)) + twin_cases(ctx) + property_reads(ctx)
    lines = ["\t".join([c.fn, *c.args]) for c in cases]
    lines = ["history_probe\tbegin"] + lines + ["history_probe\tend"]
    facts_path = os.path.join(os.path.dirname(HERE), "coq", "theories", "Gen", "facts.json")

    def run(ls):
        env = dict(os.environ)
        env.update({"PYTHONPATH": os.environ.get("VERIF_REPO", "/repo"), "PYTHONHASHSEED": "0", "VERIF_FACTS": facts_path})
        r = subprocess.run(["/venv/bin/python", os.path.join(HERE, "impl_runner.py")], input="\n".join(ls) + "\n",
                           capture_output=True, text=True, env=env, timeout=3000)
        return r.stdout.split("\n")[:-1]
    a = run(lines)
    perm = list(range(1, len(lines) - 1))
    rng.shuffle(perm)
    lines_b = [lines[0]] + [lines[i] for i in perm] + [lines[-1]]
    b = run(lines_b)
    if len(a) != len(lines) or len(b) != len(lines):
        return {"ok": False, "cases": 0, "detail": "runner failed"}
    if a[0] != a[-1] or b[0] != b[-1]:
        return {"ok": False, "cases": len(lines), "violation": {
            "kind": "history", "call": "registry / object snapshot before and after the history", "args": [],
            "args_shown": [f"{len(lines) - 2} calls"], "observed_implementation": (a[-1] if a[0] != a[-1] else b[-1])[:300],
            "expected_by_spec": a[0][:300]}}
    for pos, i in enumerate(perm):
        if a[i] != b[pos + 1]:
            return {"ok": False, "cases": len(lines), "violation": {
                "kind": "history", "call": lines[i].split("\t")[0], "args": lines[i].split("\t")[1:],
                "args_shown": [show_arg(x) for x in lines[i].split("\t")[1:]],
                "history_a": lines[1:i][-20:], "history_b": lines_b[1:pos + 1][-20:],
                "observed_implementation": b[pos + 1], "expected_by_spec": a[i]}}
    return {"ok": True, "cases": 2 * len(lines)}


def twin_cases(ctx):
    """Calls whose arguments coincide in part: IBANs of different countries carrying the very same BBAN string (their BBAN
    objects are equal as strings and hash alike), decomposed one after the other in both orders.  State keyed by part of
    the identity of an object - a cache on the compact string, say - shows up as a wrong component in the second call."""
    rng = ctx.rng
    names = ";".join(enc(x) for x in ctx.facts["components"])
    groups = {}
    for cc in countries(ctx):
        row = ctx.facts["iban_rows"][cc]
        kinds = "".join(k * n for n, _b, k in parse_structure(row["bban_spec"]))
        groups.setdefault(kinds, []).append(cc)
    bylen = {}
    for cc in countries(ctx):
        bylen.setdefault(ctx.facts["iban_rows"][cc]["bban_length"], []).append(cc)
    pairs = []
    for g in groups.values():
        if len(g) >= 2:
            for _ in range(2 if ctx.quick else 6):
                pairs.append(tuple(rng.sample(g, 2)))
    for g in bylen.values():
        if len(g) >= 2:
            pairs.append(tuple(rng.sample(g, 2)))
    out = []
    for c1, c2 in pairs:
        b = random_bban(ctx, c1)
        for x, y in ((c1, c2), (c2, c1)):
            b = random_bban(ctx, c1)
            for cc in (x, y):
                out.append(Case("corr", "iban_decomp", [enc(cc + iso_digits(cc, b) + b), names], "twin-bban", True))
    return out


def registry_unchanged(ctx):
    """C17 is about the data the library works with: ordinary use (random generation with pinned components drawing on the
    registry, generation, lookups, validation) must leave the in-memory registries and indexes as they were loaded.
    A digest of all registries is taken before the history and after every call."""
    rng = ctx.rng
    banks = ctx.facts["banks"]
    by_cc = {}
    for cc, code, _bic in banks:
        if code:
            by_cc.setdefault(cc, []).append(code)
    calls = []
    ccs = sorted(by_cc)
    for cc in (ccs if not ctx.quick else rng.sample(ccs, min(len(ccs), 5))):
        row = ctx.facts["iban_rows"].get(cc)
        pos = (row or {}).get("positions") or {}
        if not pos:
            continue
        other = rng.choice(by_cc[cc])
        pins = [{"bank_code": other}, {"account_code": "1"}]
        if pos.get("branch_code", [0, 0])[1] > pos.get("branch_code", [0, 0])[0]:
            pins.append({"branch_code": "1"})
        for pin in pins:
            for kind in ("bban", "iban"):
                calls.append(Case("corr", "random", [kind, enc(cc), "1", pins_str(pin), str(rng.randrange(10 ** 6))], "use", True))
        calls.append(Case("corr", "from_bank_code", [enc(cc), enc(other)], "use", True))
        calls.append(Case("corr", "candidates", [enc(cc), enc(other)], "use", True))
        b = bban_around(ctx, cc, other)
        if b:
            calls.append(Case("corr", "iban_bank_lookup", [enc(cc), enc(b)], "use", True))
    lines = ["history_probe\tbegin"]
    for c in calls:
        lines += ["\t".join([c.fn, *c.args]), "history_probe\tafter"]
    facts_path = os.path.join(os.path.dirname(HERE), "coq", "theories", "Gen", "facts.json")
    env = dict(os.environ)
    env.update({"PYTHONPATH": os.environ.get("VERIF_REPO", "/repo"), "PYTHONHASHSEED": "0", "VERIF_FACTS": facts_path})
    r = subprocess.run(["/venv/bin/python", os.path.join(HERE, "impl_runner.py")], input="\n".join(lines) + "\n",
                       capture_output=True, text=True, env=env, timeout=3000)
    out = r.stdout.split("\n")[:-1]
    if len(out) != len(lines):
        return {"ok": False, "cases": 0, "detail": "runner failed: " + r.stderr[-300:]}
    for i in range(2, len(out), 2):
        if out[i] != out[0]:
            call = lines[i - 1].split("\t")
            return {"ok": False, "cases": len(calls), "violation": {
                "kind": "history", "call": call[0], "args": call[1:], "args_shown": [show_arg(x) for x in call[1:]],
                "history_a": [l for l in lines[1:i - 1] if not l.startswith("history_probe")][-10:],
                "observed_implementation": "the digest of the in-memory registries and indexes changed during this call",
                "expected_by_spec": "unchanged (the bundled data are what the files say, before and after any use)"}}
    return {"ok": True, "cases": len(calls)}


def property_reads(ctx):
    """every public property of IBAN / BIC / BBAN objects read (properties are read-only in effect), among them objects of
    countries the IBAN table has but pycountry's database has not, followed by BIC questions about those countries"""
    rng = ctx.rng
    out = []
    odd = [cc for cc in countries(ctx) if cc not in ctx.facts["iso3166"]]
    for cc in odd + rng.sample(countries(ctx), 4 if ctx.quick else 30):
        v = valid_iban(ctx, cc)
        bic = "AAAA" + cc + "AA"
        out.append(Case("corr", "bic_new", [enc(bic), "0", "0"], "property-reads", True))
        out.append(Case("self", "touch_all", ["iban", enc(v)], "property-reads", True))
        out.append(Case("self", "touch_all", ["bban", enc(cc + v[4:])], "property-reads", True))
        out.append(Case("self", "touch_all", ["bic", enc(bic)], "property-reads", True))
        out.append(Case("corr", "bic_new", [enc(bic), "0", "0"], "property-reads", True))
        out.append(Case("corr", "bic_is_valid", [enc(bic + "XXX")], "property-reads", True))
    return out


def c15_streams(ctx):
    # one long history inside a single implementation process, every call compared with the (pure) model
    rng = ctx.rng
    cases = []
    for gen in (c07_streams, c06_streams, c04_streams, c12_streams):
        cs = [c for c in gen(ctx) if c.kind == "corr" and c.post is None]
        rng.shuffle(cs)
        cases += cs[: (400 if ctx.quick else 6000)]
    # method 88 and other account-dependent position rules: accounts with every third digit, in both orders
    for a in ["0092525253", "0011234560", "0099913003", "0052525259", "0012525259", "0092525253"]:
        cases.append(Case("corr", "algo_validate", [enc("DE:88"), enc(a), "-"], "history-88", True))
    tail = list(c12_targeted(ctx)) + twin_cases(ctx) + property_reads(ctx)
    rng.shuffle(cases)
    cases += tail
    for c in cases:
        c.tag = "history-" + c.fn
        yield c


# ------------------------------------------------------------------------------------------------
# C16

PICKLE_A = r"""
import sys, pickle, copy
sys.path.insert(0, sys.argv[1])
from schwifty import IBAN, BIC, BBAN
objs = []
for kind, t in eval(sys.argv[2]):
    o = IBAN(t, allow_invalid=True) if kind == "iban" else BIC(t, allow_invalid=True) if kind == "bic" else BBAN(t[:2], t[2:])
    # used the way values are used before they are stored: as a dict key / set member, compared, sorted, accessors read
    d = {o: 1}; s = {o}; hash(o); o == str(o); sorted([o, o]); str(o)
    for n in ("formatted", "country_code", "bban", "bank_code", "is_valid"):
        try:
            getattr(o, n)
        except Exception:
            pass
    objs.append((kind, t, o, copy.copy(o), copy.deepcopy(o)))
sys.stdout.write(pickle.dumps(objs).hex())
"""

PICKLE_B = r"""
import sys, pickle
sys.path.insert(0, sys.argv[1])
from schwifty import IBAN, BIC, BBAN
objs = pickle.loads(bytes.fromhex(sys.stdin.read()))
bad = []
for kind, t, *os_ in objs:
    for o in os_:
        c = str(o)
        if hash(o) != hash(c):
            bad.append((kind, t, "hash differs from the hash of the compact string"))
        elif {c: 1}.get(o) != 1 or o not in {c} or c not in {o}:
            bad.append((kind, t, "not found as a dict key / set member under its compact string"))
        elif not (o == c and c == o) or (o != c):
            bad.append((kind, t, "not equal to its compact string"))
print(repr(bad[:5]))
"""


def pickle_across(ctx):
    """C16 across interpreters: objects that were used (hashed, compared, read) in one process, pickled there and
    unpickled in another process with a different string-hash seed still behave as their compact strings."""
    rng = ctx.rng
    repo = os.environ.get("VERIF_REPO", "/repo")
    items = [("iban", valid_iban(ctx, cc)) for cc in rng.sample(countries(ctx), 6 if ctx.quick else 40)]
    items += [("bic", random_bic(ctx)) for _ in range(4 if ctx.quick else 20)]
    items += [("bban", t[:2] + t[4:]) for _k, t in items[:6]] + [("iban", "DE00"), ("bic", "XX"), ("iban", "")]
    out = None
    for sa, sb in (("1", "2"), ("0", "random")):
        ea, eb_ = dict(os.environ), dict(os.environ)
        ea.update({"PYTHONHASHSEED": sa, "PYTHONPATH": repo})
        eb_.update({"PYTHONHASHSEED": sb, "PYTHONPATH": repo})
        a = subprocess.run(["/venv/bin/python", "-c", PICKLE_A, repo, repr(items)], capture_output=True, text=True, env=ea, timeout=600)
        if a.returncode != 0:
            return {"ok": False, "cases": 0, "detail": "pickling process failed: " + a.stderr[-300:]}
        b = subprocess.run(["/venv/bin/python", "-c", PICKLE_B, repo], input=a.stdout, capture_output=True, text=True, env=eb_, timeout=600)
        if b.returncode != 0:
            return {"ok": False, "cases": len(items), "violation": {
                "kind": "history", "call": "pickle in one process, unpickle in another", "args": [], "args_shown": [repr(items[:3])],
                "observed_implementation": "unpickling failed: " + b.stderr[-300:], "expected_by_spec": "equal objects"}}
        out = b.stdout.strip()
        if out != "[]":
            return {"ok": False, "cases": len(items), "violation": {
                "kind": "history", "call": "used (hashed, compared) in one process, pickled, unpickled in another (other hash seed)",
                "args": [], "args_shown": [out[:400]],
                "observed_implementation": out[:400], "expected_by_spec": "hash, dict/set lookup and equality are those of the compact string"}}
    return {"ok": True, "cases": 2 * 3 * len(items)}


def c16_streams(ctx):
    rng = ctx.rng
    texts = []
    for cc in rng.sample(countries(ctx), 12 if ctx.quick else 126):
        texts.append(("iban", valid_iban(ctx, cc)))
    texts += [("bic", random_bic(ctx)) for _ in range(8 if ctx.quick else 80)]
    texts += [("iban", t) for t in ("", "DE", "DE00", "de89 3704 0044 0532 0130 00", "XX12", "DE8937040044053201300")]
    texts += [("bic", t) for t in ("", "XX", "GENODEM1GLS", "genodem1", "GENOD")]
    for k, t in list(texts):
        if k == "iban" and len(t) > 6:
            texts.append(("bban", t[:2] + t[4:]))
    texts += [("bban", "DE"), ("bban", "XX123"), ("bban", "")]
    for k, t in texts:
        yield Case("prop", "spec_copies", [k, enc(t)], "copies-" + k, True)
    # IBANs of one country whose check digits order opposite to their BBANs
    for cc in rng.sample(countries(ctx), 6 if ctx.quick else 60):
        pool = [valid_iban(ctx, cc) for _ in range(12)]
        for a in pool:
            for b_ in pool:
                if a[2:4] < b_[2:4] and a[4:] > b_[4:]:
                    yield Case("prop", "spec_value_laws", ["iban", enc(a), "iban", enc(b_)], "value-laws-same-country", True)
                    yield Case("prop", "spec_value_laws", ["iban", enc(b_), "iban", enc(a)], "value-laws-same-country", True)
    # values that some notion of "the same bank / the same account" would identify although their compact strings differ:
    # BIC8 and BIC11 with branch XXX, IBANs of two countries with one BBAN, texts differing in case or white space only
    for k, t in list(texts):
        if k == "bic" and len(t) == 8:
            for a, b_ in ((t, t + "XXX"), (t + "XXX", t)):
                yield Case("prop", "spec_value_laws", ["bic", enc(a), "bic", enc(b_)], "value-laws-near-twins", True)
                yield Case("prop", "spec_value_laws", ["bic", enc(a), "str", enc(b_)], "value-laws-near-twins", True)
    for _ in range(4 if ctx.quick else 30):
        b = random_bic(ctx, False)
        yield Case("prop", "spec_value_laws", ["bic", enc(b), "bic", enc(b + "XXX")], "value-laws-near-twins", True)
        yield Case("prop", "spec_value_laws", ["bic", enc(b + "XXX"), "bic", enc(b)], "value-laws-near-twins", True)
    bylen = {}
    for cc in countries(ctx):
        bylen.setdefault(ctx.facts["iban_rows"][cc]["bban_length"], []).append(cc)
    for g in [g for g in bylen.values() if len(g) >= 2][: (4 if ctx.quick else 40)]:
        c1, c2 = rng.sample(g, 2)
        b = random_bban(ctx, c1)
        i1, i2 = c1 + iso_digits(c1, b) + b, c2 + iso_digits(c2, b) + b
        yield Case("prop", "spec_value_laws", ["iban", enc(i1), "iban", enc(i2)], "value-laws-near-twins", True)
        yield Case("prop", "spec_value_laws", ["bban", enc(c1 + b), "bban", enc(c2 + b)], "value-laws-near-twins", True)
        yield Case("prop", "spec_value_laws", ["iban", enc(i1), "iban", enc(i1.lower())], "value-laws-near-twins", True)
    strs = [("str", t) for _k, t in texts[:20]] + [("str", ""), ("str", "A"), ("str", "a")]
    allv = texts + strs
    for _ in range(300 if ctx.quick else 6000):
        (k1, t1), (k2, t2) = rng.choice(allv), rng.choice(allv)
        if rng.random() < 0.3:
            t2 = t1                      # equal values of different kinds
        if k1 == "str" and k2 == "str":
            continue
        yield Case("prop", "spec_value_laws", [k1, enc(t1), k2, enc(t2)], "value-laws", True)


# ------------------------------------------------------------------------------------------------
# C07

def german_methods(ctx):
    return sorted(k[3:] for k in ctx.facts["algorithms"] if k.startswith("DE:"))


def german_literals(ctx):
    """Boundary accounts harvested from the integer / string literals of germany.py (+-1)."""
    if "gl" in ctx.cache:
        return ctx.cache["gl"]
    repo = os.environ.get("VERIF_REPO", "/repo")
    src = open(os.path.join(repo, "schwifty", "checksum", "germany.py"), encoding="utf-8").read()
    vals = set()
    for m in re.finditer(r"(?<![\w.])(\d[\d_]{2,})(?![\w.])", src):
        v = int(m.group(1).replace("_", ""))
        if v < 10 ** 10:
            vals |= {v - 1, v, v + 1, v * 10, v * 10 - 1}
    for m in re.finditer(r'"(\d{10})"', src):
        v = int(m.group(1))
        vals |= {v - 1, v, v + 1}
    ctx.cache["gl"] = sorted(str(v).zfill(10) for v in vals if 0 <= v < 10 ** 10)
    return ctx.cache["gl"]


def german_accounts(ctx, n):
    rng = ctx.rng
    out = []
    for _ in range(n):
        kind = rng.random()
        if kind < 0.55:
            a = "".join(rng.choice(DIGITS) for _ in range(10))
        elif kind < 0.8:                     # leading zeros (short account numbers)
            k = rng.randrange(1, 9)
            a = "0" * k + "".join(rng.choice(DIGITS) for _ in range(10 - k))
        elif kind < 0.9:                     # trailing zeros / special digits at the positions the methods look at
            a = "".join(rng.choice("0899") for _ in range(10))
        else:
            a = rng.choice(["0", "00", "9"]) + "".join(rng.choice(DIGITS) for _ in range(9))
            a = a[:10].ljust(10, "0")
        out.append(a)
    return out


def c07_method_cases(ctx, m, n):
    key = enc("DE:" + m)
    accs = german_accounts(ctx, n) + german_literals(ctx)
    for a in accs:
        yield Case("corr", "algo_validate", [key, enc(a), "-"], "DE:" + m, True)
        yield Case("prop", "spec_german", [enc(m), enc(a)], "DE:" + m + "-spec", True)
    for a in german_accounts(ctx, max(2, n // 10)):
        for d in DIGITS:
            for pos in (9, 7, 6):
                b = a[:pos] + d + a[pos + 1:]
                yield Case("corr", "algo_validate", [key, enc(b), "-"], "DE:" + m + "-digits", True)
                yield Case("prop", "spec_german", [enc(m), enc(b)], "DE:" + m + "-spec-digits", True)
        yield Case("corr", "algo_compute", [key, enc(a)], "DE:" + m + "-compute", True)
    for bad in ("", "123", "12345678901", "12345A7890", "١٢٣٤٥٦٧٨٩٠", "          "):
        yield Case("corr", "algo_validate", [key, enc(bad), "-"], "DE:" + m + "-malformed", True)
        yield Case("corr", "algo_compute", [key, enc(bad)], "DE:" + m + "-malformed", True)


def c07_streams(ctx):
    rng = ctx.rng
    n = 60 if ctx.quick else 3000
    for m in german_methods(ctx):
        yield from c07_method_cases(ctx, m, n)
    # through the public API: every distinct checksum_algo of the registry (implemented or not), unlisted banks
    banks = ctx.facts["banks"]
    de = [(i, b) for i, b in enumerate(banks) if b[0] == "DE"]
    algos = {}
    import json as _json
    tsv = os.path.join(os.path.dirname(HERE), "coq", "theories", "Gen", "banks.tsv")
    for line in open(tsv):
        f = line.rstrip("\n").split("\t")
        if dec(f[1]) == "DE" and f[5] != "none":
            algos.setdefault(dec(f[5]), []).append(dec(f[2]))
    for algo, codes in sorted(algos.items()):
        for code in rng.sample(codes, min(len(codes), 2 if ctx.quick else 12)):
            for a in german_accounts(ctx, 3 if ctx.quick else 25):
                b = code + a
                iban = "DE" + iso_digits("DE", b) + b
                yield Case("corr", "iban_new", [enc(iban), "0", "1"], "DE-api-" + ("impl" if "DE:" + algo in ctx.facts["algorithms"] else "unimpl"), True)
                if ctx.rng.random() < 0.3:
                    # a number of the same bank that is asked nowhere else in this process: first lenient uses of the text and
                    # IBANs of other countries with the very same BBAN string, then the strict question
                    b2 = code + german_accounts(ctx, 1)[0]
                    iban2 = "DE" + iso_digits("DE", b2) + b2
                    if rng.random() < 0.5:
                        yield Case("corr", "iban_new_after", [enc(iban2), "0", "1"], "DE-api-after-other-uses", True)
                    else:
                        yield Case("corr", "iban_validate_after", [enc(iban2), "1"], "DE-api-after-other-uses", True)
    for _ in range(10 if ctx.quick else 200):
        b = "".join(rng.choice(DIGITS) for _ in range(18))
        iban = "DE" + iso_digits("DE", b) + b
        yield Case("corr", "iban_new", [enc(iban), "0", "1"], "DE-api-random-bank", True)


# ------------------------------------------------------------------------------------------------
# known findings

def match_known(v: dict, known: list):
    for k in known:
        pred = PREDICATES.get(k.get("predicate"))
        if pred and pred(v, k):
            return k
    return None


def replay_known(k: dict, facts_path) -> bool:
    """Does the finding's own example still reproduce on the implementation?"""
    ex = k.get("example")
    if not ex:
        return False
    line = "\t".join([ex["call"], *ex["args"]])
    env = dict(os.environ)
    env.update({"PYTHONPATH": os.environ.get("VERIF_REPO", "/repo"), "PYTHONHASHSEED": "0"})
    if facts_path:
        env["VERIF_FACTS"] = facts_path
    r = subprocess.run(["/venv/bin/python", os.path.join(HERE, "impl_runner.py")], input=line + "\n",
                       capture_output=True, text=True, env=env, timeout=300)
    got = r.stdout.strip()
    return got == ex["observed"]


def _pred_de76(v, k):
    """method 76, account of an admissible Kontoart whose positions 2-7 give remainder 10 and whose check digit is 0,
    accepted by the implementation and rejected by the spec"""
    if v.get("call") != "spec_german" or v.get("observed_implementation") != "1":
        return False
    m, a = dec(v["args"][0]), dec(v["args"][1])
    if m != "76" or len(a) != 10 or not a.isdigit() or a[0] not in "046789" or a[7] != "0":
        return False
    r = sum(int(d) * w for d, w in zip(a[1:7][::-1], [2, 3, 4, 5, 6, 7])) % 11
    return r == 10


def _pins_of(v):
    out = {}
    s = v["args"][3]
    if s:
        for kv in s.split(";"):
            k, val = kv.split("=")
            out[dec(k)] = dec(val)
    return out


COMPUTING = {"BE", "BA", "ES", "FR", "MC", "IT", "SM", "FI", "NO", "PL", "EE", "PT", "RS", "ME", "MK", "SI", "TL", "MR", "TN"}


def _pred_pin_digits(v, k):
    return v.get("call") == "spec_random" and "national_checksum_digits" in _pins_of(v) \
        and v.get("observed_implementation", "").startswith("PIN-NOT-HONOURED national_checksum_digits")


def _pred_pin_long(v, k):
    if v.get("call") != "spec_random" or not v.get("observed_implementation", "").startswith("PIN-NOT-HONOURED"):
        return False
    m = re.match(r"PIN-NOT-HONOURED (\w+): '(.*)' != '(.*)'", v["observed_implementation"])
    return bool(m) and len(m.group(3)) > len(m.group(2)) and m.group(3).startswith(m.group(2))


def _pred_pin_nopos(v, k):
    return v.get("call") == "spec_random" and v.get("observed_implementation", "").startswith("PIN-IGNORED-NO-POSITIONS")


PREDICATES = {"de76_remainder10": _pred_de76, "pin_on_computed_digits": _pred_pin_digits,
              "pin_longer_than_field": _pred_pin_long, "pin_without_positions": _pred_pin_nopos}


REGISTRY = {
    "C14": {
        "streams": c14_streams,
        "extra": {"schedules": schedules},
        "rule": "pairs of calls routed to the same shared objects (every German method x account pairs incl. remainder-1 accounts, "
                "validate vs compute, cross-method pairs, DE IBANs with validate_bban, national algorithms, lookups, generate): "
                "each pair is run under EVERY schedule in which one call executes atomically after k source lines of the other "
                "(all k, both orders) plus random fine-grained schedules, deterministically via sys.settrace; every call must "
                "return or raise what it does alone",
    },
    "C15": {
        "streams": c15_streams,
        "extra": {"history-orders": history_orders},
        "rule": "one long shuffled history of validation, generation, lookup and algorithm calls (failing calls included) inside a "
                "single implementation process, each result compared with the pure model; the same calls in two different orders "
                "in two fresh processes must agree call by call; a digest of the registries and of objects created first must be "
                "identical before and after",
    },
    "C16": {
        "streams": c16_streams,
        "extra": {"pickle-across-processes": pickle_across},
        "rule": "IBAN / BIC / BBAN objects (valid, and constructed with validation off: empty, short, unknown country, "
                "lower-case input) and plain strings: pairs through ==, !=, <, <=, >, >=, hash, dict lookup, sorted vs the compact "
                "strings; every object through copy.copy, copy.deepcopy, pickle (default protocol and protocol 0): same class, equal, "
                "same country, same BBAN and components",
    },
    "C13": {
        "streams": c13_streams,
        "rule": "every country and the no-country form x seeds x {registry, no registry} x pinned component subsets taken from "
                "valid BBANs; BBAN.random and IBAN.random must return a conforming BBAN / valid IBAN of the requested country "
                "with every pin unchanged, or raise GenerateRandomOverflowError; a second equally seeded call must agree; a "
                "registry draw must be a listed bank where every entry has a bank code; the model is fed the very choices "
                "and xeger draws the implementation saw (instrumented from outside) and must return the same object",
        "extra": {"hashseed-sweep": hashseed_sweep},
    },
    "C08": {
        "streams": c08_streams,
        "rule": "per country with published positions: bank / branch / account values of exact, shorter, longer and combined "
                "width, empty, with whitespace/lower case, with out-of-class characters (-, +, _, letters, non-ASCII digits); "
                "IBAN.generate must return an ISO-valid IBAN carrying each supplied component (cleaned, zero-padded) at its "
                "published range, or raise a library error (own class for an over-long component); never drop/truncate/alter; "
                "plus correspondence of generate / from_components with the model; unknown countries",
    },
    "C09": {
        "streams": c09_streams,
        "rule": "component combinations of the 19 countries with computed national digits through IBAN.generate followed by "
                "validate(validate_bban=True); nationally valid IBANs (accept side selected by the extracted published-rule spec) "
                "of every country with positions: BBAN.from_components(**components read off the IBAN) must reproduce the BBAN at "
                "every position covered by a component",
    },
    "C07": {
        "streams": c07_streams,
        "rule": "per implemented Bundesbank method: random ten-digit accounts (uniform, short with leading zeros, special "
                "digit patterns), boundary accounts harvested from every literal of germany.py (+-1), all ten digits at the "
                "check-digit positions, malformed accounts; through algorithms['DE:xx'].validate/compute vs the model; through "
                "IBAN('DE..', validate_bban=True) for bank codes of every distinct checksum_algo of the registry and unlisted banks",
    },
    "C06": {
        "streams": c06_streams,
        "rule": "per country with a national algorithm: random structure-conforming BBANs expanded over every value of the check "
                "field (accept side selected by the extracted published-rule spec, independent of schwifty), single-digit "
                "perturbations, letters where allowed; BBAN-level verdict (true / raises) and IBAN-level acceptance with "
                "validate_bban vs the spec (property) and vs the model (correspondence); countries without an algorithm are "
                "unaffected; national validation only rejects",
    },
    "C12": {
        "streams": c12_streams,
        "rule": "registry keys (country, bank code) - all 22 753 in thorough, 500 in quick - through candidates_from_bank_code "
                "and from_bank_code; unlisted/mutated pairs; BICs of the registry through domestic_bank_codes / exists / "
                "bank_names / bank_short_names (names compared through entry ids); an IBAN built around each key through "
                "iban.bank / bic / bank_name / bank_short_name; implementation vs extracted model",
    },
    "C17": {
        "streams": c17_streams,
        "extra": {"registry-unchanged-by-use": registry_unchanged},
        "rule": "every country row and every bank entry against the extracted Spec/RegistrySpec.v predicates (a false one is "
                "reported with the entry index); the effective bank list entry by entry vs the translated list; an IBAN built "
                "around each bank entry (all in thorough, 800 in quick) must be valid and lead back to the first entry with that key",
    },
    "C18": {
        "streams": c18_streams,
        "rule": "random nested dict pairs with conflicting/disjoint keys and dict-vs-scalar clashes through registry.merge_dicts "
                "(inputs deep-compared before/after) vs the model; random and malformed v2 documents through parse_v2; the real "
                "registry.get run on scratch directories (random dict/list/v2 file sets incl. names that sort differently by case, "
                "non-.json files) and on the tree's own iban/bank registry files, plus a user overlay; results compared modulo dict order",
    },
    "C10": {
        "streams": c10_streams,
        "rule": "random Unicode texts (all \\s code points, special-casing letters, non-ASCII digits) through clean() vs the model; "
                "valid IBANs/BICs and random texts x random whitespace insertions (all kinds) x ASCII case flips: validated and "
                "unvalidated IBAN/BIC construction must give the same outcome class and equal objects (==, hash, compact); "
                "formatted form vs model and parse-back equality",
    },
    "C11": {
        "streams": c11_streams,
        "rule": "per country: valid IBANs; country code, check digits, BBAN, all eight components via IBAN and BBAN accessors "
                "(must agree) and IBAN.from_bban(cc, bban) vs the model's slices of the published positions; unvalidated and "
                "malformed objects (correspondence); BIC parts for valid and irregular lengths",
    },
    "C05": {
        "streams": c05_streams,
        "rule": "the C01 and C04 input families plus multi-defect mutations (2-4 random edits of a valid IBAN); per text the "
                "implementation's constructor outcome, validate() and is_valid must be: ACCEPT iff the spec accepts, else a "
                "library error whose class is among the defects the extracted Spec/Defects.v finds present; a foreign "
                "exception or an is_valid/constructor disagreement is a violation; plus outcome-class correspondence with the model",
    },
    "C04": {
        "streams": c04_streams,
        "rule": "valid 8- and 11-character BICs over pycountry's codes; every position x wide alphabet (sampled in quick); "
                "lengths 0..14; trailing garbage at accepted lengths; two-letter country codes (all 676 in thorough); both "
                "compliance modes; BIC(text) vs model (correspondence) and vs extracted ISO 9362 spec (property)",
    },
    "C03": {
        "streams": c03_streams,
        "rule": "per country: valid IBANs; every position >= 2 x same-kind replacement characters (all in thorough, 2 per "
                "position in quick); every adjacent same-kind transposition incl. the check-digit/BBAN seam and reversible "
                "country codes; each mutated text must be rejected by IBAN(text) (spec oracle: extracted iso_ok) and the "
                "model must agree with the implementation on the outcome class",
    },
    "C01": {
        "streams": c01_streams,
        "rule": "per country: valid IBANs built from the structure string; whitespace/case variants; single-position "
                "mutations over a wide alphabet (ASCII printable, all \\s code points, non-ASCII digits, confusables, "
                "special-casing letters), with and without recomputed check digits; lengths 0..40; two-letter prefixes; "
                "each text goes through IBAN(text) vs the model (correspondence) and vs the extracted ISO 13616 spec "
                "(property); regex model vs live compiled patterns.  non-trivial = at least 4 characters or a mutation of a valid IBAN",
    },
    "C02": {
        "streams": c02_streams,
        "rule": "per country: random structure-conforming BBANs; IBAN.from_bban vs spec check digits; all 100 check-digit "
                "pairs through IBAN(text) vs model and vs spec; malformed from_bban arguments (correspondence)",
    },
}
