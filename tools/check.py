#!/venv/bin/python
"""Entry point of every check:   ./check <ID> [--tier quick|thorough] [--replay FILE]   and  --setup

1. translate /repo -> coq/theories/Gen (tools/translate.py, subprocess, PYTHONPATH=/repo)
2. (re)build the property's theorem cone and the extracted driver  (make, full .vo, under timeout)
3. run the property's streams: correspondence (model vs implementation) and property oracle
   (extracted Coq spec vs implementation)
4. replay known findings
5. write evidence/<ID>.json; print VIOLATION / KNOWN-FINDING lines; exit 0/1
"""
from __future__ import annotations

import argparse
import fcntl
import hashlib
import json
import os
import random
import re
import subprocess
import sys
import time

HERE = os.path.dirname(os.path.abspath(__file__))
ROOT = os.path.dirname(HERE)
COQ = os.path.join(ROOT, "coq")
REPO = os.environ.get("VERIF_REPO", "/repo")
PY = "/venv/bin/python"
sys.path.insert(0, HERE)

MAKE_TIMEOUT = 1500


def log(*a):
    print(*a, file=sys.stderr, flush=True)


def run(cmd, timeout=None, cwd=None, env=None, input=None):
    e = dict(os.environ)
    e.update({"PYTHONPATH": REPO, "PYTHONHASHSEED": "0", "VERIF_REPO": REPO})
    if env:
        e.update(env)
    return subprocess.run(cmd, cwd=cwd, env=e, input=input, capture_output=True, text=True, timeout=timeout)


class Lock:
    def __enter__(self):
        self.f = open(os.path.join(ROOT, ".lock"), "w")
        fcntl.flock(self.f, fcntl.LOCK_EX)
        return self

    def __exit__(self, *a):
        fcntl.flock(self.f, fcntl.LOCK_UN)
        self.f.close()


# ------------------------------------------------------------------------------------------------
# build

def translate():
    r = run([PY, os.path.join(HERE, "translate.py")], timeout=600)
    if r.returncode != 0:
        return {"ok": False, "error": (r.stderr or r.stdout)[-2000:], "changed": [], "drift": []}
    info = json.loads(r.stdout.strip().splitlines()[-1])
    info["ok"] = True
    return info


def ensure_makefile():
    vs = sorted(
        os.path.relpath(os.path.join(d, f), COQ)
        for d, _, fs in os.walk(os.path.join(COQ, "theories")) for f in fs if f.endswith(".v"))
    stamp = os.path.join(COQ, ".filelist")
    cur = "\n".join(vs)
    if not os.path.exists(os.path.join(COQ, "Makefile")) or not os.path.exists(stamp) or open(stamp).read() != cur:
        r = run(["coq_makefile", "-f", "_CoqProject", *vs, "-o", "Makefile"], cwd=COQ, timeout=120)
        if r.returncode != 0:
            raise RuntimeError("coq_makefile failed: " + r.stderr[-500:])
        open(stamp, "w").write(cur)


def make(targets, jobs=16):
    """-> (ok, log).  Full .vo build of the targets' cones."""
    ensure_makefile()
    cmd = ["timeout", str(MAKE_TIMEOUT), "make", f"-j{jobs}", *targets]
    r = run(cmd, cwd=COQ, timeout=MAKE_TIMEOUT + 60)
    return r.returncode == 0, r.stdout + r.stderr


def first_error(mlog):
    m = re.search(r'File "\./(theories/[^"]+)", line (\d+).*?\n(Error:.*?)(?:\n\n|\nmake|\Z)', mlog, re.S)
    if m:
        return {"file": m.group(1), "line": int(m.group(2)), "error": " ".join(m.group(3).split())[:400]}
    return {"file": None, "line": 0, "error": mlog[-400:]}


def build_driver():
    ex = os.path.join(COQ, "extract")
    src = os.path.join(COQ, "driver", "main.ml")
    exe = os.path.join(ex, "main.exe")
    ml = os.path.join(ex, "model.ml")
    h = hashlib.sha256(open(ml, "rb").read() + open(src, "rb").read()).hexdigest()
    stamp = os.path.join(ex, ".stamp")
    if os.path.exists(exe) and os.path.exists(stamp) and open(stamp).read() == h:
        return True, ""
    subprocess.run(["cp", src, os.path.join(ex, "main.ml")], check=True)
    r = run(["ocamlfind", "ocamlopt", "-O2", "-w", "-a", "model.mli", "model.ml", "main.ml", "-o", "main.exe"],
            cwd=ex, timeout=600)
    if r.returncode != 0:
        return False, r.stderr[-1500:]
    open(stamp, "w").write(h)
    return True, ""


def build_model():
    """Gen + Extract + driver.  -> (ok, info)"""
    os.makedirs(os.path.join(COQ, "extract"), exist_ok=True)
    ok, mlog = make(["theories/Extract/Extract.vo"])
    if not ok:
        return False, first_error(mlog)
    ok, err = build_driver()
    if not ok:
        return False, {"file": "driver/main.ml", "line": 0, "error": err}
    return True, {}


def build_props(pid, force=True):
    """(Re)compile Props/<pid>.v against the current Gen; -> (ok, info, assumptions, obligations)"""
    vo = os.path.join(COQ, "theories", "Props", pid + ".vo")
    if force and os.path.exists(vo):
        os.remove(vo)
    ok, mlog = make([f"theories/Props/{pid}.vo"])
    assumptions = re.findall(r"^(Closed under the global context|Axioms:.*?)(?=\n\S|\Z)", mlog, re.S | re.M)
    if not ok:
        return False, first_error(mlog), assumptions
    return True, {}, assumptions


def _prop_files():
    """property id -> source files it is anchored in (from properties.jsonl), plus the helpers every model function uses"""
    out = {}
    try:
        for line in open(os.path.join(ROOT, "properties.jsonl")):
            d = json.loads(line)
            files = list(d.get("anchors", {}).get("files", [])) + ["schwifty/common.py", "schwifty/domain.py"]
            if d["id"] in ("C06", "C07", "C08", "C09", "C13", "C05"):
                files += ["schwifty/bban.py", "schwifty/checksum/*.py"]
            if d["id"] in ("C14", "C15", "C16", "C17"):
                files = ["*"]
            out[d["id"]] = files
    except OSError:
        pass
    return out


PROP_FILES = _prop_files()


def count_obligations(pid):
    """Theorems / lemmas / examples in Props/<pid>.v plus the shared data obligations it imports."""
    names = []
    props_src = open(os.path.join(COQ, f"theories/Props/{pid}.v")).read()
    # files that instantiate generic lemmas on the regenerated tables (they hold the data obligations)
    for rel, tag in ((f"theories/Props/{pid}.v", None), ("theories/Proofs/GenObligations.v", "GenObligations"),
                     ("theories/Proofs/GenerateFacts.v", "GenerateFacts"), ("theories/Proofs/RandomGen.v", "RandomGen"),
                     ("theories/Proofs/GenerateTotal.v", "GenerateTotal"), ("theories/Proofs/RandomTotal.v", "RandomTotal"),
                     ("theories/Proofs/NationalTotal.v", "NationalTotal"),
                     ("theories/Proofs/RandomConform.v", "RandomConform")):
        p = os.path.join(COQ, rel)
        if not os.path.exists(p):
            continue
        if tag and tag not in props_src:
            continue
        src = open(p).read()
        names += re.findall(r"^(?:Theorem|Lemma|Example|Corollary)\s+(\w+)", src, re.M)
    return names


# ------------------------------------------------------------------------------------------------
# executing cases

def enc(s: str) -> str:
    return "-" if s == "" else ",".join(str(ord(c)) for c in s)


def dec(s: str) -> str:
    return "" if s == "-" else "".join(chr(int(x)) for x in s.split(","))


def run_impl(lines, facts_path, env_extra=None):
    env = {"VERIF_FACTS": facts_path}
    env.update(env_extra or {})
    r = run([PY, os.path.join(HERE, "impl_runner.py")], input="\n".join(lines) + "\n",
            timeout=3600, env=env)
    out = r.stdout.split("\n")
    if out and out[-1] == "":
        out.pop()
    if r.returncode != 0 or len(out) != len(lines):
        raise RuntimeError(f"impl_runner failed rc={r.returncode} lines={len(out)}/{len(lines)}: {r.stderr[-800:]}")
    return out


def run_model(lines):
    exe = os.path.join(COQ, "extract", "main.exe")
    env = dict(os.environ)
    env["VERIF_BANKS"] = os.path.join(COQ, "theories", "Gen", "banks.tsv")
    r = subprocess.run(["bash", "-c", f"ulimit -s unlimited; exec {exe}"], input="\n".join(lines) + "\n",
                       capture_output=True, text=True, timeout=3600, env=env)
    out = r.stdout.split("\n")
    if out and out[-1] == "":
        out.pop()
    if r.returncode != 0 or len(out) != len(lines):
        raise RuntimeError(f"driver failed rc={r.returncode} lines={len(out)}/{len(lines)}: {r.stderr[-800:]}")
    return out


# ------------------------------------------------------------------------------------------------
# what every property's command asks in addition: the same calls in other circumstances

def generic_replays(pid, cases, lines, impl, facts_path, seed, quick):
    """The implementation side of the property's own stream once more - in the opposite order in a fresh process (with a
    digest of the in-memory registries and of pycountry's database before and after), under an optimising interpreter
    (python -OO: no asserts, no docstrings), as the first use of a fresh process from several threads at once, and in pairs
    under line-level interleavings (each pair asked again alone afterwards).  What a call returns may depend on none of that.
    -> (violations, counts)"""
    import props
    vio, counts = [], {}
    idx = [i for i, c in enumerate(cases) if c.post is None and c.fn not in props.ORDER_SENSITIVE][:150000]
    if not idx or pid == "C14":
        return vio, counts
    conc = [i for i in idx if cases[i].fn not in props.NOT_CONCURRENT]

    def rec(kind, i, observed, expected, **extra):
        c = cases[i]
        r = {"property": pid, "kind": kind, "stream": c.tag, "check": "order", "call": c.fn, "args": c.args,
             "args_shown": [props.show_arg(x) for x in c.args], "observed_implementation": observed,
             "expected_by_spec": expected, "seed": seed}
        r.update(extra)
        return r

    # 1. opposite order, registry digest around it
    back = run_impl(["history_probe\tbegin"] + [lines[i] for i in reversed(idx)] + ["history_probe\tend"], facts_path)
    counts["opposite_order"] = len(idx)
    if back[0] != back[-1]:
        # which call did it: bisect over prefixes of the (reversed) stream
        seq = [lines[i] for i in reversed(idx)]
        lo, hi = 0, len(seq)            # invariant: prefix of length lo leaves the digest alone, prefix hi changes it
        steps = 0
        while hi - lo > 1 and steps < 20 and len(seq) <= 40000:
            mid = (lo + hi) // 2
            r = run_impl(["history_probe\tbegin"] + seq[:mid] + ["history_probe\tend"], facts_path)
            if r[0] != r[-1]:
                hi = mid
            else:
                lo = mid
            steps += 1
        j = list(reversed(idx))[hi - 1]
        vio.append(rec("history", j, "the digest of the in-memory registries, indexes, algorithm table and pycountry's database "
                       "changed while this stream of calls ran" + (" (first by this call)" if hi - lo == 1 else ""),
                       "unchanged: the data are loaded at import and are what the files say, whatever is asked"))
    for i, b2 in zip(reversed(idx), back[1:-1]):
        if b2 != impl[i]:
            vio.append(rec("history", i, b2 + "   (same stream of calls in the opposite order)",
                           impl[i] + "   (what the call returned in the first order)"))
            if len(vio) >= 5:
                break
    # 2. optimising interpreter
    sub = idx[: (15000 if quick else 60000)]
    oo = run_impl([lines[i] for i in sub], facts_path, env_extra={"PYTHONOPTIMIZE": "2"})
    counts["python_OO"] = len(sub)
    n0 = len(vio)

    def crash_class(x):
        # which foreign exception a malformed direct call dies of may differ (an assert guards it by default): a crash is a crash
        return re.sub(r"(CRASH|RUNNER-ERROR)( \w+)+", r"\1", x)
    for i, b2 in zip(sub, oo):
        if "AssertionError" in impl[i]:
            continue      # an assert of the library guards this (malformed, direct) call by default: -OO removes it by definition
        if crash_class(b2) != crash_class(impl[i]):
            vio.append(rec("environment", i, b2 + "   (under python -OO)", impl[i] + "   (under the default interpreter)"))
            if len(vio) - n0 >= 3:
                break
    # 3. first use of a fresh process from several threads at once
    step = max(1, len(conc) // 64)
    cold = conc[::step][:64]
    env = dict(os.environ)
    env.update({"PYTHONPATH": REPO, "PYTHONHASHSEED": "0", "VERIF_REPO": REPO, "VERIF_FACTS": facts_path})
    counts["cold_start_threads"] = 0
    for _round in range((2 if quick else 5) if cold else 0):
        r = subprocess.run([PY, os.path.join(HERE, "coldstart.py")], input=json.dumps({"lines": [lines[i] for i in cold], "threads": 8}),
                           capture_output=True, text=True, env=env, timeout=900)
        if r.returncode != 0:
            raise RuntimeError("coldstart.py failed: " + r.stderr[-400:])
        got = json.loads(r.stdout.strip().split("\n")[-1])
        counts["cold_start_threads"] += len(cold)
        bad = [(i, g) for i, g in zip(cold, got) if g != impl[i]]
        if bad:
            i, g = bad[0]
            vio.append(rec("schedule", i, str(g) + f"   (first use of a fresh process, 8 threads released together; {len(bad)} of {len(cold)} calls differ)",
                           impl[i] + "   (asked alone)"))
            break
    # 4. pairs of calls under line-level interleavings
    npairs = 4 if quick else 16
    pick = conc[:: max(1, len(conc) // (2 * npairs))][: 2 * npairs]
    pairs = [(pick[k], pick[k + 1]) for k in range(0, len(pick) - 1, 2)] + ([(pick[0], pick[0])] if pick else [])

    def desc(i):
        return {"kind": "runner", "fn": cases[i].fn, "args": cases[i].args}
    shards = [pairs[k::4] for k in range(4) if pairs[k::4]]
    procs = []
    for k, sh in enumerate(shards):
        job = {"pairs": [[desc(a), desc(b)] for a, b in sh], "seed": seed + k, "random_schedules": 2, "max_schedules": 80 if quick else 300,
               "recheck": True}
        pr = subprocess.Popen([PY, os.path.join(HERE, "sched.py"), "explore"], stdin=subprocess.PIPE, stdout=subprocess.PIPE,
                              stderr=subprocess.PIPE, text=True, env=env)
        pr.stdin.write(json.dumps(job))
        pr.stdin.close()
        procs.append(pr)
    counts["interleaved_runs"] = 0
    for pr in procs:
        out = pr.stdout.read()
        pr.wait(timeout=1800)
        try:
            res = json.loads(out.strip().split("\n")[-1])
        except Exception:  # noqa: BLE001
            raise RuntimeError("sched.py failed: " + pr.stderr.read()[-400:])
        counts["interleaved_runs"] += res.get("runs", 0)
        for f in res.get("fails", [])[:1]:
            if "error" in f:
                # a pair that could not be explored (e.g. more line events than the interleaver follows): counted, not judged
                counts["pairs_not_explored"] = counts.get("pairs_not_explored", 0) + 1
                counts["pairs_not_explored_why"] = f["error"][:120]
                continue
            vio.append({"property": pid, "kind": "schedule", "stream": "interleaved pair", "check": "order",
                        "call": f["calls"][0]["fn"] + " || " + f["calls"][1]["fn"],
                        "args": [], "args_shown": [[props.show_arg(x) for x in d["args"]] for d in f["calls"]],
                        "calls": f["calls"], "schedule": f["schedule"],
                        "observed_implementation": json.dumps(f.get("asked_again_alone_afterwards") or f["interleaved"])[:600]
                        + ("   (both calls asked again alone after the interleaved run)" if f.get("asked_again_alone_afterwards") else "   (interleaved)"),
                        "expected_by_spec": json.dumps(f["solo"])[:600] + "   (each call alone)", "trace_tail": f.get("trace_tail"), "seed": seed})
    return vio, counts


def load_known():
    p = os.path.join(ROOT, "known_findings.json")
    if not os.path.exists(p):
        return []
    return json.load(open(p)).get("findings", [])


def write_evidence(pid, ev):
    os.makedirs(os.path.join(ROOT, "evidence"), exist_ok=True)
    with open(os.path.join(ROOT, "evidence", pid + ".json"), "w") as f:
        json.dump(ev, f, indent=1, ensure_ascii=True)


def write_replay(pid, rec):
    os.makedirs(os.path.join(ROOT, "replays"), exist_ok=True)
    h = hashlib.sha256(json.dumps(rec, sort_keys=True).encode()).hexdigest()[:12]
    path = os.path.join(ROOT, "replays", f"{pid}-{h}.json")
    with open(path, "w") as f:
        json.dump(rec, f, indent=1)
    return path


TRUSTED_BASE = [
    "Coq 8.16.1 kernel incl. the vm_compute reduction machine (vm_cast_no_check data obligations); no native_compute",
    "no Axiom/Parameter/Admitted in the development; Print Assumptions output recorded in 'assumptions'",
    "tools/translate.py (CPython ast, json, re._parser; live-object cross-reading) producing Gen/*.v",
    "extraction with ExtrOcamlBasic directives only + driver/main.ml + OCaml 4.13.1 (correspondence only, no theorem depends on it)",
    "correspondence streams are differential testing of the hand-written procedural model",
    "CPython str.upper / \\s tables are re-read exhaustively from the running interpreter on every run",
]


def check(pid, tier, seed):
    import props
    t0 = time.time()
    P = props.REGISTRY[pid]
    for old in os.listdir(os.path.join(ROOT, "replays")) if os.path.isdir(os.path.join(ROOT, "replays")) else []:
        if old.startswith(pid + "-"):
            os.remove(os.path.join(ROOT, "replays", old))
    broken = []          # names of theorems/streams that no longer check
    violations = []      # dicts with failing inputs
    notes = []
    with Lock():
        tr = translate()
        if not tr["ok"]:
            broken.append({"what": "translator", "detail": tr["error"][-600:]})
        model_ok, minfo = build_model() if tr["ok"] else (False, {"error": "translator failed"})
        if not model_ok:
            broken.append({"what": "model build", "detail": minfo})
        if tr["ok"]:
            props_ok, pinfo, assumptions = build_props(pid)
        else:
            props_ok, pinfo, assumptions = False, {"error": "translator failed"}, []
        if not props_ok:
            broken.append({"what": f"theorem file Props/{pid}.v", "detail": pinfo})
        facts_path = os.path.join(COQ, "theories", "Gen", "facts.json")
    obligations = count_obligations(pid)
    drift = tr.get("drift", [])
    # drift of a hand-modelled function (src:<path>::<name>) widens only the checks of properties anchored in that file
    def _relevant(d):
        if not d.startswith("src:"):
            return True
        path = d[4:].split("::")[0]
        import fnmatch
        return any(fnmatch.fnmatch(path, pat) for pat in PROP_FILES.get(pid, ["*"]))
    drift = [d for d in drift if _relevant(d)]
    escalate = bool(broken) or bool(drift)
    eff_tier = "thorough" if (escalate and (broken or drift)) else tier

    stats = {"evaluations": 0, "distinct": set(), "nontrivial": set(), "by_stream": {}, "samples": [],
             "outcomes": {}}
    stats_order = {}
    if model_ok:
        facts = json.load(open(facts_path))
        rng = random.Random(seed)
        ctx = props.Ctx(facts=facts, rng=rng, tier=eff_tier, seed=seed, spec_eval=run_model)
        cases = list(P["streams"](ctx))
        # corpus of minimised past disagreements first
        corpus = os.path.join(ROOT, "corpus", pid + ".jsonl")
        if os.path.exists(corpus):
            for l in open(corpus):
                c = json.loads(l)
                cases.insert(0, props.Case(c["kind"], c["fn"], c["args"], "corpus", True))
        lines = ["\t".join([c.fn, *c.args]) for c in cases]
        mlines = ["noop" if c.kind == "self" else "\t".join([c.fn, *(c.margs if c.margs is not None else c.args)]) for c in cases]
        try:
            impl = run_impl(lines, facts_path)
            for i, c in enumerate(cases):
                if c.post is not None:
                    impl[i], margs = c.post(impl[i])
                    mlines[i] = "\t".join([c.fn, *margs]) if margs is not None else "noop"
            model = run_model(mlines)
        except Exception as e:  # noqa: BLE001
            broken.append({"what": "harness", "detail": str(e)[-600:]})
            impl = model = []
        if impl:
            try:
                gv, stats_order = generic_replays(pid, cases, lines, impl, facts_path, seed, eff_tier == "quick")
                violations.extend(gv)
            except Exception as e:  # noqa: BLE001
                broken.append({"what": "replays in other circumstances", "detail": str(e)[-600:]})
        seen_v = set()
        for c, a, m in zip(cases, impl, model):
            stats["evaluations"] += 1
            key = (c.fn, tuple(c.args))
            stats["distinct"].add(key)
            if c.nontrivial:
                stats["nontrivial"].add(key)
            bs = stats["by_stream"].setdefault(c.tag, {"cases": 0, "disagreements": 0})
            bs["cases"] += 1
            oc = a.split(" ")[0] + (" " + a.split(" ")[1] if a.startswith(("ERR", "CRASH")) else "")
            stats["outcomes"][c.fn + ":" + oc] = stats["outcomes"].get(c.fn + ":" + oc, 0) + 1
            if len(stats["samples"]) < 12 and (stats["evaluations"] % max(1, len(cases) // 12) == 0):
                stats["samples"].append({"fn": c.fn, "args": [props.show_arg(x) for x in c.args],
                                         "implementation": a, "model_or_spec": m, "stream": c.tag})
            if c.kind == "self" and not a.startswith(("RUNNER-ERROR", "UNKNOWN-FUNCTION")):
                continue       # a call that is only compared with itself in other circumstances (order, -OO, threads, schedules)
            if a.startswith("RUNNER-ERROR") and c.kind == "prop" and not m.startswith(("DRIVER-ERROR", "UNKNOWN-FUNCTION")):
                # the library raised something the oracle function did not expect at all (e.g. RecursionError from a comparison)
                rec = {"property": pid, "kind": "input", "stream": c.tag, "check": "prop", "call": c.fn, "args": c.args,
                       "args_shown": [props.show_arg(x) for x in c.args],
                       "observed_implementation": a.replace("RUNNER-ERROR", "the library raised, inside the oracle:"),
                       "expected_by_spec": m, "seed": seed}
                if (c.fn, a[:60]) not in seen_v or len(violations) < 5:
                    violations.append(rec)
                seen_v.add((c.fn, a[:60]))
                continue
            if a.startswith(("RUNNER-ERROR", "UNKNOWN-FUNCTION")) or m.startswith(("DRIVER-ERROR", "UNKNOWN-FUNCTION")):
                broken.append({"what": "harness", "detail": f"{c.fn}: impl={a} model={m}"})
                continue
            if not props.agree(c, a, m):
                bs["disagreements"] += 1
                rec = {"property": pid, "kind": "input", "stream": c.tag, "check": c.kind, "call": c.fn,
                       "args": c.args, "args_shown": [props.show_arg(x) for x in c.args],
                       "observed_implementation": a,
                       ("expected_by_spec" if c.kind == "prop" else "model_says"): m, "seed": seed}
                if c.margs is not None:
                    rec["margs"] = c.margs
                variant = c.kind == "corr" and c.fn.endswith(props.VARIANT_SUFFIXES)
                if variant:
                    # the same question asked another way (after other uses, through an instance, with components omitted):
                    # the model of the plain question is the reference, and the plain question itself is in the stream too
                    rec["check"] = "variant"
                    rec["expected_by_spec"] = rec.pop("model_says") + "   (the answer to the plain question)"
                if c.kind == "prop" or variant:
                    if (c.fn, a, m) not in seen_v or len(violations) < 5:
                        violations.append(rec)
                    seen_v.add((c.fn, a, m))
                else:
                    if not any(b.get("what") == f"correspondence stream {c.tag}" for b in broken):
                        broken.append({"what": f"correspondence stream {c.tag}", "detail": rec})
        # extra property-specific dynamic checks (python-side oracles, e.g. environment laws)
        for name, fn in P.get("extra", {}).items():
            try:
                res = fn(ctx)
            except Exception as e:  # noqa: BLE001
                res = {"ok": False, "detail": f"{type(e).__name__}: {e}"}
            stats["by_stream"][name] = {"cases": res.get("cases", 0), "disagreements": 0 if res["ok"] else 1}
            stats["evaluations"] += res.get("cases", 0)
            if not res["ok"]:
                if res.get("violation"):
                    violations.append({"property": pid, "kind": res.get("kind", "input"), "stream": name, **res["violation"]})
                else:
                    broken.append({"what": name, "detail": res.get("detail")})

    # known findings
    known = [k for k in load_known() if k["property"] == pid and k.get("status") == "open"]
    out_lines = []
    new_violations = []
    for v in violations:
        k = props.match_known(v, known)
        if k is None:
            new_violations.append(v)
        else:
            k["_hit"] = True
    for k in known:
        # replay the finding's own example against the implementation
        if props.replay_known(k, facts_path if model_ok else None) or k.get("_hit"):
            out_lines.append(f"KNOWN-FINDING: property={pid} {k['what']}")

    exit_code = 0
    if new_violations:
        v = new_violations[0]
        v["broken"] = [b["what"] for b in broken]
        path = write_replay(pid, v)
        out_lines.append(f"VIOLATION property={pid} replay={path}")
        exit_code = 1
    elif broken:
        rec = {"property": pid, "kind": "unproved", "broken": broken, "seed": seed,
               "note": "no concrete failing input was found by the search; the property is no longer shown to hold"}
        path = write_replay(pid, rec)
        out_lines.append(f"VIOLATION property={pid} replay={path} no-failing-input-found")
        exit_code = 1

    wall = time.time() - t0
    ev = {
        "property_id": pid, "tier": tier, "seed": seed, "level": "proof",
        "coverage": {
            "obligations": len(obligations),
            "discharged": len(obligations) if props_ok else 0,
            "obligation_names": obligations,
            "checker_cmd": f"make -C /verif/coq theories/Props/{pid}.vo   (coqc 8.16.1, full .vo build of the cone)",
            "trusted_base": TRUSTED_BASE + P.get("trusted_extra", []),
            "assumptions": assumptions,
            "evaluations": stats["evaluations"],
            "distinct_nontrivial": len(stats["nontrivial"]),
            "distinct": len(stats["distinct"]),
            "rule": P.get("rule", ""),
            "samples": stats["samples"] or [{"note": "no cases were run (model build failed)"}],
            "streams": stats["by_stream"],
            "outcome_histogram": stats["outcomes"],
            "replays_in_other_circumstances": stats_order,
            "translator": {"changed": tr.get("changed", []), "drift": drift},
            "effective_tier": eff_tier,
            "broken": broken,
            "exhaustive": False,
        },
        "assumptions": P.get("assumptions", []),
        "wall_s": round(wall, 2),
        "violations": len(new_violations) + (1 if (broken and not new_violations) else 0),
    }
    write_evidence(pid, ev)
    for l in out_lines:
        print(l)
    print(f"{pid}: {'FAIL' if exit_code else 'ok'}  theorems={len(obligations)} proved={props_ok} "
          f"cases={stats['evaluations']} violations={len(new_violations)} broken={len(broken)} wall={wall:.1f}s")
    return exit_code


def replay(pid, path):
    import props
    rec = json.load(open(path))
    if rec.get("kind") == "unproved":
        print(json.dumps(rec, indent=1))
        print("replay: this record names proof obligations / streams that no longer check; re-running the check")
        return check(pid, "quick", int(rec.get("seed", 0)))
    with Lock():
        tr = translate()
        ok, _ = build_model()
    if rec.get("check") == "order" or rec.get("kind") == "history":
        print(json.dumps({k: v for k, v in rec.items() if k != "args"}, indent=1)[:3000])
        print("replay: this record is a call whose outcome depended on the calls before it; re-running the check")
        return check(pid, "quick", int(rec.get("seed", 0)))
    line = "\t".join([rec["call"], *rec["args"]])
    mline = "\t".join([rec["call"], *rec.get("margs", rec["args"])])
    facts_path = os.path.join(COQ, "theories", "Gen", "facts.json")
    a = run_impl([line], facts_path)[0]
    m = run_model([mline])[0] if ok else "?"
    print(f"call={rec['call']} args={rec.get('args_shown')}\n implementation: {a}\n model/spec:     {m}")
    if a != m:
        print(f"VIOLATION property={pid} replay={path}")
        return 1
    print("replay: no longer fails")
    return 0


def setup():
    t0 = time.time()
    with Lock():
        tr = translate()
        if not tr["ok"]:
            print("translator failed:", tr["error"])
            return 1
        ensure_makefile()
        os.makedirs(os.path.join(COQ, "extract"), exist_ok=True)
        ok, mlog = make(["all"])
        if not ok:
            print(mlog[-3000:])
            return 1
        ok, err = build_driver()
        if not ok:
            print(err)
            return 1
    print(f"setup ok in {time.time() - t0:.0f}s")
    return 0


def main():
    ap = argparse.ArgumentParser()
    ap.add_argument("pid", nargs="?")
    ap.add_argument("--tier", default=os.environ.get("VERIF_TIER", "quick"))
    ap.add_argument("--replay")
    ap.add_argument("--setup", action="store_true")
    a = ap.parse_args()
    if a.setup:
        sys.exit(setup())
    seed = int(os.environ.get("VERIF_SEED", "0") or 0)
    if a.replay:
        sys.exit(replay(a.pid, a.replay))
    sys.exit(check(a.pid, a.tier if a.tier in ("quick", "thorough") else "quick", seed))


if __name__ == "__main__":
    main()
