(* schwifty/checksum/germany.py: the WeightedModulus template and the hook bodies of the Bundesbank
   method classes, line by line.  Which class uses which hook body and which attribute values is
   NOT decided here: the translator resolves the MRO of every class of the tree and emits one
   `gclass` row per class (Gen/GermanyTbl.v). *)
From Schwifty Require Import Lib.Base Lib.Lit Model.Clean Model.Data Model.Bban Model.National.
From Coq Require Import String.

Inductive k_summand := SPlain | SDigitSum | SMod10 | SPlusW11.      (* compute_summand *)
Inductive k_wsum := WPlain | WMinus1.                                (* compute_weighted_sum *)
Inductive k_rem := RMod | RIterDigitSum.                             (* compute_remainder *)
Inductive k_rec := RecDefault | Rec02 | Rec11 | Rec76.               (* reconcile *)
Inductive k_digits := DDefault | D24 | D61 | D68 | D76.              (* get_digits *)
Inductive k_pos := PStatic | P88.                                    (* get_positions *)
Inductive k_adj := AId | A26.                                        (* adjust_input *)
Inductive k_compute := CDefault | C08 | C09 | C91.                   (* compute *)
Inductive k_validate := VDefault | V08 | V09 | V16 | V25 | V63 | V68 | V76 | V91 | V99.

Record gclass := {
  g_positions : Z * Z * Z;          (* start, end, check_digit (1-based, as in the specification) *)
  g_weights : list Z;
  g_modulus : Z;
  g_minuend : option Z;
  g_reverse : bool;
  g_min_account : Z;                (* Algorithm08.min_account_code *)
  g_summand : k_summand;
  g_wsum : k_wsum;
  g_rem : k_rem;
  g_rec : k_rec;
  g_digits : k_digits;
  g_pos : k_pos;
  g_adj : k_adj;
  g_compute : k_compute;
  g_validate : k_validate;
}.

Section Germany.
Variable nd : list (N * N).
Variable tbl : list (text * gclass).          (* class id -> resolved class *)
Variable account_code_length : Z.

Definition int_c := int_char nd.
Definition int_t := int_text nd.

(* digit_sum(number): sum(int(d) for d in str(number)) *)
Definition digit_sum (z : Z) : outcome Z := digit_sum_text nd (str_of_Z z).

Definition positions_of (g : gclass) (account : text) : outcome (Z * Z * Z) :=
  match g_pos g with
  | PStatic => Ok (g_positions g)
  | P88 => do c <- py_index account 2; if N.eqb c 57 then Ok (3, 9, 10)%Z else Ok (g_positions g)
  end.

Definition adjust (g : gclass) (account : text) : text :=
  match g_adj g with
  | AId => account
  | A26 => if startswith (tx "00") account then py_slice_from account 2 ++ tx "00" else account
  end.

(* WeightedModulus.get_digits *)
Definition digits_default (g : gclass) (account : text) : outcome text :=
  do p <- positions_of g account;
  let '(st, en, _) := p in
  let start := (st - 1)%Z in
  if negb (Z.eqb (len account) account_code_length) then Crash PAssertionError
  else if negb ((0 <=? start)%Z && (start <=? account_code_length)%Z) then Crash PAssertionError
  else if negb ((start <=? en)%Z && (en <=? account_code_length)%Z) then Crash PAssertionError
  else
    let d := py_slice account start en in
    Ok (if g_reverse g then rev d else d).

Definition mem_Z (z : Z) (l : list Z) : bool := existsb (Z.eqb z) l.

Definition get_digits (g : gclass) (account : text) : outcome text :=
  do d <- digits_default g account;
  match g_digits g with
  | DDefault => Ok d
  | D24 =>
    do c0 <- py_index d 0; do v <- int_c c0;
    let d' := if mem_Z v [3; 4; 5; 6]%Z then py_slice_from d 1
              else if Z.eqb v 9 then py_slice_from d 3 else d in
    Ok (lstrip0 d')
  | D61 =>
    do c8 <- py_index account 8;
    if N.eqb c8 56 then
      (* account_code[:7:-1] : the characters from the end down to index 8 *)
      Ok (rev (py_slice_from account 8) ++ d)
    else Ok d
  | D68 =>
    let d' := rstrip0 d in
    if Z.eqb (len d') 9 then
      (do c5 <- py_index d' 5;
       if negb (N.eqb c5 57) then Err EInvalidBBANChecksum else Ok (py_slice_to d' 6))
    else Ok d'
  | D76 => Ok (rstrip0 d)
  end.

Definition summand (g : gclass) (digit weight : Z) : outcome Z :=
  match g_summand g with
  | SPlain => Ok (digit * weight)%Z
  | SDigitSum => digit_sum (digit * weight)
  | SMod10 => Ok ((digit * weight) mod 10)%Z
  | SPlusW11 => Ok ((digit * weight + weight) mod 11)%Z
  end.

Fixpoint wsum_go (g : gclass) (digits : text) (ws : list Z) : outcome Z :=
  match digits, ws with
  | d :: ds, w :: ws' => do v <- int_c d; do s <- summand g v w; do r <- wsum_go g ds ws'; Ok (s + r)%Z
  | _, _ => Ok 0%Z
  end.

Definition weighted_sum (g : gclass) (digits : text) : outcome Z :=
  do s <- wsum_go g digits (cycle_to (g_weights g) [] (List.length digits));
  Ok (match g_wsum g with WPlain => s | WMinus1 => s - 1 end)%Z.

(* Algorithm21.compute_remainder: while number >= 10: number = digit_sum(number) *)
Fixpoint iter_digit_sum (fuel : nat) (z : Z) : outcome Z :=
  match fuel with
  | O => Crash PAssertionError          (* out of fuel: excluded by the theorems' statements *)
  | S f => if (z <? 10)%Z then Ok z else (do s <- digit_sum z; iter_digit_sum f s)
  end.

Definition remainder_of (g : gclass) (number : Z) : outcome Z :=
  match g_rem g with
  | RMod => Ok (number mod g_modulus g)%Z
  | RIterDigitSum => iter_digit_sum 8 number
  end.

Definition reconcile (g : gclass) (checksum remainder : Z) : outcome Z :=
  match g_rec g with
  | RecDefault => Ok (if (10 <=? checksum)%Z then 0 else checksum)%Z
  | Rec02 => if Z.eqb remainder 0 then Ok 0%Z
             else if Z.eqb remainder 1 then Err EInvalidBBANChecksum else Ok checksum
  | Rec11 => Ok (if Z.eqb checksum 10 then 9 else if (10 <=? checksum)%Z then 0 else checksum)%Z
  | Rec76 => if Z.eqb checksum 10 then Err EInvalidBBANChecksum else Ok checksum
  end.

(* WeightedModulus.compute on the single account code; also returns self.remainder *)
Definition compute_core (g : gclass) (account : text) : outcome (text * Z) :=
  do digits <- get_digits g (adjust g account);
  do ws <- weighted_sum g digits;
  do rem <- remainder_of g ws;
  let checksum := match g_minuend g with None => rem | Some m => (m - rem)%Z end in
  do r <- reconcile g checksum rem;
  Ok (str_of_Z r, rem).

Definition char_at (s : text) (i : Z) : outcome text := do c <- py_index s i; Ok [c].

(* WeightedModulus.validate *)
Definition validate_default (g : gclass) (account0 : text) : outcome bool :=
  let account := adjust g account0 in
  do cr <- compute_core g account0;
  do p <- positions_of g account;
  let '(_, _, cd) := p in
  do x <- char_at account (cd - 1);
  Ok (text_eqb (fst cr) x).

Definition variant (name : string) : option gclass := assoc (tx "germany.Algorithm91." ++ s2t name) tbl.

Definition compute1 (g : gclass) (account : text) : outcome text :=
  match g_compute g with
  | CDefault => do cr <- compute_core g account; Ok (fst cr)
  | C08 => do v <- int_t account;
           if (v <? g_min_account g)%Z then Ok [] else (do cr <- compute_core g account; Ok (fst cr))
  | C09 => Ok []
  | C91 => match variant "Variant1" with
           | Some v1 => do cr <- compute_core v1 account; Ok (fst cr)
           | None => Crash PAssertionError
           end
  end.

Definition validate1 (g : gclass) (account : text) : outcome bool :=
  match g_validate g with
  | VDefault => validate_default g account
  | V08 => do v <- int_t account; if (v <? g_min_account g)%Z then Ok true else validate_default g account
  | V09 => Ok true
  | V16 =>
    do cr <- compute_core g account;
    let '(_, _, cd) := g_positions g in
    let idx := (cd - 1)%Z in
    if Z.eqb (snd cr) 1 then
      (do a8 <- py_index account (idx - 1); do a9 <- py_index account idx;
       if N.eqb a8 a9 then Ok true else (do x <- char_at account idx; Ok (text_eqb (fst cr) x)))
    else (do x <- char_at account idx; Ok (text_eqb (fst cr) x))
  | V25 =>
    do result <- validate_default g account;
    do cr <- compute_core g account;          (* self.remainder as left by the compute inside validate *)
    do a1 <- py_index account 1;
    if Z.eqb (snd cr) 1 && negb (N.eqb a1 56 || N.eqb a1 57) then Ok false else Ok result
  | V63 => do a0 <- py_index account 0; if negb (N.eqb a0 48) then Ok false else validate_default g account
  | V68 =>
    do v <- int_t account;
    if (400000000 <=? v)%Z && (v <=? 499999999)%Z then Ok true
    else
      do ok <- validate_default g account;
      if ok then Ok true
      else
        do cr <- compute_core g (py_slice_to account 2 ++ tx "00" ++ py_slice_from account 4);
        let '(_, _, cd) := g_positions g in
        do x <- char_at account (cd - 1); Ok (text_eqb (fst cr) x)
  | V76 =>
    do a0 <- py_index account 0; do v <- int_c a0;
    if negb (mem_Z v [0; 4; 6; 7; 8; 9]%Z) then Ok false else validate_default g account
  | V91 =>
    match variant "Variant1", variant "Variant2", variant "Variant3", variant "Variant4" with
    | Some v1, Some v2, Some v3, Some v4 =>
      do r1 <- validate_default v1 account; if r1 then Ok true else
      do r2 <- validate_default v2 account; if r2 then Ok true else
      do r3 <- validate_default v3 account; if r3 then Ok true else
      validate_default v4 account
    | _, _, _, _ => Crash PAssertionError
    end
  | V99 =>
    do v <- int_t account;
    if (396000000 <=? v)%Z && (v <=? 499999999)%Z then Ok true else validate_default g account
  end.

Definition german_algo (g : gclass) (accepts : list text) : algo :=
  {| al_accepts := accepts;
     al_compute := fun cs => match cs with [a] => compute1 g a | _ => Crash PValueError end;
     al_validate := fun cs _ => match cs with [a] => validate1 g a | _ => Crash PValueError end |}.

Definition german_class (cls : text) (accepts : list text) : option algo :=
  match assoc cls tbl with Some g => Some (german_algo g accepts) | None => None end.

End Germany.
