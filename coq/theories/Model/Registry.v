(* registry.merge_dicts / parse_v2 / get, following schwifty/registry.py. *)
From Schwifty Require Import Lib.Base Lib.Lit Lib.Json.
From Coq Require Import String.

Section Merge.
(* iteration order of  frozenset(right) & frozenset(left) : depends on the hash seed; an oracle.
   It is given the common keys (in right's order) and returns them in the order Python iterates. *)
Variable perm : list text -> list text.

Fixpoint merge_obj (fuel : nat) (l r : obj) : obj :=
  match fuel with
  | O => []
  | S f =>
    let common := perm (filter (fun k => jhas k l) (jkeys r)) in
    let merged :=
      map (fun k =>
             (k, match jget k l, jget k r with
                 | Some (JObj a), Some (JObj b) => JObj (merge_obj f a b)
                 | _, Some v => v
                 | _, None => JNull
                 end)) common in
    merged
      ++ filter (fun kv => negb (jhas (fst kv) merged)) l
      ++ filter (fun kv => negb (jhas (fst kv) merged)) r
  end.

Definition merge_dicts (l r : obj) : obj :=
  merge_obj (S (Nat.max (jdepth (JObj l)) (jdepth (JObj r)))) l r.

(* parse_v2(data) *)
Definition expand_entry (src dst : text) (en : obj) : outcome (list json) :=
  match jget src en with
  | None => Crash PKeyError
  | Some (JArr values) =>
    let en1 := jremove src en in
    let en2 := if jhas (tx "primary") en1 then en1 else en1 ++ [(tx "primary", JBool false)] in
    Ok (map (fun v => JObj (jset dst v en2)) values)
  | Some _ => Crash PTypeError
  end.

Fixpoint expand_all (src dst : text) (l : list json) : outcome (list json) :=
  match l with
  | [] => Ok []
  | JObj en :: r =>
    do a <- expand_entry src dst en;
    do b <- expand_all src dst r;
    Ok (a ++ b)
  | _ :: _ => Crash PTypeError
  end.

Definition parse_v2 (data : json) : outcome (list json) :=
  match data with
  | JObj o =>
    match jget (tx "entries") o with
    | None => Crash PKeyError
    | Some (JArr []) => Ok []        (* the generator never evaluates data["expand_from"] *)
    | Some (JArr entries) =>
      match jget (tx "expand_from") o, jget (tx "expand_into") o with
      | Some (JStr src), Some (JStr dst) => expand_all src dst entries
      | None, _ | _, None => Crash PKeyError
      | _, _ => Crash PTypeError
      end
    | Some _ => Crash PTypeError
    end
  | _ => Crash PTypeError
  end.

(* registry.get(name): the files of the directory in sorted-name order, (is_v2, content) *)
Inductive regdata := RNone | RList (l : list json) | RDict (o : obj).

Definition get_step (data : outcome regdata) (file : bool * json) : outcome regdata :=
  do d <- data;
  do chunk <- (if fst file then (do l <- parse_v2 (snd file); Ok (JArr l)) else Ok (snd file));
  match d, chunk with
  | RNone, JArr l => Ok (RList l)
  | RNone, JObj o => Ok (RDict o)
  | RList a, JArr l => Ok (RList (a ++ l))
  | RDict a, JObj o => Ok (RDict (merge_dicts a o))
  | _, _ => Crash PTypeError          (* mixtures / scalars: not modelled *)
  end.

Definition registry_get (files : list (bool * json)) : outcome regdata :=
  do d <- fold_left get_step files (Ok RNone);
  match d with RNone => Crash PValueError | _ => Ok d end.

End Merge.
