(* IBAN construction and validation, following schwifty/iban.py and checksum/__init__.py line by
   line.  No proofs here. *)
From Schwifty Require Import Lib.Base Lib.Regex Model.Clean Model.Data.

Section Iban.
Variable e : env.
Variable cfg : iban_cfg.
Variable T : table.
(* BBAN.validate_national_checksum, supplied by Model/National.v *)
Variable national : text -> text -> outcome bool.

(* checksum.numerify: int("".join(str(_alphabet.index(c)) for c in value)) *)
Fixpoint numerify_go (acc : Z) (s : text) : outcome Z :=
  match s with
  | [] => Ok acc
  | c :: r =>
    match index_of c (ic_alphabet cfg) with
    | None => Crash PValueError
    | Some i => numerify_go (acc * 10 ^ (len (str_of_Z i)) + i)%Z r
    end
  end.

Definition numerify (s : text) : outcome Z :=
  match s with
  | [] => Crash PValueError          (* int("") *)
  | _ => numerify_go 0%Z s
  end.

(* ISO7064_mod97_10().compute(components) *)
Definition iso7064_compute (components : list text) : outcome text :=
  do n <- numerify (concat_text components);
  Ok (fmt0d 2 (98 - (n * 100) mod 97)%Z).

(* properties of an IBAN object whose compact form is s *)
Definition iban_country_code (s : text) : text := get_slice s 0 (Some 2%Z).
Definition iban_checksum_digits (s : text) : text := get_slice s 2 (Some 4%Z).
(* IBAN.__init__: self.bban = BBAN(self.country_code, self._get_slice(start=4)); BBAN cleans again *)
Definition iban_bban (s : text) : text := clean e (get_slice s 4 None).

Definition iban_spec (s : text) : outcome row :=
  match find_row T (iban_country_code s) with
  | Some r => Ok r
  | None => Err EInvalidCountryCode
  end.

Definition validate_characters (s : text) : outcome unit :=
  if pat_apply (ic_chars_method cfg) (ic_chars_pat cfg) s then Ok tt else Err EInvalidStructure.

Definition validate_length (s : text) : outcome unit :=
  do r <- iban_spec s;
  if Z.eqb (r_iban_length r) (len s) then Ok tt else Err EInvalidLength.

Definition validate_format (s : text) : outcome unit :=
  do r <- iban_spec s;
  if pat_apply (ic_format_method cfg) (r_regex r) (iban_bban s) then Ok tt else Err EInvalidStructure.

Definition iban_numeric (s : text) : outcome Z := numerify (iban_bban s ++ py_slice_to s 4).

Definition validate_iban_checksum (s : text) : outcome unit :=
  do n <- iban_numeric s;
  if negb (Z.eqb (n mod 97) 1) then Err EInvalidChecksumDigits
  else
    do d <- iso7064_compute [iban_bban s; iban_country_code s];
    if text_eqb d (iban_checksum_digits s) then Ok tt else Err EInvalidChecksumDigits.

Definition run_step (validate_bban : bool) (s : text) (st : istep) : outcome unit :=
  match st with
  | SChars => validate_characters s
  | SLength => validate_length s
  | SFormat => validate_format s
  | SChecksum => validate_iban_checksum s
  | SNational =>
    if validate_bban then (do_ national (iban_country_code s) (iban_bban s); Ok tt) else Ok tt
  end.

Fixpoint run_steps (validate_bban : bool) (s : text) (l : list istep) : outcome unit :=
  match l with
  | [] => Ok tt
  | st :: r => do_ run_step validate_bban s st; run_steps validate_bban s r
  end.

(* IBAN.validate on an object with compact form s *)
Definition iban_validate (validate_bban : bool) (s : text) : outcome bool :=
  do_ run_steps validate_bban s (ic_steps cfg); Ok true.

(* IBAN(text, allow_invalid, validate_bban): the compact form, or the exception *)
Definition iban_new (txt : text) (allow_invalid validate_bban : bool) : outcome text :=
  let s := clean e txt in
  if allow_invalid then Ok s else (do_ iban_validate validate_bban s; Ok s).

(* .is_valid: catches the schwifty family only *)
Definition iban_is_valid (s : text) : outcome bool :=
  match iban_validate false s with
  | Ok b => Ok b
  | Err _ => Ok false
  | Crash c => Crash c
  end.

(* IBAN.from_bban(country_code, bban) *)
Definition iban_from_bban (cc bban : text) (allow_invalid validate_bban : bool) : outcome text :=
  do d <- iso7064_compute [bban; cc];
  iban_new (cc ++ d ++ bban) allow_invalid validate_bban.

(* IBAN.formatted *)
Fixpoint groups4 (fuel : nat) (s : text) : list text :=
  match fuel with
  | O => []
  | S f => match s with [] => [] | _ => firstn 4 s :: groups4 f (skipn 4 s) end
  end.
Definition iban_formatted (s : text) : text := join [32%N] (groups4 (length s) s).

End Iban.
