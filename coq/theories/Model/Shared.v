(* Shared state: what the translator records about accesses to state that outlives a call, and the
   abstract interleaving semantics used for C14 / C15. *)
From Schwifty Require Import Lib.Base.

Inductive event :=
| EStore (attr : text) | ELoad (attr : text)
| ECall (method : text)         (* self.<method>(...): dynamic dispatch, any definition of that name *)
| ESuper (target : text).       (* super().<method>(...): resolved to the defining parent, fully qualified *)

(* ---- write-before-read check of the generated event table (C15) -------------------------------
   The translator emits, for every concrete algorithm class and entry point, the loads and stores of
   its whole call tree on the scratch attributes, in source order (calls inlined along the MRO). *)
Fixpoint wbr_seq (attr : text) (evs : list event) (written : bool) : bool :=
  match evs with
  | [] => true
  | EStore a :: r => wbr_seq attr r (written || text_eqb a attr)
  | ELoad a :: r => if text_eqb a attr then written && wbr_seq attr r written else wbr_seq attr r written
  | _ :: r => wbr_seq attr r written
  end.

Definition wbr_ok (tbl : list (text * list event)) (attrs : list text) : bool :=
  forallb (fun attr => forallb (fun kv => wbr_seq attr (snd kv) false) tbl) attrs
  && forallb (fun kv => negb (existsb (fun e => match e with ELoad a => negb (existsb (text_eqb a) attrs) | _ => false end) (snd kv))) tbl.

(* ---- interleaving semantics over shared cells ------------------------------------------------ *)
Definition store := N -> Z.                      (* shared cells *)
Definition upd (s : store) (c : N) (v : Z) : store := fun c' => if N.eqb c c' then v else s c'.

(* a thread: atomic steps over its private accumulator and the shared store *)
Inductive step :=
| Rd (c : N) (f : Z -> Z -> Z)          (* acc := f acc (store c) *)
| Wr (c : N) (f : Z -> Z)               (* store c := f acc *)
| Loc (f : Z -> Z).                     (* acc := f acc *)

Definition exec (st : step) (acc : Z) (s : store) : Z * store :=
  match st with
  | Rd c f => (f acc (s c), s)
  | Wr c f => (acc, upd s c (f acc))
  | Loc f => (f acc, s)
  end.

Fixpoint run_solo (p : list step) (acc : Z) (s : store) : Z * store :=
  match p with
  | [] => (acc, s)
  | st :: r => let '(a, s') := exec st acc s in run_solo r a s'
  end.

(* a configuration: every thread's remaining program and accumulator *)
Definition threads := list (list step * Z).

Fixpoint set_nth {A} (n : nat) (x : A) (l : list A) : list A :=
  match l, n with
  | [], _ => []
  | _ :: r, O => x :: r
  | y :: r, S m => y :: set_nth m x r
  end.

(* a schedule names, step by step, the thread that moves (names of finished threads are skipped) *)
Fixpoint run_sched (sched : list nat) (ts : threads) (s : store) : threads * store :=
  match sched with
  | [] => (ts, s)
  | t :: rest =>
    match nth_error ts t with
    | Some (st :: p, acc) =>
      let '(a, s') := exec st acc s in run_sched rest (set_nth t (p, a) ts) s'
    | _ => run_sched rest ts s
    end
  end.
