(* BBAN: component access, construction from components, national checksum dispatch — following
   schwifty/bban.py.  National algorithms and the bank index are parameters (Model/National.v,
   Model/Lookup.v). *)
From Schwifty Require Import Lib.Base Lib.Lit Lib.Regex Model.Clean Model.Data.
(* the structure-string reader is shared with the specification (Spec/Iso13616.v: parse_structure) *)
From Schwifty Require Import Spec.Iso13616.
From Coq Require Import String.

(* a registered checksum algorithm object *)
Record algo := {
  al_accepts : list text;                               (* Component values, in order *)
  al_compute : list text -> outcome text;
  al_validate : list text -> text -> outcome bool;
}.

Definition k_bank : text := tx "bank_code".
Definition k_branch : text := tx "branch_code".
Definition k_account : text := tx "account_code".
Definition k_national : text := tx "national_checksum_digits".
Definition k_default : text := tx "default".

Section Bban.
Variable e : env.
Variable components : list text.                        (* domain.Component, definition order *)
Variable T : table.
Variable find_algo : text -> text -> option algo.       (* algorithms.get(f"{cc}:{name}") *)
Variable bank_index : text -> text -> list entry.       (* registry.get("bank_code").get((cc, key), []) *)

Definition get_spec (cc : text) : outcome row :=
  match find_row T cc with Some r => Ok r | None => Err EInvalidCountryCode end.

(* _get_position_range: the [start, end] pair under spec["positions"][component], default [0, 0] *)
Definition position_range (r : row) (comp : text) : Z * Z :=
  match r_positions r with
  | Some ps => match assoc comp ps with Some p => p | None => (0, 0)%Z end
  | None => (0, 0)%Z
  end.

Definition range_length (p : Z * Z) : Z := (snd p - fst p)%Z.
Definition range_is_empty (p : Z * Z) : bool := Z.eqb (fst p) 0 && Z.eqb (snd p) 0.

(* BBAN._get_component on a BBAN object with country cc and compact form b *)
Definition bban_component (cc b comp : text) : outcome text :=
  do r <- get_spec cc;
  let p := position_range r comp in
  Ok (get_slice b (fst p) (Some (snd p))).

Definition lookup_components (r : row) : list text :=
  match r_lookup r with Some l => l | None => [k_bank] end.

Definition bban_lookup_key (cc b : text) : outcome text :=
  do r <- get_spec cc;
  Ok (concat_text (map (fun comp => let p := position_range r comp in get_slice b (fst p) (Some (snd p)))
                       (lookup_components r))).

(* BBAN.bank: first entry of the index under (cc, key), or None *)
Definition bban_bank (cc b : text) : outcome (option entry) :=
  do key <- bban_lookup_key cc b;
  Ok (match bank_index cc key with [] => None | x :: _ => Some x end).

(* BBAN.validate_national_checksum *)
Definition validate_national (cc b : text) : outcome bool :=
  do bank <- bban_bank cc b;
  let algo_name := match bank with
                   | Some en => match e_algo en with Some a => a | None => k_default end
                   | None => k_default
                   end in
  match find_algo cc algo_name with
  | None => Ok true
  | Some al =>
    do r <- get_spec cc;
    let comp c := let p := position_range r c in get_slice b (fst p) (Some (snd p)) in
    do ok <- al_validate al (map comp (al_accepts al)) (comp k_national);
    if ok then Ok true else Err EInvalidBBANChecksum
  end.

(* compute_national_checksum(country_code, components) *)
Definition compute_national (cc : text) (vals : list (text * text)) : outcome text :=
  match find_algo cc k_default with
  | None => Ok []
  | Some al =>
    al_compute al (map (fun k => match assoc k vals with Some v => v | None => [] end) (al_accepts al))
  end.

Fixpoint set_assoc (k : text) (v : text) (l : list (text * text)) : list (text * text) :=
  match l with
  | [] => []
  | (k', v') :: r => if text_eqb k k' then (k', v) :: r else (k', v') :: set_assoc k v r
  end.

Definition nonempty_text (t : text) : bool := match t with [] => false | _ => true end.

Definition get_val (k : text) (l : list (text * text)) : text :=
  match assoc k l with Some v => v | None => [] end.

(* bban._matches_structure(spec, range_, value): every character of the value is of the class the
   structure string gives to its position (zip truncates to the shorter of range and value) *)
Definition class_chars (k : kind) : text :=
  match k with
  | Kn => tx "0123456789"
  | Ka => tx "ABCDEFGHIJKLMNOPQRSTUVWXYZ"
  | Kc => tx "0123456789ABCDEFGHIJKLMNOPQRSTUVWXYZ"
  | Ke => tx " "
  end.
Fixpoint all_in_class (ks : list kind) (v : text) : bool :=
  match ks, v with
  | k :: ks', c :: v' => mem c (class_chars k) && all_in_class ks' v'
  | _, _ => true
  end.
Definition py_slice_list {A} (l : list A) (a b : Z) : list A :=
  let n := Z.of_nat (List.length l) in
  let a' := norm_idx n a in let b' := norm_idx n b in
  firstn (Z.to_nat (b' - a')) (skipn (Z.to_nat a') l).
Definition matches_structure (r : row) (p : Z * Z) (v : text) : outcome bool :=
  match parse_structure (r_bban_spec r) with
  | Some items =>
    let classes := flat_map (fun it => repeat (it_kind it) (N.to_nat (it_count it))) items in
    Ok (all_in_class (py_slice_list classes (fst p) (snd p)) v)
  | None => Crash PAssertionError       (* structure strings the reader does not understand: not modelled *)
  end.

(* BBAN.from_components(country_code, **values), in named pieces (Proofs/PlaceFacts.v reasons about each) *)
Definition fc_ranges (r : row) : list (text * (Z * Z)) := map (fun c => (c, position_range r c)) components.
Definition fc_rng (r : row) (c : text) : Z * Z :=
  match assoc c (fc_ranges r) with Some p => p | None => (0, 0)%Z end.
Definition fc_comps0 (r : row) (values : list (text * text)) : list (text * text) :=
  map (fun cr => (fst cr, zfill (clean e (get_val (fst cr) values)) (range_length (snd cr)))) (fc_ranges r).
Definition fc_split (r : row) (comps0 : list (text * text)) : bool :=
  negb (Z.eqb (range_length (fc_rng r k_branch)) 0)
  && Z.eqb (len (get_val k_bank comps0)) (range_length (fc_rng r k_bank) + range_length (fc_rng r k_branch)).
Definition fc_comps1 (r : row) (comps0 : list (text * text)) : list (text * text) :=
  if fc_split r comps0 then
    let bank_len := range_length (fc_rng r k_bank) in
    let branch_len := range_length (fc_rng r k_branch) in
    let bc := get_val k_bank comps0 in
    set_assoc k_bank (py_slice_to bc bank_len)
      (set_assoc k_branch (py_slice bc bank_len (bank_len + branch_len)) comps0)
  else comps0.
Definition fc_error (k : text) : exn :=
  if text_eqb k k_bank then EInvalidBankCode
  else if text_eqb k k_branch then EInvalidBranchCode
  else if text_eqb k k_account then EInvalidAccountCode
  else EInvalidStructure.
Fixpoint fc_check (r : row) (values : list (text * text)) (l : list (text * text)) : outcome unit :=
  match l with
  | [] => Ok tt
  | (k, v) :: rest =>
    let checked := text_eqb k k_bank || text_eqb k k_branch || text_eqb k k_account
                   || nonempty_text (get_val k values) in
    do m <- (if checked then matches_structure r (fc_rng r k) v else Ok true);
    if m then fc_check r values rest else Err (fc_error k)
  end.
Definition place (p : Z * Z) (v acc : text) : text := py_slice_to acc (fst p) ++ v ++ py_slice_from acc (snd p).
Definition fc_step (r : row) (acc : text) (kv : text * text) : text :=
  let p := fc_rng r (fst kv) in if range_is_empty p then acc else place p (snd kv) acc.
Definition fc_place (r : row) (comps : list (text * text)) : text :=
  fold_left (fc_step r) comps (zeros (Z.to_nat (r_bban_length r))).
Definition fc_comps2 (checksum : text) (comps1 : list (text * text)) : list (text * text) :=
  match checksum with [] => comps1 | _ => set_assoc k_national checksum comps1 end.

Definition from_components (cc : text) (values : list (text * text)) : outcome text :=
  do r <- get_spec cc;
  match r_positions r with
  | None => Err ESchwifty
  | Some _ =>
    let comps0 := fc_comps0 r values in
    if fc_split r comps0 && nonempty_text (get_val k_branch values) then Err EInvalidBranchCode      (* given twice *)
    else
    let comps1 := fc_comps1 r comps0 in
    if Z.ltb (range_length (fc_rng r k_bank)) (len (get_val k_bank comps1)) then Err EInvalidBankCode
    else if Z.ltb (range_length (fc_rng r k_branch)) (len (get_val k_branch comps1)) then Err EInvalidBranchCode
    else if Z.ltb (range_length (fc_rng r k_account)) (len (get_val k_account comps1)) then Err EInvalidAccountCode
    else
      do _ok <- fc_check r values comps1;
      do checksum <- compute_national cc comps1;
      Ok (clean e (fc_place r (fc_comps2 checksum comps1)))
  end.

End Bban.
