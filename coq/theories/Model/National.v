(* The national checksum algorithms of schwifty/checksum/*.py (all but germany.py), following the
   Python line by line, and the algorithm registry keyed "<country>:<name>". *)
From Schwifty Require Import Lib.Base Lib.Lit Lib.Regex Model.Clean Model.Data Model.Bban.
From Coq Require Import String.

Section National.
Variable e : env.
Variable nd : list (N * N).          (* Unicode decimal digit runs: int() accepts them *)
Variable alphabet : text.            (* checksum._alphabet *)

(* int(c) for a one-character string *)
Definition int_char (c : N) : outcome Z :=
  match find (fun r => N.leb (fst r) c && N.leb c (snd r)) nd with
  | Some r => Ok (Z.of_N ((c - fst r) mod 10))
  | None => Crash PValueError
  end.

(* int(s): decimal digits only (signs, underscores, surrounding whitespace cannot occur in cleaned text
   except "-"/"+" handled as ValueError here; see DESIGN trusted base) *)
Fixpoint int_go (acc : Z) (s : text) : outcome Z :=
  match s with
  | [] => Ok acc
  | c :: r => do d <- int_char c; int_go (acc * 10 + d)%Z r
  end.
Definition int_text (s : text) : outcome Z := match s with [] => Crash PValueError | _ => int_go 0%Z s end.

(* checksum.weighted: sum(n * int(c) for n, c in zip(weights, value)) % mod *)
Fixpoint weighted_sum (weights : list Z) (value : text) : outcome Z :=
  match weights, value with
  | w :: ws, c :: cs => do d <- int_char c; do r <- weighted_sum ws cs; Ok (w * d + r)%Z
  | _, _ => Ok 0%Z
  end.
Definition weighted (value : text) (m : Z) (weights : list Z) : outcome Z :=
  do s <- weighted_sum weights value; Ok (s mod m)%Z.

(* itertools.cycle(ws) zipped against a finite value *)
Fixpoint cycle_to {A} (ws cur : list A) (n : nat) : list A :=
  match n with
  | O => []
  | S n' => match cur with
            | x :: r => x :: cycle_to ws r n'
            | [] => match ws with x :: r => x :: cycle_to ws r n' | [] => [] end
            end
  end.

(* checksum.numerify *)
Fixpoint numerify_go (acc : Z) (s : text) : outcome Z :=
  match s with
  | [] => Ok acc
  | c :: r =>
    match index_of c alphabet with
    | None => Crash PValueError
    | Some i => numerify_go (acc * 10 ^ (len (str_of_Z i)) + i)%Z r
    end
  end.
Definition numerify (s : text) : outcome Z := match s with [] => Crash PValueError | _ => numerify_go 0%Z s end.

(* ISO7064_mod97_10 family: iso7064(pre_process(components), 97, post_process) *)
Definition iso_family (pre : list text -> outcome Z) (post : Z -> Z) (components : list text) : outcome text :=
  do n <- pre components; Ok (fmt0d 2 (post (n mod 97)%Z)).

Definition pre_default (components : list text) : outcome Z :=
  do n <- numerify (concat_text components); Ok (n * 100)%Z.

(* france.numerify: int("".join(numerics[c] for c in value)) *)
Definition fr_digit (c : N) : option N :=
  if is_ascii_digit c then Some c
  else if is_ascii_upper c then
    let i := (c - 65)%N in                       (* A=0 .. Z=25 *)
    Some (if N.ltb i 9 then 49 + i               (* A-I -> 1-9 *)
          else if N.ltb i 18 then 49 + (i - 9)   (* J-R -> 1-9 *)
          else 50 + (i - 18))%N                  (* S-Z -> 2-9 *)
  else None.
Fixpoint fr_map (s : text) : outcome text :=
  match s with
  | [] => Ok []
  | c :: r => match fr_digit c with Some d => (do t <- fr_map r; Ok (d :: t)) | None => Crash PKeyError end
  end.
Definition fr_numerify (s : text) : outcome Z := do t <- fr_map s; int_text t.

Definition default_validate (compute : list text -> outcome text) (components : list text) (expected : text) : outcome bool :=
  do c <- compute components; Ok (text_eqb c expected).

(* ---- the algorithms ------------------------------------------------------------------------- *)

Definition be_compute := iso_family (fun cs => do n <- pre_default cs; Ok (n / 100)%Z) (fun r => if Z.eqb r 0 then 97 else r)%Z.
Definition iso_compute := iso_family pre_default (fun r => 98 - r)%Z.
Definition variant_compute := iso_family pre_default (fun r => 97 - r)%Z.

Definition fr_compute (components : list text) : outcome text :=
  match components with
  | [bank; branch; account] =>
    iso_family (fun _ => do a <- fr_numerify bank; do b <- fr_numerify branch; do c <- fr_numerify account;
                         Ok (89 * a + 15 * b + 3 * c)%Z) (fun r => 97 - r)%Z components
  | _ => Crash PValueError
  end.

Definition es_reconcile (n : Z) : Z := if Z.eqb n 11 then 0 else if Z.eqb n 10 then 1 else n.
Definition es_weights : list Z := [1; 2; 4; 8; 5; 10; 9; 7; 3; 6]%Z.
Definition es_compute (components : list text) : outcome text :=
  match components with
  | [bank; branch; account] =>
    do w1 <- weighted (bank ++ branch) 11 (skipn 2 es_weights);
    do w2 <- weighted account 11 es_weights;
    Ok (str_of_Z (es_reconcile (11 - w1)) ++ str_of_Z (es_reconcile (11 - w2)))
  | _ => Crash PValueError
  end.

(* italy.get_index *)
Fixpoint find_sub_go (u : text) (l : text) (i : Z) (fuel : nat) : option Z :=
  match fuel with
  | O => None
  | S f => if startswith u l then Some i else match l with [] => None | _ :: r => find_sub_go u r (i + 1)%Z f end
  end.
Definition find_sub (u l : text) : option Z := find_sub_go u l 0%Z (S (List.length l)).
Definition upper_letters : text := tx "ABCDEFGHIJKLMNOPQRSTUVWXYZ".
Definition it_index (c : N) : outcome Z :=
  if is_ascii_digit c then Ok (Z.of_N (c - 48))
  else match find_sub (upper1 e c) upper_letters with Some i => Ok i | None => Crash PValueError end.
Definition it_odds : list Z :=
  [1; 0; 5; 7; 9; 13; 15; 17; 19; 21; 2; 4; 18; 20; 11; 3; 6; 8; 12; 14; 16; 10; 22; 25; 24; 23]%Z.
Fixpoint it_sum (i : nat) (s : text) : outcome Z :=
  match s with
  | [] => Ok 0%Z
  | c :: r =>
    do k <- it_index c;
    do rest <- it_sum (S i) r;
    if Nat.even (S i) then Ok (k + rest)%Z
    else match nth_error it_odds (Z.to_nat k) with Some o => Ok (o + rest)%Z | None => Crash PIndexError end
  end.
Definition it_compute (components : list text) : outcome text :=
  do s <- it_sum 0 (concat_text components);
  match nth_error upper_letters (Z.to_nat (s mod 26)) with Some c => Ok [c] | None => Crash PIndexError end.

(* checksum.luhn *)
Fixpoint alpha_digits (s : text) : outcome text :=
  match s with
  | [] => Ok []
  | c :: r => match index_of c alphabet with
              | Some i => (do t <- alpha_digits r; Ok (str_of_Z i ++ t))
              | None => Crash PValueError
              end
  end.
Fixpoint luhn_processed (i : nat) (rev_numerical : text) : outcome text :=
  match rev_numerical with
  | [] => Ok []
  | c :: r => do d <- int_char c; do t <- luhn_processed (S i) r;
              Ok (str_of_Z ((2 - Z.of_nat (Nat.modulo i 2)) * d) ++ t)
  end.
Fixpoint digit_sum_text (s : text) : outcome Z :=
  match s with [] => Ok 0%Z | c :: r => do d <- int_char c; do t <- digit_sum_text r; Ok (d + t)%Z end.
Definition luhn (value : text) : outcome text :=
  do numerical <- alpha_digits value;
  do processed <- luhn_processed 0 (rev numerical);
  do s <- digit_sum_text processed;
  Ok (str_of_Z ((10 - s) mod 10)).
Definition fi_compute (components : list text) : outcome text := luhn (concat_text components).

Definition no_weights : list Z := [5; 4; 3; 2; 7; 6; 5; 4; 3; 2]%Z.
Definition no_compute (components : list text) : outcome text :=
  match components with
  | [_; account] =>
    let value := if text_eqb (py_slice_to account 2) (tx "00") then py_slice_from account 2 else concat_text components in
    do total <- weighted_sum no_weights value;
    let cd := (11 - total mod 11)%Z in
    if Z.eqb cd 10 then Err EInvalidAccountCode else Ok (str_of_Z (cd mod 11))
  | _ => Crash PValueError
  end.

Definition pl_compute (components : list text) : outcome text :=
  do d <- weighted (concat_text components) 10 [3; 9; 7; 1; 3; 9; 7]%Z;
  Ok (str_of_Z (if Z.eqb d 0 then d else 10 - d)).

Definition ee_compute (components : list text) : outcome text :=
  let v := rev (concat_text components) in
  do d <- weighted v 10 (cycle_to [7; 3; 1]%Z [] (List.length v));
  Ok (str_of_Z (if Z.eqb d 0 then d else 10 - d)).

Definition cz_weights : list Z := [6; 3; 7; 9; 10; 5; 8; 4; 2; 1]%Z.
Definition cz_validate (components : list text) (_ : text) : outcome bool :=
  match components with
  | [branch; account] =>
    do d1 <- weighted branch 11 (skipn 4 cz_weights);
    do d2 <- weighted account 11 cz_weights;
    Ok (Z.eqb d1 0 && Z.eqb d2 0)
  | _ => Crash PValueError
  end.

Definition is_compute (components : list text) : outcome text :=
  match components with
  | [holder] =>
    do r <- weighted holder 11 [3; 2; 7; 6; 5; 4; 3; 2]%Z;
    Ok (if Z.eqb r 0 then str_of_Z r else str_of_Z (11 - r))
  | _ => Crash PValueError
  end.
Definition is_validate (components : list text) (_ : text) : outcome bool :=
  match components with
  | [holder] => do c <- is_compute components; do x <- py_index holder 8; Ok (text_eqb c [x])
  | _ => Crash PValueError
  end.

(* ---- registry: class id -> algorithm object (accepts comes from the translator) --------------- *)

Definition mk (accepts : list text) (compute : list text -> outcome text)
              (validate : option (list text -> text -> outcome bool)) : algo :=
  {| al_accepts := accepts; al_compute := compute;
     al_validate := match validate with Some v => v | None => default_validate compute end |}.

Definition national_class (cls : text) (accepts : list text) : option algo :=
  if text_eqb cls (tx "belgium.DefaultAlgorithm") then Some (mk accepts be_compute None)
  else if text_eqb cls (tx "iso7064_mod97_10.DefaultAlgorithm") then Some (mk accepts iso_compute None)
  else if text_eqb cls (tx "iso7064_mod97_10_variant.DefaultAlgorithm") then Some (mk accepts variant_compute None)
  else if text_eqb cls (tx "france.DefaultAlgorithm") then Some (mk accepts fr_compute None)
  else if text_eqb cls (tx "spain.DefaultAlgorithm") then Some (mk accepts es_compute None)
  else if text_eqb cls (tx "italy.DefaultAlgorithm") then Some (mk accepts it_compute None)
  else if text_eqb cls (tx "finland.DefaultAlgorithm") then Some (mk accepts fi_compute None)
  else if text_eqb cls (tx "norway.DefaultAlgorithm") then Some (mk accepts no_compute None)
  else if text_eqb cls (tx "poland.DefaultAlgorithm") then Some (mk accepts pl_compute None)
  else if text_eqb cls (tx "estonia.DefaultAlgorithm") then Some (mk accepts ee_compute None)
  else if text_eqb cls (tx "czech_republic.DefaultAlgorithm") then Some (mk accepts (fun _ => Ok []) (Some cz_validate))
  else if text_eqb cls (tx "iceland.DefaultAlgorithm") then Some (mk accepts is_compute (Some is_validate))
  else None.

End National.
