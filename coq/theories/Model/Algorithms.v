(* algorithms.get(f"{country}:{name}") over the generated registration table. *)
From Schwifty Require Import Lib.Base Lib.Lit Model.Clean Model.Data Model.Bban Model.National.
From Coq Require Import String.

Section Algorithms.
Variable e : env.
Variable nd : list (N * N).
Variable alphabet : text.
Variable registered : list (text * (text * list text)).     (* key -> (class id, accepts) *)
(* classes of germany.py, supplied by Model/Germany.v *)
Variable german_class : text -> list text -> option algo.

Definition find_algo (cc name : text) : option algo :=
  match assoc (cc ++ [58%N] ++ name) registered with
  | None => None
  | Some (cls, accepts) =>
    match national_class e nd alphabet cls accepts with
    | Some a => Some a
    | None => german_class cls accepts
    end
  end.
End Algorithms.
