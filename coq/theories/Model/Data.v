(* Shapes of the data the translator extracts from the tree (country table, bank list, code
   configuration).  Every model function takes these as parameters; Gen/ binds today's values. *)
From Schwifty Require Import Lib.Base Lib.Regex.

(* one entry of the effective registry.get("iban") dict, after iban.add_bban_regex *)
Record row := {
  r_cc : text;                                   (* dict key *)
  r_bban_spec : text;
  r_bban_length : Z;
  r_iban_length : Z;
  r_regex : repat;                               (* spec["regex"], as compiled today *)
  r_positions : option (list (text * (Z * Z)));  (* None: no "positions" key *)
  r_lookup : option (list text);                 (* bic_lookup_components *)
  r_defaults : list (text * text);               (* default_<component> *)
}.

Definition table := list row.

Definition find_row (T : table) (cc : text) : option row :=
  find (fun r => text_eqb (r_cc r) cc) T.

(* one entry of the effective registry.get("bank") list *)
Record entry := {
  e_id : N;                 (* index in the effective list (names are compared by id) *)
  e_cc : text;
  e_code : text;
  e_bic : option text;      (* None: JSON null *)
  e_primary : bool;
  e_algo : option text;     (* checksum_algo, when present *)
}.

Definition banks := list entry.

(* validation steps of IBAN.validate, in the order the source lists them *)
Inductive istep := SChars | SLength | SFormat | SChecksum | SNational.

Record iban_cfg := {
  ic_steps : list istep;
  ic_chars_method : remethod;      (* _validate_characters: re.<method>(pattern, self) *)
  ic_chars_pat : repat;
  ic_format_method : remethod;     (* _validate_format: spec["regex"].<method>(self.bban) *)
  ic_alphabet : text;              (* checksum._alphabet *)
  ic_components : list text;       (* domain.Component values in definition order *)
}.

(* BIC ---------------------------------------------------------------------------------------- *)
Inductive bstep := BLength | BStructure | BCountry.

Record bic_cfg := {
  bc_steps : list bstep;
  bc_lengths : list Z;           (* len(self) not in (...) *)
  bc_method : remethod;          (* _validate_structure: regex.<method>(str(self)) *)
  bc_iso : repat;                (* _bic_iso9362_re *)
  bc_swift : repat;              (* _bic_swift_re *)
  bc_bank : Z * Z;               (* slice bounds of the four parts *)
  bc_country : Z * Z;
  bc_location : Z * Z;
  bc_branch : Z * Z;
}.

(* accessor tables read off the one-line property bodies of IBAN and BBAN *)
Record acc_cfg := {
  ac_cc : Z * Z;                          (* IBAN.country_code slice *)
  ac_dd : Z * Z;                          (* IBAN.checksum_digits slice *)
  ac_bban_start : Z;                      (* IBAN.__init__: self._get_slice(start=..) *)
  ac_group : Z;                           (* IBAN.formatted block size *)
  ac_iban_proxy : list (text * text);     (* IBAN property -> BBAN attribute it returns *)
  ac_bban_comp : list (text * text);      (* BBAN property -> Component value it reads *)
}.

(* object protocol facts read off common.py / bban.py / iban.py / bic.py (C16) *)
Inductive deepcopy_kind := DcRevalidate | DcPreserve | DcNone.
Record class_proto := {
  cp_new_arity : nat;            (* positional parameters of __new__ after cls *)
  cp_newargs : option nat;       (* Some n: the class (or a base below str) defines __getnewargs__ returning n values *)
  cp_deepcopy : deepcopy_kind;   (* which __deepcopy__ the class inherits *)
}.
Record obj_cfg := {
  oc_iban : class_proto;
  oc_bic : class_proto;
  oc_bban : class_proto;
  oc_eq_compact : bool;          (* Base.__eq__ compares str(self) == str(other) *)
  oc_hash_compact : bool;        (* Base.__hash__ is hash(str(self)) *)
  oc_lt_compact : bool;          (* Base.__lt__ compares str(self) < str(other) *)
}.
