(* BBAN.random / IBAN.random, following schwifty/bban.py.  The caller's generator and rstr are
   oracles: the model is given what they produced (index of the country choice, index of the bank
   choice, the xeger draw of each attempt). *)
From Schwifty Require Import Lib.Base Lib.Lit Model.Clean Model.Data Model.Bban Model.Lookup.
From Coq Require Import String.

Section Random.
Variable e : env.
Variable components : list text.
Variable T : table.
Variable find_algo : text -> text -> option algo.
Variable R : banks.

(* keys of registry.get("country") in dict order: first occurrence in the bank list *)
Definition country_keys : list text :=
  map fst (build_index text_eqb key_country R).

Definition default_for (r : row) (k : text) : option text := assoc k (r_defaults r).

Definition py_slice_text (s : text) (a b : Z) : text := py_slice s a b.

(* one pass of the loop body up to the call of from_components: the component values handed over *)
Definition rnd_comps0 (r : row) (bank : option entry) (pins : list (text * text)) (bban : text) : list (text * text) :=
  map (fun cr =>
         let k := fst cr in
         (k, match assoc k pins with
             | Some v => v
             | None =>
               let from_bank := if text_eqb k k_bank
                                then match bank with Some en => e_code en | None => [] end else [] in
               match from_bank with
               | _ :: _ => from_bank
               | [] => match default_for r k with
                       | Some dv => dv
                       | None => py_slice bban (fst (snd cr)) (snd (snd cr))
                       end
               end
             end)) (fc_ranges components r).
Definition rnd_comps1 (r : row) (pins : list (text * text)) (comps0 : list (text * text)) : list (text * text) :=
  let bank_code := get_val k_bank comps0 in
  let bank_len := range_length (fc_rng components r k_bank) in
  let branch_len := range_length (fc_rng components r k_branch) in
  if negb (match assoc k_branch pins with Some _ => true | None => false end)
     && Z.leb (bank_len + branch_len) (len bank_code)
  then set_assoc k_branch (py_slice bank_code bank_len (bank_len + branch_len)) comps0
  else comps0.
Definition rnd_comps2 (r : row) (bank : option entry) (pins : list (text * text)) (d : text) : list (text * text) :=
  map (fun kv => (fst kv, py_slice_to (snd kv) (range_length (fc_rng components r (fst kv)))))
      (rnd_comps1 r pins (rnd_comps0 r bank pins (upper e d))).

Fixpoint attempts (fuel : nat) (cc : text) (r : row) (bank : option entry) (pins : list (text * text))
                  (draws : list text) : outcome text :=
  match fuel with
  | O => Err EGenerateRandomOverflow
  | S f =>
    match draws with
    | [] => Crash PAssertionError                       (* the harness did not supply enough draws *)
    | d :: rest =>
      match from_components e components T find_algo cc (rnd_comps2 r bank pins d) with
      | Ok b => Ok b
      | Err _ => attempts f cc r bank pins rest
      | Crash c => Crash c
      end
    end
  end.

Definition random_bban (cc0 : text) (use_registry : bool) (pins : list (text * text))
                       (country_idx bank_idx : nat) (draws : list text) : outcome (text * text) :=
  let cc := match cc0 with [] => nth country_idx country_keys [] | _ => cc0 end in
  do r <- get_spec T cc;
  let bank := if use_registry
              then match country_entries R cc with [] => None | l => nth_error l bank_idx end
              else None in
  match r_positions r with
  | None =>
    match draws with
    | d :: _ => Ok (cc, clean e (upper e d))
    | [] => Crash PAssertionError
    end
  | Some _ => do b <- attempts 100 cc r bank pins draws; Ok (cc, b)
  end.

End Random.
