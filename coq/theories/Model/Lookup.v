(* Indexes over the bank list and the bank-code <-> BIC lookups, following registry.build_index,
   BIC.candidates_from_bank_code / from_bank_code / _lookup_values / exists and BBAN.bank / bic. *)
From Schwifty Require Import Lib.Base Lib.Lit Lib.Regex Model.Clean Model.Data Model.Bic.
From Coq Require Import String.

(* ---- build_index(..., accumulate=True): a dict of lists, in first-occurrence order of the keys --- *)
Section Index.
Context {K : Type}.
Variable key_eqb : K -> K -> bool.
Variable key_of : entry -> option K.       (* None: the key is falsy (empty / null component), entry skipped *)

Fixpoint idx_add (k : K) (en : entry) (idx : list (K * list entry)) : list (K * list entry) :=
  match idx with
  | [] => [(k, [en])]
  | (k', l) :: r => if key_eqb k k' then (k', l ++ [en]) :: r else (k', l) :: idx_add k en r
  end.

Definition build_index (R : banks) : list (K * list entry) :=
  fold_left (fun idx en => match key_of en with Some k => idx_add k en idx | None => idx end) R [].

Fixpoint idx_get (k : K) (idx : list (K * list entry)) : option (list entry) :=
  match idx with
  | [] => None
  | (k', l) :: r => if key_eqb k k' then Some l else idx_get k r
  end.

(* the abstraction proved equal to idx_get on build_index (Proofs/LookupFacts.v) *)
Definition idx_filter (k : K) (R : banks) : list entry :=
  filter (fun en => match key_of en with Some k' => key_eqb k k' | None => false end) R.
End Index.

Definition nonempty (t : text) : bool := match t with [] => false | _ => true end.

(* key=("country_code", "bank_code"): both components must be truthy *)
Definition key_bank_code (en : entry) : option (text * text) :=
  if nonempty (e_cc en) && nonempty (e_code en) then Some (e_cc en, e_code en) else None.
Definition pair_eqb (a b : text * text) : bool := text_eqb (fst a) (fst b) && text_eqb (snd a) (snd b).
(* key="bic" *)
Definition key_bic (en : entry) : option text :=
  match e_bic en with Some b => if nonempty b then Some b else None | None => None end.
(* key="country_code" *)
Definition key_country (en : entry) : option text := if nonempty (e_cc en) then Some (e_cc en) else None.

Section Lookup.
Variable e : env.
Variable bcfg : bic_cfg.
Variable countries : list text.
Variable R : banks.

Definition bank_code_entries (cc code : text) : list entry := idx_filter pair_eqb key_bank_code (cc, code) R.
Definition bic_entries (b : text) : list entry := idx_filter text_eqb key_bic b R.
Definition country_entries (cc : text) : list entry := idx_filter text_eqb key_country cc R.

(* sorted(entries, key=itemgetter("primary"), reverse=True): stable, primaries first *)
Definition primary_first (l : list entry) : list entry :=
  filter (fun en => e_primary en) l ++ filter (fun en => negb (e_primary en)) l.

Fixpoint sequence {A} (l : list (outcome A)) : outcome (list A) :=
  match l with
  | [] => Ok []
  | o :: r => do a <- o; do b <- sequence r; Ok (a :: b)
  end.

(* BIC.candidates_from_bank_code *)
Definition candidates (cc code : text) : outcome (list text) :=
  match bank_code_entries cc code with
  | [] => Err EInvalidBankCode                    (* KeyError -> InvalidBankCode *)
  | entries =>
    sequence (flat_map (fun en => match e_bic en with
                                  | Some b => if nonempty b then [bic_new e bcfg countries b false false] else []
                                  | None => []
                                  end) (primary_first entries))
  end.

Fixpoint max_text (x : text) (l : list text) : text :=
  match l with [] => x | y :: r => max_text (if text_ltb x y then y else x) r end.

(* BIC.from_bank_code *)
Definition from_bank_code (cc code : text) : outcome text :=
  do cands <- candidates cc code;
  match cands with
  | [] => Err EInvalidBankCode                    (* IndexError -> InvalidBankCode *)
  | [c] => Ok c
  | c :: _ =>
    match filter (fun b => negb (nonempty (bic_branch_code bcfg b))) cands with
    | g :: gs => Ok (max_text g gs)
    | [] =>
      match filter (fun b => text_eqb (bic_branch_code bcfg b) (tx "XXX")) cands with
      | g :: gs => Ok (max_text g gs)
      | [] => Ok c
      end
    end
  end.

(* sorted({entry["bank_code"] for entry in entries}) *)
Fixpoint insert_sorted (x : text) (l : list text) : list text :=
  match l with
  | [] => [x]
  | y :: r => if text_eqb x y then l else if text_ltb x y then x :: l else y :: insert_sorted x r
  end.
Definition sorted_set (l : list text) : list text := fold_left (fun acc x => insert_sorted x acc) l [].

Definition domestic_bank_codes (b : text) : list text := sorted_set (map e_code (bic_entries b)).
Definition bic_exists (b : text) : bool := match bic_entries b with [] => false | _ => true end.
Definition bank_ids (b : text) : list N := map e_id (bic_entries b).

End Lookup.
