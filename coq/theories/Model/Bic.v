(* BIC validation and parts, following schwifty/bic.py. *)
From Schwifty Require Import Lib.Base Lib.Regex Model.Clean Model.Data.

Section Bic.
Variable e : env.
Variable cfg : bic_cfg.
Variable countries : list text.     (* pycountry alpha-2 codes (oracle, regenerated) *)

Definition part (s : text) (p : Z * Z) : text := get_slice s (fst p) (Some (snd p)).
Definition bic_bank_code (s : text) := part s (bc_bank cfg).
Definition bic_country_code (s : text) := part s (bc_country cfg).
Definition bic_location_code (s : text) := part s (bc_location cfg).
Definition bic_branch_code (s : text) := part s (bc_branch cfg).

Definition memZ (z : Z) (l : list Z) : bool := existsb (Z.eqb z) l.
Definition mem_text (t : text) (l : list text) : bool := existsb (text_eqb t) l.

Definition bic_run_step (strict : bool) (s : text) (st : bstep) : outcome unit :=
  match st with
  | BLength => if memZ (len s) (bc_lengths cfg) then Ok tt else Err EInvalidLength
  | BStructure =>
    if pat_apply (bc_method cfg) (if strict then bc_swift cfg else bc_iso cfg) s then Ok tt
    else Err EInvalidStructure
  | BCountry => if mem_text (bic_country_code s) countries then Ok tt else Err EInvalidCountryCode
  end.

Fixpoint bic_run_steps (strict : bool) (s : text) (l : list bstep) : outcome unit :=
  match l with
  | [] => Ok tt
  | st :: r => do_ bic_run_step strict s st; bic_run_steps strict s r
  end.

Definition bic_validate (strict : bool) (s : text) : outcome bool :=
  do_ bic_run_steps strict s (bc_steps cfg); Ok true.

Definition bic_new (txt : text) (allow_invalid strict : bool) : outcome text :=
  let s := clean e txt in
  if allow_invalid then Ok s else (do_ bic_validate strict s; Ok s).

(* is_valid calls validate() without the strict flag *)
Definition bic_is_valid (s : text) : outcome bool :=
  match bic_validate false s with
  | Ok b => Ok b
  | Err _ => Ok false
  | Crash c => Crash c
  end.

Definition bic_formatted (s : text) : text :=
  let f := join [32%N] [bic_bank_code s; bic_country_code s; bic_location_code s] in
  match bic_branch_code s with
  | [] => f
  | b => f ++ [32%N] ++ b
  end.

End Bic.
