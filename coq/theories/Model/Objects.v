(* IBAN / BIC / BBAN as values: equality, hashing, ordering (common.Base) and the copy protocol as far
   as schwifty decides it (arity of __new__, __getnewargs__, __deepcopy__); copyreg / pickle internals
   are CPython's and enter through the generated protocol facts. *)
From Schwifty Require Import Lib.Base Model.Data.

Inductive pyclass := CIban | CBic | CBban.

Record pyobj := {
  o_class : pyclass;
  o_compact : text;
  o_country : option text;          (* BBAN: the country_code attribute *)
  o_bban : option (text * text);    (* IBAN: the BBAN kept in the instance dict (country, compact) *)
}.

Definition obj_eq (a b : pyobj) : bool := text_eqb (o_compact a) (o_compact b).
Definition obj_eq_str (a : pyobj) (s : text) : bool := text_eqb (o_compact a) s.
Definition obj_lt (a b : pyobj) : bool := text_ltb (o_compact a) (o_compact b).
(* <=, >, >= are str's own (total_ordering installs nothing: str defines them), i.e. on the compact form *)
Definition obj_le (a b : pyobj) : bool := negb (text_ltb (o_compact b) (o_compact a)).
(* hash(obj) = hash(str(obj)): any function of the compact form *)
Definition obj_hash (h : text -> Z) (a : pyobj) : Z := h (o_compact a).

Section Copy.
Variable cfg : obj_cfg.

Definition proto (c : pyclass) : class_proto :=
  match c with CIban => oc_iban cfg | CBic => oc_bic cfg | CBban => oc_bban cfg end.

(* what __reduce_ex__ hands to copyreg.__newobj__: the class's own __getnewargs__ or str's (one value) *)
Definition newargs_count (c : pyclass) : nat :=
  match cp_newargs (proto c) with Some n => n | None => 1 end.

(* cls.__new__(cls, *args) *)
Definition rebuild_ok (c : pyclass) : bool := Nat.eqb (newargs_count c) (cp_new_arity (proto c)).

Definition copy_bban (cb : text * text) : outcome (text * text) :=
  if rebuild_ok CBban then Ok cb else Crash PTypeError.

(* copy.copy: new object from newargs, instance dict shared *)
Definition shallow_copy (o : pyobj) : outcome pyobj :=
  if rebuild_ok (o_class o) then Ok o else Crash PTypeError.

(* pickle round trip: the object and everything in its instance dict is rebuilt *)
Definition pickle_roundtrip (o : pyobj) : outcome pyobj :=
  if rebuild_ok (o_class o) then
    match o_bban o with
    | Some cb => do cb' <- copy_bban cb; Ok {| o_class := o_class o; o_compact := o_compact o; o_country := o_country o; o_bban := Some cb' |}
    | None => Ok o
    end
  else Crash PTypeError.

(* copy.deepcopy: the class's __deepcopy__; `revalidate` is the outcome of the validating constructor *)
Definition deep_copy (revalidate : pyobj -> outcome pyobj) (o : pyobj) : outcome pyobj :=
  match cp_deepcopy (proto (o_class o)) with
  | DcRevalidate => revalidate o
  | DcPreserve => pickle_roundtrip o
  | DcNone => pickle_roundtrip o
  end.
End Copy.
