(* common.clean: remove everything _clean_regex matches, then str.upper().
   The CPython environment (which code points are whitespace, what upper() does to each code point)
   is a parameter; Gen/Env.v binds the tables of the interpreter that runs schwifty. *)
From Schwifty Require Import Lib.Base.

Record env := {
  env_ws : list N;                 (* code points removed by _clean_regex *)
  env_upper : list (N * text);     (* non-ASCII code points c with chr(c).upper() != chr(c) *)
}.

Definition is_space (e : env) (c : N) : bool := mem c (env_ws e).

Fixpoint lookupN {A} (c : N) (l : list (N * A)) : option A :=
  match l with
  | [] => None
  | (k, v) :: r => if N.eqb k c then Some v else lookupN c r
  end.

Definition upper1 (e : env) (c : N) : text :=
  if N.ltb c 128 then (if is_ascii_lower c then [(c - 32)%N] else [c])
  else match lookupN c (env_upper e) with Some u => u | None => [c] end.

Definition upper (e : env) (s : text) : text := flat_map (upper1 e) s.

Definition clean (e : env) (s : text) : text :=
  upper e (filter (fun c => negb (is_space e c)) s).
