(* IBAN.generate(country_code, bank_code, account_code, branch_code=""): BBAN.from_components, then
   IBAN.from_bban with its defaults (schwifty/iban.py). *)
From Schwifty Require Import Lib.Base Model.Clean Model.Data Model.Iban Model.Bic Model.Bban Model.Lookup Model.Random.

Definition generate_values (bank account branch : text) : list (text * text) :=
  [(k_bank, bank); (k_branch, branch); (k_account, account)].

Definition iban_generate (e : env) (cfg : iban_cfg) (T : table) (national : text -> text -> outcome bool)
    (components : list text) (find_algo : text -> text -> option algo) (cc bank account branch : text) : outcome text :=
  do b <- from_components e components T find_algo cc (generate_values bank account branch);
  iban_from_bban e cfg T national cc b false false.

(* IBAN.random(country_code, random, use_registry, **values) = from_bban(bban.country_code, BBAN.random(...)) *)
Definition iban_random (e : env) (cfg : iban_cfg) (T : table) (national : text -> text -> outcome bool)
    (components : list text) (find_algo : text -> text -> option algo) (R : banks)
    (cc0 : text) (use_registry : bool) (pins : list (text * text)) (ci bi : nat) (draws : list text) : outcome text :=
  do cb <- random_bban e components T find_algo R cc0 use_registry pins ci bi draws;
  iban_from_bban e cfg T national (fst cb) (snd cb) false false.

(* BBAN.bic (IBAN.bic proxies it): BIC.from_bank_code on the BBAN's own bank-identifying field; any library error -> None *)
Definition bban_bic (e : env) (bcfg : bic_cfg) (countries : list text) (T : table) (R : banks) (cc b : text)
    : outcome (option text) :=
  do key <- bban_lookup_key T cc b;
  match from_bank_code e bcfg countries R cc key with Ok x => Ok (Some x) | Err _ => Ok None | Crash c => Crash c end.
