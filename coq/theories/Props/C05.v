(* C05 — validation is total and its errors name a defect that is really present. *)
From Schwifty Require Import Lib.Base Lib.Lit Model.Clean Model.Data Model.Iban Model.Bic.
From Schwifty Require Import Spec.Iso13616 Spec.Iso9362 Spec.Defects.
From Schwifty Require Import Model.Bban Model.Registry Model.Lookup.
From Schwifty Require Import Proofs.CleanFacts Proofs.IbanFacts Proofs.BicFacts Proofs.TotalFacts Proofs.GenObligations
  Proofs.GenerateFacts Proofs.NationalTotal.
From Schwifty Require Import Gen.Env Gen.IbanData Gen.IbanCfg Gen.BicCfg Gen.Banks.
From Coq Require Import String.

Lemma C05_guard_obl : steps_guarded false false (ic_steps the_iban_cfg) = true.
Proof. vm_cast_no_check (eq_refl true). Qed.
Lemma C05_chars_obl : chars_strict the_iban_cfg = true.
Proof. vm_cast_no_check (eq_refl true). Qed.
Lemma C05_strict_obl : forallb row_strict the_table = true.
Proof. vm_cast_no_check (eq_refl true). Qed.
Lemma C05_bic_obl : bic_cfg_ok the_bic_cfg = true.
Proof. vm_cast_no_check (eq_refl true). Qed.
Lemma C05_codes_obl : forallb (fun c => Nat.eqb (List.length c) 2) iso3166 = true.
Proof. vm_cast_no_check (eq_refl true). Qed.

(* no text makes the validating IBAN constructor raise anything outside the library's family
   (without national validation; with it: C05_iban_total_national below) *)
Theorem C05_iban_total : forall national txt c,
  iban_new the_env the_iban_cfg the_table national txt false false <> Crash c.
Proof. exact (fun national => iban_total the_env the_iban_cfg the_table national env_obl env_alpha_obl cfg_obl table_obl
                C05_guard_obl C05_chars_obl C05_strict_obl). Qed.


(* ... and with national validation requested: the national step runs only after the structure check, and no national
   algorithm - nor any German method - raises a foreign exception on a structurally conforming BBAN *)
Lemma C05_guard_b_obl : steps_guarded_b false false (ic_steps the_iban_cfg) = true.
Proof. vm_cast_no_check (eq_refl true). Qed.

Definition the_national := validate_national the_table the_algos (bank_code_entries the_banks).

Theorem C05_national_total : forall cc r b c,
  find_row the_table cc = Some r -> conforms_row r b = true -> the_national cc b <> Crash c.
Proof. exact gen_national_total. Qed.

Theorem C05_iban_total_national : forall txt c,
  iban_new the_env the_iban_cfg the_table the_national txt false true <> Crash c.
Proof.
  intros txt c.
  exact (iban_total_b the_env the_iban_cfg the_table the_national env_obl env_alpha_obl cfg_obl table_obl
           C05_chars_obl C05_strict_obl gen_national_total txt c C05_guard_b_obl).
Qed.


(* ... and its errors still name a defect: either one of the text as before, or - every ISO 13616 check having passed -
   the error is the national check's own (for the 22 countries with a published rule C06 shows that this happens exactly
   when the rule fails; for German banks C07) *)
Lemma C05_nat_last_obl : nat_last (ic_steps the_iban_cfg) = true.
Proof. vm_cast_no_check (eq_refl true). Qed.

Theorem C05_iban_named_national : forall txt ex,
  iban_new the_env the_iban_cfg the_table the_national txt false true = Err ex ->
  iban_defect the_table ex (clean the_env txt) = true
  \/ (iso_ok the_table (clean the_env txt) = true
      /\ the_national (iban_country_code (clean the_env txt)) (iban_bban the_env (clean the_env txt)) = Err ex).
Proof.
  intros txt ex H. unfold iban_new in H. cbn [bind] in H.
  destruct (iban_validate the_env the_iban_cfg the_table the_national true (clean the_env txt)) eqn:E;
    cbn [bind] in H; try discriminate. inversion H; subst.
  exact (iban_named_b the_env the_iban_cfg the_table the_national env_obl env_alpha_obl cfg_obl table_obl _ _
           C05_nat_last_obl (clean_cleaned the_env env_obl txt) E).
Qed.

(* is_valid never raises, and is true exactly when validated construction succeeds *)
Theorem C05_iban_is_valid : forall national txt,
  exists b, iban_is_valid the_env the_iban_cfg the_table national (clean the_env txt) = Ok b
    /\ (b = true <-> exists s, iban_new the_env the_iban_cfg the_table national txt false false = Ok s).
Proof. exact (fun national => iban_is_valid_total the_env the_iban_cfg the_table national env_obl env_alpha_obl cfg_obl table_obl
                C05_guard_obl C05_chars_obl C05_strict_obl). Qed.

(* the validating entry points are one question: the constructor (with or without the national step) succeeds exactly
   when validate() with the same flag returns true on the unvalidated object, and then the object is the cleaned text *)
Theorem C05_entry_points : forall national txt vb,
  (exists s, iban_new the_env the_iban_cfg the_table national txt false vb = Ok s)
  <-> iban_validate the_env the_iban_cfg the_table national vb (clean the_env txt) = Ok true.
Proof.
  intros national txt vb. unfold iban_new, iban_validate. cbn [bind].
  destruct (run_steps the_env the_iban_cfg the_table national vb (clean the_env txt) (ic_steps the_iban_cfg)) as [u|x|x];
    cbn [bind]; split; intro H; try reflexivity; try discriminate; try (destruct H as [s H]; discriminate).
  exists (clean the_env txt). reflexivity.
Qed.

(* a raised error names a defect present in the cleaned text (Spec/Defects.v) *)
Theorem C05_iban_named : forall national txt ex,
  iban_new the_env the_iban_cfg the_table national txt false false = Err ex ->
  iban_defect the_table ex (clean the_env txt) = true.
Proof.
  intros national txt ex H. unfold iban_new in H. cbn [bind] in H.
  destruct (iban_validate the_env the_iban_cfg the_table national false (clean the_env txt)) eqn:E;
    cbn [bind] in H; try discriminate. inversion H; subst.
  exact (iban_named the_env the_iban_cfg the_table national env_obl env_alpha_obl cfg_obl table_obl _ _
           (clean_cleaned the_env env_obl txt) E).
Qed.

Theorem C05_bic_total : forall txt allow_invalid strict c,
  bic_new the_env the_bic_cfg iso3166 txt allow_invalid strict <> Crash c.
Proof. exact (bic_total the_env the_bic_cfg iso3166). Qed.

Theorem C05_bic_is_valid : forall txt,
  exists b, bic_is_valid the_bic_cfg iso3166 (clean the_env txt) = Ok b
    /\ (b = true <-> exists s, bic_new the_env the_bic_cfg iso3166 txt false false = Ok s).
Proof. exact (bic_is_valid_total the_env the_bic_cfg iso3166). Qed.

Theorem C05_bic_named : forall txt strict ex,
  bic_new the_env the_bic_cfg iso3166 txt false strict = Err ex ->
  bic_defect iso3166 strict ex (clean the_env txt) = true.
Proof.
  intros txt strict ex H. unfold bic_new in H. cbn [bind] in H.
  destruct (bic_validate the_bic_cfg iso3166 strict (clean the_env txt)) eqn:E; cbn [bind] in H; try discriminate.
  inversion H; subst.
  exact (bic_named the_env the_bic_cfg iso3166 env_obl C05_bic_obl C05_codes_obl strict _ _
           (clean_cleaned the_env env_obl txt) (clean_no_lower the_env env_obl txt) E).
Qed.

Print Assumptions C05_iban_total.
Print Assumptions C05_national_total.
Print Assumptions C05_iban_total_national.
Print Assumptions C05_iban_named_national.
Print Assumptions C05_iban_is_valid.
Print Assumptions C05_entry_points.
Print Assumptions C05_iban_named.
Print Assumptions C05_bic_total.
Print Assumptions C05_bic_is_valid.
Print Assumptions C05_bic_named.

(* non-vacuity: each defect class is reachable *)
Example C05_ex_len : iban_defect the_table EInvalidLength (tx "DE8937040044053201300") = true.
Proof. vm_compute. reflexivity. Qed.
Example C05_ex_cc : iban_defect the_table EInvalidCountryCode (tx "XX89370400440532013000") = true.
Proof. vm_compute. reflexivity. Qed.
Example C05_ex_struct : iban_defect the_table EInvalidStructure (tx "DE89AA0400440532013000") = true.
Proof. vm_compute. reflexivity. Qed.
Example C05_ex_sum : iban_defect the_table EInvalidChecksumDigits (tx "DE99370400440532013000") = true
  /\ iban_defect the_table EInvalidChecksumDigits (tx "DE89370400440532013000") = false.
Proof. split; vm_compute; reflexivity. Qed.
