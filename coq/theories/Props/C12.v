(* C12 — bank-code <-> BIC lookups agree with the bundled registry and with each other. *)
From Schwifty Require Import Lib.Base Lib.Lit Model.Clean Model.Data Model.Bic Model.Bban Model.Lookup Model.Generate.
From Schwifty Require Import Proofs.CleanFacts Proofs.LookupFacts.
From Schwifty Require Import Gen.Env Gen.IbanData Gen.BicCfg Gen.Banks.
From Coq Require Import String.

(* every non-empty BIC of the bundled registry passes the model of BIC(...) unchanged *)
Lemma C12_bics_obl : bics_valid the_env the_bic_cfg iso3166 the_banks = true.
Proof. vm_cast_no_check (eq_refl true). Qed.

(* the dict-of-lists index (registry.build_index) maps every key to the entries carrying it, in file
   order; for ANY registry contents *)
Theorem C12_index : forall (R : banks) cc code,
  idx_get pair_eqb (cc, code) (build_index pair_eqb key_bank_code R) =
  match bank_code_entries R cc code with [] => None | l => Some l end.
Proof. intros R cc code. exact (index_lookup pair_eqb key_bank_code pair_eqb_spec R (cc, code)). Qed.

Theorem C12_index_bic : forall (R : banks) b,
  idx_get text_eqb b (build_index text_eqb key_bic R) =
  match bic_entries R b with [] => None | l => Some l end.
Proof. intros R b. exact (index_lookup text_eqb key_bic text_eqb_eq R b). Qed.

(* candidates: exactly the non-empty BICs listed for the pair, primary entries first; unlisted pair:
   InvalidBankCode *)
Theorem C12_candidates : forall cc code,
  candidates the_env the_bic_cfg iso3166 the_banks cc code =
  match bank_code_entries the_banks cc code with
  | [] => Err EInvalidBankCode
  | entries => Ok (listed_bics (primary_first entries))
  end.
Proof. exact (candidates_spec the_env the_bic_cfg iso3166 the_banks C12_bics_obl). Qed.

(* selection rule, for any registry *)
Theorem C12_choice : forall (R : banks) cc code cands,
  candidates the_env the_bic_cfg iso3166 R cc code = Ok cands ->
  match cands with
  | [] => from_bank_code the_env the_bic_cfg iso3166 R cc code = Err EInvalidBankCode
  | [c] => from_bank_code the_env the_bic_cfg iso3166 R cc code = Ok c
  | c0 :: _ =>
    exists c, from_bank_code the_env the_bic_cfg iso3166 R cc code = Ok c /\ In c cands
      /\ let no_branch := filter (fun b => negb (nonempty (bic_branch_code the_bic_cfg b))) cands in
         let xxx := filter (fun b => text_eqb (bic_branch_code the_bic_cfg b) (tx "XXX")) cands in
         match no_branch, xxx with
         | _ :: _, _ => In c no_branch
         | [], _ :: _ => In c xxx
         | [], [] => c = c0
         end
  end.
Proof. exact (choice_spec the_env the_bic_cfg iso3166). Qed.

(* invertibility, for any registry *)
Theorem C12_invertible : forall (R : banks) cc code b,
  nonempty cc = true -> nonempty code = true ->
  In b (listed_bics (primary_first (bank_code_entries R cc code))) ->
  In code (domestic_bank_codes R b) /\ bic_exists R b = true.
Proof. exact invertible. Qed.


(* an IBAN's bank and bic are what looking up its own bank-identifying field yields (for any registry):
   bank = the first entry, in file order, registered under (country, field) - None when there is none;
   bic  = BIC.from_bank_code(country, field) - None when that raises a library error (in particular: unlisted) *)
Theorem C12_iban_bank : forall (R : banks) cc b key,
  bban_lookup_key the_table cc b = Ok key ->
  bban_bank the_table (bank_code_entries R) cc b
  = Ok (match idx_get pair_eqb (cc, key) (build_index pair_eqb key_bank_code R) with
        | Some (en :: _) => Some en
        | _ => None
        end).
Proof.
  intros R cc b key Hk. unfold bban_bank. rewrite Hk. cbn [bind]. rewrite C12_index.
  destruct (bank_code_entries R cc key); reflexivity.
Qed.

Theorem C12_iban_bic : forall (R : banks) cc b key,
  bban_lookup_key the_table cc b = Ok key ->
  bban_bic the_env the_bic_cfg iso3166 the_table R cc b
  = match from_bank_code the_env the_bic_cfg iso3166 R cc key with
    | Ok x => Ok (Some x) | Err _ => Ok None | Crash c => Crash c
    end.
Proof. intros R cc b key Hk. unfold bban_bic. rewrite Hk. reflexivity. Qed.

Theorem C12_iban_unlisted : forall (R : banks) cc b key,
  bban_lookup_key the_table cc b = Ok key -> bank_code_entries R cc key = [] ->
  bban_bank the_table (bank_code_entries R) cc b = Ok None
  /\ bban_bic the_env the_bic_cfg iso3166 the_table R cc b = Ok None.
Proof.
  intros R cc b key Hk He. split.
  - unfold bban_bank. rewrite Hk. cbn [bind]. rewrite He. reflexivity.
  - unfold bban_bic. rewrite Hk. cbn [bind]. unfold from_bank_code, candidates. rewrite He. reflexivity.
Qed.

Print Assumptions C12_iban_bank.
Print Assumptions C12_index.
Print Assumptions C12_candidates.
Print Assumptions C12_choice.
Print Assumptions C12_invertible.

Example C12_ex : from_bank_code the_env the_bic_cfg iso3166 the_banks (tx "DE") (tx "43060967") = Ok (tx "GENODEM1GLS")
  /\ from_bank_code the_env the_bic_cfg iso3166 the_banks (tx "DE") (tx "01010101") = Err EInvalidBankCode.
Proof. split; vm_compute; reflexivity. Qed.
