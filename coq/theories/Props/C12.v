(* C12 — bank-code <-> BIC lookups agree with the bundled registry and with each other. *)
From Schwifty Require Import Lib.Base Lib.Lit Model.Clean Model.Data Model.Bic Model.Lookup.
From Schwifty Require Import Proofs.CleanFacts Proofs.LookupFacts.
From Schwifty Require Import Gen.Env Gen.BicCfg Gen.Banks.
From Coq Require Import String.

(* every non-empty BIC of the bundled registry passes the model of BIC(...) unchanged *)
Lemma C12_bics_obl : bics_valid the_env the_bic_cfg iso3166 the_banks = true.
Proof. vm_cast_no_check (eq_refl true). Qed.

(* the dict-of-lists index (registry.build_index) maps every key to the entries carrying it, in file
   order; for ANY registry contents *)
Theorem C12_index : forall (R : banks) cc code,
  idx_get pair_eqb (cc, code) (build_index pair_eqb key_bank_code R) =
  match bank_code_entries R cc code with [] => None | l => Some l end.
Proof. intros R cc code. exact (index_lookup pair_eqb key_bank_code pair_eqb_spec R (cc, code)). Qed.

Theorem C12_index_bic : forall (R : banks) b,
  idx_get text_eqb b (build_index text_eqb key_bic R) =
  match bic_entries R b with [] => None | l => Some l end.
Proof. intros R b. exact (index_lookup text_eqb key_bic text_eqb_eq R b). Qed.

(* candidates: exactly the non-empty BICs listed for the pair, primary entries first; unlisted pair:
   InvalidBankCode *)
Theorem C12_candidates : forall cc code,
  candidates the_env the_bic_cfg iso3166 the_banks cc code =
  match bank_code_entries the_banks cc code with
  | [] => Err EInvalidBankCode
  | entries => Ok (listed_bics (primary_first entries))
  end.
Proof. exact (candidates_spec the_env the_bic_cfg iso3166 the_banks C12_bics_obl). Qed.

(* selection rule, for any registry *)
Theorem C12_choice : forall (R : banks) cc code cands,
  candidates the_env the_bic_cfg iso3166 R cc code = Ok cands ->
  match cands with
  | [] => from_bank_code the_env the_bic_cfg iso3166 R cc code = Err EInvalidBankCode
  | [c] => from_bank_code the_env the_bic_cfg iso3166 R cc code = Ok c
  | c0 :: _ =>
    exists c, from_bank_code the_env the_bic_cfg iso3166 R cc code = Ok c /\ In c cands
      /\ let no_branch := filter (fun b => negb (nonempty (bic_branch_code the_bic_cfg b))) cands in
         let xxx := filter (fun b => text_eqb (bic_branch_code the_bic_cfg b) (tx "XXX")) cands in
         match no_branch, xxx with
         | _ :: _, _ => In c no_branch
         | [], _ :: _ => In c xxx
         | [], [] => c = c0
         end
  end.
Proof. exact (choice_spec the_env the_bic_cfg iso3166). Qed.

(* invertibility, for any registry *)
Theorem C12_invertible : forall (R : banks) cc code b,
  nonempty cc = true -> nonempty code = true ->
  In b (listed_bics (primary_first (bank_code_entries R cc code))) ->
  In code (domestic_bank_codes R b) /\ bic_exists R b = true.
Proof. exact invertible. Qed.

Print Assumptions C12_index.
Print Assumptions C12_candidates.
Print Assumptions C12_choice.
Print Assumptions C12_invertible.

Example C12_ex : from_bank_code the_env the_bic_cfg iso3166 the_banks (tx "DE") (tx "43060967") = Ok (tx "GENODEM1GLS")
  /\ from_bank_code the_env the_bic_cfg iso3166 the_banks (tx "DE") (tx "01010101") = Err EInvalidBankCode.
Proof. split; vm_compute; reflexivity. Qed.
