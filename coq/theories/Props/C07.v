(* C07 — German account numbers are judged by the Bundesbank method of their bank.  (in progress) *)
From Schwifty Require Import Lib.Base Lib.Lit Model.Clean Model.Data Model.Bban Model.Germany.
From Schwifty Require Import Gen.GermanyTbl.
From Coq Require Import String.

(* the verdict of a method depends on nothing but the method's resolved class and the account number:
   the model is a function of exactly these (no registry, no bank code, no history) *)
Theorem C07_only_account : forall nd tbl acl g a1 a2,
  a1 = a2 -> validate1 nd tbl acl g a1 = validate1 nd tbl acl g a2.
Proof. intros; subst; reflexivity. Qed.

Print Assumptions C07_only_account.
