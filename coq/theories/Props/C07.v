(* C07 — German account numbers are judged by the Bundesbank method of their bank. *)
From Coq Require Import Lia ZArith List Bool.
From Schwifty Require Import Lib.Base Lib.Lit Model.Clean Model.Data Model.Bban Model.National Model.Algorithms Model.Germany.
From Schwifty Require Import Spec.NationalPublished Spec.Bundesbank.
From Schwifty Require Import Model.Registry Model.Lookup Spec.Iso13616.
From Schwifty Require Import Proofs.NationalFacts Proofs.NationalDigits Proofs.NationalCountries Proofs.RandomFacts Proofs.GermanFacts.
From Schwifty Require Import Gen.Env Gen.IbanData Gen.IbanCfg Gen.ChecksumCfg Gen.GermanyTbl Gen.Banks.
From Schwifty Require Import Model.Iban Proofs.CleanFacts Proofs.IbanFacts Proofs.DecompFacts Proofs.GenObligations.
From Coq Require Import String.
Import ListNotations.
Open Scope list_scope.

Definition the_german := german_class nd_runs german_table account_code_length.
Definition the_algos := the_find_algo the_env the_iban_cfg nd_runs registered the_german.

Lemma C07_nd_obl : nd_ok nd_runs = true.
Proof. vm_cast_no_check (eq_refl true). Qed.
Lemma C07_len_obl : account_code_length = 10%Z.
Proof. vm_cast_no_check (eq_refl 10%Z). Qed.

(* the class the registry resolves a method code to (the translator resolved its MRO into one table row) *)
Definition method_class (code : string) : option gclass :=
  match assoc (tx "DE" ++ [58%N] ++ s2t code) registered with
  | Some (cls, acc) =>
    match national_class the_env nd_runs (ic_alphabet the_iban_cfg) cls acc with
    | Some _ => None
    | None => assoc cls german_table
    end
  | None => None
  end.

Lemma method_algo code g :
  method_class code = Some g ->
  exists cls acc, assoc (tx "DE" ++ [58%N] ++ s2t code) registered = Some (cls, acc) /\
    the_algos (tx "DE") (s2t code) = Some (german_algo nd_runs german_table account_code_length g acc).
Proof.
  unfold method_class, the_algos, the_find_algo, find_algo. intro H.
  destruct (assoc (tx "DE" ++ [58%N] ++ s2t code) registered) as [[cls acc]|]; [|discriminate].
  destruct (national_class the_env nd_runs (ic_alphabet the_iban_cfg) cls acc); [discriminate|].
  exists cls, acc. split; [reflexivity|]. unfold the_german, german_class. rewrite H. reflexivity.
Qed.

(* what is proved of a method code: its registered class judges every ten-digit account number as the Bundesbank
   description of that code does *)
Definition method_statement (code : string) : Prop :=
  exists g cls acc, method_class code = Some g /\
    assoc (tx "DE" ++ [58%N] ++ s2t code) registered = Some (cls, acc) /\
    the_algos (tx "DE") (s2t code) = Some (german_algo nd_runs german_table account_code_length g acc) /\
    forall account expected, forallb is_ascii_digit account = true -> List.length account = 10%nat ->
      verdict (al_validate (german_algo nd_runs german_table account_code_length g acc) [account] expected)
      = bb_accept code (digs account).

(* the verdict depends on nothing but the method's resolved class and the account number *)
Theorem C07_only_account : forall nd tbl acl g a1 a2,
  a1 = a2 -> validate1 nd tbl acl g a1 = validate1 nd tbl acl g a2.
Proof. intros; subst; reflexivity. Qed.

(* ---- the methods that use the WeightedModulus template as it stands ---------------------------------------- *)
Definition std_methods : list (string * (nat * nat * nat) * cross * result * list Z * Z) :=
  [("00", (1%nat, 9%nat, 10%nat), CrossSum, Minus10, w21, 10);
   ("01", (1%nat, 9%nat, 10%nat), Plain, Minus10, [3; 7; 1; 3; 7; 1; 3; 7; 1], 10);
   ("02", (1%nat, 9%nat, 10%nat), Plain, Minus11_02, [2; 3; 4; 5; 6; 7; 8; 9; 2], 11);
   ("03", (1%nat, 9%nat, 10%nat), Plain, Minus10, w21, 10);
   ("04", (1%nat, 9%nat, 10%nat), Plain, Minus11_02, w_2to7, 11);
   ("05", (1%nat, 9%nat, 10%nat), Plain, Minus10, [7; 3; 1; 7; 3; 1; 7; 3; 1], 10);
   ("06", (1%nat, 9%nat, 10%nat), Plain, Minus11_06, w_2to7, 11);
   ("07", (1%nat, 9%nat, 10%nat), Plain, Minus11_02, w_2to10, 11);
   ("10", (1%nat, 9%nat, 10%nat), Plain, Minus11_06, w_2to10, 11);
   ("11", (1%nat, 9%nat, 10%nat), Plain, Minus11_11, w_2to10, 11);
   ("13", (2%nat, 7%nat, 8%nat), CrossSum, Minus10, w21, 10);
   ("14", (4%nat, 9%nat, 10%nat), Plain, Minus11_02, w_2to7, 11);
   ("15", (6%nat, 9%nat, 10%nat), Plain, Minus11_06, [2; 3; 4; 5], 11);
   ("18", (1%nat, 9%nat, 10%nat), Plain, Minus10, [3; 9; 7; 1; 3; 9; 7; 1; 3], 10);
   ("19", (1%nat, 9%nat, 10%nat), Plain, Minus11_06, [2; 3; 4; 5; 6; 7; 8; 9; 1], 11);
   ("20", (1%nat, 9%nat, 10%nat), Plain, Minus11_06, [2; 3; 4; 5; 6; 7; 8; 9; 3], 11);
   ("22", (1%nat, 9%nat, 10%nat), UnitsOnly, Minus10, [3; 1; 3; 1; 3; 1; 3; 1; 3], 10);
   ("28", (1%nat, 7%nat, 8%nat), Plain, Minus11_06, [2; 3; 4; 5; 6; 7; 8], 11);
   ("32", (4%nat, 9%nat, 10%nat), Plain, Minus11_06, w_2to7, 11);
   ("33", (5%nat, 9%nat, 10%nat), Plain, Minus11_06, [2; 3; 4; 5; 6], 11);
   ("34", (1%nat, 7%nat, 8%nat), Plain, Minus11_06, [2; 4; 8; 5; 10; 9; 7], 11);
   ("38", (4%nat, 9%nat, 10%nat), Plain, Minus11_06, [2; 4; 8; 5; 10; 9], 11);
   ("60", (3%nat, 9%nat, 10%nat), CrossSum, Minus10, w21, 10)]%Z%string.

Definition is_vdefault (g : gclass) : bool := match g_validate g with VDefault => true | _ => false end.

(* obligation on the regenerated class table: each of these codes resolves to a class whose attributes are the
   Bundesbank parameters and which overrides no hook *)
Definition std_entry_ok (en : string * (nat * nat * nat) * cross * result * list Z * Z) : bool :=
  let '(code, (a, b, c), q, res, ws, m) := en in
  match method_class code with
  | Some g => is_vdefault g && std_ok g a b c q res ws m
  | None => false
  end.
Lemma C07_std_obl : forallb std_entry_ok std_methods = true.
Proof. vm_cast_no_check (eq_refl true). Qed.

(* the Bundesbank description of each of these codes is the standard scheme with these parameters *)
Lemma std_spec : forall code a b c q res ws m, In (code, (a, b, c), q, res, ws, m) std_methods ->
  forall ds, bb_accept code ds = Some (std a b c ws q m res ds).
Proof.
  intros code a b c q res ws m H ds. unfold std_methods in H.
  repeat (destruct H as [H|H]; [injection H as <- <- <- <- <- <- <- <-; reflexivity|]). destruct H.
Qed.

Theorem C07_std : forall code a b c q res ws m, In (code, (a, b, c), q, res, ws, m) std_methods -> method_statement code.
Proof.
  intros code a b c q res ws m Hin.
  pose proof C07_std_obl as O. rewrite forallb_forall in O. specialize (O _ Hin). unfold std_entry_ok in O.
  destruct (method_class code) as [g|] eqn:Eg; [|discriminate].
  apply andb_true_iff in O as [Hv Hok].
  destruct (method_algo code g Eg) as (cls & acc & Hreg & Hal). exists g, cls, acc.
  split; [exact Eg|]. split; [exact Hreg|]. split; [exact Hal|].
  intros account expected Hdig Hlen. cbn [al_validate german_algo]. unfold validate1.
  unfold is_vdefault in Hv. destruct (g_validate g); try discriminate.
  rewrite (std_spec code a b c q res ws m Hin). rewrite C07_len_obl.
  exact (std_method nd_runs C07_nd_obl german_table g a b c q res ws m account Hok Hdig Hlen).
Qed.

(* ---- methods that wrap the template: 08 (small numbers are not checked), 09 (no check), 63 (leading zero required),
        99 (a range of numbers is not checked) ------------------------------------------------------------------ *)
Definition kv_eqb (x y : k_validate) : bool :=
  match x, y with
  | VDefault, VDefault | V08, V08 | V09, V09 | V16, V16 | V25, V25 | V63, V63 | V68, V68 | V76, V76 | V91, V91 | V99, V99 => true
  | _, _ => false
  end.
Lemma kv_eqb_eq x y : kv_eqb x y = true -> x = y.
Proof. destruct x, y; try discriminate; reflexivity. Qed.

Definition wrap_ok (code : string) (kv : k_validate) (a b c : nat) (q : cross) (res : result) (ws : list Z) (m : Z)
    (extra : gclass -> bool) : bool :=
  match method_class code with
  | Some g => kv_eqb (g_validate g) kv && std_ok g a b c q res ws m && extra g
  | None => false
  end.

Lemma C07_wrap_obl :
  wrap_ok "08" V08 1 9 10 CrossSum Minus10 w21 10 (fun g => Z.eqb (g_min_account g) 60000) = true
  /\ wrap_ok "99" V99 1 9 10 Plain Minus11_06 w_2to7 11 (fun _ => true) = true
  /\ wrap_ok "63" V63 2 7 8 CrossSum Minus10 w21 10 (fun _ => true) = true
  /\ match method_class "09" with Some g => kv_eqb (g_validate g) V09 | None => false end = true.
Proof. vm_cast_no_check (conj (eq_refl true) (conj (eq_refl true) (conj (eq_refl true) (eq_refl true)))). Qed.

Ltac wrap_start O code :=
  unfold wrap_ok in O; destruct (method_class code) as [g|] eqn:Eg; [|discriminate];
  apply andb_true_iff in O as [O Hextra]; apply andb_true_iff in O as [Hv Hok]; apply kv_eqb_eq in Hv;
  destruct (method_algo code g Eg) as (cls & acc & Hreg & Hal); exists g, cls, acc; split; [first [reflexivity|exact Eg]|]; split; [exact Hreg|];
  split; [exact Hal|]; intros account expected Hdig Hlen; cbn [al_validate german_algo]; rewrite C07_len_obl.

Theorem C07_m08 : method_statement "08".
Proof.
  destruct C07_wrap_obl as (O & _). unfold method_statement. wrap_start O "08"%string. apply Z.eqb_eq in Hextra.
  rewrite (m08_method nd_runs C07_nd_obl german_table g _ _ _ _ _ _ _ account Hv Hok Hdig Hlen), Hextra. reflexivity.
Qed.

Theorem C07_m99 : method_statement "99".
Proof.
  destruct C07_wrap_obl as (_ & O & _). unfold method_statement. wrap_start O "99"%string.
  rewrite (m99_method nd_runs C07_nd_obl german_table g _ _ _ _ _ _ _ account Hv Hok Hdig Hlen). reflexivity.
Qed.

Theorem C07_m63 : method_statement "63".
Proof.
  destruct C07_wrap_obl as (_ & _ & O & _). unfold method_statement. wrap_start O "63"%string.
  rewrite (m63_method nd_runs C07_nd_obl german_table g _ _ _ _ _ _ _ account Hv Hok Hdig Hlen). reflexivity.
Qed.

Theorem C07_m09 : method_statement "09".
Proof.
  destruct C07_wrap_obl as (_ & _ & _ & O). destruct (method_class "09") as [g|] eqn:Eg; [|discriminate].
  apply kv_eqb_eq in O. destruct (method_algo "09" g Eg) as (cls & acc & Hreg & Hal). exists g, cls, acc.
  split; [exact Eg|]. split; [exact Hreg|]. split; [exact Hal|].
  intros account expected _ _. cbn [al_validate german_algo]. rewrite C07_len_obl.
  rewrite (m09_method nd_runs german_table g account O). reflexivity.
Qed.

(* ---- 88, 26, 25, 16, 23, 91: the template with one extra rule each ------------------------------------------------ *)
Definition kpos_eqb (x y : k_pos) : bool := match x, y with PStatic, PStatic | P88, P88 => true | _, _ => false end.
Definition kadj_eqb (x y : k_adj) : bool := match x, y with AId, AId | A26, A26 => true | _, _ => false end.
Lemma kpos_eqb_eq x y : kpos_eqb x y = true -> x = y. Proof. destruct x, y; try discriminate; reflexivity. Qed.
Lemma kadj_eqb_eq x y : kadj_eqb x y = true -> x = y. Proof. destruct x, y; try discriminate; reflexivity. Qed.
Definition pos3_eqb (p : Z * Z * Z) (a b c : Z) : bool := let '(x, y, z) := p in Z.eqb x a && Z.eqb y b && Z.eqb z c.
Lemma pos3_eqb_eq p a b c : pos3_eqb p a b c = true -> p = (a, b, c).
Proof.
  destruct p as [[x y] z]. unfold pos3_eqb. intro H. apply andb_true_iff in H as [H H3]. apply andb_true_iff in H as [H1 H2].
  apply Z.eqb_eq in H1, H2, H3. subst. reflexivity.
Qed.

Definition w88a : list Z := [2; 3; 4; 5; 6; 7; 8]%Z.
Definition w26 : list Z := [2; 3; 4; 5; 6; 7; 2]%Z.
Definition w25 : list Z := [2; 3; 4; 5; 6; 7; 8; 9]%Z.
Definition p91 : list (nat * nat * nat * cross * list Z * Z) :=
  [(1%nat, 6%nat, 7%nat, Plain, [2; 3; 4; 5; 6; 7], 11); (1%nat, 6%nat, 7%nat, Plain, [7; 6; 5; 4; 3; 2], 11);
   (1%nat, 10%nat, 7%nat, Plain, [2; 3; 4; 0; 5; 6; 7; 8; 9; 10], 11); (1%nat, 6%nat, 7%nat, Plain, [2; 4; 8; 5; 10; 9], 11)]%Z.

Definition chk88 (o : option gclass) : bool :=
  match o with
  | Some g => kv_eqb (g_validate g) VDefault && kpos_eqb (g_pos g) P88 && kadj_eqb (g_adj g) AId && pos3_eqb (g_positions g) 4 9 10
              && core_ok g 3 9 10 Plain Minus11_06 w88a 11 && core_ok g 4 9 10 Plain Minus11_06 w_2to7 11
  | None => false end.
Definition chk26 (o : option gclass) : bool :=
  match o with
  | Some g => kv_eqb (g_validate g) VDefault && kpos_eqb (g_pos g) PStatic && kadj_eqb (g_adj g) A26 && pos3_eqb (g_positions g) 1 7 8
              && core_ok g 1 7 8 Plain Minus11_06 w26 11
  | None => false end.
Definition chk_std (kv : k_validate) (a b c : nat) (ws : list Z) (o : option gclass) : bool :=
  match o with Some g => kv_eqb (g_validate g) kv && std_ok g a b c Plain Minus11_06 ws 11 | None => false end.
Definition chk91 (o o1 o2 o3 o4 : option gclass) : bool :=
  match o, o1, o2, o3, o4 with
  | Some g, Some v1, Some v2, Some v3, Some v4 =>
    kv_eqb (g_validate g) V91
    && forallb (fun vp => let '(v, (a, b, c, q, ws, m)) := vp in std_ok v a b c q Minus11_06 ws m)
               (combine [v1; v2; v3; v4] p91)
  | _, _, _, _, _ => false end.
Lemma C07_extra_obl :
  chk88 (method_class "88") = true /\ chk26 (method_class "26") = true
  /\ chk_std V25 2 9 10 w25 (method_class "25") = true /\ chk_std V16 1 9 10 w_2to7 (method_class "16") = true
  /\ chk_std V16 1 6 7 w_2to7 (method_class "23") = true
  /\ chk91 (method_class "91") (variant german_table "Variant1") (variant german_table "Variant2")
            (variant german_table "Variant3") (variant german_table "Variant4") = true.
Proof.
  vm_cast_no_check (conj (eq_refl true) (conj (eq_refl true) (conj (eq_refl true) (conj (eq_refl true)
                      (conj (eq_refl true) (eq_refl true)))))).
Qed.

Ltac method_intro code :=
  destruct (method_class code) as [g|] eqn:Eg; [|discriminate];
  destruct (method_algo code g Eg) as (cls & acc & Hreg & Hal); exists g, cls, acc; split; [first [reflexivity|exact Eg]|]; split; [exact Hreg|];
  split; [exact Hal|]; intros account expected Hdig Hlen; cbn [al_validate german_algo]; rewrite C07_len_obl.

Theorem C07_m88 : method_statement "88".
Proof.
  destruct C07_extra_obl as (O & _). unfold chk88 in O.
  unfold method_statement. method_intro "88"%string.
  repeat (apply andb_true_iff in O as [O ?]).
  apply kv_eqb_eq in O.
  repeat match goal with X : kpos_eqb _ _ = true |- _ => apply kpos_eqb_eq in X
                       | X : kadj_eqb _ _ = true |- _ => apply kadj_eqb_eq in X
                       | X : pos3_eqb _ _ _ _ = true |- _ => apply pos3_eqb_eq in X end.
  rewrite (m88_method nd_runs C07_nd_obl german_table g Plain Minus11_06 w88a w_2to7 11 account) by assumption.
  reflexivity.
Qed.

Theorem C07_m26 : method_statement "26".
Proof.
  destruct C07_extra_obl as (_ & O26 & _). unfold chk26 in O26.
  unfold method_statement. method_intro "26"%string.
  repeat (apply andb_true_iff in O26 as [O26 ?]).
  apply kv_eqb_eq in O26.
  repeat match goal with X : kpos_eqb _ _ = true |- _ => apply kpos_eqb_eq in X
                       | X : kadj_eqb _ _ = true |- _ => apply kadj_eqb_eq in X
                       | X : pos3_eqb _ _ _ _ = true |- _ => apply pos3_eqb_eq in X end.
  rewrite (m26_method nd_runs C07_nd_obl german_table g 1 7 8 Plain Minus11_06 w26 11 account) by assumption.
  reflexivity.
Qed.

Theorem C07_m25 : method_statement "25".
Proof.
  destruct C07_extra_obl as (_ & _ & O & _). unfold chk_std in O.
  unfold method_statement. method_intro "25"%string.
  apply andb_true_iff in O as [Hv Hok].
  apply kv_eqb_eq in Hv.
  rewrite (m25_method nd_runs C07_nd_obl german_table g 2 9 10 Plain w25 11 account Hv Hok Hdig Hlen). reflexivity.
Qed.

Theorem C07_m16 : method_statement "16".
Proof.
  destruct C07_extra_obl as (_ & _ & _ & O & _). unfold chk_std in O.
  unfold method_statement. method_intro "16"%string.
  apply andb_true_iff in O as [Hv Hok].
  apply kv_eqb_eq in Hv.
  rewrite (m16_method nd_runs C07_nd_obl german_table g 1 9 10 Plain w_2to7 11 account Hv Hok ltac:(lia) Hdig Hlen). reflexivity.
Qed.

Theorem C07_m23 : method_statement "23".
Proof.
  destruct C07_extra_obl as (_ & _ & _ & _ & O & _). unfold chk_std in O.
  unfold method_statement. method_intro "23"%string.
  apply andb_true_iff in O as [Hv Hok].
  apply kv_eqb_eq in Hv.
  rewrite (m16_method nd_runs C07_nd_obl german_table g 1 6 7 Plain w_2to7 11 account Hv Hok ltac:(lia) Hdig Hlen). reflexivity.
Qed.

Theorem C07_m91 : method_statement "91".
Proof.
  destruct C07_extra_obl as (_ & _ & _ & _ & _ & O). unfold chk91 in O.
  unfold method_statement. method_intro "91"%string.
  destruct (variant german_table "Variant1") as [v1|] eqn:E1; [|discriminate].
  destruct (variant german_table "Variant2") as [v2|] eqn:E2; [|discriminate].
  destruct (variant german_table "Variant3") as [v3|] eqn:E3; [|discriminate].
  destruct (variant german_table "Variant4") as [v4|] eqn:E4; [|discriminate].
  apply andb_true_iff in O as [Hv Hall].
  apply kv_eqb_eq in Hv. unfold p91 in Hall. cbn [combine forallb] in Hall.
  repeat (apply andb_true_iff in Hall as [? Hall]).
  rewrite (m91_method nd_runs C07_nd_obl german_table g v1 v2 v3 v4
             (1%nat, 6%nat, 7%nat, Plain, [2; 3; 4; 5; 6; 7], 11)%Z (1%nat, 6%nat, 7%nat, Plain, [7; 6; 5; 4; 3; 2], 11)%Z
             (1%nat, 10%nat, 7%nat, Plain, [2; 3; 4; 0; 5; 6; 7; 8; 9; 10], 11)%Z (1%nat, 6%nat, 7%nat, Plain, [2; 4; 8; 5; 10; 9], 11)%Z
             account Hv E1 E2 E3 E4); [reflexivity| |exact Hdig|exact Hlen].
  cbv beta iota zeta in *.
  repeat match goal with X : std_ok _ _ _ _ _ _ _ _ = true |- _ => rewrite X; clear X end. reflexivity.
Qed.


(* ---- 17 and 21 ---------------------------------------------------------------------------------------------------- *)
Lemma C07_m17_21_obl :
  match method_class "17" with Some g => ok17 g | None => false end = true
  /\ match method_class "21" with Some g => ok21 g | None => false end = true.
Proof. vm_cast_no_check (conj (eq_refl true) (eq_refl true)). Qed.

Theorem C07_m17 : method_statement "17".
Proof.
  destruct C07_m17_21_obl as (O & _). unfold method_statement. method_intro "17"%string.
  rewrite (m17_method nd_runs C07_nd_obl german_table g account O Hdig Hlen). reflexivity.
Qed.

Theorem C07_m21 : method_statement "21".
Proof.
  destruct C07_m17_21_obl as (_ & O). unfold method_statement. method_intro "21"%string.
  rewrite (m21_method nd_runs C07_nd_obl german_table g account O Hdig Hlen). reflexivity.
Qed.


(* ---- 61, and 76 up to the case its refutation exhibits ---------------------------------------------------------------- *)
Lemma C07_m61_76_obl :
  match method_class "61" with Some g => ok61 g | None => false end = true
  /\ match method_class "76" with Some g => ok76 g | None => false end = true.
Proof. vm_cast_no_check (conj (eq_refl true) (eq_refl true)). Qed.
Lemma C07_m24_obl : match method_class "24" with Some g => ok24 g | None => false end = true.
Proof. vm_cast_no_check (eq_refl true). Qed.

Lemma C07_m68_obl : match method_class "68" with Some g => ok68 g | None => false end = true.
Proof. vm_cast_no_check (eq_refl true). Qed.

Theorem C07_m68 : method_statement "68".
Proof.
  pose proof C07_m68_obl as O. unfold method_statement. method_intro "68"%string.
  rewrite (m68_method nd_runs C07_nd_obl german_table g O account Hdig Hlen). reflexivity.
Qed.

Theorem C07_m24 : method_statement "24".
Proof.
  pose proof C07_m24_obl as O. unfold method_statement. method_intro "24"%string.
  rewrite (m24_method nd_runs C07_nd_obl german_table g account O Hdig Hlen). reflexivity.
Qed.

Theorem C07_m61 : method_statement "61".
Proof.
  destruct C07_m61_76_obl as (O & _). unfold method_statement. method_intro "61"%string.
  rewrite (m61_method nd_runs C07_nd_obl german_table g account O Hdig Hlen). reflexivity.
Qed.

(* method 76 agrees with the Bundesbank description on every account number whose weighted sum does not leave
   remainder 10 (for those it differs: C07_m76_refuted) *)
Theorem C07_m76_partial : exists g cls acc, method_class "76" = Some g /\
    assoc (tx "DE" ++ [58%N] ++ s2t "76") registered = Some (cls, acc) /\
    the_algos (tx "DE") (s2t "76") = Some (german_algo nd_runs german_table account_code_length g acc) /\
    forall account expected, forallb is_ascii_digit account = true -> List.length account = 10%nat ->
      rem_of 2 7 [2; 3; 4; 5; 6; 7]%Z Plain 11 (digs account) <> 10%Z ->
      verdict (al_validate (german_algo nd_runs german_table account_code_length g acc) [account] expected)
      = bb_accept "76" (digs account).
Proof.
  destruct C07_m61_76_obl as (_ & O). destruct (method_class "76") as [g|] eqn:Eg; [|discriminate].
  destruct (method_algo "76" g Eg) as (cls & acc & Hreg & Hal). exists g, cls, acc.
  split; [reflexivity|]. split; [exact Hreg|]. split; [exact Hal|].
  intros account expected Hdig Hlen Hrem. cbn [al_validate german_algo]. rewrite C07_len_obl.
  rewrite (m76_partial nd_runs C07_nd_obl german_table g account O Hdig Hlen Hrem). reflexivity.
Qed.

(* ---- 76: the equivalence is FALSE of the code as it stands (open known finding): with remainder 10 the Bundesbank
        says the number cannot be used; the class inherits the default rule, which turns 10 into check digit 0 ---- *)
Theorem C07_m76_refuted :
  match method_class "76" with
  | Some g =>
    let account := tx "0000005000" in
    forallb is_ascii_digit account = true /\ List.length account = 10%nat
    /\ verdict (validate1 nd_runs german_table 10 g account) = Some true
    /\ bb_accept "76" (digs account) = Some false
  | None => False
  end.
Proof. vm_compute. repeat split; reflexivity. Qed.



(* ---- through BBAN.validate_national_checksum: the bank's method decides; unlisted bank or unimplemented method: accepted --- *)
Section National.
Variable T : table.
Variable find : text -> text -> option algo.
Variable idx : text -> text -> list entry.

Lemma national_by_method cc b r en name al :
  find_row T cc = Some r -> bban_bank T idx cc b = Ok (Some en) -> e_algo en = Some name -> find cc name = Some al ->
  validate_national T find idx cc b =
  (let comp c := let p := position_range r c in get_slice b (fst p) (Some (snd p)) in
   do ok <- al_validate al (map comp (al_accepts al)) (comp k_national);
   if ok then Ok true else Err EInvalidBBANChecksum).
Proof.
  intros Er Hb He Hf. unfold validate_national. rewrite Hb. cbn [bind]. rewrite He, Hf. unfold get_spec. rewrite Er. reflexivity.
Qed.

Lemma national_unlisted cc b : bban_bank T idx cc b = Ok None -> find cc k_default = None -> validate_national T find idx cc b = Ok true.
Proof. intros Hb Hf. unfold validate_national. rewrite Hb. cbn [bind]. rewrite Hf. reflexivity. Qed.

Lemma national_unimplemented cc b en name :
  bban_bank T idx cc b = Ok (Some en) -> e_algo en = Some name -> find cc name = None -> validate_national T find idx cc b = Ok true.
Proof. intros Hb He Hf. unfold validate_national. rewrite Hb. cbn [bind]. rewrite He, Hf. reflexivity. Qed.
End National.

(* the German row: eight-digit bank code, ten-digit account number; no default algorithm; methods read the account *)
Fixpoint texts_eqb' (x y : list text) : bool :=
  match x, y with [], [] => true | u :: x', v :: y' => text_eqb u v && texts_eqb' x' y' | _, _ => false end.
Lemma texts_eqb'_eq x : forall y, texts_eqb' x y = true -> x = y.
Proof.
  induction x as [|u x IH]; intros [|v y] H; cbn [texts_eqb'] in H; try reflexivity; try discriminate.
  apply andb_true_iff in H as [H1 H2]. apply Proofs.CleanFacts.text_eqb_eq in H1. subst. f_equal. apply IH. exact H2.
Qed.

Definition de_row_ok : bool :=
  match find_row the_table (tx "DE") with
  | Some r => all_numeric r && Z.eqb (r_bban_length r) 18 && pos_is r k_account 8 18
  | None => false
  end
  && match the_algos (tx "DE") k_default with None => true | Some _ => false end
  && forallb (fun kv => match snd kv with (_, acc) => if startswith (tx "DE:") (fst kv) then texts_eqb' acc [k_account] else true end)
             registered.
Lemma C07_de_obl : de_row_ok = true.
Proof. vm_cast_no_check (eq_refl true). Qed.

Definition de := tx "DE".

Lemma returns_true : forall T find_algo bank_index cc b r,
  validate_national T find_algo bank_index cc b = Ok r -> r = true.
Proof.
  intros T find_algo bank_index cc b r H. unfold validate_national in H.
  destruct (bban_bank T bank_index cc b) as [bank| |]; cbn [bind] in H; try discriminate.
  destruct (find_algo cc _) as [al|]; [|inversion H; reflexivity].
  destruct (get_spec T cc); cbn [bind] in H; try discriminate.
  destruct (al_validate al _ _) as [[]| |]; cbn [bind] in H; try discriminate. inversion H; reflexivity.
Qed.

Lemma national_result_none (o : outcome bool) : verdict o = None ->
  (do ok <- o; if ok then Ok true else Err EInvalidBBANChecksum) <> Ok true.
Proof. destruct o as [[|]|[]|x]; cbn [verdict bind]; intro H; try discriminate; discriminate. Qed.

Lemma national_result (o : outcome bool) v : verdict o = Some v ->
  (do ok <- o; if ok then Ok true else Err EInvalidBBANChecksum) = (if v then Ok true else Err EInvalidBBANChecksum).
Proof. destruct o as [[|]|[]|x]; cbn [verdict bind]; intro H; inversion H; reflexivity. Qed.


Lemma startswith_app p s : startswith p (p ++ s) = true.
Proof. induction p as [|c p IH]; [reflexivity|]. cbn [app startswith]. rewrite N.eqb_refl. exact IH. Qed.

(* for a structurally conforming German BBAN whose bank is listed with a method for which the equivalence above holds:
   national validation accepts exactly when the Bundesbank method accepts the account number, and otherwise raises
   InvalidBBANChecksum *)
Theorem C07_national : forall (idx_banks : text -> text -> list entry) code r b en,
  method_statement code ->
  find_row the_table de = Some r -> conforms_row r b = true ->
  bban_bank the_table idx_banks de b = Ok (Some en) -> e_algo en = Some (s2t code) ->
  let account := sl 8 18 b in
  forallb is_ascii_digit account = true /\ List.length account = 10%nat /\
  match bb_accept code (digs account) with
  | Some true => validate_national the_table the_algos idx_banks de b = Ok true
  | Some false => validate_national the_table the_algos idx_banks de b = Err EInvalidBBANChecksum
  | None => validate_national the_table the_algos idx_banks de b <> Ok true
  end.
Proof.
  intros idx_banks code r b en (g & cls & acc & Hmc & Hreg0 & Hal & Hspec) Er Hconf Hbank Halgo account.
  pose proof C07_de_obl as O. unfold de_row_ok in O. fold de in O. rewrite Er in O.
  apply andb_true_iff in O as [O Hreg]. apply andb_true_iff in O as [O _].
  apply andb_true_iff in O as [O Hpos]. apply andb_true_iff in O as [Hnum Hlen]. apply Z.eqb_eq in Hlen.
  pose proof (numeric_row_digits r b Hnum Hconf) as Hd.
  assert (Hl : List.length b = 18%nat).
  { clear - Hconf Hlen. unfold conforms_row in Hconf. destruct (row_kinds r); [|discriminate]. apply andb_true_iff in Hconf as [Hl0 _].
    apply Z.eqb_eq in Hl0. unfold len in Hl0. lia. }
  assert (Hda : forallb is_ascii_digit account = true) by (apply sl_forallb; exact Hd).
  assert (Hla : List.length account = 10%nat) by (unfold account; rewrite sl_length by lia; reflexivity).
  split; [exact Hda|]. split; [exact Hla|].
  assert (Hacc : acc = [k_account]).
  { apply assoc_in in Hreg0 as (k' & Ek & Hin). apply Proofs.CleanFacts.text_eqb_eq in Ek. subst k'.
    rewrite forallb_forall in Hreg. specialize (Hreg _ Hin). cbn [fst snd] in Hreg.
    change (tx "DE" ++ [58%N] ++ s2t code) with (tx "DE:" ++ s2t code) in Hreg. rewrite startswith_app in Hreg.
    apply texts_eqb'_eq in Hreg. exact Hreg. }
  subst acc.
  rewrite (national_by_method the_table the_algos idx_banks de b r en (s2t code) _ Er Hbank Halgo Hal).
  cbv zeta. cbn [al_accepts german_algo map].
  rewrite !(comp_sl r _ _ _ b) by (first [eassumption|lia]). fold account.
  specialize (Hspec account (let p := position_range r k_national in get_slice b (fst p) (Some (snd p))) Hda Hla).
  cbn [al_validate german_algo] in Hspec. cbn [al_validate german_algo].
  destruct (bb_accept code (digs account)) as [[|]|].
  - exact (national_result _ true Hspec).
  - exact (national_result _ false Hspec).
  - exact (national_result_none _ Hspec).
Qed.

(* unlisted bank: accepted; listed with a method the library does not implement: accepted *)
Theorem C07_unlisted : forall (idx_banks : text -> text -> list entry) b,
  bban_bank the_table idx_banks de b = Ok None -> validate_national the_table the_algos idx_banks de b = Ok true.
Proof.
  intros idx_banks b Hb. apply national_unlisted; [exact Hb|].
  pose proof C07_de_obl as O. unfold de_row_ok in O. apply andb_true_iff in O as [O _]. apply andb_true_iff in O as [_ O].
  fold de in O. destruct (the_algos de k_default); [discriminate|reflexivity].
Qed.

Theorem C07_unimplemented : forall (idx_banks : text -> text -> list entry) b en name,
  bban_bank the_table idx_banks de b = Ok (Some en) -> e_algo en = Some name -> the_algos de name = None ->
  validate_national the_table the_algos idx_banks de b = Ok true.
Proof. intros idx_banks b en name Hb He Hf. exact (national_unimplemented the_table the_algos idx_banks de b en name Hb He Hf). Qed.



(* ---- at IBAN level (the property as stated): a German IBAN of a listed bank with an implemented method is accepted with
        national validation exactly when it is ISO 13616-valid and the Bundesbank method accepts its account number
        (for any bank index, in particular the bundled registry's) --------------------------------------------------------- *)
Theorem C07_iban : forall (idx_banks : text -> text -> list entry) txt code en,
  method_statement code ->
  let national := validate_national the_table the_algos idx_banks in
  let s := clean the_env txt in
  iban_country_code s = de ->
  bban_bank the_table idx_banks de (iban_bban the_env s) = Ok (Some en) -> e_algo en = Some (s2t code) ->
  (iban_validate the_env the_iban_cfg the_table national true s = Ok true <->
   iso_ok the_table s = true /\ bb_accept code (digs (sl 8 18 (iban_bban the_env s))) = Some true).
Proof.
  intros idx_banks txt code en Hm national s Hcc Hbank Halgo.
  destruct steps_nat_obl as [Hl Hin].
  rewrite (Proofs.TotalFacts.iban_accept_b the_env the_iban_cfg the_table national env_obl env_alpha_obl cfg_obl table_obl
             s Hl Hin (clean_cleaned the_env env_obl txt)).
  rewrite Hcc.
  assert (Hshape : iso_ok the_table s = true -> exists r, find_row the_table de = Some r /\ conforms_row r (iban_bban the_env s) = true).
  { intro Hi.
    destruct (accepted_shape the_env the_iban_cfg the_table national (ic_components the_iban_cfg) (fun _ _ => None) (fun _ _ => [])
                env_obl env_alpha_obl cfg_obl table_obl positions_obl _ Hi)
      as (c1 & c2 & d1 & d2 & b & r & Es & Er & Hc & _ & Hcl & _).
    assert (Ecc : de = [c1; c2]) by (rewrite <- Hcc, Es; apply cc_of). rewrite <- Ecc in Er.
    assert (Eb : iban_bban the_env s = b).
    { rewrite Es. unfold iban_bban. rewrite slice_bban. apply cleaned_fix. rewrite Es in Hcl. apply (cleaned_skipn the_env 4) in Hcl. exact Hcl. }
    exists r. rewrite Eb. split; assumption. }
  split; intros [Hi Hn]; (split; [exact Hi|]); destruct (Hshape Hi) as (r & Er & Hc);
    destruct (C07_national idx_banks code r _ en Hm Er Hc Hbank Halgo) as (_ & _ & Hres); fold national in Hres.
  - destruct Hn as [v Hv].
    destruct (bb_accept code (digs (sl 8 18 (iban_bban the_env s)))) as [[|]|]; [reflexivity| |].
    + rewrite Hres in Hv. discriminate.
    + exfalso. apply Hres. rewrite Hv. f_equal. exact (returns_true _ _ _ _ _ _ Hv).
  - rewrite Hn in Hres. exists true. exact Hres.
Qed.

Print Assumptions C07_national.
Print Assumptions C07_iban.
Print Assumptions C07_unlisted.

(* ---- summary: 38 of the 39 implemented methods (the 39th, 76: C07_m76_partial / C07_m76_refuted) ------------------- *)
Definition proven_codes : list string :=
  ["00"; "01"; "02"; "03"; "04"; "05"; "06"; "07"; "08"; "09"; "10"; "11"; "13"; "14"; "15"; "16"; "17"; "18"; "19"; "20";
   "21"; "22"; "23"; "24"; "25"; "26"; "28"; "32"; "33"; "34"; "38"; "60"; "61"; "63"; "68"; "88"; "91"; "99"]%string.

Theorem C07_methods : forall code, In code proven_codes -> method_statement code.
Proof.
  intros code H. unfold proven_codes in H.
  repeat (destruct H as [<-|H];
    [first [exact C07_m08 | exact C07_m09 | exact C07_m63 | exact C07_m99 | exact C07_m88 | exact C07_m26 | exact C07_m25
           | exact C07_m16 | exact C07_m23 | exact C07_m91 | exact C07_m17 | exact C07_m21 | exact C07_m61 | exact C07_m24
           | exact C07_m68
           | (eapply C07_std; unfold std_methods; repeat (first [left; reflexivity | right]))]|]).
  destruct H.
Qed.

(* every method code the registry knows is one of these or 76 *)
Lemma C07_codes_obl :
  forallb (fun kv => if startswith (tx "DE:") (fst kv)
                     then existsb (fun c => text_eqb (fst kv) (tx "DE:" ++ s2t c)) ("76"%string :: proven_codes) else true)
          registered = true.
Proof. vm_cast_no_check (eq_refl true). Qed.

(* ---- no German method raises a foreign exception on a ten-digit account number (used by C05) ---------------------- *)
Lemma bb_total : forall code, In code proven_codes -> forall ds, bb_accept code ds <> None.
Proof.
  intros code H ds. unfold proven_codes in H.
  repeat (destruct H as [<-|H]; [discriminate|]). destruct H.
Qed.

Lemma tx_de_colon name : tx "DE" ++ [58%N] ++ name = tx "DE:" ++ name.
Proof. reflexivity. Qed.


Lemma C07_accepts : forall name al, the_algos de name = Some al -> al_accepts al = [k_account].
Proof.
  intros name al Hal. unfold the_algos, the_find_algo, find_algo in Hal. fold de in Hal.
  destruct (assoc (de ++ [58%N] ++ name) registered) as [[cls acc]|] eqn:Ea; [|discriminate].
  apply assoc_in in Ea as (k' & Ek & Hin). apply Proofs.CleanFacts.text_eqb_eq in Ek. subst k'.
  pose proof C07_de_obl as O. unfold de_row_ok in O. apply andb_true_iff in O as [_ Hreg].
  rewrite forallb_forall in Hreg. specialize (Hreg _ Hin). cbn [fst snd] in Hreg.
  unfold de in Hreg. rewrite tx_de_colon, startswith_app in Hreg. apply texts_eqb'_eq in Hreg. subst acc.
  destruct (national_class the_env nd_runs (ic_alphabet the_iban_cfg) cls [k_account]) as [al'|] eqn:Ecls.
  - inversion Hal; subst al'. clear -Ecls. unfold national_class in Ecls.
    repeat match type of Ecls with context [text_eqb cls ?t] => destruct (text_eqb cls t) end;
      try discriminate; inversion Ecls; reflexivity.
  - unfold the_german, german_class in Hal. destruct (assoc cls german_table); [|discriminate]. inversion Hal. reflexivity.
Qed.

Theorem C07_total : forall name al account expected c,
  the_algos de name = Some al ->
  forallb is_ascii_digit account = true -> List.length account = 10%nat ->
  al_validate al [account] expected <> Crash c.
Proof.
  intros name al account expected c Hal Hd Hl.
  pose proof Hal as Hal0. unfold the_algos, the_find_algo, find_algo in Hal0. fold de in Hal0.
  destruct (assoc (de ++ [58%N] ++ name) registered) as [[cls acc]|] eqn:Ea; [|discriminate]. clear Hal0.
  apply assoc_in in Ea as (k' & Ek & Hin). apply Proofs.CleanFacts.text_eqb_eq in Ek. subst k'.
  pose proof C07_codes_obl as O. rewrite forallb_forall in O. specialize (O _ Hin). cbn [fst] in O.
  unfold de in O. rewrite tx_de_colon, startswith_app in O.
  apply existsb_exists in O as (code & Hcode & Ekey). apply Proofs.CleanFacts.text_eqb_eq in Ekey.
  apply app_inv_head in Ekey. subst name.
  destruct Hcode as [<-|Hcode].
  - (* 76 *)
    destruct C07_m61_76_obl as (_ & O76). destruct (method_class "76") as [g|] eqn:Eg; [|discriminate].
    destruct (method_algo "76" g Eg) as (cls' & acc' & _ & Hal'). fold de in Hal'. rewrite Hal' in Hal. inversion Hal; subst al.
    cbn [al_validate german_algo]. rewrite C07_len_obl. intro Hcrash.
    pose proof (m76_value nd_runs C07_nd_obl german_table g account O76 Hd Hl) as V. rewrite Hcrash in V. discriminate.
  - destruct (C07_methods code Hcode) as (g & cls' & acc' & _ & _ & Hal' & Hspec). fold de in Hal'. rewrite Hal' in Hal.
    inversion Hal; subst al. intro Hcrash. specialize (Hspec account expected Hd Hl). rewrite Hcrash in Hspec.
    cbn [verdict] in Hspec. exact (bb_total code Hcode _ (eq_sym Hspec)).
Qed.

Print Assumptions C07_only_account.
Print Assumptions C07_methods.
Print Assumptions C07_total.
Print Assumptions C07_m17.
Print Assumptions C07_m21.
Print Assumptions C07_m76_refuted.
Print Assumptions C07_m61.
Print Assumptions C07_m24.
Print Assumptions C07_m68.
Print Assumptions C07_m76_partial.
Print Assumptions C07_m88.
Print Assumptions C07_m26.
Print Assumptions C07_m25.
Print Assumptions C07_m16.
Print Assumptions C07_m23.
Print Assumptions C07_m91.
Print Assumptions C07_m08.
Print Assumptions C07_m99.
Print Assumptions C07_m63.
Print Assumptions C07_m09.
Print Assumptions C07_std.

Example C07_ex : method_class "00" <> None /\ bb_accept "00" [0; 5; 3; 2; 0; 1; 3; 0; 0; 0]%Z = Some true.
Proof. split; [vm_compute; discriminate|vm_compute; reflexivity]. Qed.
