(* C08 — generated IBANs carry exactly the supplied components.  (in progress) *)
From Schwifty Require Import Lib.Base Model.Data Model.Bban.
