(* C08 — generated IBANs carry exactly the supplied components, padded, never altered.
   Statements only; the proofs are Proofs/GenerateFacts.v (instantiation on the regenerated tables),
   Proofs/PlaceFacts.v (list surgery over the placement loop) and Proofs/ComputeShape.v. *)
From Coq Require Import Lia ZArith List Bool.
From Schwifty Require Import Lib.Base Lib.Lit Model.Clean Model.Data Model.Iban Model.Bban Model.Generate.
From Schwifty Require Import Spec.Iso13616 Proofs.CleanFacts Proofs.PlaceFacts Proofs.GenerateFacts Proofs.GenerateTotal.
From Schwifty Require Import Gen.Env Gen.IbanData Gen.IbanCfg.
Import ListNotations.

Theorem C08_valid : forall national cc bank account branch s,
  generate national cc bank account branch = Ok s -> iso_ok the_table s = true.
Proof. exact gen_valid. Qed.

Theorem C08_placed : forall national cc r bank account branch s,
  find_row the_table cc = Some r -> checksum_shape cc r ->
  generate national cc bank account branch = Ok s -> ~ combined r bank ->
  field r k_bank s = padded r k_bank bank /\ len (padded r k_bank bank) = width r k_bank
  /\ field r k_branch s = padded r k_branch branch /\ len (padded r k_branch branch) = width r k_branch
  /\ field r k_account s = padded r k_account account /\ len (padded r k_account account) = width r k_account.
Proof. exact gen_placed. Qed.

Theorem C08_placed_combined : forall national cc r bank account branch s,
  find_row the_table cc = Some r -> checksum_shape cc r ->
  generate national cc bank account branch = Ok s -> combined r bank ->
  field r k_bank s ++ field r k_branch s = padded r k_bank bank
  /\ field r k_account s = padded r k_account account /\ branch = [].
Proof. exact gen_placed_combined. Qed.

Theorem C08_kept : forall r k v, exists pad, padded r k v = pad ++ clean the_env v \/
  (exists c rest, clean the_env v = c :: rest /\ padded r k v = c :: pad ++ rest).
Proof. exact gen_kept. Qed.

Theorem C08_long_bank : forall national cc r ps bank account branch,
  find_row the_table cc = Some r -> r_positions r = Some ps -> ~ combined r bank ->
  (width r k_bank < len (clean the_env bank))%Z ->
  generate national cc bank account branch = Err EInvalidBankCode.
Proof. exact gen_long_bank. Qed.

Theorem C08_long_branch : forall national cc r ps bank account branch,
  find_row the_table cc = Some r -> r_positions r = Some ps -> ~ combined r bank ->
  (len (clean the_env bank) <= width r k_bank)%Z -> (width r k_branch < len (clean the_env branch))%Z ->
  generate national cc bank account branch = Err EInvalidBranchCode.
Proof. exact gen_long_branch. Qed.

Theorem C08_long_account : forall national cc r ps bank account branch,
  find_row the_table cc = Some r -> r_positions r = Some ps ->
  (~ combined r bank /\ (len (clean the_env bank) <= width r k_bank)%Z /\ (len (clean the_env branch) <= width r k_branch)%Z)
  \/ (combined r bank /\ branch = []) ->
  (width r k_account < len (clean the_env account))%Z ->
  generate national cc bank account branch = Err EInvalidAccountCode.
Proof. exact gen_long_account. Qed.

Theorem C08_unknown_country : forall national cc bank account branch,
  find_row the_table cc = None -> generate national cc bank account branch = Err EInvalidCountryCode.
Proof. exact gen_unknown_country. Qed.

Theorem C08_no_positions : forall national cc r bank account branch,
  find_row the_table cc = Some r -> r_positions r = None -> generate national cc bank account branch = Err ESchwifty.
Proof. exact gen_no_positions. Qed.

Theorem C08_shape : forall cc r, find_row the_table cc = Some r -> checksum_shape cc r.
Proof. exact gen_shape. Qed.

Theorem C08_placed_all : forall national cc r bank account branch s,
  find_row the_table cc = Some r ->
  generate national cc bank account branch = Ok s -> ~ combined r bank ->
  field r k_bank s = padded r k_bank bank /\ len (padded r k_bank bank) = width r k_bank
  /\ field r k_branch s = padded r k_branch branch /\ len (padded r k_branch branch) = width r k_branch
  /\ field r k_account s = padded r k_account account /\ len (padded r k_account account) = width r k_account.
Proof. exact gen_placed_all. Qed.

Theorem C08_placed_combined_all : forall national cc r bank account branch s,
  find_row the_table cc = Some r ->
  generate national cc bank account branch = Ok s -> combined r bank ->
  field r k_bank s ++ field r k_branch s = padded r k_bank bank
  /\ field r k_account s = padded r k_account account /\ branch = [].
Proof. exact gen_placed_combined_all. Qed.

(* ... or raises a library error: never an exception from outside the library's family *)
Theorem C08_library_errors_only : forall national cc bank account branch c,
  generate national cc bank account branch <> Crash c.
Proof. exact gen_generate_total. Qed.

Print Assumptions C08_library_errors_only.
Print Assumptions C08_valid.
Print Assumptions C08_placed.
Print Assumptions C08_placed_combined.
Print Assumptions C08_kept.
Print Assumptions C08_long_bank.
Print Assumptions C08_long_branch.
Print Assumptions C08_long_account.
Print Assumptions C08_unknown_country.
Print Assumptions C08_no_positions.
Print Assumptions C08_shape.
Print Assumptions C08_placed_all.
Print Assumptions C08_placed_combined_all.

(* the hypotheses are met by ordinary calls *)
From Coq Require Import String.
Open Scope list_scope.
Example C08_ex_plain :
  generate (fun _ _ => Ok true) (tx "DE") (tx "37040044") (tx "532013000") [] = Ok (tx "DE89370400440532013000").
Proof. vm_compute. reflexivity. Qed.
Example C08_ex_combined :
  generate (fun _ _ => Ok true) (tx "GB") (tx "NWBK601613") (tx "31926819") [] = Ok (tx "GB29NWBK60161331926819").
Proof. vm_compute. reflexivity. Qed.
Example C08_ex_long :
  generate (fun _ _ => Ok true) (tx "DE") (tx "370400441") (tx "532013000") [] = Err EInvalidBankCode.
Proof. vm_compute. reflexivity. Qed.
