(* C14 — concurrent use gives every caller the answer it would get alone (partial: see DESIGN.md). *)
From Schwifty Require Import Lib.Base Lib.Lit Model.Shared Proofs.SharedFacts.
From Schwifty Require Import Gen.Access.
From Coq Require Import String.

(* no statement of the package that can run after import stores into an object that outlives the call
   (algorithm singletons, registries, module globals): the translator's mutation table is empty *)
Lemma C14_no_shared_writes : match runtime_mutations with [] => true | _ => false end = true.
Proof. vm_cast_no_check (eq_refl true). Qed.

(* every registry a call reads was loaded at import (a call never triggers registry.get's lazy load) *)
Lemma C14_registry_loaded :
  forallb (fun n => existsb (text_eqb n) import_registry_names) runtime_registry_names = true.
Proof. vm_cast_no_check (eq_refl true). Qed.

(* non-interference: for any number of threads, any programs and any schedule, if no thread reads a cell that
   some thread writes, each thread finishes with the result it computes alone *)
Theorem C14_noninterference : forall sched (ts0 : threads) (s0 : store),
  (forall p1 a1 p2 a2 c, In (p1, a1) ts0 -> In (p2, a2) ts0 -> In c (reads p1) -> ~ In c (writes p2)) ->
  forall ts' s', run_sched sched ts0 s0 = (ts', s') ->
  forall i p0 a0 a, nth_error ts0 i = Some (p0, a0) -> nth_error ts' i = Some ([], a) ->
    a = final_acc p0 a0 s0.
Proof.
  intros sched ts0 s0 Hrf ts' s' Hrun i p0 a0 a H0 H'.
  change a with (final_acc [] a s0).
  eapply (noninterference sched ts0 ts0 s0 s0); try eassumption; try reflexivity.
  - intros j q0 b0 q b Hq0 Hq. rewrite Hq0 in Hq. inversion Hq; subst. auto.
Qed.

(* with an empty mutation table the calls are programs without write steps: the premise holds trivially *)
Corollary C14_read_only_threads : forall sched (ts0 : threads) (s0 : store),
  (forall p a, In (p, a) ts0 -> writes p = []) ->
  forall ts' s', run_sched sched ts0 s0 = (ts', s') ->
  forall i p0 a0 a, nth_error ts0 i = Some (p0, a0) -> nth_error ts' i = Some ([], a) ->
    a = final_acc p0 a0 s0.
Proof.
  intros sched ts0 s0 Hw. apply C14_noninterference.
  intros p1 a1 p2 a2 c _ H2 _ Hc. rewrite (Hw p2 a2 H2) in Hc. exact Hc.
Qed.

Print Assumptions C14_noninterference.
Print Assumptions C14_read_only_threads.
