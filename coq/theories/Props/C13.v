(* C13 — random generation is always valid, honours pinned fields, and is reproducible.
   Statements only; proofs in Proofs/RandomGen.v, Proofs/RandomConform.v (instantiation), Proofs/RandomFacts.v,
   Proofs/ConformFacts.v, Proofs/PlaceFacts.v.
   The caller's generator and rstr are oracles of the model: the theorems quantify over everything they can return
   (country index, bank index, the draws); "the draw matches the country's pattern" enters only as "its upper-cased
   form is clean text". *)
From Coq Require Import Lia ZArith List Bool.
From Schwifty Require Import Lib.Base Lib.Lit Model.Clean Model.Data Model.Iban Model.Bban Model.Generate Model.Random
  Model.Registry Model.Lookup.
From Schwifty Require Import Spec.Iso13616 Proofs.CleanFacts Proofs.PlaceFacts Proofs.GenerateFacts Proofs.RandomGen Proofs.RandomTotal Proofs.RandomConform.
From Schwifty Require Import Gen.Env Gen.IbanData Gen.IbanCfg Gen.Banks.
Import ListNotations.

(* IBAN.random never returns an invalid object *)
Theorem C13_valid : forall national cc0 reg pins ci bi draws s,
  random_iban' national cc0 reg pins ci bi draws = Ok s -> iso_ok the_table s = true.
Proof. exact gen_random_valid. Qed.

(* of the requested country *)
Theorem C13_country : forall cc0 reg pins ci bi draws cc b,
  cc0 <> [] -> random_bban' cc0 reg pins ci bi draws = Ok (cc, b) -> cc = cc0.
Proof. exact gen_random_country. Qed.

(* the library errors of BBAN.random: the documented overflow error (or an unknown country) *)
Theorem C13_errors : forall cc0 reg pins ci bi draws x,
  random_bban' cc0 reg pins ci bi draws = Err x -> x = EGenerateRandomOverflow \/ x = EInvalidCountryCode.
Proof. exact gen_random_errors. Qed.

(* ... and no exception from outside the library's family (given the 100 draws the retry loop may ask rstr for) *)
Theorem C13_library_errors_only : forall cc0 reg pins ci bi draws c,
  (forall k v, In (k, v) pins -> cleaned the_env v = true) ->
  (forall d, In d draws -> cleaned the_env (upper the_env d) = true) ->
  (100 <= List.length draws)%nat ->
  random_bban' cc0 reg pins ci bi draws <> Crash c.
Proof. exact gen_random_total. Qed.

(* for a country with published positions, clean pins and clean draws: the BBAN has the country's length, is clean
   text, and every pinned component of its field's width - other than the computed check-digit field - is unchanged *)
Theorem C13_pins : forall cc0 reg pins ci bi draws cc b r ps,
  random_bban' cc0 reg pins ci bi draws = Ok (cc, b) ->
  find_row the_table cc = Some r -> r_positions r = Some ps ->
  (forall k v, In (k, v) pins -> cleaned the_env v = true) ->
  (forall d, In d draws -> cleaned the_env (upper the_env d) = true) ->
  len b = r_bban_length r /\ cleaned the_env b = true /\
  forall k v, assoc k pins = Some v -> In k the_components -> text_eqb k k_national = false -> len v = width r k ->
  get_slice b (fst (rng r k)) (Some (snd (rng r k))) = v.
Proof. exact gen_random_pins. Qed.

Theorem C13_iban_pins : forall national cc0 reg pins ci bi draws s cc b r ps,
  random_bban' cc0 reg pins ci bi draws = Ok (cc, b) ->
  random_iban' national cc0 reg pins ci bi draws = Ok s ->
  find_row the_table cc = Some r -> r_positions r = Some ps ->
  (forall k v, In (k, v) pins -> cleaned the_env v = true) ->
  (forall d, In d draws -> cleaned the_env (upper the_env d) = true) ->
  iban_country_code s = cc /\ iban_bban the_env s = b /\
  forall k v, assoc k pins = Some v -> In k the_components -> text_eqb k k_national = false -> len v = width r k ->
  field r k s = v.
Proof. exact gen_random_iban_pins. Qed.

(* BBAN.random returns a structure-conforming BBAN: every position holds a character of the class the country's BBAN
   structure names for it, and the length is the country's.  Pins must be non-empty clean text (a pinned value that does
   not fit its field's classes makes every attempt fail: the overflow error, not a non-conforming BBAN); the draws need
   only have the BBAN length - a draw of the wrong classes is rejected by from_components and the loop tries the next *)
Theorem C13_conforms : forall cc0 reg pins ci bi draws cc b r ps,
  random_bban' cc0 reg pins ci bi draws = Ok (cc, b) ->
  find_row the_table cc = Some r -> r_positions r = Some ps ->
  (forall k v, In (k, v) pins -> cleaned the_env v = true /\ v <> []) ->
  (forall d, In d draws -> cleaned the_env (upper the_env d) = true /\ len (upper the_env d) = r_bban_length r) ->
  conforms_row r b = true.
Proof. exact gen_random_conforms. Qed.

(* a country without published positions: the draw itself comes back (upper-cased), so it conforms iff rstr's draw does *)
Theorem C13_no_positions : forall cc0 reg pins ci bi draws cc b r,
  random_bban' cc0 reg pins ci bi draws = Ok (cc, b) ->
  find_row the_table cc = Some r -> r_positions r = None ->
  exists d rest, draws = d :: rest /\ b = clean the_env (upper the_env d).
Proof. exact gen_random_no_positions. Qed.

(* a registry-based draw (bank and branch code not pinned) belongs to a listed bank: in a country all of whose registry
   entries carry a bank code of the width of the bank-identifying field (all_fit: bank code, or bank code followed by
   branch code), the bank found from the BBAN's own bank-identifying field is a listed bank of that country *)
Theorem C13_listed_bank : forall cc0 reg pins ci bi draws cc b r ps,
  reg = true ->
  random_bban' cc0 reg pins ci bi draws = Ok (cc, b) ->
  find_row the_table cc = Some r -> r_positions r = Some ps -> all_fit cc = true ->
  (forall k v, In (k, v) pins -> cleaned the_env v = true) ->
  (forall d, In d draws -> cleaned the_env (upper the_env d) = true) ->
  assoc k_bank pins = None -> assoc k_branch pins = None ->
  (bi < List.length (country_entries the_banks cc))%nat ->
  exists x, bban_bank the_table (bank_code_entries the_banks) cc b = Ok (Some x) /\ In x the_banks /\ e_cc x = cc
    /\ bban_lookup_key the_table cc b = Ok (e_code x).
Proof. exact gen_random_listed. Qed.

(* reproducibility: the model is a function of the arguments and of what the caller's generator and rstr returned;
   nothing else (no hash order, no global state) enters.  The content of this statement is the correspondence check
   (the same oracle outputs fed to model and implementation under several PYTHONHASHSEED values), not this lemma. *)
Theorem C13_function_of_draws : forall national cc0 reg pins ci bi draws ci' bi' draws',
  ci = ci' -> bi = bi' -> draws = draws' ->
  random_iban' national cc0 reg pins ci bi draws = random_iban' national cc0 reg pins ci' bi' draws'.
Proof. intros. subst. reflexivity. Qed.

Print Assumptions C13_valid.
Print Assumptions C13_country.
Print Assumptions C13_errors.
Print Assumptions C13_library_errors_only.
Print Assumptions C13_pins.
Print Assumptions C13_iban_pins.
Print Assumptions C13_listed_bank.
Print Assumptions C13_conforms.
Print Assumptions C13_no_positions.

From Coq Require Import String.
Open Scope list_scope.
Example C13_ex :
  random_bban' (tx "DE") false [(k_bank, tx "37040044")] 0 0 [tx "123456780532013000"] = Ok (tx "DE", tx "370400440532013000").
Proof. vm_compute. reflexivity. Qed.
(* the listed-bank theorem is not vacuous: e.g. Germany, the United Kingdom and the Netherlands qualify *)
Example C13_ex_fit : all_fit (tx "DE") = true /\ all_fit (tx "GB") = true /\ all_fit (tx "NL") = true.
Proof. repeat split; vm_compute; reflexivity. Qed.
(* the conformity theorem is not vacuous: a British draw whose bank field holds digits is rejected by from_components,
   the next draw (letters there) is used, and the result conforms *)
Example C13_ex_conforms :
  exists r, find_row the_table (tx "GB") = Some r /\
    random_bban' (tx "GB") false [] 0 0 [tx "1234" ++ tx "12345612345678"; tx "nwbk" ++ tx "60161331926819"]
      = Ok (tx "GB", tx "NWBK60161331926819") /\
    conforms_row r (tx "NWBK60161331926819") = true /\ conforms_row r (tx "123412345612345678") = false.
Proof. eexists. split; [vm_compute; reflexivity|]. repeat split; vm_compute; reflexivity. Qed.
