(* C13 — random generation is always valid, honours pinned fields, and is reproducible.  (in progress) *)
From Schwifty Require Import Lib.Base Model.Data Model.Random.
