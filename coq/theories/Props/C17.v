(* C17 — the bundled country and bank data are internally consistent.
   The predicates are Spec/RegistrySpec.v; they are evaluated on whatever data the tree bundles now. *)
From Schwifty Require Import Lib.Base Lib.Lit Model.Clean Model.Data Model.Iban Model.Bban Model.Lookup Spec.Iso13616 Spec.Iso9362 Spec.RegistrySpec.
From Schwifty Require Import Proofs.CleanFacts Proofs.IbanFacts Proofs.IbanTheorems Proofs.BankFacts Proofs.GenObligations
  Proofs.GenerateFacts Proofs.GenerateTotal.
From Schwifty Require Import Gen.Env Gen.IbanData Gen.IbanCfg Gen.Banks.
From Coq Require Import String.

Theorem C17_countries : forallb wf_country the_table = true /\ no_dup_countries the_table = true.
Proof. split; vm_cast_no_check (eq_refl true). Qed.

Theorem C17_banks : forallb (wf_bank the_table iso3166) the_banks = true.
Proof. vm_cast_no_check (eq_refl true). Qed.

(* national algorithms read only fields the country defines: for every country with a registered default algorithm, the
   fields the algorithm reads are components of the table, the classes at their positions are what its arithmetic needs -
   including non-emptiness where a field is converted on its own (France: bank, branch and account code) - and the
   check-digit field is absent or has the width the algorithm computes.  (total_row_ok / shape_row_ok are the row predicates
   the totality and shape theorems of IBAN.generate rest on.) *)
Theorem C17_algorithm_fields : forallb total_row_ok the_table = true /\ forallb shape_row_ok the_table = true.
Proof. exact (conj gen_total_obl gen_shape_obl). Qed.

(* spelled out for one row / one entry *)
Corollary C17_country : forall r, In r the_table -> wf_country r = true.
Proof. intros r H. pose proof (proj1 C17_countries) as P. rewrite forallb_forall in P. exact (P r H). Qed.

Corollary C17_bank : forall en, In en the_banks -> wf_bank the_table iso3166 en = true.
Proof. intros en H. pose proof C17_banks as P. rewrite forallb_forall in P. exact (P en H). Qed.


(* ---- consequently: every listed bank (with a bank code) occurs in a valid IBAN and is found again from it --------- *)
Definition bank_occurs (en : entry) : bool :=
  match e_code en with
  | [] => true
  | code =>
    match find_row the_table (e_cc en) with
    | Some r =>
      match witness_bban r code with
      | Some b => conforms_row r b
                  && match bban_lookup_key the_table (e_cc en) b with Ok k => text_eqb k code | _ => false end
                  && Lookup.nonempty (e_cc en)
      | None => false
      end
    | None => false
    end
  end.
(* the witness BBAN (filler characters plus the code in the bank-identifying field) is checked for every entry *)
Lemma C17_occurs_obl : forallb bank_occurs the_banks = true.
Proof. vm_cast_no_check (eq_refl true). Qed.

Theorem C17_every_bank : forall en, In en the_banks -> e_code en <> [] ->
  exists r b, find_row the_table (e_cc en) = Some r /\ conforms_row r b = true
    /\ bban_lookup_key the_table (e_cc en) b = Ok (e_code en)
    /\ (exists x, bban_bank the_table (bank_code_entries the_banks) (e_cc en) b = Ok (Some x)
                  /\ e_code x = e_code en /\ e_cc x = e_cc en /\ In x the_banks)
    /\ (forall national,
          iban_from_bban the_env the_iban_cfg the_table national (e_cc en) b false false
            = Ok (e_cc en ++ iso_check_digits (e_cc en) b ++ b)
          /\ iso_ok the_table (e_cc en ++ iso_check_digits (e_cc en) b ++ b) = true).
Proof.
  intros en Hin Hne. pose proof C17_occurs_obl as O. rewrite forallb_forall in O. specialize (O en Hin).
  unfold bank_occurs in O. destruct (e_code en) as [|k0 code'] eqn:Ecode; [congruence|].
  destruct (find_row the_table (e_cc en)) as [r|] eqn:Er; [|discriminate].
  destruct (witness_bban r (k0 :: code')) as [b|]; [|discriminate].
  apply andb_true_iff in O as [O Hcc]. apply andb_true_iff in O as [Hconf Hkey].
  destruct (bban_lookup_key the_table (e_cc en) b) as [k| |] eqn:Ek; try discriminate.
  apply Proofs.CleanFacts.text_eqb_eq in Hkey. subst k.
  exists r, b. split; [reflexivity|]. split; [exact Hconf|]. split; [exact Ek|]. split.
  - apply (found_again the_table the_banks (e_cc en) b (k0 :: code') en Hin eq_refl Ecode); [|discriminate|exact Ek].
    destruct (e_cc en); [discriminate|discriminate].
  - intro national. exact (from_bban_valid the_env the_iban_cfg the_table national env_obl env_alpha_obl cfg_obl table_obl
                             (e_cc en) b r Er Hconf).
Qed.

Print Assumptions C17_every_bank.
Print Assumptions C17_countries.
Print Assumptions C17_banks.

Example C17_ex : (100 <=? Z.of_nat (List.length the_table))%Z = true /\ (20000 <=? Z.of_nat (List.length the_banks))%Z = true.
Proof. split; vm_compute; reflexivity. Qed.
