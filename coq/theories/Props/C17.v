(* C17 — the bundled country and bank data are internally consistent.
   The predicates are Spec/RegistrySpec.v; they are evaluated on whatever data the tree bundles now. *)
From Schwifty Require Import Lib.Base Lib.Lit Model.Data Spec.Iso13616 Spec.Iso9362 Spec.RegistrySpec.
From Schwifty Require Import Gen.Env Gen.IbanData Gen.Banks.
From Coq Require Import String.

Theorem C17_countries : forallb wf_country the_table = true /\ no_dup_countries the_table = true.
Proof. split; vm_cast_no_check (eq_refl true). Qed.

Theorem C17_banks : forallb (wf_bank the_table iso3166) the_banks = true.
Proof. vm_cast_no_check (eq_refl true). Qed.

(* spelled out for one row / one entry *)
Corollary C17_country : forall r, In r the_table -> wf_country r = true.
Proof. intros r H. pose proof (proj1 C17_countries) as P. rewrite forallb_forall in P. exact (P r H). Qed.

Corollary C17_bank : forall en, In en the_banks -> wf_bank the_table iso3166 en = true.
Proof. intros en H. pose proof C17_banks as P. rewrite forallb_forall in P. exact (P en H). Qed.

Print Assumptions C17_countries.
Print Assumptions C17_banks.

Example C17_ex : (100 <=? Z.of_nat (List.length the_table))%Z = true /\ (20000 <=? Z.of_nat (List.length the_banks))%Z = true.
Proof. split; vm_compute; reflexivity. Qed.
