(* C09 — computed national check digits validate; parse and rebuild round-trips.  (in progress) *)
From Schwifty Require Import Lib.Base Model.Data Model.Bban.
