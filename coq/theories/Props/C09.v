(* C09 — computed national check digits validate; parsing and rebuilding round-trips.
   Statements only; proofs in Proofs/GenerateFacts.v, Proofs/PlaceFacts.v, Proofs/ComputeShape.v. *)
From Coq Require Import Lia ZArith List Bool.
From Schwifty Require Import Lib.Base Lib.Lit Model.Clean Model.Data Model.Iban Model.Bban Model.Generate
  Model.Registry Model.Lookup.
From Schwifty Require Import Spec.Iso13616 Proofs.CleanFacts Proofs.PlaceFacts Proofs.RebuildFacts Proofs.ComputeShape Proofs.GenerateFacts Proofs.RandomGen.
From Schwifty Require Import Gen.Env Gen.IbanData Gen.IbanCfg Gen.ChecksumCfg Gen.Banks.
From Coq Require Import String.
Open Scope list_scope.
Import ListNotations.

(* the countries the property names are exactly those whose default algorithm computes digits of a fixed width *)
Definition computing (cc : text) : option nat :=
  match assoc (cc ++ [58%N] ++ k_default) registered with
  | Some (cls, _) => class_width cls
  | None => None
  end.
Definition c09_countries : list text :=
  map s2t ["BE"; "BA"; "ES"; "FR"; "MC"; "IT"; "SM"; "FI"; "NO"; "PL"; "EE"; "PT"; "RS"; "ME"; "MK"; "SI"; "TL"; "MR"; "TN"]%string.
Lemma C09_countries_obl :
  forallb (fun r => Bool.eqb (match computing (r_cc r) with Some _ => true | None => false end)
                             (existsb (text_eqb (r_cc r)) c09_countries)) the_table = true.
Proof. vm_cast_no_check (eq_refl true). Qed.

(* every IBAN built from components passes the country's national validation: computing and validating agree *)
Theorem C09_generated_valid : forall national cc r cls acc w bank account branch s,
  find_row the_table cc = Some r -> text_eqb cc (tx "DE") = false ->
  assoc (cc ++ [58%N] ++ k_default) registered = Some (cls, acc) -> class_width cls = Some w ->
  generate national cc bank account branch = Ok s ->
  validate_national the_table the_algos (bank_code_entries the_banks) cc (iban_bban the_env s) = Ok true.
Proof. exact gen_national_valid. Qed.

(* ... and so does every BBAN drawn at random (clean pins, clean draws; country with positions) *)
Theorem C09_random_valid : forall cc0 reg pins ci bi draws cc b r ps cls acc w,
  random_bban' cc0 reg pins ci bi draws = Ok (cc, b) ->
  find_row the_table cc = Some r -> r_positions r = Some ps -> text_eqb cc (tx "DE") = false ->
  assoc (cc ++ [58%N] ++ k_default) registered = Some (cls, acc) -> class_width cls = Some w ->
  (forall k v, In (k, v) pins -> cleaned the_env v = true) ->
  (forall d, In d draws -> cleaned the_env (upper the_env d) = true) ->
  validate_national the_table the_algos (bank_code_entries the_banks) cc b = Ok true.
Proof. exact gen_random_national_valid. Qed.

(* conversely: the components read off a structurally conforming, nationally valid BBAN, handed back to
   BBAN.from_components, give a BBAN of the same length that agrees with it at every component's position
   (positions belonging to no component are not constrained) *)
Theorem C09_rebuild : forall cc r ps b,
  find_row the_table cc = Some r -> r_positions r = Some ps -> conforms_row r b = true ->
  validate_national the_table the_algos (bank_code_entries the_banks) cc b = Ok true ->
  exists b', from_components the_env the_components the_table the_algos cc (read_off r b) = Ok b' /\ len b' = len b /\
    forall k, In k the_components ->
      get_slice b' (fst (rng r k)) (Some (snd (rng r k))) = get_slice b (fst (rng r k)) (Some (snd (rng r k))).
Proof. exact gen_rebuild. Qed.

Print Assumptions C09_generated_valid.
Print Assumptions C09_rebuild.
Print Assumptions C09_random_valid.

Example C09_ex :
  generate (fun _ _ => Ok true) (tx "BE") (tx "539") (tx "0075470") [] = Ok (tx "BE68539007547034")
  /\ computing (tx "BE") = Some 2.
Proof. split; vm_compute; reflexivity. Qed.

Example C09_ex_rebuild :
  match find_row the_table (tx "BE") with
  | Some r => from_components the_env the_components the_table the_algos (tx "BE") (read_off r (tx "539007547034"))
              = Ok (tx "539007547034")
  | None => False
  end.
Proof. vm_compute. reflexivity. Qed.
