(* C15 — results depend only on arguments and bundled data, never on call history. *)
From Schwifty Require Import Lib.Base Lib.Lit Model.Shared Proofs.SharedFacts.
From Schwifty Require Import Gen.Access.
From Coq Require Import String.

(* every store that can happen after import goes to a scratch attribute of an algorithm object ... *)
Lemma C15_only_scratch :
  forallb (fun m => existsb (fun a => text_eqb (snd m) (tx "self." ++ a)) scratch_attrs) runtime_mutations = true.
Proof. vm_cast_no_check (eq_refl true). Qed.

(* ... and on every entry point of every algorithm class each scratch attribute is written before it is
   read (flat event sequences of the call trees, regenerated from the tree) *)
Lemma C15_write_before_read : wbr_ok scratch_events scratch_attrs = true.
Proof. vm_cast_no_check (eq_refl true). Qed.

Lemma C15_registry_loaded :
  forallb (fun n => existsb (text_eqb n) import_registry_names) runtime_registry_names = true.
Proof. vm_cast_no_check (eq_refl true). Qed.

(* a call that writes every cell before reading it returns the same whatever history preceded it *)
Theorem C15_history_independent : forall h p acc s0,
  wbr_prog [] p = true ->
  fst (run_solo p acc (run_history h s0)) = fst (run_solo p acc s0).
Proof. exact history_independent. Qed.

Print Assumptions C15_history_independent.
