(* C03 — every single typing error in a valid IBAN is detected. *)
From Schwifty Require Import Lib.Base Lib.Lit Model.Clean Model.Data Model.Iban Spec.Iso13616.
From Schwifty Require Import Proofs.NumFacts Proofs.IbanFacts Proofs.IbanTheorems Proofs.TypoFacts Proofs.TypoTheorems Proofs.GenObligations.
From Schwifty Require Import Gen.Env Gen.IbanData Gen.IbanCfg.
From Coq Require Import String.

Lemma C03_len_obl : max_len_ok the_table = true.
Proof. vm_cast_no_check (eq_refl true). Qed.

(* replacing the character y at any position >= 2 of a valid IBAN p ++ y :: q by a different
   character x of the same kind (digit/digit, letter/letter) gives an invalid text *)
Theorem C03_substitution : forall p y q x,
  2 <= List.length p -> iso_ok the_table (p ++ y :: q) = true ->
  same_kind x y = true -> x <> y ->
  iso_ok the_table (p ++ x :: q) = false.
Proof. exact (subst_rejected the_env the_iban_cfg the_table env_obl env_alpha_obl cfg_obl table_obl C03_len_obl). Qed.

(* swapping two adjacent different characters of the same kind, at any position (country code,
   check digits, the seam between check digits and BBAN, inside the BBAN) gives an invalid text *)
Theorem C03_transposition : forall p a b q,
  iso_ok the_table (p ++ a :: b :: q) = true ->
  same_kind a b = true -> a <> b ->
  iso_ok the_table (p ++ b :: a :: q) = false.
Proof. exact (swap_rejected the_env the_iban_cfg the_table env_obl env_alpha_obl cfg_obl table_obl C03_len_obl). Qed.

(* and what the ISO predicate rejects, the constructor rejects (C01) *)
Theorem C03_constructor : forall national s',
  iso_ok the_table (clean the_env s') = false ->
  ~ exists r, iban_new the_env the_iban_cfg the_table national s' false false = Ok r.
Proof. exact (typo_constructor the_env the_iban_cfg the_table env_obl env_alpha_obl cfg_obl table_obl C03_len_obl). Qed.

Print Assumptions C03_substitution.
Print Assumptions C03_transposition.
Print Assumptions C03_constructor.

(* non-vacuity: the premises hold for a digit-only and a letter-bearing IBAN, incl. the seam *)
Example C03_ex_subst :
  iso_ok the_table ((tx "DE8937040044053") ++ 50%N :: (tx "013000")) = true
  /\ same_kind 51%N 50%N = true.
Proof. split; vm_compute; reflexivity. Qed.
Example C03_ex_seam :
  iso_ok the_table ((tx "DE8") ++ 57%N :: 51%N :: (tx "70400440532013000")) = true
  /\ same_kind 57%N 51%N = true.
Proof. split; vm_compute; reflexivity. Qed.
Example C03_ex_letters :
  iso_ok the_table ((tx "MT84M") ++ 65%N :: 76%N :: (tx "T011000012345MTLCAST001S")) = true
  /\ same_kind 65%N 76%N = true.
Proof. split; vm_compute; reflexivity. Qed.
