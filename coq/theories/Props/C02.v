(* C02 — IBAN check digits are computed correctly, uniquely and canonically. *)
From Schwifty Require Import Lib.Base Lib.Lit Model.Clean Model.Data Model.Iban Spec.Iso13616.
From Schwifty Require Import Proofs.NumFacts Proofs.IbanFacts Proofs.IbanTheorems Proofs.GenObligations.
From Schwifty Require Import Gen.Env Gen.IbanData Gen.IbanCfg.
From Coq Require Import String.

(* assembling country code + BBAN yields a valid IBAN carrying the ISO check digits *)
Theorem C02_generate : forall national cc b r,
  find_row the_table cc = Some r -> conforms_row r b = true ->
  iban_from_bban the_env the_iban_cfg the_table national cc b false false
    = Ok (cc ++ iso_check_digits cc b ++ b)
  /\ iso_ok the_table (cc ++ iso_check_digits cc b ++ b) = true.
Proof. exact (fun national => from_bban_valid the_env the_iban_cfg the_table national env_obl env_alpha_obl cfg_obl table_obl). Qed.

(* among the 100 digit pairs exactly the computed one is accepted *)
Theorem C02_unique : forall national cc b r d1 d2,
  find_row the_table cc = Some r -> conforms_row r b = true ->
  is_ascii_digit d1 = true -> is_ascii_digit d2 = true ->
  ((exists s, iban_new the_env the_iban_cfg the_table national (cc ++ [d1; d2] ++ b) false false = Ok s)
   <-> [d1; d2] = iso_check_digits cc b).
Proof. exact (fun national => check_digits_unique the_env the_iban_cfg the_table national env_obl env_alpha_obl cfg_obl table_obl). Qed.

(* the computed pair lies in 02..98: the aliases 00, 01, 99 are never the computed pair, hence
   (by C02_unique) never accepted *)
Theorem C02_range : forall cc b,
  exists d1 d2, iso_check_digits cc b = [d1; d2] /\ is_ascii_digit d1 = true /\ is_ascii_digit d2 = true
    /\ (2 <= Z.of_N (d1 - 48) * 10 + Z.of_N (d2 - 48) <= 98)%Z.
Proof. exact check_digits_shape. Qed.

Print Assumptions C02_generate.
Print Assumptions C02_unique.
Print Assumptions C02_range.

Example C02_ex : exists r, find_row the_table (tx "DE") = Some r /\ conforms_row r (tx "370400440532013000") = true
  /\ iso_check_digits (tx "DE") (tx "370400440532013000") = tx "89".
Proof. eexists. split; [vm_compute; reflexivity|]. split; vm_compute; reflexivity. Qed.
