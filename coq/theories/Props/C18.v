(* C18 — registry files compose in name order: deep later-wins merge, list concatenation. *)
From Schwifty Require Import Lib.Base Lib.Lit Lib.Json Model.Data Model.Registry.
From Schwifty Require Import Proofs.RegistryFacts Proofs.TableOfJson.
From Schwifty Require Import Gen.IbanData Gen.IbanCfg Gen.IbanRaw.
From Coq Require Import String.

(* the country table every other theorem is about IS the merge, in file-name order, of the JSON files
   of the tree (computed here by the model of registry.get; field by field, modulo dict order) *)
Lemma C18_effective_table : effective_agrees (ic_components the_iban_cfg) iban_files the_table = true.
Proof. vm_cast_no_check (eq_refl true). Qed.

(* dict registries: left fold of merge_dicts over the files in the given (file-name) order *)
Theorem C18_fold : forall perm o (files : list obj),
  registry_get perm (map (fun x => (false, JObj x)) (o :: files)) = Ok (RDict (fold_left (merge_dicts perm) files o)).
Proof. exact registry_get_dicts. Qed.

(* list registries: concatenation in the given order *)
Theorem C18_concat : forall perm l (files : list (list json)),
  registry_get perm (map (fun x => (false, JArr x)) (l :: files)) = Ok (RList (List.concat (l :: files))).
Proof. exact registry_get_lists. Qed.

(* deep later-wins merge, one level: both dicts -> merged recursively; otherwise the later file's
   value; keys of only one side are kept *)
Theorem C18_merge_get : forall perm, perm_ok perm -> forall f l r k,
  jget k (merge_obj perm (S f) l r) =
  match jget k l, jget k r with
  | Some (JObj a), Some (JObj b) => Some (JObj (merge_obj perm f a b))
  | _, Some v => Some v
  | Some v, None => Some v
  | None, None => None
  end.
Proof. exact merge_obj_get. Qed.

(* an overlay changes exactly the keys it names: below a key it does not name every path reads the base *)
Theorem C18_overlay_only_named : forall perm, perm_ok perm ->
  forall f l r k p, jget k r = None ->
    jpath (k :: p) (JObj (merge_obj perm (S f) l r)) = jpath (k :: p) (JObj l).
Proof. exact overlay_only_named. Qed.

(* what any consumer reads (every path, down to scalars and lists) does not depend on the order in
   which Python iterates the set of common keys (which varies with PYTHONHASHSEED) *)
Theorem C18_order_independent : forall perm1 perm2, perm_ok perm1 -> perm_ok perm2 ->
  forall p f l r,
    shallow (jpath p (JObj (merge_obj perm1 f l r))) = shallow (jpath p (JObj (merge_obj perm2 f l r))).
Proof. exact merge_order_indep. Qed.

(* v2 files: one entry per listed bank code, other keys kept, primary defaulted to false *)
Theorem C18_parse_v2 : forall src dst en values,
  jget src en = Some (JArr values) ->
  exists out, expand_entry src dst en = Ok out /\ List.length out = List.length values
    /\ forall i v, nth_error values i = Some v ->
         exists o, nth_error out i = Some (JObj o) /\ jget dst o = Some v
           /\ (forall k, text_eqb k dst = false -> text_eqb k src = false -> text_eqb k (tx "primary") = false ->
                 jget k o = jget k en)
           /\ (text_eqb (tx "primary") dst = false -> text_eqb (tx "primary") src = false ->
                 jget (tx "primary") o = match jget (tx "primary") en with Some x => Some x | None => Some (JBool false) end).
Proof. exact expand_entry_spec. Qed.

Print Assumptions C18_effective_table.
Print Assumptions C18_merge_get.
Print Assumptions C18_order_independent.
Print Assumptions C18_parse_v2.

(* non-vacuity / why order matters *)
Example C18_ex_order : jget (tx "k") (merge_dicts (fun x => x) [(tx "k", JNum 1)] [(tx "k", JNum 2)]) = Some (JNum 2)
  /\ jget (tx "k") (merge_dicts (fun x => x) [(tx "k", JNum 2)] [(tx "k", JNum 1)]) = Some (JNum 1).
Proof. split; vm_compute; reflexivity. Qed.
Example C18_ex_perm : perm_ok (fun ks => ks) /\ perm_ok (@rev text).
Proof. split; intros ks k; [reflexivity|symmetry; apply in_rev]. Qed.
