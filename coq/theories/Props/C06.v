(* C06 — national check digits are judged by the country's published algorithm.  (work in progress:
   structural theorems first; per-country equivalences are added below as they are proved) *)
From Schwifty Require Import Lib.Base Lib.Lit Model.Clean Model.Data Model.Iban Model.Bban.
From Coq Require Import String.

(* national validation can only reject: whatever is accepted with it is accepted without it *)
Theorem C06_only_rejects : forall e cfg T national s,
  (forall cc b, national cc b <> Ok false) ->
  iban_validate e cfg T national true s = Ok true -> iban_validate e cfg T national false s = Ok true.
Proof.
  intros e cfg T national s _ H. unfold iban_validate in *.
  assert (G : forall l, run_steps e cfg T national true s l = Ok tt -> run_steps e cfg T national false s l = Ok tt).
  { induction l as [|st l IH]; cbn [run_steps]; [auto|]. intro Hrun.
    destruct (run_step e cfg T national true s st) as [[]| |] eqn:E1; cbn [bind] in Hrun; try discriminate.
    assert (E2 : run_step e cfg T national false s st = Ok tt).
    { destruct st; cbn [run_step] in *; try exact E1. reflexivity. }
    rewrite E2. cbn [bind]. apply IH. exact Hrun. }
  destruct (run_steps e cfg T national true s (ic_steps cfg)) as [[]| |] eqn:E; cbn [bind] in H; try discriminate.
  rewrite (G _ E). reflexivity.
Qed.

(* the BBAN-level check reports success as true and failure by raising: it never returns false *)
Theorem C06_returns_true : forall T find_algo bank_index cc b r,
  validate_national T find_algo bank_index cc b = Ok r -> r = true.
Proof.
  intros T find_algo bank_index cc b r H. unfold validate_national in H.
  destruct (bban_bank T bank_index cc b) as [bank| |]; cbn [bind] in H; try discriminate.
  destruct (find_algo cc _) as [al|]; [|inversion H; reflexivity].
  destruct (get_spec T cc); cbn [bind] in H; try discriminate.
  destruct (al_validate al _ _) as [[]| |]; cbn [bind] in H; try discriminate. inversion H; reflexivity.
Qed.

(* a country without a registered algorithm is unaffected *)
Theorem C06_unaffected : forall T find_algo bank_index cc b bank,
  bban_bank T bank_index cc b = Ok bank ->
  (forall name, find_algo cc name = None) ->
  validate_national T find_algo bank_index cc b = Ok true.
Proof.
  intros T find_algo bank_index cc b bank Hb Hn. unfold validate_national. rewrite Hb. cbn [bind].
  rewrite Hn. reflexivity.
Qed.

Print Assumptions C06_only_rejects.
Print Assumptions C06_returns_true.
Print Assumptions C06_unaffected.
