(* C06 — national check digits are judged by the country's published algorithm.  (work in progress:
   structural theorems first; per-country equivalences are added below as they are proved) *)
From Schwifty Require Import Lib.Base Lib.Lit Model.Clean Model.Data Model.Iban Model.Bban Model.National Model.Algorithms
  Model.Germany Model.Lookup.
From Schwifty Require Import Spec.Iso13616 Spec.NationalPublished.
From Schwifty Require Import Proofs.NumFacts Proofs.IbanFacts Proofs.NationalFacts Proofs.GenObligations.
From Schwifty Require Import Gen.Env Gen.IbanData Gen.IbanCfg Gen.ChecksumCfg Gen.GermanyTbl Gen.Banks.
From Coq Require Import String.

(* national validation can only reject: whatever is accepted with it is accepted without it *)
Theorem C06_only_rejects : forall e cfg T national s,
  (forall cc b, national cc b <> Ok false) ->
  iban_validate e cfg T national true s = Ok true -> iban_validate e cfg T national false s = Ok true.
Proof.
  intros e cfg T national s _ H. unfold iban_validate in *.
  assert (G : forall l, run_steps e cfg T national true s l = Ok tt -> run_steps e cfg T national false s l = Ok tt).
  { induction l as [|st l IH]; cbn [run_steps]; [auto|]. intro Hrun.
    destruct (run_step e cfg T national true s st) as [[]| |] eqn:E1; cbn [bind] in Hrun; try discriminate.
    assert (E2 : run_step e cfg T national false s st = Ok tt).
    { destruct st; cbn [run_step] in *; try exact E1. reflexivity. }
    rewrite E2. cbn [bind]. apply IH. exact Hrun. }
  destruct (run_steps e cfg T national true s (ic_steps cfg)) as [[]| |] eqn:E; cbn [bind] in H; try discriminate.
  rewrite (G _ E). reflexivity.
Qed.

(* the BBAN-level check reports success as true and failure by raising: it never returns false *)
Theorem C06_returns_true : forall T find_algo bank_index cc b r,
  validate_national T find_algo bank_index cc b = Ok r -> r = true.
Proof.
  intros T find_algo bank_index cc b r H. unfold validate_national in H.
  destruct (bban_bank T bank_index cc b) as [bank| |]; cbn [bind] in H; try discriminate.
  destruct (find_algo cc _) as [al|]; [|inversion H; reflexivity].
  destruct (get_spec T cc); cbn [bind] in H; try discriminate.
  destruct (al_validate al _ _) as [[]| |]; cbn [bind] in H; try discriminate. inversion H; reflexivity.
Qed.

(* a country without a registered algorithm is unaffected *)
Theorem C06_unaffected : forall T find_algo bank_index cc b bank,
  bban_bank T bank_index cc b = Ok bank ->
  (forall name, find_algo cc name = None) ->
  validate_national T find_algo bank_index cc b = Ok true.
Proof.
  intros T find_algo bank_index cc b bank Hb Hn. unfold validate_national. rewrite Hb. cbn [bind].
  rewrite Hn. reflexivity.
Qed.

(* ---- per-country equivalences: model of BBAN.validate_national_checksum = published rule ---------- *)

Definition the_german := german_class nd_runs german_table account_code_length.
Definition the_algos := the_find_algo the_env the_iban_cfg nd_runs registered the_german.

Lemma C06_alpha_obl : ic_alphabet the_iban_cfg = std_alphabet.
Proof. vm_cast_no_check (eq_refl std_alphabet). Qed.

(* only German bank entries name a checksum algorithm *)
Lemma C06_onlyde_obl : algo_only_for (tx "DE") the_banks = true.
Proof. vm_cast_no_check (eq_refl true). Qed.

(* ISO 7064 mod 97-10 over the whole BBAN: Bosnia and Herzegovina, Montenegro, North Macedonia, Portugal,
   Serbia, Slovenia, Timor-Leste.  Obligation per country: registered with that class, the accepted fields
   followed by the two check digits tile the BBAN, the check field is numeric. *)
Definition iso97_countries : list text := [tx "BA"; tx "ME"; tx "MK"; tx "PT"; tx "RS"; tx "SI"; tx "TL"].
Definition iso97_obl (cc : text) : bool :=
  negb (text_eqb cc (tx "DE")) &&
  match find_row the_table cc, registered_as registered cc "iso7064_mod97_10.DefaultAlgorithm" with
  | Some r, Some accepts => layout_prefix r accepts 2 && ends_with_two_digits r
  | _, _ => false
  end.
Lemma C06_iso97_obl : forallb iso97_obl iso97_countries = true.
Proof. vm_cast_no_check (eq_refl true). Qed.

Theorem C06_iso97 : forall cc r b,
  In cc iso97_countries -> find_row the_table cc = Some r -> conforms_row r b = true ->
  validate_national the_table the_algos (bank_code_entries the_banks) cc b =
  if pub_iso97 b then Ok true else Err EInvalidBBANChecksum.
Proof.
  intros cc r b Hin Er Hc. pose proof C06_iso97_obl as O. rewrite forallb_forall in O. specialize (O cc Hin).
  unfold iso97_obl in O. rewrite Er in O. apply andb_true_iff in O as [Hde O]. apply negb_true_iff in Hde.
  destruct (registered_as registered cc "iso7064_mod97_10.DefaultAlgorithm") as [accepts|] eqn:Ereg; [|discriminate].
  apply andb_true_iff in O as [Hlay Hend].
  exact (iso97_country the_env the_iban_cfg the_table the_banks nd_runs registered the_german
           table_obl C06_alpha_obl C06_onlyde_obl cc r accepts b Hde Er Hc Ereg Hlay Hend).
Qed.

Print Assumptions C06_iso97.
Print Assumptions C06_only_rejects.
Print Assumptions C06_returns_true.
Print Assumptions C06_unaffected.
