(* C06 — national check digits are judged by the country's published algorithm.  (work in progress:
   structural theorems first; per-country equivalences are added below as they are proved) *)
From Schwifty Require Import Lib.Base Lib.Lit Model.Clean Model.Data Model.Iban Model.Bban Model.National Model.Algorithms
  Model.Germany Model.Lookup.
From Schwifty Require Import Spec.Iso13616 Spec.NationalPublished Proofs.TableOfJson.
From Schwifty Require Import Proofs.NumFacts Proofs.IbanFacts Proofs.NationalFacts Proofs.NationalDigits Proofs.NationalCountries Proofs.NationalMore Proofs.CleanFacts Proofs.DecompFacts Proofs.TotalFacts Proofs.GenObligations.
From Schwifty Require Import Gen.Env Gen.IbanData Gen.IbanCfg Gen.ChecksumCfg Gen.GermanyTbl Gen.Banks.
From Coq Require Import String Lia.

(* national validation can only reject: whatever is accepted with it is accepted without it *)
Theorem C06_only_rejects : forall e cfg T national s,
  (forall cc b, national cc b <> Ok false) ->
  iban_validate e cfg T national true s = Ok true -> iban_validate e cfg T national false s = Ok true.
Proof.
  intros e cfg T national s _ H. unfold iban_validate in *.
  assert (G : forall l, run_steps e cfg T national true s l = Ok tt -> run_steps e cfg T national false s l = Ok tt).
  { induction l as [|st l IH]; cbn [run_steps]; [auto|]. intro Hrun.
    destruct (run_step e cfg T national true s st) as [[]| |] eqn:E1; cbn [bind] in Hrun; try discriminate.
    assert (E2 : run_step e cfg T national false s st = Ok tt).
    { destruct st; cbn [run_step] in *; try exact E1. reflexivity. }
    rewrite E2. cbn [bind]. apply IH. exact Hrun. }
  destruct (run_steps e cfg T national true s (ic_steps cfg)) as [[]| |] eqn:E; cbn [bind] in H; try discriminate.
  rewrite (G _ E). reflexivity.
Qed.

(* the BBAN-level check reports success as true and failure by raising: it never returns false *)
Theorem C06_returns_true : forall T find_algo bank_index cc b r,
  validate_national T find_algo bank_index cc b = Ok r -> r = true.
Proof.
  intros T find_algo bank_index cc b r H. unfold validate_national in H.
  destruct (bban_bank T bank_index cc b) as [bank| |]; cbn [bind] in H; try discriminate.
  destruct (find_algo cc _) as [al|]; [|inversion H; reflexivity].
  destruct (get_spec T cc); cbn [bind] in H; try discriminate.
  destruct (al_validate al _ _) as [[]| |]; cbn [bind] in H; try discriminate. inversion H; reflexivity.
Qed.

(* a country without a registered algorithm is unaffected *)
Theorem C06_unaffected : forall T find_algo bank_index cc b bank,
  bban_bank T bank_index cc b = Ok bank ->
  (forall name, find_algo cc name = None) ->
  validate_national T find_algo bank_index cc b = Ok true.
Proof.
  intros T find_algo bank_index cc b bank Hb Hn. unfold validate_national. rewrite Hb. cbn [bind].
  rewrite Hn. reflexivity.
Qed.

(* ---- per-country equivalences: model of BBAN.validate_national_checksum = published rule ---------- *)

Definition the_german := german_class nd_runs german_table account_code_length.
Definition the_algos := the_find_algo the_env the_iban_cfg nd_runs registered the_german.

Lemma C06_alpha_obl : ic_alphabet the_iban_cfg = std_alphabet.
Proof. vm_cast_no_check (eq_refl std_alphabet). Qed.

(* only German bank entries name a checksum algorithm *)
Lemma C06_onlyde_obl : algo_only_for (tx "DE") the_banks = true.
Proof. vm_cast_no_check (eq_refl true). Qed.

(* obligation of a two-check-digit family for one country: registered with that class, the accepted fields followed by
   the two check digits tile the BBAN, the check field is numeric (+ a family-specific condition on the row) *)
Definition family_obl (cls : string) (extra : row -> bool) (cc : text) : bool :=
  negb (text_eqb cc (tx "DE")) &&
  match find_row the_table cc, registered_as registered cc cls with
  | Some r, Some accepts => layout_prefix r accepts 2 && ends_with_two_digits r && extra r
  | _, _ => false
  end.

Ltac family_proof OBL cls compute pub bodyP Hcls Hval :=
  intros cc r b Hin Er Hc; pose proof OBL as O; rewrite forallb_forall in O; specialize (O cc Hin);
  unfold family_obl in O; rewrite Er in O; apply andb_true_iff in O as [Hde O]; apply negb_true_iff in Hde;
  destruct (registered_as registered cc cls) as [accepts|] eqn:Ereg; [|discriminate];
  apply andb_true_iff in O as [O Hextra]; apply andb_true_iff in O as [Hlay Hend];
  refine (family_country the_env the_iban_cfg the_table the_banks nd_runs registered the_german
            table_obl C06_alpha_obl C06_onlyde_obl cls compute pub bodyP cc r accepts b Hcls Hval _ Hde Er Hc Ereg Hlay Hend).

(* ISO 7064 mod 97-10 over the whole BBAN: Bosnia and Herzegovina, Montenegro, North Macedonia, Portugal, Serbia,
   Slovenia, Timor-Leste *)
Definition iso97_countries : list text := [tx "BA"; tx "ME"; tx "MK"; tx "PT"; tx "RS"; tx "SI"; tx "TL"].
Lemma C06_iso97_obl : forallb (family_obl "iso7064_mod97_10.DefaultAlgorithm" (fun _ => true)) iso97_countries = true.
Proof. vm_cast_no_check (eq_refl true). Qed.

Theorem C06_iso97 : forall cc r b,
  In cc iso97_countries -> find_row the_table cc = Some r -> conforms_row r b = true ->
  validate_national the_table the_algos (bank_code_entries the_banks) cc b =
  if pub_iso97 b then Ok true else Err EInvalidBBANChecksum.
Proof.
  family_proof C06_iso97_obl "iso7064_mod97_10.DefaultAlgorithm"%string (iso_compute (ic_alphabet the_iban_cfg)) pub_iso97
    (fun body : text => body <> [] /\ forallb in_alpha body = true)
    (national_class_iso the_env nd_runs (ic_alphabet the_iban_cfg))
    (fun cs body d1 d2 Hcs (HB : body <> [] /\ forallb in_alpha body = true) D1 D2 =>
       iso_default_validate the_iban_cfg C06_alpha_obl cs body d1 d2 Hcs (proj1 HB) (proj2 HB) D1 D2).
  intros body d1 d2 _ Hne Hal. split; assumption.
Qed.

(* RIB key over an all-numeric BBAN: Mauritania, Tunisia *)
Definition rib_countries : list text := [tx "MR"; tx "TN"].
Lemma C06_rib_obl : forallb (family_obl "iso7064_mod97_10_variant.DefaultAlgorithm" all_numeric) rib_countries = true.
Proof. vm_cast_no_check (eq_refl true). Qed.

Theorem C06_rib : forall cc r b,
  In cc rib_countries -> find_row the_table cc = Some r -> conforms_row r b = true ->
  validate_national the_table the_algos (bank_code_entries the_banks) cc b =
  if pub_rib_numeric b then Ok true else Err EInvalidBBANChecksum.
Proof.
  family_proof C06_rib_obl "iso7064_mod97_10_variant.DefaultAlgorithm"%string (variant_compute (ic_alphabet the_iban_cfg)) pub_rib_numeric
    (fun body : text => body <> [] /\ forallb is_ascii_digit body = true)
    (national_class_variant the_env nd_runs (ic_alphabet the_iban_cfg))
    (fun cs body d1 d2 Hcs (HB : body <> [] /\ forallb is_ascii_digit body = true) D1 D2 =>
       variant_default_validate the_iban_cfg C06_alpha_obl cs body d1 d2 Hcs (proj1 HB) (proj2 HB) D1 D2).
  intros body d1 d2 Hb Hne _. split; [exact Hne|].
  pose proof (numeric_row_digits r b Hextra Hc) as Hd. rewrite Hb, forallb_app in Hd.
  apply andb_true_iff in Hd as [Hd _]. exact Hd.
Qed.

(* Belgium *)
Definition be_row_ok (r : row) : bool := all_numeric r && Z.eqb (r_bban_length r) 12.
Lemma C06_be_obl : forallb (family_obl "belgium.DefaultAlgorithm" be_row_ok) [tx "BE"] = true.
Proof. vm_cast_no_check (eq_refl true). Qed.

Theorem C06_be : forall cc r b,
  In cc [tx "BE"] -> find_row the_table cc = Some r -> conforms_row r b = true ->
  validate_national the_table the_algos (bank_code_entries the_banks) cc b =
  if pub_be b then Ok true else Err EInvalidBBANChecksum.
Proof.
  family_proof C06_be_obl "belgium.DefaultAlgorithm"%string (be_compute (ic_alphabet the_iban_cfg)) pub_be
    (fun body : text => List.length body = 10 /\ forallb is_ascii_digit body = true)
    (national_class_be the_env nd_runs (ic_alphabet the_iban_cfg))
    (fun cs body d1 d2 Hcs (HB : List.length body = 10 /\ forallb is_ascii_digit body = true) D1 D2 =>
       be_default_validate the_iban_cfg C06_alpha_obl cs body d1 d2 Hcs (proj1 HB) (proj2 HB) D1 D2).
  intros body d1 d2 Hb _ _. unfold be_row_ok in Hextra. apply andb_true_iff in Hextra as [Hnum H12].
  apply Z.eqb_eq in H12.
  pose proof (numeric_row_digits r b Hnum Hc) as Hd. rewrite Hb, forallb_app in Hd.
  apply andb_true_iff in Hd as [Hd _]. split; [|exact Hd].
  assert (Hl : len b = r_bban_length r).
  { unfold conforms_row in Hc. destruct (row_kinds r); [|discriminate]. apply andb_true_iff in Hc as [Hl _].
    apply Z.eqb_eq. exact Hl. }
  rewrite Hb in Hl. unfold len in Hl. rewrite app_length in Hl. simpl in Hl. lia.
Qed.

(* ---- weighted-sum countries: positions the published rule presumes are obligations on the regenerated table ---- *)

Lemma C06_nd_obl : nd_ok nd_runs = true.
Proof. vm_cast_no_check (eq_refl true). Qed.

Definition comps_at (cc : text) (cls : string) (accepts : list text) (n : Z) (ps : list (text * (nat * nat))) : bool :=
  negb (text_eqb cc (tx "DE")) &&
  match find_row the_table cc, registered_as registered cc cls with
  | Some r, Some acc =>
    texts_eqb acc accepts && all_numeric r && Z.eqb (r_bban_length r) n
    && forallb (fun p => pos_is r (fst p) (fst (snd p)) (snd (snd p))) ps
  | _, _ => false
  end.

Ltac country_setup OBL cls :=
  intros r b Er Hc; pose proof OBL as O; unfold comps_at in O; rewrite Er in O;
  apply andb_true_iff in O as [Hde O]; apply negb_true_iff in Hde;
  destruct (registered_as registered _ cls) as [acc|] eqn:Ereg; [|discriminate];
  apply andb_true_iff in O as [O Hpos]; apply andb_true_iff in O as [O Hn]; apply andb_true_iff in O as [Hacc Hnum];
  apply Z.eqb_eq in Hn;
  pose proof (numeric_row_digits r b Hnum Hc) as Hd;
  assert (Hl : len b = r_bban_length r)
    by (unfold conforms_row in Hc; destruct (row_kinds r); [|discriminate]; apply andb_true_iff in Hc as [Hl0 _];
        apply Z.eqb_eq; exact Hl0);
  rewrite Hn in Hl; unfold len in Hl;
  cbn [forallb fst snd] in Hpos; repeat (apply andb_true_iff in Hpos as [? Hpos]); unfold the_algos.

Lemma texts_eqb_eq a : forall b, texts_eqb a b = true -> a = b.
Proof.
  induction a as [|x a IH]; intros [|y b] H; cbn in H; try reflexivity; try discriminate.
  apply andb_true_iff in H as [H1 H2]. apply Proofs.CleanFacts.text_eqb_eq in H1. subst. f_equal. apply IH. exact H2.
Qed.

(* Poland *)
Lemma C06_pl_obl : comps_at (tx "PL") "poland.DefaultAlgorithm" [k_bank; k_branch] 24
  [(k_bank, (0, 3)); (k_branch, (3, 7)); (k_national, (7, 8))] = true.
Proof. vm_cast_no_check (eq_refl true). Qed.

Theorem C06_pl : forall r b,
  find_row the_table (tx "PL") = Some r -> conforms_row r b = true ->
  validate_national the_table the_algos (bank_code_entries the_banks) (tx "PL") b =
  if pub_pl b then Ok true else Err EInvalidBBANChecksum.
Proof.
  country_setup C06_pl_obl "poland.DefaultAlgorithm"%string.
  apply texts_eqb_eq in Hacc. subst acc.
  rewrite (national_reduce the_env the_iban_cfg the_table the_banks nd_runs registered the_german C06_onlyde_obl
             "poland.DefaultAlgorithm" _ r _ b (mk [k_bank; k_branch] (pl_compute nd_runs) None) Hde Er Ereg eq_refl).
  cbv zeta. cbn [al_accepts al_validate mk map].
  rewrite !(comp_sl r _ _ _ b) by (first [eassumption|lia]).
  rewrite (pl_validate nd_runs C06_nd_obl b) by (first [assumption|lia]). cbn [bind]. reflexivity.
Qed.

(* Estonia *)
Lemma C06_ee_obl : comps_at (tx "EE") "estonia.DefaultAlgorithm" [k_branch; k_account] 16
  [(k_branch, (2, 4)); (k_account, (4, 15)); (k_national, (15, 16))] = true.
Proof. vm_cast_no_check (eq_refl true). Qed.

Theorem C06_ee : forall r b,
  find_row the_table (tx "EE") = Some r -> conforms_row r b = true ->
  validate_national the_table the_algos (bank_code_entries the_banks) (tx "EE") b =
  if pub_ee b then Ok true else Err EInvalidBBANChecksum.
Proof.
  country_setup C06_ee_obl "estonia.DefaultAlgorithm"%string.
  apply texts_eqb_eq in Hacc. subst acc.
  rewrite (national_reduce the_env the_iban_cfg the_table the_banks nd_runs registered the_german C06_onlyde_obl
             "estonia.DefaultAlgorithm" _ r _ b (mk [k_branch; k_account] (ee_compute nd_runs) None) Hde Er Ereg eq_refl).
  cbv zeta. cbn [al_accepts al_validate mk map].
  rewrite !(comp_sl r _ _ _ b) by (first [eassumption|lia]).
  rewrite (ee_validate nd_runs C06_nd_obl b) by (first [assumption|lia]). cbn [bind]. reflexivity.
Qed.

(* Spain *)
Lemma C06_es_obl : comps_at (tx "ES") "spain.DefaultAlgorithm" [k_bank; k_branch; k_account] 20
  [(k_bank, (0, 4)); (k_branch, (4, 8)); (k_account, (10, 20)); (k_national, (8, 10))] = true.
Proof. vm_cast_no_check (eq_refl true). Qed.

Theorem C06_es : forall r b,
  find_row the_table (tx "ES") = Some r -> conforms_row r b = true ->
  validate_national the_table the_algos (bank_code_entries the_banks) (tx "ES") b =
  if pub_es b then Ok true else Err EInvalidBBANChecksum.
Proof.
  country_setup C06_es_obl "spain.DefaultAlgorithm"%string.
  apply texts_eqb_eq in Hacc. subst acc.
  rewrite (national_reduce the_env the_iban_cfg the_table the_banks nd_runs registered the_german C06_onlyde_obl
             "spain.DefaultAlgorithm" _ r _ b (mk [k_bank; k_branch; k_account] (es_compute nd_runs) None) Hde Er Ereg eq_refl).
  cbv zeta. cbn [al_accepts al_validate mk map].
  rewrite !(comp_sl r _ _ _ b) by (first [eassumption|lia]).
  rewrite (es_validate nd_runs C06_nd_obl b) by (first [assumption|lia]). cbn [bind]. reflexivity.
Qed.

(* Norway: a number for which no check digit exists is rejected with InvalidAccountCode *)
Lemma C06_no_obl : comps_at (tx "NO") "norway.DefaultAlgorithm" [k_bank; k_account] 11
  [(k_bank, (0, 4)); (k_account, (4, 10)); (k_national, (10, 11))] = true.
Proof. vm_cast_no_check (eq_refl true). Qed.

Theorem C06_no : forall r b,
  find_row the_table (tx "NO") = Some r -> conforms_row r b = true ->
  exists ex, validate_national the_table the_algos (bank_code_entries the_banks) (tx "NO") b =
  if pub_no b then Ok true else Err ex.
Proof.
  country_setup C06_no_obl "norway.DefaultAlgorithm"%string.
  apply texts_eqb_eq in Hacc. subst acc.
  rewrite (national_reduce the_env the_iban_cfg the_table the_banks nd_runs registered the_german C06_onlyde_obl
             "norway.DefaultAlgorithm" _ r _ b (mk [k_bank; k_account] (no_compute nd_runs) None) Hde Er Ereg eq_refl).
  cbv zeta. cbn [al_accepts al_validate mk map].
  rewrite !(comp_sl r _ _ _ b) by (first [eassumption|lia]).
  destruct (no_validate nd_runs C06_nd_obl b ltac:(lia) Hd) as [ex Hex]. rewrite Hex.
  destruct (pub_no b); [exists EInvalidBBANChecksum; reflexivity|].
  destruct ex as [x|]; [exists x|exists EInvalidBBANChecksum]; reflexivity.
Qed.

(* Czechia, Slovakia *)
Lemma C06_cz_obl : forallb (fun cc => comps_at cc "czech_republic.DefaultAlgorithm" [k_branch; k_account] 20
  [(k_branch, (4, 10)); (k_account, (10, 20))]) [tx "CZ"; tx "SK"] = true.
Proof. vm_cast_no_check (eq_refl true). Qed.

Theorem C06_cz : forall cc r b, In cc [tx "CZ"; tx "SK"] ->
  find_row the_table cc = Some r -> conforms_row r b = true ->
  validate_national the_table the_algos (bank_code_entries the_banks) cc b =
  if pub_cz b then Ok true else Err EInvalidBBANChecksum.
Proof.
  intros cc r b Hin. pose proof C06_cz_obl as OB. rewrite forallb_forall in OB. specialize (OB cc Hin). revert r b.
  country_setup OB "czech_republic.DefaultAlgorithm"%string.
  apply texts_eqb_eq in Hacc. subst acc.
  rewrite (national_reduce the_env the_iban_cfg the_table the_banks nd_runs registered the_german C06_onlyde_obl
             "czech_republic.DefaultAlgorithm" _ r _ b (mk [k_branch; k_account] (fun _ => Ok []) (Some (cz_validate nd_runs))) Hde Er Ereg eq_refl).
  cbv zeta. cbn [al_accepts al_validate mk map].
  rewrite !(comp_sl r _ _ _ b) by (first [eassumption|lia]).
  rewrite (cz_validate_eq nd_runs C06_nd_obl b _ Hd). cbn [bind]. reflexivity.
Qed.

(* Iceland *)
Lemma C06_is_obl : comps_at (tx "IS") "iceland.DefaultAlgorithm" [tx "account_holder_id"] 22
  [(tx "account_holder_id", (12, 22))] = true.
Proof. vm_cast_no_check (eq_refl true). Qed.

Theorem C06_is : forall r b,
  find_row the_table (tx "IS") = Some r -> conforms_row r b = true ->
  validate_national the_table the_algos (bank_code_entries the_banks) (tx "IS") b =
  if pub_is b then Ok true else Err EInvalidBBANChecksum.
Proof.
  country_setup C06_is_obl "iceland.DefaultAlgorithm"%string.
  apply texts_eqb_eq in Hacc. subst acc.
  rewrite (national_reduce the_env the_iban_cfg the_table the_banks nd_runs registered the_german C06_onlyde_obl
             "iceland.DefaultAlgorithm" _ r _ b (mk [tx "account_holder_id"] (is_compute nd_runs) (Some (is_validate nd_runs))) Hde Er Ereg eq_refl).
  cbv zeta. cbn [al_accepts al_validate mk map].
  rewrite !(comp_sl r _ _ _ b) by (first [eassumption|lia]).
  rewrite (is_validate_eq nd_runs C06_nd_obl b _ ltac:(lia) Hd). cbn [bind]. reflexivity.
Qed.

(* Finland *)
Lemma C06_fi_obl : comps_at (tx "FI") "finland.DefaultAlgorithm" [k_bank; k_account] 14
  [(k_bank, (0, 3)); (k_account, (3, 13)); (k_national, (13, 14))] = true.
Proof. vm_cast_no_check (eq_refl true). Qed.

Theorem C06_fi : forall r b,
  find_row the_table (tx "FI") = Some r -> conforms_row r b = true ->
  validate_national the_table the_algos (bank_code_entries the_banks) (tx "FI") b =
  if pub_fi b then Ok true else Err EInvalidBBANChecksum.
Proof.
  country_setup C06_fi_obl "finland.DefaultAlgorithm"%string.
  apply texts_eqb_eq in Hacc. subst acc.
  rewrite (national_reduce the_env the_iban_cfg the_table the_banks nd_runs registered the_german C06_onlyde_obl
             "finland.DefaultAlgorithm" _ r _ b (mk [k_bank; k_account] (fi_compute nd_runs (ic_alphabet the_iban_cfg)) None) Hde Er Ereg eq_refl).
  cbv zeta. cbn [al_accepts al_validate mk map].
  rewrite !(comp_sl r _ _ _ b) by (first [eassumption|lia]).
  rewrite (fi_validate nd_runs C06_nd_obl (ic_alphabet the_iban_cfg) C06_alpha_obl b) by (first [assumption|lia]).
  cbn [bind]. reflexivity.
Qed.

(* ---- countries whose BBAN carries letters: Italy / San Marino (first character is the CIN letter) ------------------ *)
Definition comps_at_a (cc : text) (cls : string) (accepts : list text) (n : Z) (ps : list (text * (nat * nat))) : bool :=
  negb (text_eqb cc (tx "DE")) &&
  match find_row the_table cc, registered_as registered cc cls with
  | Some r, Some acc =>
    texts_eqb acc accepts && Z.eqb (r_bban_length r) n
    && forallb (fun p => pos_is r (fst p) (fst (snd p)) (snd (snd p))) ps
  | _, _ => false
  end.

Ltac country_setup_a OBL cls :=
  intros r b Er Hc; pose proof OBL as O; unfold comps_at_a in O; rewrite Er in O;
  apply andb_true_iff in O as [Hde O]; apply negb_true_iff in Hde;
  destruct (registered_as registered _ cls) as [acc|] eqn:Ereg; [|discriminate];
  apply andb_true_iff in O as [O Hpos]; apply andb_true_iff in O as [Hacc Hn];
  apply Z.eqb_eq in Hn;
  pose proof (Proofs.IbanTheorems.conforms_row_alpha the_iban_cfg the_table table_obl _ r b Er Hc) as Ha;
  assert (Hl : len b = r_bban_length r)
    by (unfold conforms_row in Hc; destruct (row_kinds r); [|discriminate]; apply andb_true_iff in Hc as [Hl0 _];
        apply Z.eqb_eq; exact Hl0);
  rewrite Hn in Hl; unfold len in Hl;
  cbn [forallb fst snd] in Hpos; repeat (apply andb_true_iff in Hpos as [? Hpos]); unfold the_algos.

Lemma C06_it_obl : forallb (fun cc => comps_at_a cc "italy.DefaultAlgorithm" [k_bank; k_branch; k_account] 23
  [(k_bank, (1, 6)); (k_branch, (6, 11)); (k_account, (11, 23)); (k_national, (0, 1))]
  && match find_row the_table cc with
     | Some r => match row_kinds r with Some (Ka :: _) => true | _ => false end
     | None => false end) [tx "IT"; tx "SM"] = true.
Proof. vm_cast_no_check (eq_refl true). Qed.

Theorem C06_it : forall cc r b, In cc [tx "IT"; tx "SM"] ->
  find_row the_table cc = Some r -> conforms_row r b = true ->
  validate_national the_table the_algos (bank_code_entries the_banks) cc b =
  if pub_it b then Ok true else Err EInvalidBBANChecksum.
Proof.
  intros cc r b Hin. pose proof C06_it_obl as OB. rewrite forallb_forall in OB. specialize (OB cc Hin).
  apply andb_true_iff in OB as [OB Hfirst]. revert r b.
  country_setup_a OB "italy.DefaultAlgorithm"%string.
  apply texts_eqb_eq in Hacc. subst acc.
  rewrite (national_reduce the_env the_iban_cfg the_table the_banks nd_runs registered the_german C06_onlyde_obl
             "italy.DefaultAlgorithm" _ r _ b (mk [k_bank; k_branch; k_account] (it_compute the_env) None) Hde Er Ereg eq_refl).
  cbv zeta. cbn [al_accepts al_validate mk map].
  rewrite !(comp_sl r _ _ _ b) by (first [eassumption|lia]).
  assert (Hu : is_ascii_upper (nth 0 b 0%N) = true).
  { rewrite Er in Hfirst. unfold conforms_row in Hc. destruct (row_kinds r) as [[|[] ks]|]; try discriminate.
    apply andb_true_iff in Hc as [_ Hc]. destruct b as [|c0 b']; [discriminate|]. cbn [conforms] in Hc.
    apply andb_true_iff in Hc as [Hk _]. exact Hk. }
  rewrite (it_validate the_env b) by (first [assumption|lia]). cbn [bind]. reflexivity.
Qed.

(* ---- France / Monaco ---------------------------------------------------------------------------------------------- *)
Lemma conforms_nth : forall ks b i, conforms ks b = true -> i < List.length b -> kind_ok (nth i ks Kn) (nth i b 0%N) = true.
Proof.
  induction ks as [|k ks IH]; intros [|c b] i H Hi; cbn [conforms] in H; try discriminate; cbn [List.length] in Hi; try lia.
  apply andb_true_iff in H as [H1 H2]. destruct i as [|i]; [exact H1|]. cbn [nth]. apply IH; [exact H2|lia].
Qed.

Lemma C06_fr_obl : forallb (fun cc => comps_at_a cc "france.DefaultAlgorithm" [k_bank; k_branch; k_account] 23
  [(k_bank, (0, 5)); (k_branch, (5, 10)); (k_account, (10, 21)); (k_national, (21, 23))]
  && match find_row the_table cc with
     | Some r => match row_kinds r with
                 | Some ks => match nth 21 ks Ka, nth 22 ks Ka with Kn, Kn => true | _, _ => false end
                 | None => false end
     | None => false end) [tx "FR"; tx "MC"] = true.
Proof. vm_cast_no_check (eq_refl true). Qed.

Theorem C06_fr : forall cc r b, In cc [tx "FR"; tx "MC"] ->
  find_row the_table cc = Some r -> conforms_row r b = true ->
  validate_national the_table the_algos (bank_code_entries the_banks) cc b =
  if pub_fr b then Ok true else Err EInvalidBBANChecksum.
Proof.
  intros cc r b Hin. pose proof C06_fr_obl as OB. rewrite forallb_forall in OB. specialize (OB cc Hin).
  apply andb_true_iff in OB as [OB Hkey]. revert r b.
  country_setup_a OB "france.DefaultAlgorithm"%string.
  apply texts_eqb_eq in Hacc. subst acc.
  rewrite (national_reduce the_env the_iban_cfg the_table the_banks nd_runs registered the_german C06_onlyde_obl
             "france.DefaultAlgorithm" _ r _ b (mk [k_bank; k_branch; k_account] (fr_compute nd_runs) None) Hde Er Ereg eq_refl).
  cbv zeta. cbn [al_accepts al_validate mk map].
  rewrite !(comp_sl r _ _ _ b) by (first [eassumption|lia]).
  assert (Hk : forallb is_ascii_digit (sl 21 23 b) = true).
  { rewrite Er in Hkey. unfold conforms_row in Hc. destruct (row_kinds r) as [ks|]; [|discriminate].
    apply andb_true_iff in Hc as [_ Hc].
    pose proof (conforms_nth ks b 21 Hc ltac:(lia)) as K1. pose proof (conforms_nth ks b 22 Hc ltac:(lia)) as K2.
    destruct (nth 21 ks Ka) eqn:E1; try discriminate. destruct (nth 22 ks Ka) eqn:E2; try discriminate.
    assert (N1 : nth 21 ks Kn = Kn).
    { destruct (Nat.lt_ge_cases 21 (List.length ks)) as [Hlt|Hge]; [rewrite (nth_indep ks Kn Ka Hlt); exact E1|apply nth_overflow; exact Hge]. }
    assert (N2 : nth 22 ks Kn = Kn).
    { destruct (Nat.lt_ge_cases 22 (List.length ks)) as [Hlt|Hge]; [rewrite (nth_indep ks Kn Ka Hlt); exact E2|apply nth_overflow; exact Hge]. }
    rewrite N1 in K1. rewrite N2 in K2. cbn [kind_ok] in K1, K2.
    rewrite <- (sl_glue 21 22 23 b) by lia. rewrite !sl_single by lia. cbn [app forallb]. rewrite K1, K2. reflexivity. }
  rewrite (fr_validate nd_runs C06_nd_obl b) by (first [assumption|lia]). cbn [bind]. reflexivity.
Qed.


(* ---- at IBAN level: with national validation requested, accepted = ISO 13616-valid and the published rule holds ------ *)
Definition the_national := validate_national the_table the_algos (bank_code_entries the_banks).
Definition C06_steps_obl := steps_nat_obl.

Definition C06_pos_obl := positions_obl.

Theorem C06_iban_accept : forall txt,
  (exists s, iban_new the_env the_iban_cfg the_table the_national txt false true = Ok s) <->
  iso_ok the_table (clean the_env txt) = true
  /\ the_national (iban_country_code (clean the_env txt)) (iban_bban the_env (clean the_env txt)) = Ok true.
Proof.
  intro txt. destruct C06_steps_obl as [Hl Hin].
  pose proof (iban_accept_b the_env the_iban_cfg the_table the_national env_obl env_alpha_obl cfg_obl table_obl
                (clean the_env txt) Hl Hin (clean_cleaned the_env env_obl txt)) as A.
  unfold iban_new. cbn [bind].
  destruct (iban_validate the_env the_iban_cfg the_table the_national true (clean the_env txt)) as [v|x|x] eqn:E; cbn [bind].
  - assert (v = true).
    { unfold iban_validate in E. destruct (run_steps _ _ _ _ _ _ _) as [[]|y|y]; cbn [bind] in E; try discriminate. inversion E; reflexivity. }
    subst v. destruct (proj1 A eq_refl) as [Hi [w Hw]]. split; [intros _|intros _; eexists; reflexivity].
    split; [exact Hi|]. rewrite Hw. f_equal. exact (C06_returns_true _ _ _ _ _ _ Hw).
  - split; [intros [s Hs]; discriminate|]. intros [Hi Hn]. pose proof (proj2 A (conj Hi (ex_intro _ true Hn))). discriminate.
  - split; [intros [s Hs]; discriminate|]. intros [Hi Hn]. pose proof (proj2 A (conj Hi (ex_intro _ true Hn))). discriminate.
Qed.

(* for a country whose BBAN-level check is "published rule ? true : raise": the IBAN is accepted iff it is ISO-valid and
   the published rule holds of its BBAN *)
Theorem C06_iban_level : forall (pub : text -> bool) cc,
  (forall r b, find_row the_table cc = Some r -> conforms_row r b = true ->
     the_national cc b = if pub b then Ok true else Err EInvalidBBANChecksum) ->
  forall txt, iban_country_code (clean the_env txt) = cc ->
  ((exists s, iban_new the_env the_iban_cfg the_table the_national txt false true = Ok s) <->
   iso_ok the_table (clean the_env txt) = true /\ pub (iban_bban the_env (clean the_env txt)) = true).
Proof.
  intros pub cc Hrule txt Hcc. rewrite C06_iban_accept, Hcc.
  split; intros [Hi Hn]; (split; [exact Hi|]).
  - destruct (accepted_shape the_env the_iban_cfg the_table the_national (ic_components the_iban_cfg) (fun _ _ => None) (fun _ _ => [])
                env_obl env_alpha_obl cfg_obl table_obl C06_pos_obl _ Hi)
      as (c1 & c2 & d1 & d2 & b & r & Es & Er & Hc & _ & Hcl & _).
    assert (Ecc : cc = [c1; c2]) by (rewrite <- Hcc, Es; apply cc_of). rewrite Ecc in *.
    assert (Eb : iban_bban the_env (clean the_env txt) = b).
    { rewrite Es. unfold iban_bban. rewrite slice_bban. apply cleaned_fix. rewrite Es in Hcl. apply (cleaned_skipn the_env 4) in Hcl. exact Hcl. }
    rewrite Eb in *. rewrite (Hrule r b Er Hc) in Hn. destruct (pub b); [reflexivity|discriminate].
  - destruct (accepted_shape the_env the_iban_cfg the_table the_national (ic_components the_iban_cfg) (fun _ _ => None) (fun _ _ => [])
                env_obl env_alpha_obl cfg_obl table_obl C06_pos_obl _ Hi)
      as (c1 & c2 & d1 & d2 & b & r & Es & Er & Hc & _ & Hcl & _).
    assert (Ecc : cc = [c1; c2]) by (rewrite <- Hcc, Es; apply cc_of). rewrite Ecc in *.
    assert (Eb : iban_bban the_env (clean the_env txt) = b).
    { rewrite Es. unfold iban_bban. rewrite slice_bban. apply cleaned_fix. rewrite Es in Hcl. apply (cleaned_skipn the_env 4) in Hcl. exact Hcl. }
    rewrite Eb in *. rewrite (Hrule r b Er Hc), Hn. reflexivity.
Qed.

(* e.g. Poland and France *)
Corollary C06_iban_pl : forall txt, iban_country_code (clean the_env txt) = tx "PL" ->
  ((exists s, iban_new the_env the_iban_cfg the_table the_national txt false true = Ok s) <->
   iso_ok the_table (clean the_env txt) = true /\ pub_pl (iban_bban the_env (clean the_env txt)) = true).
Proof. exact (C06_iban_level pub_pl (tx "PL") C06_pl). Qed.
Corollary C06_iban_fr : forall txt, iban_country_code (clean the_env txt) = tx "FR" ->
  ((exists s, iban_new the_env the_iban_cfg the_table the_national txt false true = Ok s) <->
   iso_ok the_table (clean the_env txt) = true /\ pub_fr (iban_bban the_env (clean the_env txt)) = true).
Proof. exact (C06_iban_level pub_fr (tx "FR") (fun r b => C06_fr (tx "FR") r b (or_introl eq_refl))). Qed.

Print Assumptions C06_iban_accept.
Print Assumptions C06_iban_level.

Print Assumptions C06_pl.
Print Assumptions C06_ee.
Print Assumptions C06_es.
Print Assumptions C06_no.
Print Assumptions C06_cz.
Print Assumptions C06_is.
Print Assumptions C06_fi.
Print Assumptions C06_it.
Print Assumptions C06_fr.
Print Assumptions C06_iso97.
Print Assumptions C06_rib.
Print Assumptions C06_be.
Print Assumptions C06_only_rejects.
Print Assumptions C06_returns_true.
Print Assumptions C06_unaffected.
