(* C10 — whitespace and letter case never matter; formatting round-trips. *)
From Schwifty Require Import Lib.Base Lib.Lit Model.Clean Model.Data Model.Iban Model.Bic.
From Schwifty Require Import Spec.Iso13616 Spec.Iso9362 Spec.Whitespace.
From Schwifty Require Import Proofs.CleanFacts Proofs.IbanFacts Proofs.BicFacts Proofs.FormatFacts Proofs.GenObligations Proofs.VariantFacts.
From Schwifty Require Import Model.Bban Model.Generate Gen.ChecksumCfg.
From Schwifty Require Import Gen.Env Gen.IbanData Gen.IbanCfg Gen.BicCfg Gen.Accessors.
From Coq Require Import String.

Lemma C10_letters_obl : env_letters_ok the_env = true.
Proof. vm_cast_no_check (eq_refl true). Qed.
(* what the property means by whitespace: Spec/Whitespace.v *)
Definition ws_required : list N := unicode_whitespace.
Lemma C10_ws_obl : forallb (is_space the_env) ws_required = true.
Proof. vm_cast_no_check (eq_refl true). Qed.

Lemma C10_parts_obl : bic_parts_ok the_bic_cfg = true.
Proof. vm_cast_no_check (eq_refl true). Qed.
Lemma C10_group_obl : Z.eqb (ac_group the_acc_cfg) 4 = true.
Proof. vm_cast_no_check (eq_refl true). Qed.
Lemma C10_bic_obl : bic_cfg_ok the_bic_cfg = true.
Proof. vm_cast_no_check (eq_refl true). Qed.

(* whitespace (any of the code points \s matches) anywhere in the text does not change the compact form *)
Theorem C10_whitespace : forall a w b,
  forallb (is_space the_env) w = true -> clean the_env (a ++ w ++ b) = clean the_env (a ++ b).
Proof. exact (clean_insert_ws the_env). Qed.

(* nor does the case of ASCII letters *)
Theorem C10_case : forall t t', map fold_case t = map fold_case t' -> clean the_env t = clean the_env t'.
Proof. exact (clean_case the_env C10_letters_obl). Qed.

(* every outcome and object is a function of the compact form alone: texts with equal compact forms
   are accepted or rejected alike, with the same error, and yield the same object *)
Theorem C10_outcome_iban : forall national t t' ai vb,
  clean the_env t = clean the_env t' ->
  iban_new the_env the_iban_cfg the_table national t ai vb = iban_new the_env the_iban_cfg the_table national t' ai vb.
Proof. intros national t t' ai vb H. unfold iban_new. rewrite H. reflexivity. Qed.

Theorem C10_outcome_bic : forall t t' ai strict,
  clean the_env t = clean the_env t' ->
  bic_new the_env the_bic_cfg iso3166 t ai strict = bic_new the_env the_bic_cfg iso3166 t' ai strict.
Proof. intros t t' ai strict H. unfold bic_new. rewrite H. reflexivity. Qed.

(* the compact form: no whitespace, no ASCII lower-case letter, a fixpoint of upper() and of clean *)
Theorem C10_compact : forall t,
  cleaned the_env (clean the_env t) = true
  /\ forallb (fun c => negb (is_ascii_lower c)) (clean the_env t) = true
  /\ clean the_env (clean the_env t) = clean the_env t.
Proof.
  intro t. split; [apply (clean_cleaned the_env env_obl)|]. split; [apply (clean_no_lower the_env env_obl)|].
  apply (clean_idem the_env env_obl).
Qed.

(* IBAN.formatted: the compact form cut into groups (all of four characters but possibly the last)
   joined by single spaces; parsing it again gives the same object — for every IBAN object *)
Theorem C10_iban_formatted : forall s,
  cleaned the_env s = true ->
  iban_formatted s = join [32%N] (groups4 (List.length s) s)
  /\ List.concat (groups4 (List.length s) s) = s
  /\ (forall g rest, groups4 (List.length s) s = g :: rest -> rest <> [] -> List.length g = 4)
  /\ Forall (fun g => 1 <= List.length g <= 4) (groups4 (List.length s) s)
  /\ clean the_env (iban_formatted s) = s.
Proof.
  intros s H. split; [reflexivity|]. split; [apply groups4_concat; apply le_n|].
  split; [apply groups4_full|]. split; [apply groups4_sizes|].
  apply (iban_formatted_roundtrip the_env env_obl). exact H.
Qed.

(* BIC.formatted for every BIC of an accepted length: the four parts separated by single spaces *)
Theorem C10_bic_formatted : forall s,
  List.length s = 8 \/ List.length s = 11 ->
  bic_formatted the_bic_cfg s =
    bic_bank_code the_bic_cfg s ++ [32%N] ++ bic_country_code the_bic_cfg s ++ [32%N] ++ bic_location_code the_bic_cfg s
    ++ match bic_branch_code the_bic_cfg s with [] => [] | b => [32%N] ++ b end
  /\ (cleaned the_env s = true -> clean the_env (bic_formatted the_bic_cfg s) = s).
Proof.
  intros s H. destruct (bic_decompose the_env the_bic_cfg env_obl C10_parts_obl s H) as (_ & _ & _ & _ & Hf & Hr).
  split; assumption.
Qed.

(* the building entry points read their component arguments through clean() as well: white space and letter case in the
   arguments of IBAN.generate do not matter.  The side condition is what the code really does: whether a branch code was
   "given" beside a combined bank code is decided on the raw argument, so a blank-only branch code counts as given. *)
Theorem C10_generate_arguments : forall national find_algo cc bank account branch bank' account' branch',
  clean the_env bank = clean the_env bank' -> clean the_env account = clean the_env account' ->
  clean the_env branch = clean the_env branch' -> nonempty_text branch = nonempty_text branch' ->
  iban_generate the_env the_iban_cfg the_table national (ic_components the_iban_cfg) find_algo cc bank account branch
  = iban_generate the_env the_iban_cfg the_table national (ic_components the_iban_cfg) find_algo cc bank' account' branch'.
Proof.
  intros national find_algo cc bank account branch bank' account' branch' Hb Ha Hr Hn. unfold iban_generate.
  rewrite (from_components_reading the_env (ic_components the_iban_cfg) the_table find_algo cc _ _
             (generate_reading the_env bank account branch bank' account' branch' Hb Ha Hr Hn)).
  reflexivity.
Qed.

Print Assumptions C10_whitespace.
Print Assumptions C10_generate_arguments.
Print Assumptions C10_case.
Print Assumptions C10_compact.
Print Assumptions C10_iban_formatted.
Print Assumptions C10_bic_formatted.

Example C10_ex : clean the_env (tx " de89 3704	0044 0532 0130 00 ") = tx "DE89370400440532013000"
  /\ iban_formatted (tx "DE89370400440532013000") = tx "DE89 3704 0044 0532 0130 00"
  /\ bic_formatted the_bic_cfg (tx "GENODEM1GLS") = tx "GENO DE M1 GLS".
Proof. repeat split; vm_compute; reflexivity. Qed.
