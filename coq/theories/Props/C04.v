(* C04 — BIC acceptance is exactly the ISO 9362 structure with a known country code. *)
From Schwifty Require Import Lib.Base Lib.Lit Model.Clean Model.Data Model.Bic Spec.Iso13616 Spec.Iso9362 Spec.Whitespace.
From Schwifty Require Import Proofs.CleanFacts Proofs.BicFacts Proofs.GenObligations.
From Schwifty Require Import Gen.Env Gen.BicCfg.
From Coq Require Import String.

Lemma C04_cfg_obl : bic_cfg_ok the_bic_cfg = true.
Proof. vm_cast_no_check (eq_refl true). Qed.

(* BIC(text[, enforce_swift_compliance]) succeeds <-> clean(text) has the ISO 9362 structure
   4!c2!a2!c[3!c] (4!a.. when strict) with an ISO 3166-1 alpha-2 code in positions 5-6. *)
Theorem C04_accept : forall txt strict,
  (exists s, bic_new the_env the_bic_cfg iso3166 txt false strict = Ok s)
  <-> iso9362_ok iso3166 strict (clean the_env txt) = true.
Proof. exact (bic_new_iff the_env the_bic_cfg iso3166 env_obl C04_cfg_obl). Qed.

(* "after removing whitespace": the cleaning removes exactly the white space of Spec/Whitespace.v, nothing else *)
Lemma C04_ws_obl : ws_exact the_env = true.
Proof. vm_cast_no_check (eq_refl true). Qed.

Theorem C04_accept_ws : forall txt strict,
  (exists s, bic_new the_env the_bic_cfg iso3166 txt false strict = Ok s)
  <-> iso9362_ok iso3166 strict (upper the_env (strip_whitespace txt)) = true.
Proof. intros txt strict. rewrite <- (clean_strip the_env txt C04_ws_obl). exact (C04_accept txt strict). Qed.

Print Assumptions C04_accept.
Print Assumptions C04_accept_ws.

Example C04_ex_valid : iso9362_ok iso3166 false (tx "GENODEM1GLS") = true.
Proof. vm_compute. reflexivity. Qed.
Example C04_ex_valid8 : iso9362_ok iso3166 true (tx "DEUTDEFF") = true.
Proof. vm_compute. reflexivity. Qed.
Example C04_ex_trailing : iso9362_ok iso3166 false (tx "GENODEM1G-S") = false.
Proof. vm_compute. reflexivity. Qed.
Example C04_ex_strict : iso9362_ok iso3166 true (tx "1234DEWWXXX") = false /\ iso9362_ok iso3166 false (tx "1234DEWWXXX") = true.
Proof. split; vm_compute; reflexivity. Qed.
