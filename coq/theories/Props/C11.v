(* C11 — an IBAN or BIC decomposes losslessly into its published fields. *)
From Schwifty Require Import Lib.Base Lib.Lit Model.Clean Model.Data Model.Iban Model.Bic Model.Bban.
From Schwifty Require Import Spec.Iso13616 Spec.Iso9362 Spec.RegistrySpec.
From Schwifty Require Import Proofs.CleanFacts Proofs.IbanFacts Proofs.IbanTheorems Proofs.BicFacts Proofs.FormatFacts
  Proofs.DecompFacts Proofs.GenObligations.
From Schwifty Require Import Gen.Env Gen.IbanData Gen.IbanCfg Gen.BicCfg Gen.Accessors.
From Coq Require Import String.

Lemma C11_pos_obl : forallb positions_wf the_table = true.
Proof. vm_cast_no_check (eq_refl true). Qed.
Lemma C11_parts_obl : bic_parts_ok the_bic_cfg = true.
Proof. vm_cast_no_check (eq_refl true). Qed.

(* the accessor tables read off the source: IBAN.<p> returns self.bban.<p>, BBAN.<p> reads
   Component <p>, and the slice constants are the ones the model uses *)
Definition acc_ok (a : acc_cfg) (components : list text) : bool :=
  Z.eqb (fst (ac_cc a)) 0 && Z.eqb (snd (ac_cc a)) 2 && Z.eqb (fst (ac_dd a)) 2 && Z.eqb (snd (ac_dd a)) 4
  && Z.eqb (ac_bban_start a) 4
  && forallb (fun pq => text_eqb (fst pq) (snd pq)) (ac_iban_proxy a)
  && forallb (fun pq => text_eqb (fst pq) (snd pq)) (ac_bban_comp a)
  && forallb (fun c => existsb (fun pq => text_eqb (fst pq) c) (ac_iban_proxy a)
                       && existsb (fun pq => text_eqb (fst pq) c) (ac_bban_comp a)) components.
Lemma C11_acc_obl : acc_ok the_acc_cfg (ic_components the_iban_cfg) = true.
Proof. vm_cast_no_check (eq_refl true). Qed.

(* accepted IBAN: country code ++ check digits ++ BBAN = compact form, and re-assembling from
   country code and BBAN gives an equal IBAN *)
Theorem C11_iban_parts : forall national s,
  iso_ok the_table s = true ->
  iban_country_code s ++ iban_checksum_digits s ++ iban_bban the_env s = s
  /\ iban_from_bban the_env the_iban_cfg the_table national (iban_country_code s) (iban_bban the_env s) false false = Ok s.
Proof.
  exact (fun national => iban_parts the_env the_iban_cfg the_table national (ic_components the_iban_cfg)
           (fun _ _ => None) (fun _ _ => []) env_obl env_alpha_obl cfg_obl table_obl C11_pos_obl).
Qed.

(* each named component is the BBAN substring at the published position, or empty when the country
   publishes no such field *)
Theorem C11_component : forall cc r b k,
  find_row the_table cc = Some r -> len b = r_bban_length r ->
  bban_component the_table cc b k =
  Ok (match r_positions r with
      | Some ps => match assoc k ps with
                   | Some p => firstn (Z.to_nat (snd p - fst p)) (skipn (Z.to_nat (fst p)) b)
                   | None => []
                   end
      | None => []
      end).
Proof.
  exact (component_slice the_env the_iban_cfg the_table (fun _ _ => Ok true) (ic_components the_iban_cfg)
           (fun _ _ => None) (fun _ _ => []) env_obl env_alpha_obl cfg_obl table_obl C11_pos_obl).
Qed.

(* fields lie inside the BBAN and never overlap (data obligation C11_pos_obl, spelled out) *)
Theorem C11_disjoint : forall r, In r the_table -> positions_wf r = true.
Proof. intros r H. pose proof C11_pos_obl as P. rewrite forallb_forall in P. exact (P r H). Qed.

(* accepted BIC: party prefix ++ country code ++ location code ++ branch code = compact form *)
Theorem C11_bic_parts : forall s strict,
  iso9362_ok iso3166 strict s = true ->
  bic_bank_code the_bic_cfg s ++ bic_country_code the_bic_cfg s ++ bic_location_code the_bic_cfg s
    ++ bic_branch_code the_bic_cfg s = s.
Proof.
  intros s strict H. unfold iso9362_ok in H. apply andb_true_iff in H as [H _].
  assert (Hl : List.length s = 8 \/ List.length s = 11).
  { apply orb_true_iff in H as [H|H]; apply Proofs.RunsFacts.conforms_length in H; rewrite H;
      destruct strict; [left|left|right|right]; reflexivity. }
  exact (proj1 (bic_decompose the_env the_bic_cfg env_obl C11_parts_obl s Hl)).
Qed.

Print Assumptions C11_iban_parts.
Print Assumptions C11_component.
Print Assumptions C11_bic_parts.

Example C11_ex : bban_component the_table (tx "DE") (tx "370400440532013000") (tx "account_code") = Ok (tx "0532013000")
  /\ bban_component the_table (tx "DE") (tx "370400440532013000") (tx "branch_code") = Ok [].
Proof. split; vm_compute; reflexivity. Qed.
