(* C01 — IBAN acceptance is exactly the ISO 13616 rule set over the bundled country table.
   Only: data obligations, the theorem closed by `exact`, Print Assumptions, non-vacuity. *)
From Schwifty Require Import Lib.Base Lib.Lit Model.Clean Model.Data Model.Iban Spec.Iso13616 Spec.Whitespace.
From Schwifty Require Import Proofs.CleanFacts Proofs.NumFacts Proofs.IbanFacts Proofs.IbanTheorems Proofs.GenObligations.
From Schwifty Require Import Gen.Env Gen.IbanData Gen.IbanCfg.
From Coq Require Import String.

Definition max_len_ok (T : table) : bool := forallb (fun r => Z.leb (r_iban_length r) 34) T.
Lemma C01_len_obl : max_len_ok the_table = true.
Proof. vm_cast_no_check (eq_refl true). Qed.

(* IBAN(text) succeeds  <->  clean(text) is ISO 13616-valid w.r.t. the bundled table; the object's
   compact form is clean(text).  `national` is arbitrary: it is not consulted without validate_bban. *)
Theorem C01_accept : forall national txt,
  (exists s, iban_new the_env the_iban_cfg the_table national txt false false = Ok s)
  <-> iso_ok the_table (clean the_env txt) = true.
Proof. exact (fun national => new_iff the_env the_iban_cfg the_table national env_obl env_alpha_obl cfg_obl table_obl). Qed.

(* "after removing whitespace": what the library's cleaning removes is exactly the white space of Spec/Whitespace.v
   (written down by hand, not derived from the library) - no more (a dash or a zero-width space is not removed and so
   makes the text invalid) and no less *)
Lemma C01_ws_obl : ws_exact the_env = true.
Proof. vm_cast_no_check (eq_refl true). Qed.

Theorem C01_accept_ws : forall national txt,
  (exists s, iban_new the_env the_iban_cfg the_table national txt false false = Ok s)
  <-> iso_ok the_table (upper the_env (strip_whitespace txt)) = true.
Proof. intros national txt. rewrite <- (clean_strip the_env txt C01_ws_obl). exact (C01_accept national txt). Qed.

Theorem C01_compact : forall national txt s,
  iban_new the_env the_iban_cfg the_table national txt false false = Ok s -> s = clean the_env txt.
Proof. exact (fun national => new_result the_env the_iban_cfg the_table national env_obl env_alpha_obl cfg_obl table_obl). Qed.

Theorem C01_alphabet : forall s,
  iso_ok the_table s = true ->
  forallb in_alpha s = true /\ (len s <= 34)%Z.
Proof.
  intros s H.
  destruct (accepted_alphabet the_env the_iban_cfg the_table (fun _ _ => Ok true) env_obl env_alpha_obl cfg_obl table_obl s H) as [Ha (r & Er & Hl)].
  split; [exact Ha|].
  pose proof C01_len_obl as Hm. unfold max_len_ok in Hm. rewrite forallb_forall in Hm.
  apply find_row_in in Er as [Hin _]. specialize (Hm r Hin). apply Z.leb_le in Hm. rewrite Hl. exact Hm.
Qed.

Print Assumptions C01_accept.
Print Assumptions C01_accept_ws.
Print Assumptions C01_compact.
Print Assumptions C01_alphabet.

(* non-vacuity: a concrete accepted IBAN, and concrete rejections *)
Example C01_ex_valid : iso_ok the_table (tx "DE89370400440532013000") = true.
Proof. vm_compute. reflexivity. Qed.
Example C01_ex_letters : iso_ok the_table (tx "MT84MALT011000012345MTLCAST001S") = true.
Proof. vm_compute. reflexivity. Qed.
Example C01_ex_invalid : iso_ok the_table (tx "DE89370400440532013001") = false.
Proof. vm_compute. reflexivity. Qed.
Example C01_ex_dash : iso_ok the_table (upper the_env (strip_whitespace (tx "DE89-3704-0044-0532-0130-00"))) = false
  /\ iso_ok the_table (upper the_env (strip_whitespace (tx "de89 3704 0044 0532 0130 00"))) = true.
Proof. split; vm_compute; reflexivity. Qed.
