(* C16 — IBAN, BIC and BBAN are string values: equality, hashing, order and copies agree. *)
From Schwifty Require Import Lib.Base Model.Data Model.Objects Proofs.ValueLaws.
From Schwifty Require Import Gen.ObjProto.

(* the protocol facts of the tree: __new__ arities match what __getnewargs__ supplies, __deepcopy__ does not
   re-validate, __eq__/__hash__/__lt__ are the compact-form ones *)
Lemma C16_proto_obl : proto_ok the_obj_cfg = true.
Proof. vm_cast_no_check (eq_refl true). Qed.

Theorem C16_equality : forall a b c,
  obj_eq a a = true /\ obj_eq a b = obj_eq b a /\ (obj_eq a b = true -> obj_eq b c = true -> obj_eq a c = true).
Proof. intros a b c. split; [apply eq_refl_obj|]. split; [apply eq_sym_obj|apply eq_trans_obj]. Qed.

Theorem C16_with_strings : forall a s, obj_eq_str a s = true <-> o_compact a = s.
Proof. exact eq_str_obj. Qed.

Theorem C16_hash : forall h a b, obj_eq a b = true -> obj_hash h a = obj_hash h b.
Proof. exact hash_consistent. Qed.

Theorem C16_order : forall a b c,
  obj_lt a a = false /\ (obj_lt a b = true -> obj_lt b c = true -> obj_lt a c = true)
  /\ (obj_lt a b = true \/ obj_eq a b = true \/ obj_lt b a = true)
  /\ obj_le a b = obj_lt a b || obj_eq a b.
Proof.
  intros a b c. split; [apply lt_irrefl_obj|]. split; [apply lt_trans_obj|]. split; [apply lt_total_obj|apply le_agrees].
Qed.

Theorem C16_copies : forall revalidate o,
  shallow_copy the_obj_cfg o = Ok o /\ pickle_roundtrip the_obj_cfg o = Ok o /\ deep_copy the_obj_cfg revalidate o = Ok o.
Proof. exact (fun revalidate o => copies_preserve the_obj_cfg revalidate o C16_proto_obl). Qed.

Print Assumptions C16_equality.
Print Assumptions C16_order.
Print Assumptions C16_copies.
