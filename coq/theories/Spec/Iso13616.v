(* ISO 13616 as a reader would state it, over the bundled country table.  Independent of Model/:
   only the raw data columns of a row are used (country code, structure string, lengths). *)
From Schwifty Require Import Lib.Base Model.Data.

Inductive kind := Kn | Ka | Kc | Ke.

Definition kind_ok (k : kind) (c : N) : bool :=
  match k with
  | Kn => is_ascii_digit c
  | Ka => is_ascii_upper c
  | Kc => is_ascii_digit c || is_ascii_upper c
  | Ke => N.eqb c 32
  end.

(* SWIFT structure notation:  <count>[!]<kind> ... , e.g. 8!n10!n *)
Record item := { it_count : N; it_fixed : bool; it_kind : kind }.

Definition kind_of_char (c : N) : option kind :=
  if N.eqb c 110 then Some Kn else if N.eqb c 97 then Some Ka
  else if N.eqb c 99 then Some Kc else if N.eqb c 101 then Some Ke else None.

Fixpoint parse_structure_go (s : text) (num : option N) (bang : bool) : option (list item) :=
  match s with
  | [] => match num with None => Some [] | Some _ => None end
  | c :: r =>
    if is_ascii_digit c then
      (if bang then None
       else
         let n := (match num with None => 0 | Some n => n end * 10 + (c - 48))%N in
         if N.ltb 100 n then None else parse_structure_go r (Some n) false)
    else if N.eqb c 33 then
      (match num with Some _ => if bang then None else parse_structure_go r num true | None => None end)
    else
      match kind_of_char c, num with
      | Some k, Some n =>
        match parse_structure_go r None false with
        | Some l => Some ({| it_count := n; it_fixed := bang; it_kind := k |} :: l)
        | None => None
        end
      | _, _ => None
      end
  end.

Definition parse_structure (s : text) : option (list item) := parse_structure_go s None false.

(* the character class of each BBAN position, when every item has a fixed length *)
Fixpoint position_kinds (l : list item) : option (list kind) :=
  match l with
  | [] => Some []
  | it :: r =>
    if it_fixed it then
      match position_kinds r with
      | Some ks => Some (repeat (it_kind it) (N.to_nat (it_count it)) ++ ks)
      | None => None
      end
    else None
  end.

Fixpoint conforms (ks : list kind) (b : text) : bool :=
  match ks, b with
  | [], [] => true
  | k :: ks', c :: b' => kind_ok k c && conforms ks' b'
  | _, _ => false
  end.

Definition row_kinds (r : row) : option (list kind) :=
  match parse_structure (r_bban_spec r) with
  | Some items => position_kinds items
  | None => None
  end.

(* b has exactly the country's BBAN length and every character is of its position's class *)
Definition conforms_row (r : row) (b : text) : bool :=
  match row_kinds r with
  | Some ks => Z.eqb (len b) (r_bban_length r) && conforms ks b
  | None => false
  end.

(* letter expansion A=10 .. Z=35 and decimal reading *)
Definition iso_num (s : text) : Z :=
  fold_left (fun acc c =>
    if is_ascii_digit c then (acc * 10 + Z.of_N (c - 48))%Z else (acc * 100 + Z.of_N (c - 55))%Z) s 0%Z.

Definition two_digits (z : Z) : text :=
  [(48 + Z.to_N (z / 10))%N; (48 + Z.to_N (z mod 10))%N].

(* the check digits ISO 13616 prescribes for BBAN b of country cc: 98 - (num(b cc 00) mod 97) *)
Definition iso_check_digits (cc b : text) : text :=
  two_digits (98 - (iso_num (b ++ cc) * 100) mod 97)%Z.

(* s (already free of whitespace, upper-cased) is a valid IBAN *)
Definition iso_ok (T : table) (s : text) : bool :=
  match s with
  | c1 :: c2 :: d1 :: d2 :: b =>
    match find_row T [c1; c2] with
    | None => false
    | Some r =>
      is_ascii_digit d1 && is_ascii_digit d2 && conforms_row r b &&
      Z.eqb ((iso_num (b ++ [c1; c2; d1; d2])) mod 97) 1 &&
      (let dd := (Z.of_N (d1 - 48) * 10 + Z.of_N (d2 - 48))%Z in (2 <=? dd)%Z && (dd <=? 98)%Z)
    end
  | _ => false
  end.
