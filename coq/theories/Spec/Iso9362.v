(* ISO 9362 (BIC) as a reader would state it: structure 4!c 2!a 2!c [3!c] (4!a ... under the SWIFT
   policy), and the 5th-6th characters form an ISO 3166-1 alpha-2 code.  Independent of Model/. *)
From Schwifty Require Import Lib.Base Spec.Iso13616.

Definition bic_kinds (strict long : bool) : list kind :=
  repeat (if strict then Ka else Kc) 4 ++ [Ka; Ka; Kc; Kc] ++ (if long then [Kc; Kc; Kc] else []).

Definition known_country (countries : list text) (cc : text) : bool := existsb (text_eqb cc) countries.

Definition iso9362_ok (countries : list text) (strict : bool) (s : text) : bool :=
  (conforms (bic_kinds strict false) s || conforms (bic_kinds strict true) s)
  && known_country countries (firstn 2 (skipn 4 s)).
