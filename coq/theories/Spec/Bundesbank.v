(* The Bundesbank check-digit methods ("Prüfzifferberechnungsmethoden") implemented by the library,
   in the Bundesbank's vocabulary: ten-digit account number d1..d10, evaluated positions, weights
   listed from right to left, modulus, cross-sum yes/no, rule for the result, position of the check
   digit — plus each method's exceptions.  Hand transcription (no network; see DESIGN.md): clauses
   "if the sub-account number was omitted, retry shifted" (13, 63, 76) are deliberately not included:
   inside an IBAN the account number is in its canonical ten-digit form.
   Independent of Model/.  Input: the ten digit VALUES. *)
From Schwifty Require Import Lib.Base.
From Coq Require Import String.
Open Scope Z_scope.

Definition pos (i : nat) (ds : list Z) : Z := nth (i - 1) ds 0.           (* 1-based position *)
Definition span (a b : nat) (ds : list Z) : list Z := firstn (b - a + 1) (skipn (a - 1) ds).
Definition value (ds : list Z) : Z := fold_left (fun acc d => acc * 10 + d) ds 0.

Inductive cross := Plain | CrossSum | UnitsOnly.
Definition term (q : cross) (w d : Z) : Z :=
  match q with
  | Plain => w * d
  | CrossSum => (w * d) / 10 + (w * d) mod 10        (* products are < 100 *)
  | UnitsOnly => (w * d) mod 10
  end.
Fixpoint tsum (q : cross) (ws xs : list Z) : Z :=
  match ws, xs with
  | w :: ws', x :: xs' => term q w x + tsum q ws' xs'
  | _, _ => 0
  end.

(* how the check digit follows from the remainder r of the sum *)
Inductive result :=
| Minus10      (* 10 - r, and 10 becomes 0 *)
| Minus11_06   (* 11 - r; results 10 and 11 (remainders 1 and 0) become 0 *)
| Minus11_02   (* 11 - r; remainder 0 gives 0; remainder 1: no check digit exists, the number is invalid *)
| Minus11_11   (* 11 - r; remainder 0 gives 0; remainder 1 gives 9 *)
| Itself.      (* the remainder is the check digit; remainder 10: the number cannot be used *)
Definition expected (res : result) (r : Z) : option Z :=
  match res with
  | Minus10 => Some (if r =? 0 then 0 else 10 - r)
  | Minus11_06 => Some (if (r =? 0) || (r =? 1) then 0 else 11 - r)
  | Minus11_02 => if r =? 1 then None else Some (if r =? 0 then 0 else 11 - r)
  | Minus11_11 => Some (if r =? 0 then 0 else if r =? 1 then 9 else 11 - r)
  | Itself => if r =? 10 then None else Some r
  end.

(* positions a..b, weights from right to left (first weight belongs to position b), check digit at c *)
Definition std (a b c : nat) (ws : list Z) (q : cross) (m : Z) (res : result) (ds : list Z) : bool :=
  match expected res (tsum q ws (rev (span a b ds)) mod m) with
  | Some k => pos c ds =? k
  | None => false
  end.
Definition rem_of (a b : nat) (ws : list Z) (q : cross) (m : Z) (ds : list Z) : Z :=
  tsum q ws (rev (span a b ds)) mod m.

Definition w21 := [2; 1; 2; 1; 2; 1; 2; 1; 2].
Definition w_2to7 := [2; 3; 4; 5; 6; 7; 2; 3; 4].
Definition w_2to10 := [2; 3; 4; 5; 6; 7; 8; 9; 10].

Definition m00 := std 1 9 10 w21 CrossSum 10 Minus10.
Definition m06 := std 1 9 10 w_2to7 Plain 11 Minus11_06.

Fixpoint iter_cross (fuel : nat) (z : Z) : Z :=
  match fuel with O => z | S f => if z <? 10 then z else iter_cross f (z / 100 + (z / 10) mod 10 + z mod 10) end.

Fixpoint drop_zeros (l : list Z) : list Z := match l with 0 :: r => drop_zeros r | _ => l end.

(* method 24: weights 1,2,3 from LEFT to right over the significant digits; a leading 3,4,5,6 counts as 0,
   a leading 9 removes the first three digits; each product + weight, mod 11; the sum mod 10 is the check digit *)
Fixpoint sum24 (ws xs : list Z) : Z :=
  match ws, xs with
  | w :: ws', x :: xs' => (w * x + w) mod 11 + sum24 ws' xs'
  | _, _ => 0
  end.
Definition m24 (ds : list Z) : bool :=
  let body := span 1 9 ds in
  let d1 := pos 1 ds in
  let body := if (3 <=? d1) && (d1 <=? 6) then skipn 1 body else if d1 =? 9 then skipn 3 body else body in
  pos 10 ds =? sum24 [1; 2; 3; 1; 2; 3; 1; 2; 3] (drop_zeros body) mod 10.

(* method 68 *)
Definition m68 (ds : list Z) : bool :=
  let v := value ds in
  if (400000000 <=? v) && (v <=? 499999999) then true
  else if negb (pos 1 ds =? 0) then
    (* ten-digit numbers: position 4 must be 9; positions 4..9 are evaluated *)
    (pos 4 ds =? 9) && std 4 9 10 w21 CrossSum 10 Minus10 ds
  else
    (* six- to nine-digit numbers: all positions 2..9, or the same without positions 3 and 4 *)
    std 2 9 10 w21 CrossSum 10 Minus10 ds
    || std 2 9 10 w21 CrossSum 10 Minus10
         (firstn 2 ds ++ [0; 0] ++ skipn 4 ds).

Definition meth_is (m x : string) : bool := String.eqb m x.

Definition bb_accept (m : string) (ds : list Z) : option bool :=
  if meth_is m "00" then Some (m00 ds)
  else if meth_is m "01" then Some (std 1 9 10 [3; 7; 1; 3; 7; 1; 3; 7; 1] Plain 10 Minus10 ds)
  else if meth_is m "02" then Some (std 1 9 10 [2; 3; 4; 5; 6; 7; 8; 9; 2] Plain 11 Minus11_02 ds)
  else if meth_is m "03" then Some (std 1 9 10 w21 Plain 10 Minus10 ds)
  else if meth_is m "04" then Some (std 1 9 10 w_2to7 Plain 11 Minus11_02 ds)
  else if meth_is m "05" then Some (std 1 9 10 [7; 3; 1; 7; 3; 1; 7; 3; 1] Plain 10 Minus10 ds)
  else if meth_is m "06" then Some (m06 ds)
  else if meth_is m "07" then Some (std 1 9 10 w_2to10 Plain 11 Minus11_02 ds)
  else if meth_is m "08" then Some (if value ds <? 60000 then true else m00 ds)
  else if meth_is m "09" then Some true
  else if meth_is m "10" then Some (std 1 9 10 w_2to10 Plain 11 Minus11_06 ds)
  else if meth_is m "11" then Some (std 1 9 10 w_2to10 Plain 11 Minus11_11 ds)
  else if meth_is m "13" then Some (std 2 7 8 w21 CrossSum 10 Minus10 ds)
  else if meth_is m "14" then Some (std 4 9 10 w_2to7 Plain 11 Minus11_02 ds)
  else if meth_is m "15" then Some (std 6 9 10 [2; 3; 4; 5] Plain 11 Minus11_06 ds)
  else if meth_is m "16" then
    (* as method 06; in addition, with remainder 1 the number is correct whatever the result if positions 9 and 10 are identical *)
    Some (m06 ds || ((rem_of 1 9 w_2to7 Plain 11 ds =? 1) && (pos 9 ds =? pos 10 ds)))
  else if meth_is m "17" then
    (* positions 2..7 weighted 1,2,1,2,1,2 from left to right, cross sums; (sum - 1) mod 11; 10 - remainder, 10 -> 0 *)
    Some (let r := (tsum CrossSum [1; 2; 1; 2; 1; 2] (span 2 7 ds) - 1) mod 11 in
          pos 8 ds =? (if r =? 0 then 0 else 10 - r))
  else if meth_is m "18" then Some (std 1 9 10 [3; 9; 7; 1; 3; 9; 7; 1; 3] Plain 10 Minus10 ds)
  else if meth_is m "19" then Some (std 1 9 10 [2; 3; 4; 5; 6; 7; 8; 9; 1] Plain 11 Minus11_06 ds)
  else if meth_is m "20" then Some (std 1 9 10 [2; 3; 4; 5; 6; 7; 8; 9; 3] Plain 11 Minus11_06 ds)
  else if meth_is m "21" then
    Some (let q := iter_cross 4 (tsum CrossSum w21 (rev (span 1 9 ds))) in pos 10 ds =? (if q =? 0 then 0 else 10 - q))
  else if meth_is m "22" then Some (std 1 9 10 [3; 1; 3; 1; 3; 1; 3; 1; 3] UnitsOnly 10 Minus10 ds)
  else if meth_is m "23" then
    (* as method 16 on the first six digits, check digit at position 7 *)
    Some (std 1 6 7 w_2to7 Plain 11 Minus11_06 ds
          || ((rem_of 1 6 w_2to7 Plain 11 ds =? 1) && (pos 6 ds =? pos 7 ds)))
  else if meth_is m "24" then Some (m24 ds)
  else if meth_is m "25" then
    Some (std 2 9 10 [2; 3; 4; 5; 6; 7; 8; 9] Plain 11 Minus11_06 ds
          && (negb (rem_of 2 9 [2; 3; 4; 5; 6; 7; 8; 9] Plain 11 ds =? 1) || (pos 2 ds =? 8) || (pos 2 ds =? 9)))
  else if meth_is m "26" then
    Some (let ds' := if (pos 1 ds =? 0) && (pos 2 ds =? 0) then skipn 2 ds ++ [0; 0] else ds in
          std 1 7 8 [2; 3; 4; 5; 6; 7; 2] Plain 11 Minus11_06 ds')
  else if meth_is m "28" then Some (std 1 7 8 [2; 3; 4; 5; 6; 7; 8] Plain 11 Minus11_06 ds)
  else if meth_is m "32" then Some (std 4 9 10 w_2to7 Plain 11 Minus11_06 ds)
  else if meth_is m "33" then Some (std 5 9 10 [2; 3; 4; 5; 6] Plain 11 Minus11_06 ds)
  else if meth_is m "34" then Some (std 1 7 8 [2; 4; 8; 5; 10; 9; 7] Plain 11 Minus11_06 ds)
  else if meth_is m "38" then Some (std 4 9 10 [2; 4; 8; 5; 10; 9] Plain 11 Minus11_06 ds)
  else if meth_is m "60" then Some (std 3 9 10 w21 CrossSum 10 Minus10 ds)
  else if meth_is m "61" then
    Some (if pos 9 ds =? 8
          then pos 8 ds =? (let r := tsum CrossSum w21 (span 1 7 ds ++ [pos 9 ds; pos 10 ds]) mod 10 in
                            if r =? 0 then 0 else 10 - r)
          else std 1 7 8 w21 CrossSum 10 Minus10 ds)
  else if meth_is m "63" then Some ((pos 1 ds =? 0) && std 2 7 8 w21 CrossSum 10 Minus10 ds)
  else if meth_is m "68" then Some (m68 ds)
  else if meth_is m "76" then
    Some (existsb (Z.eqb (pos 1 ds)) [0; 4; 6; 7; 8; 9] && std 2 7 8 [2; 3; 4; 5; 6; 7] Plain 11 Itself ds)
  else if meth_is m "88" then
    Some (if pos 3 ds =? 9 then std 3 9 10 [2; 3; 4; 5; 6; 7; 8] Plain 11 Minus11_06 ds
          else std 4 9 10 w_2to7 Plain 11 Minus11_06 ds)
  else if meth_is m "91" then
    Some (std 1 6 7 [2; 3; 4; 5; 6; 7] Plain 11 Minus11_06 ds
          || std 1 6 7 [7; 6; 5; 4; 3; 2] Plain 11 Minus11_06 ds
          || std 1 10 7 [2; 3; 4; 0; 5; 6; 7; 8; 9; 10] Plain 11 Minus11_06 ds
          || std 1 6 7 [2; 4; 8; 5; 10; 9] Plain 11 Minus11_06 ds)
  else if meth_is m "99" then
    Some (let v := value ds in if (396000000 <=? v) && (v <=? 499999999) then true else m06 ds)
  else None.
