(* C17: what "the bundled country and bank data are internally consistent" means, as decidable
   predicates over a country table and a bank list.  Independent of Model/ (raw data columns only). *)
From Schwifty Require Import Lib.Base Lib.Lit Model.Data Spec.Iso13616 Spec.Iso9362.
From Coq Require Import String.

Definition range_in (n : Z) (p : Z * Z) : bool := (0 <=? fst p)%Z && (fst p <=? snd p)%Z && (snd p <=? n)%Z.
Definition disjoint (p q : Z * Z) : bool := (snd p <=? fst q)%Z || (snd q <=? fst p)%Z.

Fixpoint pairwise {A} (f : A -> A -> bool) (l : list A) : bool :=
  match l with
  | [] => true
  | x :: r => forallb (f x) r && pairwise f r
  end.

(* component positions lie inside the BBAN, are well-ordered, pairwise disjoint, one per name *)
Definition positions_wf (r : row) : bool :=
  match r_positions r with
  | None => true
  | Some ps =>
    forallb (fun kp => range_in (r_bban_length r) (snd kp)) ps
    && pairwise (fun a b => disjoint (snd a) (snd b) && negb (text_eqb (fst a) (fst b))) ps
  end.

(* the structure string describes exactly the stated BBAN length; IBAN length = that + 4 <= 34;
   the country code is two capitals *)
Definition wf_country (r : row) : bool :=
  match row_kinds r with
  | Some kds => Z.eqb (Z.of_nat (List.length kds)) (r_bban_length r)
  | None => false
  end
  && Z.eqb (r_iban_length r) (r_bban_length r + 4) && Z.leb (r_iban_length r) 34
  && match r_cc r with [c1; c2] => is_ascii_upper c1 && is_ascii_upper c2 | _ => false end
  && positions_wf r.

Definition no_dup_countries (T : table) : bool :=
  pairwise (fun a b => negb (text_eqb (r_cc a) (r_cc b))) T.

(* the bank-identifying field of a country: the concatenation of its lookup components' ranges *)
Definition lookup_components_of (r : row) : list text :=
  match r_lookup r with Some l => l | None => [tx "bank_code"] end.

Definition range_of (r : row) (comp : text) : Z * Z :=
  match r_positions r with
  | Some ps => match assoc comp ps with Some p => p | None => (0, 0)%Z end
  | None => (0, 0)%Z
  end.

Definition cut {A} (p : Z * Z) (l : list A) : list A :=
  firstn (Z.to_nat (snd p - fst p)) (skipn (Z.to_nat (fst p)) l).

Definition lookup_kinds (r : row) : option (list kind) :=
  match row_kinds r with
  | Some kds => Some (flat_map (fun c => cut (range_of r c) kds) (lookup_components_of r))
  | None => None
  end.

(* a bank entry: its country is in the table; its BIC is null, empty, or a valid ISO 9362 code;
   its bank code is empty or fits - in length and character classes - the bank-identifying field *)
Definition wf_bank (T : table) (countries : list text) (en : entry) : bool :=
  match find_row T (e_cc en) with
  | None => false
  | Some r =>
    match e_bic en with
    | None | Some [] => true
    | Some b => iso9362_ok countries false b
    end
    && match e_code en with
       | [] => true
       | code => match lookup_kinds r with Some ks => conforms ks code | None => false end
       end
  end.
