(* What each validation error class *means*, stated independently of the validation pipeline:
   the defect it names must really be present in the (cleaned) text. *)
From Schwifty Require Import Lib.Base Model.Data Spec.Iso13616 Spec.Iso9362.

Definition head_ok (s : text) : bool :=
  match s with
  | c1 :: c2 :: d1 :: d2 :: _ => is_ascii_upper c1 && is_ascii_upper c2 && is_ascii_digit d1 && is_ascii_digit d2
  | _ => false
  end.

Definition alpha_char (c : N) : bool := is_ascii_digit c || is_ascii_upper c.

(* the ISO 7064 mod 97-10 check in isolation: over 0-9A-Z, remainder 1, canonical digits 02..98 *)
Definition mod97_ok (s : text) : bool :=
  match s with
  | c1 :: c2 :: d1 :: d2 :: b =>
    forallb alpha_char s && is_ascii_digit d1 && is_ascii_digit d2
    && Z.eqb (iso_num (b ++ [c1; c2; d1; d2]) mod 97) 1
    && (let dd := (Z.of_N (d1 - 48) * 10 + Z.of_N (d2 - 48))%Z in (2 <=? dd)%Z && (dd <=? 98)%Z)
  | _ => false
  end.

Definition iban_defect (T : table) (e : exn) (s : text) : bool :=
  match e with
  | EInvalidCountryCode => match find_row T (firstn 2 s) with None => true | Some _ => false end
  | EInvalidLength =>
    match find_row T (firstn 2 s) with Some r => negb (Z.eqb (len s) (r_iban_length r)) | None => false end
  | EInvalidStructure =>
    negb (head_ok s) ||
    match find_row T (firstn 2 s) with Some r => negb (conforms_row r (skipn 4 s)) | None => false end
  | EInvalidChecksumDigits => negb (mod97_ok s)
  | _ => false
  end.

Definition bic_defect (countries : list text) (strict : bool) (e : exn) (s : text) : bool :=
  let n := len s in
  match e with
  | EInvalidLength => negb (Z.eqb n 8 || Z.eqb n 11)
  | EInvalidStructure => negb (conforms (bic_kinds strict false) s || conforms (bic_kinds strict true) s)
  | EInvalidCountryCode => negb (known_country countries (firstn 2 (skipn 4 s)))
  | _ => false
  end.
