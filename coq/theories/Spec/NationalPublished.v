(* The national check-digit rules of the 22 countries in the form their authorities publish them
   (congruences / weight tables over the BBAN), transcribed by hand — see DESIGN.md trusted base.
   Independent of Model/.  Every function takes a structure-conforming BBAN. *)
From Schwifty Require Import Lib.Base Lib.Lit Spec.Iso13616.
From Coq Require Import String.

Definition sl (a b : nat) (l : text) : text := firstn (b - a) (skipn a l).
Definition dv (c : N) : Z := Z.of_N (c - 48).                 (* value of an ASCII digit *)
Definition dec (s : text) : Z := fold_left (fun acc c => (acc * 10 + dv c)%Z) s 0%Z.

Fixpoint wsum (ws : list Z) (s : text) : Z :=
  match ws, s with
  | w :: ws', c :: s' => (w * dv c + wsum ws' s')%Z
  | _, _ => 0%Z
  end.

(* ISO 7064 MOD 97-10 over the whole BBAN (letters expanded A=10..Z=35): remainder 1, check digits 02..98.
   Bosnia and Herzegovina, Montenegro, North Macedonia, Portugal, Serbia, Slovenia, Timor-Leste. *)
Definition pub_iso97 (b : text) : bool :=
  let n := List.length b in
  let k := dec (sl (n - 2) n b) in
  Z.eqb (iso_num b mod 97) 1 && Z.leb 2 k && Z.leb k 98.

(* RIB key, Mauritania / Tunisia: the whole number (body followed by the key) is divisible by 97, key 01..97 *)
Definition pub_rib_numeric (b : text) : bool :=
  let n := List.length b in
  let k := dec (sl (n - 2) n b) in
  Z.eqb (dec b mod 97) 0 && Z.leb 1 k && Z.leb k 97.

(* France / Monaco: letters of the account number are replaced by digits (A,J=1 B,K,S=2 C,L,T=3 D,M,U=4
   E,N,V=5 F,O,W=6 G,P,X=7 H,Q,Y=8 I,R,Z=9), then as above *)
Definition fr_subst (c : N) : N :=
  if is_ascii_upper c then
    let i := (c - 65)%N in
    if N.ltb i 9 then (49 + i)%N else if N.ltb i 18 then (49 + (i - 9))%N else (50 + (i - 18))%N
  else c.
Definition pub_fr (b : text) : bool := pub_rib_numeric (map fr_subst b).

(* Belgium: the last two digits are the first ten modulo 97, with 97 standing for remainder 0 *)
Definition pub_be (b : text) : bool :=
  let r := (dec (sl 0 10 b) mod 97)%Z in
  Z.eqb (dec (sl 10 12 b)) (if Z.eqb r 0 then 97 else r).

(* Spain (CCC): two control digits; first over 00+entidad+oficina, second over the account; weights
   1,2,4,8,5,10,9,7,3,6; digit = 11 - (sum mod 11), with 10 -> 1 and 11 -> 0 *)
Definition es_w : list Z := [1; 2; 4; 8; 5; 10; 9; 7; 3; 6]%Z.
Definition es_digit (s : text) : Z :=
  let d := (11 - wsum es_w s mod 11)%Z in if Z.eqb d 11 then 0 else if Z.eqb d 10 then 1 else d.
Definition pub_es (b : text) : bool :=
  Z.eqb (dv (nth 8 b 0%N)) (es_digit ([48; 48]%N ++ sl 0 8 b))
  && Z.eqb (dv (nth 9 b 0%N)) (es_digit (sl 10 20 b)).

(* Italy / San Marino (CIN): characters at odd positions (1st, 3rd, ...) of ABI+CAB+account are mapped by
   the odd table, at even positions by their ordinal value (digit value / A=0..Z=25); the sum mod 26 gives
   the letter *)
Definition it_ord (c : N) : Z := if is_ascii_digit c then dv c else Z.of_N (c - 65).
Definition it_odd_table : list Z :=
  [1; 0; 5; 7; 9; 13; 15; 17; 19; 21; 2; 4; 18; 20; 11; 3; 6; 8; 12; 14; 16; 10; 22; 25; 24; 23]%Z.
Fixpoint cin_sum (odd : bool) (s : text) : Z :=
  match s with
  | [] => 0%Z
  | c :: r => ((if odd then nth (Z.to_nat (it_ord c)) it_odd_table 0%Z else it_ord c) + cin_sum (negb odd) r)%Z
  end.
Definition pub_it (b : text) : bool :=
  match b with
  | cin :: rest => Z.eqb (Z.of_N (cin - 65)) (cin_sum true rest mod 26)
  | [] => false
  end.

(* Finland: Luhn (mod 10, weights 2,1 from the right, digits of products summed) over all 14 digits *)
Fixpoint luhn_sum (double : bool) (rev_digits : text) : Z :=
  match rev_digits with
  | [] => 0%Z
  | c :: r => let p := (if double then 2 * dv c else dv c)%Z in (p / 10 + p mod 10 + luhn_sum (negb double) r)%Z
  end.
Definition pub_fi (b : text) : bool := Z.eqb (luhn_sum false (rev b) mod 10) 0.

(* Norway: mod 11 with weights 5,4,3,2,7,6,5,4,3,2 over the first ten digits plus the check digit;
   when the account part starts with 00 only the four digits after it are weighted (5,4,3,2) *)
Definition no_w : list Z := [5; 4; 3; 2; 7; 6; 5; 4; 3; 2]%Z.
Definition pub_no (b : text) : bool :=
  let value := if text_eqb (sl 4 6 b) [48; 48]%N then sl 6 10 b else sl 0 10 b in
  Z.eqb ((wsum no_w value + dv (nth 10 b 0%N)) mod 11) 0.

(* Poland: the eight digits of the bank sort code, weighted 3,9,7,1,3,9,7,1, sum to a multiple of 10 *)
Definition pub_pl (b : text) : bool := Z.eqb (wsum [3; 9; 7; 1; 3; 9; 7; 1]%Z (sl 0 8 b) mod 10) 0.

(* Estonia: 7-3-1 method from the right over the digits after the bank identifier, check digit last *)
Fixpoint w731 (k : nat) (rev_digits : text) : Z :=
  match rev_digits with
  | [] => 0%Z
  | c :: r => (nth (Nat.modulo k 3) [7; 3; 1]%Z 0%Z * dv c + w731 (S k) r)%Z
  end.
Definition pub_ee (b : text) : bool :=
  Z.eqb ((w731 0 (rev (sl 2 15 b)) + dv (nth 15 b 0%N)) mod 10) 0.

(* Czechia / Slovakia: prefix (6 digits) and account number (10 digits), each weighted
   6,3,7,9,10,5,8,4,2,1 (right-aligned), must be divisible by 11 *)
Definition cz_w : list Z := [6; 3; 7; 9; 10; 5; 8; 4; 2; 1]%Z.
Definition pub_cz (b : text) : bool :=
  Z.eqb (wsum (skipn 4 cz_w) (sl 4 10 b) mod 11) 0 && Z.eqb (wsum cz_w (sl 10 20 b) mod 11) 0.

(* Iceland: the kennitala (last ten digits): 3,2,7,6,5,4,3,2 over its first eight digits plus the ninth
   digit is divisible by 11 *)
Definition pub_is (b : text) : bool :=
  let k := sl 12 22 b in
  Z.eqb ((wsum [3; 2; 7; 6; 5; 4; 3; 2]%Z k + dv (nth 8 k 0%N)) mod 11) 0.

Definition cc_is (cc : text) (c : string) : bool := text_eqb cc (s2t c).
Arguments cc_is _ _%string.

(* which rule applies to which country; None: no national algorithm *)
Definition published (cc : text) : option (text -> bool) :=
  if cc_is cc "BE" then Some pub_be
  else if cc_is cc "BA" || cc_is cc "ME" || cc_is cc "MK" || cc_is cc "PT" || cc_is cc "RS" || cc_is cc "SI" || cc_is cc "TL" then Some pub_iso97
  else if cc_is cc "MR" || cc_is cc "TN" then Some pub_rib_numeric
  else if cc_is cc "FR" || cc_is cc "MC" then Some pub_fr
  else if cc_is cc "ES" then Some pub_es
  else if cc_is cc "IT" || cc_is cc "SM" then Some pub_it
  else if cc_is cc "FI" then Some pub_fi
  else if cc_is cc "NO" then Some pub_no
  else if cc_is cc "PL" then Some pub_pl
  else if cc_is cc "EE" then Some pub_ee
  else if cc_is cc "CZ" || cc_is cc "SK" then Some pub_cz
  else if cc_is cc "IS" then Some pub_is
  else None.

Definition published_ok (cc b : text) : bool :=
  match published cc with Some f => f b | None => true end.
