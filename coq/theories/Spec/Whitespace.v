(* What the properties mean by "whitespace": the code points Unicode gives the White_Space property, plus the four ASCII
   information separators FS GS RS US, which Python's str.isspace() and \s (in a str pattern) also count:
   tab, LF, VT, FF, CR, FS..US, space, NEL, NBSP, Ogham space mark, en quad .. hair space, LS, PS, NNBSP, MMSP,
   ideographic space.  Written down here by hand; nothing in this file is derived from the library. *)
From Schwifty Require Import Lib.Base.
Import ListNotations.

Definition unicode_whitespace : list N :=
  [9; 10; 11; 12; 13; 28; 29; 30; 31; 32; 133; 160; 5760; 8192; 8193; 8194; 8195; 8196; 8197; 8198; 8199; 8200; 8201; 8202;
   8232; 8233; 8239; 8287; 12288]%N.

(* removing whitespace, in the sense of the properties *)
Definition strip_whitespace (s : text) : text := filter (fun c => negb (mem c unicode_whitespace)) s.
