(* ASCII string literals as text. *)
From Coq Require Import String Ascii NArith List.
From Schwifty Require Import Lib.Base.
Fixpoint s2t (s : string) : text :=
  match s with
  | EmptyString => nil
  | String a r => N_of_ascii a :: s2t r
  end.
Notation "'tx' s" := (s2t s%string) (at level 0, s at level 0, only parsing).
