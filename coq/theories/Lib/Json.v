(* JSON values as json.load yields them (dicts keep insertion order; no floats in the registries). *)
From Schwifty Require Import Lib.Base.

Inductive json :=
| JNull
| JBool (b : bool)
| JNum (z : Z)
| JStr (s : text)
| JArr (l : list json)
| JObj (kvs : list (text * json)).

Definition obj := list (text * json).

Fixpoint jget (k : text) (o : obj) : option json :=
  match o with
  | [] => None
  | (k', v) :: r => if text_eqb k k' then Some v else jget k r
  end.

Definition jhas (k : text) (o : obj) : bool := match jget k o with Some _ => true | None => false end.
Definition jkeys (o : obj) : list text := map fst o.

(* nesting depth, used as fuel *)
Fixpoint jdepth (j : json) : nat :=
  match j with
  | JArr l => S (fold_right (fun x acc => Nat.max (jdepth x) acc) 0 l)
  | JObj kvs => S (fold_right (fun kv acc => Nat.max (jdepth (snd kv)) acc) 0 kvs)
  | _ => 0
  end.

(* dict[k] = v : replace in place if present, append otherwise *)
Fixpoint jset (k : text) (v : json) (o : obj) : obj :=
  match o with
  | [] => [(k, v)]
  | (k', v') :: r => if text_eqb k k' then (k', v) :: r else (k', v') :: jset k v r
  end.

Fixpoint jremove (k : text) (o : obj) : obj :=
  match o with
  | [] => []
  | (k', v') :: r => if text_eqb k k' then r else (k', v') :: jremove k r
  end.
