(* Base vocabulary of the schwifty model: text, outcomes, Python string primitives.
   Definitions only (no proofs): this file is extracted and run against the implementation. *)
From Coq Require Export List NArith ZArith Bool.
Export ListNotations.

(* A Python str is a sequence of Unicode code points. *)
Definition text := list N.

(* schwifty's exception family (exceptions.py), and the foreign exceptions the code can leak. *)
Inductive exn :=
| ESchwifty | EInvalidLength | EInvalidStructure | EInvalidCountryCode | EInvalidBankCode
| EInvalidBranchCode | EInvalidAccountCode | EInvalidChecksumDigits | EInvalidBBANChecksum
| EGenerateRandomOverflow.

Inductive pyexc := PValueError | PKeyError | PIndexError | PTypeError | PAssertionError.

Inductive outcome (A : Type) :=
| Ok (a : A)
| Err (e : exn)
| Crash (c : pyexc).
Arguments Ok {A} a.
Arguments Err {A} e.
Arguments Crash {A} c.

Definition bind {A B} (o : outcome A) (f : A -> outcome B) : outcome B :=
  match o with Ok a => f a | Err e => Err e | Crash c => Crash c end.
Notation "'do' x <- o ; k" := (bind o (fun x => k)) (at level 200, x name, o at level 100, k at level 200).
Notation "'do_' o ; k" := (bind o (fun _ => k)) (at level 200, o at level 100, k at level 200).

Definition is_ok {A} (o : outcome A) : bool := match o with Ok _ => true | _ => false end.
Definition is_crash {A} (o : outcome A) : bool := match o with Crash _ => true | _ => false end.

Definition exn_eqb (a b : exn) : bool :=
  match a, b with
  | ESchwifty, ESchwifty | EInvalidLength, EInvalidLength | EInvalidStructure, EInvalidStructure
  | EInvalidCountryCode, EInvalidCountryCode | EInvalidBankCode, EInvalidBankCode
  | EInvalidBranchCode, EInvalidBranchCode | EInvalidAccountCode, EInvalidAccountCode
  | EInvalidChecksumDigits, EInvalidChecksumDigits | EInvalidBBANChecksum, EInvalidBBANChecksum
  | EGenerateRandomOverflow, EGenerateRandomOverflow => true
  | _, _ => false
  end.

(* ------------------------------------------------------------------------------------------ *)
(* text equality / ordering (code point order, as Python compares str)                           *)

Fixpoint text_eqb (a b : text) : bool :=
  match a, b with
  | [], [] => true
  | x :: a', y :: b' => N.eqb x y && text_eqb a' b'
  | _, _ => false
  end.

Fixpoint text_ltb (a b : text) : bool :=
  match a, b with
  | [], [] => false
  | [], _ :: _ => true
  | _ :: _, [] => false
  | x :: a', y :: b' => if N.ltb x y then true else if N.eqb x y then text_ltb a' b' else false
  end.

Definition len (s : text) : Z := Z.of_nat (length s).

(* ------------------------------------------------------------------------------------------ *)
(* slicing: s[a:b], s[a:], s[:b] with Python's treatment of negative and out-of-range indices    *)

Definition norm_idx (n i : Z) : Z :=
  if (i <? 0)%Z then Z.max 0 (i + n) else Z.min i n.

Definition py_slice (s : text) (a b : Z) : text :=
  let n := len s in
  let a' := norm_idx n a in
  let b' := norm_idx n b in
  firstn (Z.to_nat (b' - a')) (skipn (Z.to_nat a') s).

Definition py_slice_from (s : text) (a : Z) : text := skipn (Z.to_nat (norm_idx (len s) a)) s.
Definition py_slice_to (s : text) (b : Z) : text := py_slice s 0 b.

(* s[i] : IndexError outside -len..len-1 *)
Definition py_index (s : text) (i : Z) : outcome N :=
  let n := len s in
  let j := if (i <? 0)%Z then (i + n)%Z else i in
  if ((j <? 0) || (n <=? j))%Z then Crash PIndexError
  else match nth_error s (Z.to_nat j) with Some c => Ok c | None => Crash PIndexError end.

(* common.Base._get_slice *)
Definition get_slice (s : text) (start : Z) (stop : option Z) : text :=
  match stop with
  | None => if (start <? len s)%Z then py_slice_from s start else []
  | Some e => if ((start <? len s) && (e <=? len s))%Z then py_slice s start e else []
  end.

(* ------------------------------------------------------------------------------------------ *)
(* small str methods                                                                              *)

Definition c0 : N := 48%N.   (* "0" *)
Definition c9 : N := 57%N.
Definition cA : N := 65%N.
Definition cZ : N := 90%N.
Definition c_a : N := 97%N.
Definition c_z : N := 122%N.
Definition cplus : N := 43%N.
Definition cminus : N := 45%N.

Definition zeros (n : nat) : text := repeat c0 n.

(* str.zfill(width): sign-aware *)
Definition zfill (s : text) (width : Z) : text :=
  let n := len s in
  if (width <=? n)%Z then s
  else
    let pad := zeros (Z.to_nat (width - n)) in
    match s with
    | c :: r => if (N.eqb c cplus || N.eqb c cminus) then c :: pad ++ r else pad ++ s
    | [] => pad
    end.

Fixpoint lstrip0 (s : text) : text :=
  match s with c :: r => if N.eqb c c0 then lstrip0 r else s | [] => [] end.
Definition rstrip0 (s : text) : text := rev (lstrip0 (rev s)).

Fixpoint startswith (p s : text) : bool :=
  match p, s with
  | [], _ => true
  | x :: p', y :: s' => N.eqb x y && startswith p' s'
  | _ :: _, [] => false
  end.

Fixpoint index_of_aux (c : N) (l : text) (i : Z) : option Z :=
  match l with
  | [] => None
  | x :: r => if N.eqb x c then Some i else index_of_aux c r (i + 1)%Z
  end.
Definition index_of (c : N) (l : text) : option Z := index_of_aux c l 0%Z.

Definition mem (c : N) (l : text) : bool := existsb (N.eqb c) l.

(* ------------------------------------------------------------------------------------------ *)
(* str(int), int(str) for ASCII digits, f"{x:0{n}d}"                                              *)

Fixpoint digits_fuel (fuel : nat) (n : N) (acc : text) : text :=
  match fuel with
  | O => acc
  | S f =>
    let q := N.div n 10 in
    let r := N.modulo n 10 in
    let acc' := (48 + r)%N :: acc in
    if N.eqb q 0 then acc' else digits_fuel f q acc'
  end.

Definition str_of_N (n : N) : text := digits_fuel (S (N.size_nat n)) n [].

Definition str_of_Z (z : Z) : text :=
  if (z <? 0)%Z then cminus :: str_of_N (Z.to_N (- z)) else str_of_N (Z.to_N z).

(* format(z, "0{w}d") *)
Definition fmt0d (w : Z) (z : Z) : text :=
  if (z <? 0)%Z then cminus :: zfill (str_of_N (Z.to_N (- z))) (w - 1)
  else zfill (str_of_N (Z.to_N z)) w.

Definition is_ascii_digit (c : N) : bool := (N.leb c0 c && N.leb c c9).
Definition is_ascii_upper (c : N) : bool := (N.leb cA c && N.leb c cZ).
Definition is_ascii_lower (c : N) : bool := (N.leb c_a c && N.leb c c_z).

Definition digit_val (c : N) : Z := Z.of_N (c - c0).

(* value of a string of ASCII digits (no validation) *)
Definition dec_val (s : text) : Z := fold_left (fun acc c => (acc * 10 + digit_val c)%Z) s 0%Z.

Definition all_ascii_digits (s : text) : bool := forallb is_ascii_digit s.

(* ------------------------------------------------------------------------------------------ *)
(* association lists keyed by text                                                                *)

Fixpoint assoc {A} (k : text) (l : list (text * A)) : option A :=
  match l with
  | [] => None
  | (k', v) :: r => if text_eqb k k' then Some v else assoc k r
  end.

Definition concat_text (l : list text) : text := List.concat l.

Fixpoint join (sep : text) (l : list text) : text :=
  match l with
  | [] => []
  | [x] => x
  | x :: r => x ++ sep ++ join sep r
  end.
