(* Regular expressions over code points with a Brzozowski-derivative matcher, and the three ways
   Python applies a compiled pattern (fullmatch / match / search) for patterns whose only anchors
   are a leading ^ and a trailing $.  Definitions only. *)
From Schwifty Require Import Lib.Base.

Definition cls := list (N * N).           (* inclusive code point ranges *)

Definition in_cls (c : N) (k : cls) : bool :=
  existsb (fun r => N.leb (fst r) c && N.leb c (snd r)) k.

Inductive re :=
| Emp | Eps
| Chr (k : cls)
| Seq (a b : re)
| Alt (a b : re)
| Star (a : re).

Fixpoint nullable (r : re) : bool :=
  match r with
  | Emp => false | Eps => true | Chr _ => false
  | Seq a b => nullable a && nullable b
  | Alt a b => nullable a || nullable b
  | Star _ => true
  end.

(* smart constructors keep derivatives small *)
Definition seq (a b : re) : re :=
  match a, b with
  | Emp, _ => Emp
  | _, Emp => Emp
  | Eps, _ => b
  | _, _ => Seq a b
  end.

Definition alt (a b : re) : re :=
  match a, b with
  | Emp, _ => b
  | _, Emp => a
  | _, _ => Alt a b
  end.

Fixpoint deriv (c : N) (r : re) : re :=
  match r with
  | Emp => Emp
  | Eps => Emp
  | Chr k => if in_cls c k then Eps else Emp
  | Seq a b => if nullable a then alt (seq (deriv c a) b) (deriv c b) else seq (deriv c a) b
  | Alt a b => alt (deriv c a) (deriv c b)
  | Star a => seq (deriv c a) (Star a)
  end.

Fixpoint matches (r : re) (s : text) : bool :=
  match s with
  | [] => nullable r
  | c :: t => matches (deriv c r) t
  end.

(* counted repetition *)
Fixpoint rep (n : nat) (r : re) : re :=
  match n with O => Eps | S m => Seq r (rep m r) end.
(* between 0 and n copies *)
Fixpoint upto (n : nat) (r : re) : re :=
  match n with O => Eps | S m => Alt Eps (Seq r (upto m r)) end.

(* the surface syntax the translator emits (what re._parser yields for schwifty's patterns) *)
Inductive rx :=
| RChr (k : cls)
| RRep (lo : nat) (hi : option nat) (r : rx)     (* {lo,hi}; hi = None: unbounded *)
| RSeq (a b : rx)
| RAlt (a b : rx)
| REps.

Fixpoint compile (x : rx) : re :=
  match x with
  | RChr k => Chr k
  | RRep lo None r => Seq (rep lo (compile r)) (Star (compile r))
  | RRep lo (Some hi) r => Seq (rep lo (compile r)) (upto (hi - lo) (compile r))
  | RSeq a b => Seq (compile a) (compile b)
  | RAlt a b => Alt (compile a) (compile b)
  | REps => Eps
  end.

Inductive remethod := MFull | MMatch | MSearch.

(* A compiled pattern: the body between an optional leading ^ and an optional trailing $.
   A use site applies one of the three methods to it. *)
Record repat := {
  rp_bol : bool;
  rp_eol : bool;
  rp_body : rx;
}.

Definition nl : N := 10%N.

(* $ without MULTILINE: at the end, or just before a final newline *)
Definition end_ok (eol : bool) (rest : text) : bool :=
  if eol then match rest with [] => true | [c] => N.eqb c nl | _ => false end else true.

Fixpoint prefix_match (r : re) (eol : bool) (s : text) : bool :=
  (nullable r && end_ok eol s) ||
  match s with
  | [] => false
  | c :: t => prefix_match (deriv c r) eol t
  end.

Fixpoint search_from (r : re) (eol : bool) (s : text) : bool :=
  prefix_match r eol s ||
  match s with [] => false | _ :: t => search_from r eol t end.

Definition pat_apply (m : remethod) (p : repat) (s : text) : bool :=
  let r := compile (rp_body p) in
  match m with
  | MFull => matches r s
  | MMatch => prefix_match r (rp_eol p) s
  | MSearch => if rp_bol p then prefix_match r (rp_eol p) s else search_from r (rp_eol p) s
  end.
