(* Extraction of the executable model and specs for the correspondence harness.
   Directives: ExtrOcamlBasic only (bool, option, list, prod, unit, sumbool -> OCaml natives);
   N, Z, positive stay Coq datatypes. *)
From Coq Require Extraction ExtrOcamlBasic.
From Schwifty Require Import Lib.Base Lib.Regex Model.Clean Model.Data Model.Iban Model.Bic Model.Bban Model.Generate Model.Registry Model.Lookup Model.National Model.Algorithms Model.Germany Model.Random Lib.Json.
From Schwifty Require Import Gen.Env Gen.IbanData Gen.IbanCfg Gen.BicCfg Gen.ChecksumCfg Gen.GermanyTbl.
From Schwifty Require Import Spec.Iso13616 Spec.Iso9362 Spec.Defects Spec.RegistrySpec Spec.NationalPublished Spec.Bundesbank Spec.Whitespace.
From Coq Require Import String Ascii.

Definition x_german := german_class nd_runs german_table account_code_length.
Definition x_find_algo := find_algo the_env nd_runs (ic_alphabet the_iban_cfg) registered x_german.
Definition x_algo_validate (key : text) (components : list text) (expected : text) : outcome bool :=
  match assoc key registered with
  | Some (cls, accepts) =>
    match (match national_class the_env nd_runs (ic_alphabet the_iban_cfg) cls accepts with Some a => Some a | None => x_german cls accepts end) with
    | Some al => al_validate al components expected
    | None => Crash PKeyError
    end
  | None => Crash PKeyError
  end.
Definition x_algo_compute (key : text) (components : list text) : outcome text :=
  match assoc key registered with
  | Some (cls, accepts) =>
    match (match national_class the_env nd_runs (ic_alphabet the_iban_cfg) cls accepts with Some a => Some a | None => x_german cls accepts end) with
    | Some al => al_compute al components
    | None => Crash PKeyError
    end
  | None => Crash PKeyError
  end.
Definition x_national (R : banks) := validate_national the_table x_find_algo (bank_code_entries R).

Definition x_clean := clean the_env.
Definition x_iban_new (R : banks) := iban_new the_env the_iban_cfg the_table (x_national R).
Definition x_iban_validate (R : banks) := iban_validate the_env the_iban_cfg the_table (x_national R).
Definition x_iban_is_valid (R : banks) := iban_is_valid the_env the_iban_cfg the_table (x_national R).
Definition x_iban_from_bban (R : banks) := iban_from_bban the_env the_iban_cfg the_table (x_national R).
Definition x_from_components := from_components the_env (ic_components the_iban_cfg) the_table x_find_algo.
Definition x_generate (R : banks) (cc bank account branch : text) : outcome text :=
  iban_generate the_env the_iban_cfg the_table (x_national R) (ic_components the_iban_cfg) x_find_algo cc bank account branch.
Definition s_published_ok := published_ok.
Definition s_has_published (cc : text) : bool := match published cc with Some _ => true | None => false end.
Definition x_iban_formatted := iban_formatted.
Definition x_pat_apply := pat_apply.
Definition x_chars_pat := ic_chars_pat the_iban_cfg.
Definition x_chars_method := ic_chars_method the_iban_cfg.
Definition x_format_method := ic_format_method the_iban_cfg.
Definition x_row_regex (cc : text) : option repat := option_map r_regex (find_row the_table cc).

Definition s_iso_ok := iso_ok the_table.
Definition s_check_digits := iso_check_digits.
Definition s_conforms (cc b : text) : bool :=
  match find_row the_table cc with Some r => conforms_row r b | None => false end.

Definition x_bic_new := bic_new the_env the_bic_cfg iso3166.
Definition x_bic_validate := bic_validate the_bic_cfg iso3166.
Definition x_bic_is_valid := bic_is_valid the_bic_cfg iso3166.
Definition x_bic_formatted := bic_formatted the_bic_cfg.
Definition x_bic_parts (s : text) : list text :=
  [bic_bank_code the_bic_cfg s; bic_country_code the_bic_cfg s; bic_location_code the_bic_cfg s; bic_branch_code the_bic_cfg s].
Definition x_bic_pat (strict : bool) := if strict then bc_swift the_bic_cfg else bc_iso the_bic_cfg.
Definition s_iso9362_ok := iso9362_ok iso3166.

Definition all_exn : list exn :=
  [ESchwifty; EInvalidLength; EInvalidStructure; EInvalidCountryCode; EInvalidBankCode; EInvalidBranchCode;
   EInvalidAccountCode; EInvalidChecksumDigits; EInvalidBBANChecksum; EGenerateRandomOverflow].
(* None: the spec accepts; Some l: the defects present *)
(* the specification's own cleaning: white space as written down in Spec/Whitespace.v, not what _clean_regex removes *)
Definition s_clean (t : text) : text := upper the_env (strip_whitespace t).
Definition s_iban_verdict (t : text) : option (list exn) :=
  let s := s_clean t in
  if iso_ok the_table s then None else Some (filter (fun ex => iban_defect the_table ex s) all_exn).
Definition s_bic_verdict (strict : bool) (t : text) : option (list exn) :=
  let s := s_clean t in
  if iso9362_ok iso3166 strict s then None else Some (filter (fun ex => bic_defect iso3166 strict ex s) all_exn).

Definition x_bban_component := bban_component the_table.
Definition x_iban_cc := iban_country_code.
Definition x_iban_dd := iban_checksum_digits.
Definition x_iban_bban := iban_bban the_env.
Definition x_text_eqb := text_eqb.

Definition x_merge_dicts := merge_dicts (fun ks => ks).
Definition x_parse_v2 := parse_v2.
Definition x_registry_get := registry_get (fun ks => ks).

(* the bank list is loaded by the driver at run time from Gen/banks.tsv (written by the same
   translator run that writes Gen/Banks_*.v): OCaml cannot compile a 29 000-element literal *)
Definition x_candidates (R : banks) := candidates the_env the_bic_cfg iso3166 R.
Definition x_from_bank_code (R : banks) := from_bank_code the_env the_bic_cfg iso3166 R.
Definition x_domestic_bank_codes (R : banks) := domestic_bank_codes R.
Definition x_bic_exists (R : banks) := bic_exists R.
Definition x_bank_ids (R : banks) := bank_ids R.
Definition x_bban_bank (R : banks) := bban_bank the_table (bank_code_entries R).
Definition x_bban_bic (R : banks) := bban_bic the_env the_bic_cfg iso3166 the_table R.
Definition x_mk_entry (i : N) (cc code : text) (bic : option text) (prim : bool) (algo : option text) : entry :=
  {| e_id := i; e_cc := cc; e_code := code; e_bic := bic; e_primary := prim; e_algo := algo |}.
Definition s_wf_bank (en : entry) : bool := wf_bank the_table iso3166 en.
Definition s_wf_country (cc : text) : bool :=
  match find_row the_table cc with Some r => wf_country r | None => false end.

Definition x_random_bban (R : banks) :=
  random_bban the_env (ic_components the_iban_cfg) the_table x_find_algo R.
Definition x_random_iban (R : banks) :=
  iban_random the_env the_iban_cfg the_table (x_national R) (ic_components the_iban_cfg) x_find_algo R.

Fixpoint t2s (t : text) : string :=
  match t with [] => EmptyString | c :: r => String (ascii_of_N c) (t2s r) end.
(* verdict of the Bundesbank spec on a ten-character account; None: not ten ASCII digits / method not in the spec *)
Definition s_bb (m : text) (account : text) : option bool :=
  if (Nat.eqb (List.length account) 10 && forallb is_ascii_digit account)%bool
  then bb_accept (t2s m) (map (fun c => Z.of_N (c - 48)) account) else None.

Extraction Language OCaml.
Set Extraction KeepSingleton.
Extraction "extract/model.ml"
  x_clean x_iban_new x_iban_validate x_iban_is_valid x_iban_from_bban x_iban_formatted x_national x_from_components x_generate s_published_ok s_has_published x_algo_validate x_algo_compute s_bb x_random_bban x_random_iban
  x_pat_apply x_chars_pat x_chars_method x_format_method x_row_regex
  s_iso_ok s_check_digits s_conforms s_clean
  x_bic_new x_bic_validate x_bic_is_valid x_bic_formatted x_bic_parts x_bic_pat s_iso9362_ok s_iban_verdict s_bic_verdict
  x_bban_component x_iban_cc x_iban_dd x_iban_bban x_text_eqb
  x_merge_dicts x_parse_v2 x_registry_get
  x_candidates x_from_bank_code x_domestic_bank_codes x_bic_exists x_bank_ids x_bban_bank x_bban_bic x_mk_entry
  s_wf_bank s_wf_country.
