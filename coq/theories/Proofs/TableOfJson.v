(* Reading the effective country table off the merged JSON, to tie the_table (what every other
   theorem is about) to the model of registry.get applied to the raw files. *)
From Schwifty Require Import Lib.Base Lib.Lit Lib.Json Model.Data Model.Registry.
From Coq Require Import String.

Definition jstr (j : option json) : option text := match j with Some (JStr s) => Some s | _ => None end.
Definition jnum (j : option json) : option Z := match j with Some (JNum z) => Some z | _ => None end.

Definition opt_text_eqb (a b : option text) : bool :=
  match a, b with Some x, Some y => text_eqb x y | None, None => true | _, _ => false end.
Definition opt_Z_eqb (a b : option Z) : bool :=
  match a, b with Some x, Some y => Z.eqb x y | None, None => true | _, _ => false end.

Definition jrange (j : option json) : option (Z * Z) :=
  match j with Some (JArr [JNum a; JNum b]) => Some (a, b) | _ => None end.

Definition range_eqb (a b : option (Z * Z)) : bool :=
  match a, b with
  | Some (x1, y1), Some (x2, y2) => Z.eqb x1 x2 && Z.eqb y1 y2
  | None, None => true
  | _, _ => false
  end.

Fixpoint jstrs (l : list json) : option (list text) :=
  match l with
  | [] => Some []
  | JStr s :: r => match jstrs r with Some t => Some (s :: t) | None => None end
  | _ => None
  end.

Fixpoint texts_eqb (a b : list text) : bool :=
  match a, b with
  | [], [] => true
  | x :: a', y :: b' => text_eqb x y && texts_eqb a' b'
  | _, _ => false
  end.

Definition row_agrees (components : list text) (o : obj) (r : row) : bool :=
  opt_text_eqb (jstr (jget (tx "bban_spec") o)) (Some (r_bban_spec r))
  && opt_Z_eqb (jnum (jget (tx "bban_length") o)) (Some (r_bban_length r))
  && opt_Z_eqb (jnum (jget (tx "iban_length") o)) (Some (r_iban_length r))
  && match jget (tx "positions") o, r_positions r with
     | None, None => true
     | Some (JObj ps), Some ps' =>
       forallb (fun c => range_eqb (jrange (jget c ps)) (assoc c ps')) components
     | _, _ => false
     end
  && match jget (tx "bic_lookup_components") o, r_lookup r with
     | None, None => true
     | Some (JArr l), Some l' => match jstrs l with Some t => texts_eqb t l' | None => false end
     | _, _ => false
     end
  && forallb (fun c => opt_text_eqb (jstr (jget (tx "default_" ++ c) o)) (assoc c (r_defaults r))) components.

Definition table_agrees (components : list text) (eff : obj) (T : table) : bool :=
  forallb (fun r => match jget (r_cc r) eff with
                    | Some (JObj o) => row_agrees components o r
                    | _ => false
                    end) T
  && forallb (fun k => existsb (fun r => text_eqb (r_cc r) k) T) (jkeys eff).

Definition effective_agrees (components : list text) (files : list (bool * json)) (T : table) : bool :=
  match registry_get (fun ks => ks) files with
  | Ok (RDict eff) => table_agrees components eff T
  | _ => false
  end.
