(* Data obligations shared by several properties, discharged on the values the translator produced
   from the current tree (re-checked whenever Gen/ changes). *)
From Schwifty Require Import Lib.Base Lib.Regex Model.Clean Model.Data Model.Iban.
From Schwifty Require Import Spec.RegistrySpec Proofs.CleanFacts Proofs.IbanFacts Proofs.TotalFacts.
From Schwifty Require Import Gen.Env Gen.IbanData Gen.IbanCfg.

Lemma env_obl : env_wf the_env = true.
Proof. vm_cast_no_check (eq_refl true). Qed.

Lemma env_alpha_obl : env_alpha_ok the_env = true.
Proof. vm_cast_no_check (eq_refl true). Qed.

Lemma cfg_obl : cfg_ok the_iban_cfg = true.
Proof. vm_cast_no_check (eq_refl true). Qed.

Lemma table_obl : forallb (row_ok (ic_format_method the_iban_cfg)) the_table = true.
Proof. vm_cast_no_check (eq_refl true). Qed.

(* the national step of IBAN.validate is present and is the last one *)
Lemma steps_nat_obl :
  nat_last (ic_steps the_iban_cfg) = true
  /\ existsb (fun st => match st with SNational => true | _ => false end) (ic_steps the_iban_cfg) = true.
Proof. vm_cast_no_check (conj (eq_refl true) (eq_refl true)). Qed.

(* component positions lie inside the BBAN and never overlap *)
Lemma positions_obl : forallb positions_wf the_table = true.
Proof. vm_cast_no_check (eq_refl true). Qed.
