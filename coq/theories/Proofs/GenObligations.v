(* Data obligations shared by several properties, discharged on the values the translator produced
   from the current tree (re-checked whenever Gen/ changes). *)
From Schwifty Require Import Lib.Base Lib.Regex Model.Clean Model.Data Model.Iban.
From Schwifty Require Import Proofs.CleanFacts Proofs.IbanFacts.
From Schwifty Require Import Gen.Env Gen.IbanData Gen.IbanCfg.

Lemma env_obl : env_wf the_env = true.
Proof. vm_cast_no_check (eq_refl true). Qed.

Lemma env_alpha_obl : env_alpha_ok the_env = true.
Proof. vm_cast_no_check (eq_refl true). Qed.

Lemma cfg_obl : cfg_ok the_iban_cfg = true.
Proof. vm_cast_no_check (eq_refl true). Qed.

Lemma table_obl : forallb (row_ok (ic_format_method the_iban_cfg)) the_table = true.
Proof. vm_cast_no_check (eq_refl true). Qed.
