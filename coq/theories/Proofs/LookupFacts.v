(* C12: index refinement, candidate list, selection rule, invertibility — for any registry contents. *)
From Coq Require Import Lia.
From Schwifty Require Import Lib.Base Lib.Lit Lib.Regex Model.Clean Model.Data Model.Bic Model.Lookup Proofs.CleanFacts.
From Coq Require Import String.

Section IndexRefinement.
Context {K : Type}.
Variable key_eqb : K -> K -> bool.
Variable key_of : entry -> option K.
Hypothesis EQB : forall a b, key_eqb a b = true <-> a = b.

Lemma key_eqb_refl a : key_eqb a a = true.
Proof. apply EQB. reflexivity. Qed.

Lemma idx_get_add k k0 en idx :
  idx_get key_eqb k (idx_add key_eqb k0 en idx) =
  if key_eqb k k0 then Some (match idx_get key_eqb k0 idx with Some l => l ++ [en] | None => [en] end)
  else idx_get key_eqb k idx.
Proof using EQB.
  induction idx as [|[k' l] idx IH]; cbn [idx_add idx_get].
  - destruct (key_eqb k k0); reflexivity.
  - destruct (key_eqb k0 k') eqn:E0; cbn [idx_get].
    + apply EQB in E0. subst k'. destruct (key_eqb k k0); reflexivity.
    + destruct (key_eqb k k') eqn:E1.
      * apply EQB in E1. subst k'. destruct (key_eqb k k0) eqn:E2; [|reflexivity].
        apply EQB in E2. subst k0. rewrite key_eqb_refl in E0. discriminate.
      * exact IH.
Qed.

Definition step (idx : list (K * list entry)) (en : entry) :=
  match key_of en with Some k => idx_add key_eqb k en idx | None => idx end.

Lemma build_from R : forall idx k,
  idx_get key_eqb k (fold_left step R idx) =
  match idx_get key_eqb k idx with
  | Some l => Some (l ++ idx_filter key_eqb key_of k R)
  | None => match idx_filter key_eqb key_of k R with [] => None | l => Some l end
  end.
Proof using EQB.
  induction R as [|en R IH]; intros idx k; cbn [fold_left idx_filter filter].
  - destruct (idx_get key_eqb k idx); [rewrite app_nil_r|]; reflexivity.
  - rewrite IH. unfold step. destruct (key_of en) as [k0|] eqn:Ek.
    + rewrite idx_get_add. destruct (key_eqb k k0) eqn:E.
      * apply EQB in E. subst k0. fold (idx_filter key_eqb key_of k R).
        destruct (idx_get key_eqb k idx) as [l|]; [rewrite <- app_assoc|]; reflexivity.
      * fold (idx_filter key_eqb key_of k R). reflexivity.
    + fold (idx_filter key_eqb key_of k R). reflexivity.
Qed.

(* the dict-of-lists index returns, for every key, the entries with that key in file order; a key
   without entries is absent *)
Theorem index_lookup R k :
  idx_get key_eqb k (build_index key_eqb key_of R) =
  match idx_filter key_eqb key_of k R with [] => None | l => Some l end.
Proof using EQB. exact (build_from R [] k). Qed.

End IndexRefinement.

Lemma pair_eqb_spec a b : pair_eqb a b = true <-> a = b.
Proof.
  destruct a as [a1 a2], b as [b1 b2]. unfold pair_eqb. cbn [fst snd]. rewrite andb_true_iff, !text_eqb_eq.
  split; [intros [-> ->]; reflexivity|intro H; inversion H; auto].
Qed.

(* ---- candidates, selection, invertibility ---------------------------------------------------- *)

Section Lookups.
Variable e : env.
Variable bcfg : bic_cfg.
Variable countries : list text.
Variable R : banks.

(* every non-empty BIC of the registry is a valid BIC in compact form *)
Definition bics_valid : bool :=
  forallb (fun en => match e_bic en with
                     | Some b => if nonempty b
                                 then match bic_new e bcfg countries b false false with Ok b' => text_eqb b b' | _ => false end
                                 else true
                     | None => true
                     end) R.
Hypothesis VALID : bics_valid = true.

Definition listed_bics (l : list entry) : list text :=
  flat_map (fun en => match e_bic en with Some b => if nonempty b then [b] else [] | None => [] end) l.

Lemma filter_sub {A} (p : A -> bool) l x : In x (filter p l) -> In x l.
Proof. intro H. apply filter_In in H. tauto. Qed.

Lemma candidates_seq l :
  (forall en, In en l -> In en R) ->
  sequence (flat_map (fun en => match e_bic en with
                                | Some b => if nonempty b then [bic_new e bcfg countries b false false] else []
                                | None => []
                                end) l) = Ok (listed_bics l).
Proof using VALID.
  induction l as [|en l IH]; intro Hin; [reflexivity|]. cbn [flat_map listed_bics].
  assert (IH' := IH (fun x Hx => Hin x (or_intror Hx))).
  unfold bics_valid in VALID. rewrite forallb_forall in VALID. specialize (VALID en (Hin en (or_introl eq_refl))).
  destruct (e_bic en) as [b|]; [|exact IH']. destruct (nonempty b); [|exact IH'].
  cbn [app sequence]. destruct (bic_new e bcfg countries b false false) as [b'| |]; try discriminate.
  apply text_eqb_eq in VALID. subst b'. cbn [bind]. fold (listed_bics l). rewrite IH'. reflexivity.
Qed.

(* candidates = the non-empty BICs the registry lists for (cc, code), primary entries first, each
   group in file order; an unlisted pair raises InvalidBankCode *)
Theorem candidates_spec cc code :
  candidates e bcfg countries R cc code =
  match bank_code_entries R cc code with
  | [] => Err EInvalidBankCode
  | entries => Ok (listed_bics (primary_first entries))
  end.
Proof using VALID.
  unfold candidates. destruct (bank_code_entries R cc code) as [|en l] eqn:E; [reflexivity|].
  apply candidates_seq. intros x Hx. unfold primary_first in Hx. apply in_app_or in Hx.
  assert (Hsub : In x (en :: l)) by (destruct Hx as [Hx|Hx]; apply filter_sub in Hx; exact Hx).
  rewrite <- E in Hsub. unfold bank_code_entries, idx_filter in Hsub. apply filter_sub in Hsub. exact Hsub.
Qed.

Lemma max_text_in x l : In (max_text x l) (x :: l).
Proof.
  revert x. induction l as [|y l IH]; intro x; cbn [max_text]; [left; reflexivity|].
  destruct (IH (if text_ltb x y then y else x)) as [H|H].
  - destruct (text_ltb x y); [right; left|left]; exact H.
  - right; right; exact H.
Qed.

(* the single BIC chosen: one of the candidates; without branch code (8 characters) if any such
   candidate exists; else with branch XXX if any; else the first; a lone candidate is chosen *)
Theorem choice_spec cc code cands :
  candidates e bcfg countries R cc code = Ok cands ->
  match cands with
  | [] => from_bank_code e bcfg countries R cc code = Err EInvalidBankCode
  | [c] => from_bank_code e bcfg countries R cc code = Ok c
  | c0 :: _ =>
    exists c, from_bank_code e bcfg countries R cc code = Ok c /\ In c cands
      /\ let no_branch := filter (fun b => negb (nonempty (bic_branch_code bcfg b))) cands in
         let xxx := filter (fun b => text_eqb (bic_branch_code bcfg b) (tx "XXX")) cands in
         match no_branch, xxx with
         | _ :: _, _ => In c no_branch
         | [], _ :: _ => In c xxx
         | [], [] => c = c0
         end
  end.
Proof.
  intro H. unfold from_bank_code. rewrite H. cbn [bind].
  destruct cands as [|c0 [|c1 rest]]; try reflexivity.
  set (cands := c0 :: c1 :: rest).
  destruct (filter (fun b => negb (nonempty (bic_branch_code bcfg b))) cands) as [|g gs] eqn:E1.
  - destruct (filter (fun b => text_eqb (bic_branch_code bcfg b) (tx "XXX")) cands) as [|g gs] eqn:E2.
    + exists c0. repeat split. left; reflexivity.
    + exists (max_text g gs). split; [reflexivity|]. pose proof (max_text_in g gs) as Hin. split; [|exact Hin].
      rewrite <- E2 in Hin. apply filter_sub in Hin. exact Hin.
  - exists (max_text g gs). split; [reflexivity|]. pose proof (max_text_in g gs) as Hin. split; [|exact Hin].
    rewrite <- E1 in Hin. apply filter_sub in Hin. exact Hin.
Qed.

Lemma insert_sorted_in x y l : In y (insert_sorted x l) <-> y = x \/ In y l.
Proof.
  induction l as [|z l IH]; cbn [insert_sorted].
  - simpl. split; [intros [H|[]]; auto|intros [H|[]]; auto].
  - destruct (text_eqb x z) eqn:E.
    + apply text_eqb_eq in E. subst z. simpl. split; [auto|]. intros [->|H]; auto.
    + destruct (text_ltb x z); simpl.
      * split; [intros [H|H]; auto|intros [H|H]; auto].
      * rewrite IH. split; [intros [H|[H|H]]; auto|intros [H|[H|H]]; auto].
Qed.

Lemma sorted_set_in y l : In y (sorted_set l) <-> In y l.
Proof.
  unfold sorted_set. assert (H : forall acc, In y (fold_left (fun acc x => insert_sorted x acc) l acc) <-> In y acc \/ In y l).
  { induction l as [|x l IH]; intro acc; cbn [fold_left]; [simpl; tauto|].
    rewrite IH, insert_sorted_in. simpl. split; [intros [[H|H]|H]|intros [H|[H|H]]]; auto. }
  rewrite H. simpl. tauto.
Qed.

(* the mapping is invertible: every candidate lists the bank code among its domestic bank codes and
   reports that it exists *)
Theorem invertible cc code b :
  nonempty cc = true -> nonempty code = true ->
  In b (listed_bics (primary_first (bank_code_entries R cc code))) ->
  In code (domestic_bank_codes R b) /\ bic_exists R b = true.
Proof.
  intros Hcc Hcode Hin. unfold listed_bics in Hin. apply in_flat_map in Hin as (en & Hen & Hb).
  destruct (e_bic en) as [b0|] eqn:Eb; [|destruct Hb]. destruct (nonempty b0) eqn:En; [|destruct Hb].
  destruct Hb as [Hb|[]]. subst b0.
  unfold primary_first in Hen. apply in_app_or in Hen.
  assert (He : In en (bank_code_entries R cc code)) by (destruct Hen as [H|H]; apply filter_sub in H; exact H).
  unfold bank_code_entries, idx_filter in He. apply filter_In in He as [HR Hk].
  unfold key_bank_code in Hk. destruct (nonempty (e_cc en) && nonempty (e_code en)); [|discriminate].
  apply pair_eqb_spec in Hk. inversion Hk; subst.
  assert (Hbe : In en (bic_entries R b)).
  { unfold bic_entries, idx_filter. apply filter_In. split; [exact HR|]. unfold key_bic. rewrite Eb, En.
    apply text_eqb_refl. }
  split.
  - unfold domestic_bank_codes. apply sorted_set_in. apply in_map. exact Hbe.
  - unfold bic_exists. destruct (bic_entries R b); [destruct Hbe|reflexivity].
Qed.

End Lookups.
