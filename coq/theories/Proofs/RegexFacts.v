(* Correctness of the derivative matcher w.r.t. a denotational semantics, and the characterisations
   used by the property proofs. *)
From Coq Require Import Lia.
From Schwifty Require Import Lib.Base Lib.Regex.

Inductive lang : re -> text -> Prop :=
| LEps : lang Eps []
| LChr k c : in_cls c k = true -> lang (Chr k) [c]
| LSeq a b s t : lang a s -> lang b t -> lang (Seq a b) (s ++ t)
| LAltL a b s : lang a s -> lang (Alt a b) s
| LAltR a b s : lang b s -> lang (Alt a b) s
| LStar0 a : lang (Star a) []
| LStarS a s t : lang a s -> lang (Star a) t -> lang (Star a) (s ++ t).

Lemma lang_seq_iff a b s : lang (Seq a b) s <-> exists u v, s = u ++ v /\ lang a u /\ lang b v.
Proof.
  split.
  - intro H; inversion H; subst; eauto.
  - intros (u & v & -> & Hu & Hv); constructor; assumption.
Qed.

Lemma nullable_lang r : nullable r = true <-> lang r [].
Proof.
  induction r; simpl; split; intro H; try discriminate; try solve [constructor].
  - inversion H.
  - inversion H.
  - apply andb_true_iff in H as [Ha Hb].
    change (@nil N) with (@nil N ++ []). constructor; [apply IHr1|apply IHr2]; assumption.
  - apply lang_seq_iff in H as (u & v & Heq & Hu & Hv).
    destruct u; [|discriminate]. destruct v; [|discriminate].
    apply andb_true_iff; split; [apply IHr1|apply IHr2]; assumption.
  - apply orb_true_iff in H as [Ha|Hb]; [apply LAltL, IHr1|apply LAltR, IHr2]; assumption.
  - apply orb_true_iff. inversion H; subst; [left; apply IHr1|right; apply IHr2]; assumption.
Qed.

Lemma lang_seq_smart a b s : lang (seq a b) s <-> lang (Seq a b) s.
Proof.
  split; intro H.
  - destruct a; destruct b; simpl in H; try exact H; try solve [inversion H];
      try (change s with ([] ++ s); constructor; [constructor|exact H]).
  - apply lang_seq_iff in H as (u & v & -> & Hu & Hv).
    destruct a; try solve [inversion Hu];
      destruct b; simpl; try solve [inversion Hv]; try (constructor; assumption);
      inversion Hu; subst; simpl; try assumption.
Qed.

Lemma lang_alt_smart a b s : lang (alt a b) s <-> lang (Alt a b) s.
Proof.
  split; intro H.
  - destruct a; destruct b; simpl in H; try exact H;
      try solve [apply LAltL; exact H]; try solve [apply LAltR; exact H].
  - inversion H; subst.
    + destruct a; try solve [match goal with X : lang Emp _ |- _ => inversion X end];
        destruct b; simpl; try assumption; try (apply LAltL; assumption).
    + destruct b; try solve [match goal with X : lang Emp _ |- _ => inversion X end];
        destruct a; simpl; try assumption; try (apply LAltR; assumption).
Qed.

Lemma star_cons_inv a c s :
  lang (Star a) (c :: s) -> exists u v, s = u ++ v /\ lang a (c :: u) /\ lang (Star a) v.
Proof.
  intro H. remember (Star a) as r eqn:Hr. remember (c :: s) as w eqn:Hw.
  revert c s Hw. induction H; intros c0 s0 Hw; try discriminate.
  inversion Hr; subst a0.
  destruct s as [|x s'].
  - simpl in Hw. apply IHlang2; auto.
  - simpl in Hw. inversion Hw; subst. exists s', t. auto.
Qed.

Lemma deriv_lang r : forall c s, lang (deriv c r) s <-> lang r (c :: s).
Proof.
  induction r; intros c s; simpl.
  - split; intro H; inversion H.
  - split; intro H; inversion H.
  - destruct (in_cls c k) eqn:E; split; intro H.
    + inversion H; subst. constructor. exact E.
    + inversion H; subst. constructor.
    + inversion H.
    + inversion H; subst. congruence.
  - destruct (nullable r1) eqn:En.
    + rewrite lang_alt_smart. split; intro H.
      * inversion H; subst.
        -- match goal with X : lang (seq _ _) _ |- _ => apply lang_seq_smart in X; inversion X; subst end.
           match goal with X : lang (deriv c r1) _ |- _ => apply IHr1 in X end.
           change (c :: s0 ++ t) with ((c :: s0) ++ t). constructor; assumption.
        -- match goal with X : lang (deriv c r2) _ |- _ => apply IHr2 in X end.
           change (c :: s) with ([] ++ c :: s). constructor; [apply nullable_lang; exact En|assumption].
      * apply lang_seq_iff in H as (u & v & Heq & Hu & Hv).
        destruct u as [|x u'].
        -- simpl in *. subst. apply LAltR. apply IHr2. exact Hv.
        -- simpl in Heq. inversion Heq; subst. apply LAltL. apply lang_seq_smart.
           constructor; [apply IHr1; exact Hu|exact Hv].
    + rewrite lang_seq_smart. split; intro H.
      * inversion H; subst.
        match goal with X : lang (deriv c r1) _ |- _ => apply IHr1 in X end.
        change (c :: s0 ++ t) with ((c :: s0) ++ t). constructor; assumption.
      * apply lang_seq_iff in H as (u & v & Heq & Hu & Hv).
        destruct u as [|x u'].
        -- apply nullable_lang in Hu. congruence.
        -- simpl in Heq. inversion Heq; subst. constructor; [apply IHr1; exact Hu|exact Hv].
  - rewrite lang_alt_smart. split; intro H.
    + inversion H; subst; [apply LAltL, IHr1|apply LAltR, IHr2]; assumption.
    + inversion H; subst; [apply LAltL, IHr1|apply LAltR, IHr2]; assumption.
  - rewrite lang_seq_smart. split; intro H.
    + inversion H; subst.
      match goal with X : lang (deriv c r) _ |- _ => apply IHr in X end.
      change (c :: s0 ++ t) with ((c :: s0) ++ t). constructor; assumption.
    + apply star_cons_inv in H as (u & v & -> & Hu & Hv).
      constructor; [apply IHr; exact Hu|exact Hv].
Qed.

Theorem matches_lang r s : matches r s = true <-> lang r s.
Proof.
  revert r. induction s as [|c s IH]; intro r; simpl.
  - apply nullable_lang.
  - rewrite IH. apply deriv_lang.
Qed.

(* ---------------------------------------------------------------------------------------- *)


Lemma lang_rep_chr n k s :
  lang (rep n (Chr k)) s <-> length s = n /\ forallb (fun c => in_cls c k) s = true.
Proof.
  revert s. induction n as [|n IH]; intro s; simpl.
  - split.
    + intro H; inversion H; subst. auto.
    + intros [Hl _]. destruct s; [constructor|discriminate].
  - rewrite lang_seq_iff. split.
    + intros (u & v & -> & Hu & Hv). inversion Hu; subst. apply IH in Hv as [Hl Hf].
      simpl. split; [lia|]. rewrite H0. exact Hf.
    + intros [Hl Hf]. destruct s as [|c s]; [discriminate|].
      simpl in Hf. apply andb_true_iff in Hf as [Hc Hf].
      exists [c], s. split; [reflexivity|]. split; [constructor; exact Hc|].
      apply IH. split; [simpl in Hl; lia|exact Hf].
Qed.

Lemma lang_eps s : lang Eps s <-> s = [].
Proof. split; [intro H; inversion H; reflexivity|intros ->; constructor]. Qed.

Lemma lang_upto0 r s : lang (upto 0 r) s <-> s = [].
Proof. simpl. apply lang_eps. Qed.

(* prefix matching = some prefix is in the language and the rest is an acceptable end *)
Lemma prefix_match_spec r eol s :
  prefix_match r eol s = true <->
  exists p q, s = p ++ q /\ lang r p /\ end_ok eol q = true.
Proof.
  revert r. induction s as [|c s IH]; intro r; simpl.
  - rewrite orb_false_r, andb_true_iff, nullable_lang. split.
    + intros [Hn He]. exists [], []. auto.
    + intros (p & q & Heq & Hp & Hq). destruct p; [|discriminate]. destruct q; [|discriminate]. auto.
  - rewrite orb_true_iff, andb_true_iff, nullable_lang, IH. split.
    + intros [[Hn He]|(p & q & -> & Hp & Hq)].
      * exists [], (c :: s). auto.
      * exists (c :: p), q. split; [reflexivity|]. split; [apply deriv_lang; exact Hp|exact Hq].
    + intros (p & q & Heq & Hp & Hq). destruct p as [|x p].
      * simpl in Heq. subst q. left; auto.
      * simpl in Heq. inversion Heq; subst. right. exists p, q.
        split; [reflexivity|]. split; [apply deriv_lang; exact Hp|exact Hq].
Qed.

(* when the text has no newline, `^body$` applied with match is a full match *)
Lemma prefix_match_eol_full r s :
  existsb (N.eqb nl) s = false ->
  prefix_match r true s = matches r s.
Proof.
  intro Hnl. apply eq_true_iff_eq. rewrite prefix_match_spec, matches_lang. split.
  - intros (p & q & -> & Hp & Hq). simpl in Hq.
    destruct q as [|c [|d q]]; try discriminate.
    + rewrite app_nil_r. exact Hp.
    + rewrite existsb_app in Hnl. apply orb_false_iff in Hnl as [_ Hq'].
      apply N.eqb_eq in Hq. subst c. simpl in Hq'. discriminate.
  - intro H. exists s, []. rewrite app_nil_r. auto.
Qed.
