(* C06: model of the national algorithms = published rules.  Part 1: generic reductions of
   BBAN.validate_national_checksum, and the ISO 7064 mod 97-10 families. *)
From Coq Require Import Lia ZifyBool ZifyN.
From Schwifty Require Import Lib.Base Lib.Lit Lib.Regex Model.Clean Model.Data Model.Iban Model.Bban Model.National
  Model.Algorithms Model.Lookup.
From Schwifty Require Import Spec.Iso13616 Spec.RegistrySpec Spec.NationalPublished.
From Schwifty Require Import Proofs.CleanFacts Proofs.NumFacts Proofs.RunsFacts Proofs.IbanFacts Proofs.IbanTheorems Proofs.DecompFacts.
From Coq Require Import String.
Ltac Zify.zify_post_hook ::= Z.to_euclidean_division_equations.

(* checksum.numerify as modelled for the national algorithms is the function modelled for the IBAN check *)
Lemma numerify_go_same cfg s : forall acc,
  Model.National.numerify_go (ic_alphabet cfg) acc s = Model.Iban.numerify_go cfg acc s.
Proof. induction s as [|c s IH]; intro acc; cbn; [reflexivity|]. destruct (index_of c (ic_alphabet cfg)); [apply IH|reflexivity]. Qed.

Lemma numerify_same cfg s : Model.National.numerify (ic_alphabet cfg) s = Model.Iban.numerify cfg s.
Proof. unfold Model.National.numerify, Model.Iban.numerify. destruct s; [reflexivity|apply numerify_go_same]. Qed.

(* only German bank entries name a checksum algorithm: every other country uses "<cc>:default" *)
Definition algo_only_for (cc0 : text) (R : banks) : bool :=
  forallb (fun en => text_eqb (e_cc en) cc0 || match e_algo en with None => true | Some _ => false end) R.

Section Reduce.
Variable T : table.
Variable find_algo : text -> text -> option algo.
Variable R : banks.
Hypothesis ONLYDE : algo_only_for (tx "DE") R = true.

Lemma bank_index_cc cc key en : In en (bank_code_entries R cc key) -> e_cc en = cc.
Proof.
  unfold bank_code_entries, idx_filter. intro H. apply filter_In in H as [_ H]. unfold key_bank_code in H.
  destruct (nonempty (e_cc en) && nonempty (e_code en)); [|discriminate].
  unfold pair_eqb in H. cbn [fst snd] in H. apply andb_true_iff in H as [H _]. apply text_eqb_eq in H. congruence.
Qed.

(* outside Germany the algorithm consulted is the country's default one, applied to the slices at the
   published positions *)
Lemma validate_national_default cc r b :
  text_eqb cc (tx "DE") = false -> find_row T cc = Some r ->
  validate_national T find_algo (bank_code_entries R) cc b =
  match find_algo cc k_default with
  | None => Ok true
  | Some al =>
    let comp c := let p := position_range r c in get_slice b (fst p) (Some (snd p)) in
    do ok <- al_validate al (map comp (al_accepts al)) (comp k_national);
    if ok then Ok true else Err EInvalidBBANChecksum
  end.
Proof using ONLYDE.
  intros Hde Er. unfold validate_national, bban_bank, bban_lookup_key, get_spec. rewrite Er. cbn [bind].
  set (key := concat_text _).
  assert (Hname : (match (match bank_code_entries R cc key with [] => None | x :: _ => Some x end) with
                   | Some en => match e_algo en with Some a => a | None => k_default end
                   | None => k_default end) = k_default).
  { destruct (bank_code_entries R cc key) as [|en l] eqn:E; [reflexivity|].
    assert (Hin : In en (bank_code_entries R cc key)) by (rewrite E; left; reflexivity).
    pose proof (bank_index_cc _ _ _ Hin) as Hcc.
    unfold bank_code_entries, idx_filter in Hin. apply filter_In in Hin as [HinR _].
    unfold algo_only_for in ONLYDE. rewrite forallb_forall in ONLYDE. specialize (ONLYDE en HinR).
    rewrite Hcc, Hde in ONLYDE. cbn [orb] in ONLYDE. destruct (e_algo en); [discriminate|reflexivity]. }
  rewrite Hname. destruct (find_algo cc k_default); reflexivity.
Qed.

End Reduce.

(* ---- slices of a conforming BBAN ------------------------------------------------------------- *)

Lemma firstn_skipn_glue {A} (l : list A) : forall a c, a <= c ->
  firstn a l ++ firstn (c - a) (skipn a l) = firstn c l.
Proof.
  induction l as [|x l IH]; intros [|a] [|c] H; simpl; try reflexivity; try lia.
  - destruct (c - a); reflexivity.
  - f_equal. apply IH. lia.
Qed.

(* the digits of a number string and the letter expansion agree on digit strings *)
Lemma iso_num_digits s : forallb is_ascii_digit s = true -> iso_num s = dec s.
Proof.
  unfold iso_num, dec. generalize 0%Z. induction s as [|c s IH]; intros acc H; [reflexivity|].
  cbn [forallb fold_left] in *. apply andb_true_iff in H as [Hc Hs]. rewrite Hc. unfold dv. apply IH. exact Hs.
Qed.

(* ---- layout: the fields an algorithm reads, one after the other, are a prefix of the BBAN and the check
   field is what follows ------------------------------------------------------------------------ *)

(* ranges of the accepted components in order are contiguous from 0 (absent components have the empty range
   (0,0) and contribute nothing), ending where the check field [k, k+w) starts; the check field ends the BBAN *)
Fixpoint contiguous (ps : list (Z * Z)) (from : Z) : option Z :=
  match ps with
  | [] => Some from
  | (s, e') :: r =>
    if Z.eqb s 0 && Z.eqb e' 0 then contiguous r from
    else if Z.eqb s from && Z.leb s e' then contiguous r e' else None
  end.

Definition layout_prefix (r : row) (accepts : list text) (w : Z) : bool :=
  let n := r_bban_length r in
  match contiguous (map (position_range r) accepts) 0 with
  | Some k => Z.eqb k (n - w) && Z.eqb (fst (position_range r k_national)) (n - w)
              && Z.eqb (snd (position_range r k_national)) n && Z.leb 0 (n - w) && Z.leb 0 w
  | None => false
  end.

Lemma slice_empty b : get_slice b 0 (Some 0%Z) = [].
Proof.
  unfold get_slice. destruct (0 <? len b)%Z; [|reflexivity]. cbn [andb].
  destruct (0 <=? len b)%Z; [|reflexivity]. unfold py_slice. rewrite Z.sub_diag. reflexivity.
Qed.

Lemma contiguous_slices b : forall ps from k,
  (0 <= from)%Z -> contiguous ps from = Some k -> (k <= len b)%Z ->
  (from <= k)%Z /\
  firstn (Z.to_nat from) b ++ List.concat (map (fun p => get_slice b (fst p) (Some (snd p))) ps) = firstn (Z.to_nat k) b.
Proof.
  induction ps as [|[s e'] ps IH]; intros from k Hf Hc Hk; cbn [contiguous map List.concat] in *.
  - inversion Hc; subst. split; [lia|]. apply app_nil_r.
  - destruct (Z.eqb s 0 && Z.eqb e' 0) eqn:E0.
    + apply andb_true_iff in E0 as [Hs He]. apply Z.eqb_eq in Hs, He. subst. cbn [fst snd].
      rewrite slice_empty. cbn [app]. apply IH; assumption.
    + destruct (Z.eqb s from && Z.leb s e') eqn:E1; [|discriminate].
      apply andb_true_iff in E1 as [Hs Hle]. apply Z.eqb_eq in Hs. apply Z.leb_le in Hle. subst s.
      destruct (IH e' k ltac:(lia) Hc Hk) as [Hek Heq]. split; [lia|].
      cbn [fst snd]. rewrite get_slice_sub by lia. rewrite app_assoc.
      replace (Z.to_nat (e' - from)) with (Z.to_nat e' - Z.to_nat from) by lia.
      rewrite firstn_skipn_glue by lia. exact Heq.
Qed.

Lemma layout_slices r accepts w b :
  layout_prefix r accepts w = true -> len b = r_bban_length r ->
  List.concat (map (fun c => let p := position_range r c in get_slice b (fst p) (Some (snd p))) accepts)
    = firstn (Z.to_nat (r_bban_length r - w)) b
  /\ (let p := position_range r k_national in get_slice b (fst p) (Some (snd p)))
    = skipn (Z.to_nat (r_bban_length r - w)) b.
Proof.
  intros H Hl. unfold layout_prefix in H.
  destruct (contiguous (map (position_range r) accepts) 0) as [k|] eqn:Ec; [|discriminate].
  repeat (apply andb_true_iff in H as [H ?]).
  apply Z.eqb_eq in H. subst k.
  match goal with X : Z.eqb (fst _) _ = true |- _ => apply Z.eqb_eq in X; rename X into Hs end.
  match goal with X : Z.eqb (snd _) _ = true |- _ => apply Z.eqb_eq in X; rename X into He end.
  match goal with X : Z.leb 0 (_ - _) = true |- _ => apply Z.leb_le in X; rename X into Hnw end.
  match goal with X : Z.leb 0 w = true |- _ => apply Z.leb_le in X; rename X into Hw end.
  split.
  - destruct (contiguous_slices b (map (position_range r) accepts) 0 _ ltac:(lia) Ec ltac:(lia)) as [_ Heq].
    cbn [Z.to_nat firstn app] in Heq. rewrite map_map in Heq. exact Heq.
  - cbv zeta. rewrite Hs, He. rewrite get_slice_sub by lia.
    replace (Z.to_nat (r_bban_length r - (r_bban_length r - w))) with (List.length (skipn (Z.to_nat (r_bban_length r - w)) b)).
    + apply firstn_all.
    + rewrite skipn_length. unfold len in Hl. lia.
Qed.

(* ---- ISO 7064 mod 97-10 family (BA ME MK PT RS SI TL) ----------------------------------------- *)

Section IsoFamily.
Variable cfg : iban_cfg.
Hypothesis ALPHA : ic_alphabet cfg = std_alphabet.

Lemma dec_two (k : text) d1 d2 : k = [d1; d2] -> dec k = (dv d1 * 10 + dv d2)%Z.
Proof. intros ->. unfold dec. simpl. lia. Qed.

(* body: the part covered by the accepted fields (0-9A-Z), key: the two check digits *)
Lemma iso_default_validate cs body d1 d2 :
  concat_text cs = body -> body <> [] -> forallb in_alpha body = true ->
  is_ascii_digit d1 = true -> is_ascii_digit d2 = true ->
  default_validate (iso_compute (ic_alphabet cfg)) cs [d1; d2] = Ok (pub_iso97 (body ++ [d1; d2])).
Proof using ALPHA.
  intros Hcs Hne Hal D1 D2. unfold default_validate, iso_compute, iso_family, pre_default.
  rewrite Hcs, numerify_same, (numerify_nonempty cfg ALPHA _ Hne), Hal. cbn [bind].
  f_equal. set (M := iso_num body).
  replace ((M * 100) mod 97)%Z with ((M * 100) mod 97)%Z by reflexivity.
  pose proof (check_value_range M) as Hv. rewrite two_digits_fmt by lia.
  unfold pub_iso97.
  assert (Hn : List.length (body ++ [d1; d2]) - 2 = List.length body) by (rewrite app_length; simpl; lia).
  unfold sl. rewrite Hn. replace (List.length (body ++ [d1; d2]) - List.length body) with 2 by (rewrite app_length; simpl; lia).
  rewrite skipn_app, skipn_all, Nat.sub_diag. cbn [skipn app firstn].
  rewrite (dec_two [d1; d2] d1 d2 eq_refl).
  rewrite iso_num_from, iso_from_app, (iso_from_digits _ d1 d2 D1 D2). change (iso_from 0 body) with M.
  set (dd := (Z.of_N (d1 - 48) * 10 + Z.of_N (d2 - 48))%Z). unfold dv. fold dd.
  assert (Hdd : (0 <= dd <= 99)%Z) by (unfold dd; unfold is_ascii_digit, c0, c9 in D1, D2; lia).
  pose proof (mod97_unique M dd Hdd) as HU.
  destruct (text_eqb (two_digits (98 - (M * 100) mod 97)) [d1; d2]) eqn:E.
  - apply text_eqb_eq in E. rewrite <- (two_digits_inv d1 d2 D1 D2) in E. fold dd in E.
    destruct (two_digits_digits dd Hdd) as (x1 & x2 & Hx & _ & _ & Hxv).
    destruct (two_digits_digits (98 - (M * 100) mod 97)%Z ltac:(lia)) as (y1 & y2 & Hy & _ & _ & Hyv).
    rewrite Hx, Hy in E. inversion E; subst y1 y2.
    assert (Heq : dd = (98 - (M * 100) mod 97)%Z) by lia.
    apply HU in Heq as [Hm Hr]. symmetry. rewrite Hm. cbn [Z.eqb Pos.eqb andb]. lia.
  - symmetry. apply not_true_iff_false. intro Hp.
    apply andb_true_iff in Hp as [Hp H98]. apply andb_true_iff in Hp as [Hm H2]. apply Z.eqb_eq in Hm.
    assert (Heq : dd = (98 - (M * 100) mod 97)%Z) by (apply HU; split; [exact Hm|lia]).
    rewrite <- Heq in E. unfold dd in E. rewrite (two_digits_inv d1 d2 D1 D2), text_eqb_refl in E. discriminate.
Qed.

End IsoFamily.

(* ---- a conforming BBAN splits into an alphanumeric body and two check digits ------------------- *)

Definition ends_with_two_digits (r : row) : bool :=
  match row_kinds r with
  | Some kds => match rev kds with Kn :: Kn :: _ :: _ => true | _ => false end
  | None => false
  end.

Lemma conforms_app ks1 : forall ks2 b,
  conforms (ks1 ++ ks2) b = true ->
  conforms ks1 (firstn (List.length ks1) b) = true /\ conforms ks2 (skipn (List.length ks1) b) = true.
Proof.
  induction ks1 as [|k ks1 IH]; intros ks2 b H; cbn [app List.length firstn skipn] in *.
  - split; [reflexivity|exact H].
  - destruct b as [|c b]; [discriminate|]. cbn [conforms] in H. apply andb_true_iff in H as [Hc H].
    destruct (IH ks2 b H) as [H1 H2]. cbn [conforms]. rewrite Hc, H1. auto.
Qed.

Lemma split_body_key cfg T (TAB : forallb (row_ok (ic_format_method cfg)) T = true) cc r b :
  find_row T cc = Some r -> conforms_row r b = true -> ends_with_two_digits r = true ->
  exists body d1 d2, b = body ++ [d1; d2] /\ body <> [] /\ forallb in_alpha body = true
    /\ is_ascii_digit d1 = true /\ is_ascii_digit d2 = true
    /\ len b = r_bban_length r
    /\ firstn (Z.to_nat (r_bban_length r - 2)) b = body /\ skipn (Z.to_nat (r_bban_length r - 2)) b = [d1; d2].
Proof.
  intros Er Hc He. pose proof (conforms_row_alpha cfg T TAB _ _ _ Er Hc) as Hal.
  unfold conforms_row in Hc. unfold ends_with_two_digits in He.
  destruct (row_kinds r) as [kds|]; [|discriminate].
  apply andb_true_iff in Hc as [Hl Hc]. apply Z.eqb_eq in Hl.
  destruct (rev kds) as [|k1 [|k2 [|k3 rest]]] eqn:Er';
    [discriminate|destruct k1; discriminate|destruct k1, k2; discriminate|].
  destruct k1; try discriminate. destruct k2; try discriminate.
  assert (Hk : kds = rev (k3 :: rest) ++ [Kn; Kn]).
  { rewrite <- (rev_involutive kds), Er'. cbn [rev]. rewrite <- !app_assoc. reflexivity. }
  rewrite Hk in Hc. destruct (conforms_app _ _ _ Hc) as [H1 H2].
  set (n := List.length (rev (k3 :: rest))) in *.
  assert (Hlen : List.length b = n + 2).
  { apply conforms_length in Hc. rewrite Hc, app_length. reflexivity. }
  assert (Hn : 1 <= n) by (unfold n; rewrite rev_length; simpl; lia).
  destruct (skipn n b) as [|d1 [|d2 [|x t]]] eqn:Es; cbn [conforms] in H2; try discriminate;
    try (rewrite ?andb_false_r in H2; discriminate).
  apply andb_true_iff in H2 as [D1 H2]. apply andb_true_iff in H2 as [D2 _]. cbn [kind_ok] in D1, D2.
  exists (firstn n b), d1, d2.
  assert (Hb : b = firstn n b ++ [d1; d2]) by (rewrite <- Es; symmetry; apply firstn_skipn).
  assert (Hz : Z.to_nat (r_bban_length r - 2) = n) by (unfold len in Hl; lia).
  repeat split; try assumption.
  - intro Hnil. assert (List.length (firstn n b) = 0) by (rewrite Hnil; reflexivity).
    rewrite firstn_length in H. lia.
  - rewrite Hb in Hal. rewrite forallb_app in Hal. apply andb_true_iff in Hal as [Hal _]. exact Hal.
  - rewrite Hz. reflexivity.
  - rewrite Hz. exact Es.
Qed.

(* ---- comparing a formatted two-digit value with two given digits --------------------------------- *)

Lemma fmt2_eq v d1 d2 :
  (0 <= v <= 99)%Z -> is_ascii_digit d1 = true -> is_ascii_digit d2 = true ->
  text_eqb (fmt0d 2 v) [d1; d2] = Z.eqb (Z.of_N (d1 - 48) * 10 + Z.of_N (d2 - 48)) v.
Proof.
  intros Hv D1 D2. rewrite two_digits_fmt by exact Hv.
  set (dd := (Z.of_N (d1 - 48) * 10 + Z.of_N (d2 - 48))%Z).
  assert (Hdd : (0 <= dd <= 99)%Z) by (unfold dd; unfold is_ascii_digit, c0, c9 in D1, D2; lia).
  destruct (Z.eqb_spec dd v) as [<-|Hne].
  - unfold dd. rewrite (two_digits_inv d1 d2 D1 D2). apply text_eqb_refl.
  - destruct (text_eqb (two_digits v) [d1; d2]) eqn:E; [|reflexivity]. exfalso. apply Hne.
    apply text_eqb_eq in E. rewrite <- (two_digits_inv d1 d2 D1 D2) in E. fold dd in E.
    destruct (two_digits_digits dd Hdd) as (x1 & x2 & Hx & _ & _ & Hxv).
    destruct (two_digits_digits v Hv) as (y1 & y2 & Hy & _ & _ & Hyv).
    rewrite Hx, Hy in E. inversion E; subst. lia.
Qed.

Lemma dec_app a b : dec (a ++ b) = fold_left (fun acc c => (acc * 10 + dv c)%Z) b (dec a).
Proof. unfold dec. apply fold_left_app. Qed.

Lemma dec_app2 a d1 d2 : dec (a ++ [d1; d2]) = (dec a * 100 + (dv d1 * 10 + dv d2))%Z.
Proof. rewrite dec_app. cbn [fold_left]. lia. Qed.

Lemma digits_alpha s : forallb is_ascii_digit s = true -> forallb in_alpha s = true.
Proof.
  rewrite !forallb_forall. intros H c Hc. unfold in_alpha. rewrite (H c Hc). reflexivity.
Qed.

Lemma sl_key body d1 d2 :
  sl (List.length (body ++ [d1; d2]) - 2) (List.length (body ++ [d1; d2])) (body ++ [d1; d2]) = [d1; d2].
Proof.
  assert (Hn : List.length (body ++ [d1; d2]) - 2 = List.length body) by (rewrite app_length; simpl; lia).
  unfold sl. rewrite Hn. replace (List.length (body ++ [d1; d2]) - List.length body) with 2 by (rewrite app_length; simpl; lia).
  rewrite skipn_app, skipn_all, Nat.sub_diag. reflexivity.
Qed.

(* ---- RIB key, numeric: Mauritania, Tunisia ------------------------------------------------------- *)

Section Families.
Variable cfg : iban_cfg.
Hypothesis ALPHA : ic_alphabet cfg = std_alphabet.

Lemma variant_default_validate cs body d1 d2 :
  concat_text cs = body -> body <> [] -> forallb is_ascii_digit body = true ->
  is_ascii_digit d1 = true -> is_ascii_digit d2 = true ->
  default_validate (variant_compute (ic_alphabet cfg)) cs [d1; d2] = Ok (pub_rib_numeric (body ++ [d1; d2])).
Proof using ALPHA.
  intros Hcs Hne Hd D1 D2. unfold default_validate, variant_compute, iso_family, pre_default.
  rewrite Hcs, numerify_same, (numerify_nonempty cfg ALPHA _ Hne), (digits_alpha _ Hd). cbn [bind].
  rewrite (iso_num_digits _ Hd). set (M := dec body). f_equal.
  assert (Hv : (0 <= 97 - (M * 100) mod 97 <= 99)%Z) by lia.
  rewrite (fmt2_eq _ d1 d2 Hv D1 D2).
  unfold pub_rib_numeric. rewrite sl_key, dec_app2. fold M.
  rewrite (dec_two [d1; d2] d1 d2 eq_refl). unfold dv.
  set (dd := (Z.of_N (d1 - 48) * 10 + Z.of_N (d2 - 48))%Z).
  assert (Hdd : (0 <= dd <= 99)%Z) by (unfold dd; unfold is_ascii_digit, c0, c9 in D1, D2; lia).
  destruct (Z.eqb_spec dd (97 - (M * 100) mod 97)) as [He|Hne'].
  - symmetry. replace ((M * 100 + dd) mod 97 =? 0)%Z with true by lia. cbn [andb]. lia.
  - symmetry. apply not_true_iff_false. intro Hp.
    apply andb_true_iff in Hp as [Hp H97]. apply andb_true_iff in Hp as [Hm H1]. lia.
Qed.

(* ---- Belgium -------------------------------------------------------------------------------------- *)

Lemma be_default_validate cs body d1 d2 :
  concat_text cs = body -> List.length body = 10 -> forallb is_ascii_digit body = true ->
  is_ascii_digit d1 = true -> is_ascii_digit d2 = true ->
  default_validate (be_compute (ic_alphabet cfg)) cs [d1; d2] = Ok (pub_be (body ++ [d1; d2])).
Proof using ALPHA.
  intros Hcs Hlen Hd D1 D2. unfold default_validate, be_compute, iso_family, pre_default.
  assert (Hne : body <> []) by (destruct body; [discriminate|congruence]).
  rewrite Hcs, numerify_same, (numerify_nonempty cfg ALPHA _ Hne), (digits_alpha _ Hd). cbn [bind].
  rewrite (iso_num_digits _ Hd). set (M := dec body). f_equal.
  replace ((M * 100) / 100)%Z with M by lia.
  set (v := (if (M mod 97 =? 0)%Z then 97 else M mod 97)%Z).
  assert (Hv : (0 <= v <= 99)%Z) by (unfold v; destruct (M mod 97 =? 0)%Z eqn:E; lia).
  rewrite (fmt2_eq _ d1 d2 Hv D1 D2).
  assert (H1 : sl 0 10 (body ++ [d1; d2]) = body).
  { unfold sl. cbn [skipn]. replace (10 - 0) with (List.length body) by lia.
    rewrite firstn_app, firstn_all, Nat.sub_diag. cbn [firstn]. apply app_nil_r. }
  assert (H2 : sl 10 12 (body ++ [d1; d2]) = [d1; d2]).
  { unfold sl. change (12 - 10) with 2. rewrite <- Hlen.
    rewrite skipn_app, skipn_all, Nat.sub_diag. reflexivity. }
  unfold pub_be. rewrite H1, H2. fold M. rewrite (dec_two [d1; d2] d1 d2 eq_refl). unfold dv. fold v. reflexivity.
Qed.

End Families.

(* ---- the theorem for one country whose algorithm reads a prefix of the BBAN and compares two check digits ---- *)

Section FamilyCountry.
Variable e : env.
Variable cfg : iban_cfg.
Variable T : table.
Variable R : banks.
Variable nd : list (N * N).
Variable registered : list (text * (text * list text)).
Variable german : text -> list text -> option algo.
Hypothesis TAB : forallb (row_ok (ic_format_method cfg)) T = true.
Hypothesis ALPHA : ic_alphabet cfg = std_alphabet.
Hypothesis ONLYDE : algo_only_for (tx "DE") R = true.

Definition the_find_algo := find_algo e nd (ic_alphabet cfg) registered german.

Definition registered_as (cc : text) (cls : string) : option (list text) :=
  match assoc (cc ++ [58%N] ++ k_default) registered with
  | Some (c, accepts) => if text_eqb c (s2t cls) then Some accepts else None
  | None => None
  end.

Theorem family_country (cls : string) (compute : list text -> outcome text) (pub : text -> bool)
                       (bodyP : text -> Prop) cc r accepts b :
  (forall acc, national_class e nd (ic_alphabet cfg) (s2t cls) acc = Some (mk acc compute None)) ->
  (forall cs body d1 d2, concat_text cs = body -> bodyP body ->
     is_ascii_digit d1 = true -> is_ascii_digit d2 = true ->
     default_validate compute cs [d1; d2] = Ok (pub (body ++ [d1; d2]))) ->
  (forall body d1 d2, b = body ++ [d1; d2] -> body <> [] -> forallb in_alpha body = true -> bodyP body) ->
  text_eqb cc (tx "DE") = false ->
  find_row T cc = Some r -> conforms_row r b = true ->
  registered_as cc cls = Some accepts ->
  layout_prefix r accepts 2 = true -> ends_with_two_digits r = true ->
  validate_national T the_find_algo (bank_code_entries R) cc b =
  if pub b then Ok true else Err EInvalidBBANChecksum.
Proof using TAB ALPHA ONLYDE.
  intros Hcls Hval HbodyP Hde Er Hc Hreg Hlay Hend.
  rewrite (validate_national_default T the_find_algo R ONLYDE cc r b Hde Er).
  unfold the_find_algo, find_algo. unfold registered_as in Hreg.
  destruct (assoc (cc ++ [58%N] ++ k_default) registered) as [[c acc]|]; [|discriminate].
  destruct (text_eqb c (s2t cls)) eqn:Ecls; [|discriminate].
  inversion Hreg; subst acc. apply text_eqb_eq in Ecls. subst c.
  rewrite Hcls.
  destruct (split_body_key cfg T TAB cc r b Er Hc Hend) as (body & d1 & d2 & Hb & Hne & Hal & D1 & D2 & Hl & Hf & Hs).
  destruct (layout_slices r accepts 2 b Hlay Hl) as [Hcomps Hnat].
  cbv zeta in Hnat. cbn [al_validate al_accepts mk].
  rewrite Hnat, Hs.
  rewrite (Hval _ body d1 d2) by (first [assumption | (etransitivity; [exact Hcomps|exact Hf]) | (apply (HbodyP body d1 d2); assumption)]).
  cbn [bind]. rewrite <- Hb. reflexivity.
Qed.

End FamilyCountry.

Lemma national_class_iso e nd alphabet accepts :
  national_class e nd alphabet (s2t "iso7064_mod97_10.DefaultAlgorithm") accepts = Some (mk accepts (iso_compute alphabet) None).
Proof. reflexivity. Qed.
Lemma national_class_variant e nd alphabet accepts :
  national_class e nd alphabet (s2t "iso7064_mod97_10_variant.DefaultAlgorithm") accepts = Some (mk accepts (variant_compute alphabet) None).
Proof. reflexivity. Qed.
Lemma national_class_be e nd alphabet accepts :
  national_class e nd alphabet (s2t "belgium.DefaultAlgorithm") accepts = Some (mk accepts (be_compute alphabet) None).
Proof. reflexivity. Qed.

(* a conforming BBAN of an all-numeric structure consists of ASCII digits *)
Definition all_numeric (r : row) : bool :=
  match row_kinds r with Some kds => forallb (fun k => match k with Kn => true | _ => false end) kds | None => false end.

Lemma conforms_numeric kds : forall b,
  forallb (fun k => match k with Kn => true | _ => false end) kds = true -> conforms kds b = true ->
  forallb is_ascii_digit b = true.
Proof.
  induction kds as [|k kds IH]; intros [|c b] Hk Hc; cbn in *; try reflexivity; try discriminate.
  apply andb_true_iff in Hk as [Hk1 Hk2]. apply andb_true_iff in Hc as [Hc1 Hc2].
  destruct k; try discriminate. cbn [kind_ok] in Hc1. rewrite Hc1. cbn [andb]. apply IH; assumption.
Qed.

Lemma numeric_row_digits r b :
  all_numeric r = true -> conforms_row r b = true -> forallb is_ascii_digit b = true.
Proof.
  unfold all_numeric, conforms_row. destruct (row_kinds r) as [kds|]; [|discriminate].
  intros Hn Hc. apply andb_true_iff in Hc as [_ Hc]. eapply conforms_numeric; eassumption.
Qed.
