(* Facts about common.clean that hold for every environment whose tables pass the decidable
   check env_wf (re-established by vm_compute on the tables of the running interpreter). *)
From Coq Require Import Lia.
From Schwifty Require Import Lib.Base Model.Clean.

Definition ascii_cps : list N := map N.of_nat (seq 0 128).

(* d can appear in a cleaned text: not whitespace, its own upper-case form *)
Definition clean_char (e : env) (d : N) : bool :=
  negb (is_space e d) && text_eqb (upper1 e d) [d].

Definition out_ok (e : env) (d : N) : bool := clean_char e d && negb (is_ascii_lower d).

Definition env_wf (e : env) : bool :=
  forallb (fun c => is_space e c || forallb (out_ok e) (upper1 e c))
          (ascii_cps ++ map fst (env_upper e))
  && is_space e 10 && is_space e 32.

Definition cleaned (e : env) (s : text) : bool := forallb (clean_char e) s.

Lemma text_eqb_eq a b : text_eqb a b = true <-> a = b.
Proof.
  revert b; induction a as [|x a IH]; intros [|y b]; simpl; split; intro H;
    try reflexivity; try discriminate.
  - apply andb_true_iff in H as [H1 H2]. apply N.eqb_eq in H1. apply IH in H2. subst; reflexivity.
  - inversion H; subst. rewrite N.eqb_refl. simpl. apply IH. reflexivity.
Qed.

Lemma text_eqb_refl a : text_eqb a a = true.
Proof. apply text_eqb_eq. reflexivity. Qed.

Lemma lookupN_none {A} c (l : list (N * A)) : ~ In c (map fst l) -> lookupN c l = None.
Proof.
  induction l as [|[k v] l IH]; simpl; intro H; [reflexivity|].
  destruct (N.eqb_spec k c) as [->|Hne]; [exfalso; apply H; left; reflexivity|].
  apply IH. intro Hin; apply H; right; exact Hin.
Qed.

Lemma in_ascii_cps c : (c < 128)%N -> In c ascii_cps.
Proof.
  intro H. unfold ascii_cps. apply in_map_iff. exists (N.to_nat c). split.
  - apply N2Nat.id.
  - apply in_seq. lia.
Qed.

Section Facts.
Variable e : env.
Hypothesis WF : env_wf e = true.

Lemma ws_nl : is_space e 10 = true.
Proof. unfold env_wf in WF. apply andb_true_iff in WF as [W _]. apply andb_true_iff in W as [_ W]. exact W. Qed.

Lemma ws_sp : is_space e 32 = true.
Proof. unfold env_wf in WF. apply andb_true_iff in WF as [_ W]. exact W. Qed.

Lemma upper1_out c : is_space e c = false -> forallb (out_ok e) (upper1 e c) = true.
Proof.
  intro Hs. unfold env_wf in WF. apply andb_true_iff in WF as [W _]. apply andb_true_iff in W as [W _].
  rewrite forallb_forall in W.
  destruct (N.ltb_spec c 128) as [Hlt|Hge].
  - assert (Hin : In c (ascii_cps ++ map fst (env_upper e))) by (apply in_or_app; left; apply in_ascii_cps; exact Hlt).
    specialize (W c Hin). rewrite Hs, orb_false_l in W. exact W. (* *)
  - destruct (in_dec N.eq_dec c (map fst (env_upper e))) as [Hin|Hnin].
    + assert (Hin' : In c (ascii_cps ++ map fst (env_upper e))) by (apply in_or_app; right; exact Hin).
      specialize (W c Hin'). rewrite Hs, orb_false_l in W. exact W.
    + unfold upper1. destruct (N.ltb_spec c 128) as [Hlt|_]; [lia|].
      rewrite (lookupN_none _ _ Hnin). simpl. rewrite andb_true_r.
      unfold out_ok, clean_char. rewrite Hs. simpl.
      unfold upper1. destruct (N.ltb_spec c 128) as [Hlt|_]; [lia|].
      rewrite (lookupN_none _ _ Hnin). rewrite text_eqb_refl. simpl.
      unfold is_ascii_lower, c_a, c_z. apply negb_true_iff. apply andb_false_iff. right.
      apply N.leb_gt. lia.
Qed.

Lemma forallb_flat_map {A B} (p : B -> bool) (f : A -> list B) l :
  forallb p (flat_map f l) = forallb (fun a => forallb p (f a)) l.
Proof. induction l as [|a l IH]; simpl; [reflexivity|]. rewrite forallb_app, IH. reflexivity. Qed.

Lemma clean_out t : forallb (out_ok e) (clean e t) = true.
Proof.
  unfold clean, upper. rewrite forallb_flat_map. apply forallb_forall. intros c Hc.
  apply filter_In in Hc as [_ Hc]. apply negb_true_iff in Hc. apply upper1_out. exact Hc.
Qed.

Lemma clean_cleaned t : cleaned e (clean e t) = true.
Proof.
  pose proof (clean_out t) as H. unfold cleaned. rewrite forallb_forall in *.
  intros c Hc. specialize (H c Hc). unfold out_ok in H. apply andb_true_iff in H as [H _]. exact H.
Qed.

Lemma clean_no_lower t : forallb (fun c => negb (is_ascii_lower c)) (clean e t) = true.
Proof.
  pose proof (clean_out t) as H. rewrite forallb_forall in *.
  intros c Hc. specialize (H c Hc). unfold out_ok in H. apply andb_true_iff in H as [_ H]. exact H.
Qed.

Lemma cleaned_fix s : cleaned e s = true -> clean e s = s.
Proof.
  unfold cleaned, clean, upper. induction s as [|c s IH]; simpl; intro H; [reflexivity|].
  apply andb_true_iff in H as [Hc Hs]. unfold clean_char in Hc. apply andb_true_iff in Hc as [H1 H2].
  rewrite H1. simpl. apply text_eqb_eq in H2. rewrite H2. simpl. rewrite IH; auto.
Qed.

Lemma clean_idem t : clean e (clean e t) = clean e t.
Proof. apply cleaned_fix, clean_cleaned. Qed.

Lemma cleaned_app a b : cleaned e (a ++ b) = cleaned e a && cleaned e b.
Proof. apply forallb_app. Qed.

Lemma cleaned_skipn n s : cleaned e s = true -> cleaned e (skipn n s) = true.
Proof.
  intro H. rewrite <- (firstn_skipn n s) in H. rewrite cleaned_app in H.
  apply andb_true_iff in H as [_ H]. exact H.
Qed.

Lemma cleaned_firstn n s : cleaned e s = true -> cleaned e (firstn n s) = true.
Proof.
  intro H. rewrite <- (firstn_skipn n s) in H. rewrite cleaned_app in H.
  apply andb_true_iff in H as [H _]. exact H.
Qed.

Lemma cleaned_no_space s c : cleaned e s = true -> In c s -> is_space e c = false.
Proof.
  unfold cleaned. rewrite forallb_forall. intros H Hin. specialize (H c Hin).
  unfold clean_char in H. apply andb_true_iff in H as [H _]. apply negb_true_iff in H. exact H.
Qed.

Lemma cleaned_no_nl s : cleaned e s = true -> existsb (N.eqb 10) s = false.
Proof.
  intro H. destruct (existsb (N.eqb 10) s) eqn:E; [|reflexivity].
  apply existsb_exists in E as (c & Hin & Hc). apply N.eqb_eq in Hc. subst c.
  pose proof ws_nl as Hw. rewrite (cleaned_no_space s 10 H Hin) in Hw. discriminate.
Qed.

(* whitespace insertion and removal do not matter *)
Lemma clean_app a b : clean e (a ++ b) = clean e a ++ clean e b.
Proof. unfold clean, upper. rewrite filter_app, flat_map_app. reflexivity. Qed.

Lemma clean_ws w : forallb (is_space e) w = true -> clean e w = [].
Proof.
  unfold clean, upper. induction w as [|c w IH]; simpl; intro H; [reflexivity|].
  apply andb_true_iff in H as [Hc Hw]. rewrite Hc. simpl. apply IH. exact Hw.
Qed.

End Facts.

(* ---- the library's cleaning removes exactly the white space of Spec/Whitespace.v ---------------------------------- *)
From Schwifty Require Import Spec.Whitespace.
Definition ws_exact (e : env) : bool :=
  forallb (is_space e) unicode_whitespace && forallb (fun c => mem c unicode_whitespace) (env_ws e).

Lemma mem_in_iff c l : mem c l = true <-> In c l.
Proof.
  unfold mem. rewrite existsb_exists. split.
  - intros (x & Hx & E). apply N.eqb_eq in E. subst x. exact Hx.
  - intro H. exists c. split; [exact H|apply N.eqb_refl].
Qed.

Lemma ws_exact_space e c : ws_exact e = true -> is_space e c = mem c unicode_whitespace.
Proof.
  unfold ws_exact. intro H. apply andb_true_iff in H as [H1 H2]. rewrite forallb_forall in H1, H2.
  unfold is_space in *. destruct (mem c (env_ws e)) eqn:E1; destruct (mem c unicode_whitespace) eqn:E2; try reflexivity.
  - apply mem_in_iff in E1. rewrite (H2 c E1) in E2. discriminate.
  - apply mem_in_iff in E2. rewrite (H1 c E2) in E1. discriminate.
Qed.

(* clean(text) = text with the white space removed, upper-cased *)
Lemma clean_strip e t : ws_exact e = true -> clean e t = upper e (strip_whitespace t).
Proof.
  intro H. unfold clean, strip_whitespace. f_equal. apply filter_ext. intro c. rewrite (ws_exact_space e c H). reflexivity.
Qed.
