(* What BBAN.from_components returns conforms to the country's BBAN structure, position by position - as long as no
   field with letter-only positions is left to the "0" filler.  (C13: BBAN.random returns a structure-conforming BBAN.) *)
From Coq Require Import Lia ZArith List Bool.
From Schwifty Require Import Lib.Base Lib.Lit Model.Clean Model.Data Model.Iban Model.Bban Model.Generate
  Model.National Model.Algorithms Model.Germany.
From Schwifty Require Import Spec.Iso13616 Spec.RegistrySpec.
From Schwifty Require Import Proofs.CleanFacts Proofs.NumFacts Proofs.IbanFacts Proofs.IbanTheorems Proofs.TotalFacts
  Proofs.NationalFacts Proofs.NationalDigits Proofs.PlaceFacts Proofs.RebuildFacts Proofs.ComputeShape Proofs.ComputeTotal
  Proofs.GenObligations Proofs.GenerateFacts Proofs.GenerateTotal.
From Schwifty Require Import Gen.Env Gen.IbanData Gen.IbanCfg Gen.ChecksumCfg Gen.GermanyTbl.
Import ListNotations.

(* ---- pointwise reading of the class predicates ----------------------------------------------------------------- *)
Lemma conforms_pointwise : forall ks b,
  List.length ks = List.length b ->
  (forall n kd c, nth_error ks n = Some kd -> nth_error b n = Some c -> kind_ok kd c = true) ->
  conforms ks b = true.
Proof.
  induction ks as [|k ks IH]; intros [|c b] Hl H; cbn [List.length] in Hl; try discriminate; [reflexivity|].
  cbn [conforms]. apply andb_true_iff. split.
  - exact (H 0%nat k c eq_refl eq_refl).
  - apply IH; [lia|]. intros n kd c' H1 H2. exact (H (S n) kd c' H1 H2).
Qed.

Lemma all_in_class_nth : forall ks v j kd c,
  all_in_class ks v = true -> nth_error ks j = Some kd -> nth_error v j = Some c -> mem c (class_chars kd) = true.
Proof.
  induction ks as [|k ks IH]; intros [|c0' v] j kd c H H1 H2; destruct j; cbn [nth_error] in *; try discriminate.
  - cbn [all_in_class] in H. apply andb_true_iff in H as [H _]. inversion H1; inversion H2; subst. exact H.
  - cbn [all_in_class] in H. apply andb_true_iff in H as [_ H]. exact (IH v j kd c H H1 H2).
Qed.

Lemma mem_In c l : mem c l = true -> In c l.
Proof. unfold mem. intro H. apply existsb_exists in H as (x & Hx & E). apply N.eqb_eq in E. subst x. exact Hx. Qed.

Lemma mem_class_ok kd c : mem c (class_chars kd) = true -> kind_ok kd c = true.
Proof.
  intro H. apply mem_In in H. destruct kd; cbn in H;
    repeat (destruct H as [H|H]; [subst c; reflexivity|]); destruct H.
Qed.

Lemma forallb_nth {A} (P : A -> bool) l j x : forallb P l = true -> nth_error l j = Some x -> P x = true.
Proof. intros H Hj. rewrite forallb_forall in H. apply H. exact (nth_error_In _ _ Hj). Qed.

Lemma zeros_nth m j c : nth_error (zeros m) j = Some c -> c = c0.
Proof. intro H. apply nth_error_In in H. unfold zeros in H. exact (repeat_spec _ _ _ H). Qed.

Lemma nth_error_slice {A} (l : list A) s e n :
  (s <= n < e)%nat -> nth_error (cutn s e l) (n - s) = nth_error l n.
Proof.
  intro H. rewrite nth_cutn. replace (n - s <? e - s)%nat with true by (symmetry; apply Nat.ltb_lt; lia).
  f_equal. lia.
Qed.

Lemma get_slice_cutn' (b : text) (s e : Z) :
  (0 <= s <= e)%Z -> (e <= len b)%Z -> get_slice b s (Some e) = cutn (Z.to_nat s) (Z.to_nat e) b.
Proof. intros H1 H2. exact (get_slice_cutn b (s, e) H1 H2). Qed.

Lemma kinds_cutn (ks : list kind) (s e : Z) :
  (0 <= s <= e)%Z -> (e <= Z.of_nat (List.length ks))%Z ->
  py_slice_list ks s e = cutn (Z.to_nat s) (Z.to_nat e) ks.
Proof.
  intros H1 H2. unfold py_slice_list, cutn, norm_idx.
  replace (s <? 0)%Z with false by lia. replace (e <? 0)%Z with false by lia.
  replace (Z.min s (Z.of_nat (List.length ks))) with s by lia.
  replace (Z.min e (Z.of_nat (List.length ks))) with e by lia.
  f_equal. lia.
Qed.

(* every character a class computes is admitted by the second kind *)
Definition kind_sub (a b : kind) : bool :=
  match a, b with
  | Kn, Kn | Kn, Kc | Ka, Ka | Ka, Kc | Kc, Kc | Ke, Ke => true
  | _, _ => false
  end.
Lemma kind_sub_ok a b c : kind_sub a b = true -> kind_ok a c = true -> kind_ok b c = true.
Proof.
  destruct a, b; cbn [kind_sub kind_ok]; intros H H'; try discriminate; try exact H';
    rewrite H'; rewrite ?orb_true_r; reflexivity.
Qed.

(* ---- the obligation on every country row ---------------------------------------------------------------------- *)
Definition in_rng (p : Z * Z) (i : Z) : bool := negb (range_is_empty p) && (fst p <=? i)%Z && (i <? snd p)%Z.

Definition conform_row_ok (r : row) : bool :=
  match classes_of r, r_positions r with
  | None, _ => false
  | Some _, None => true            (* no field positions: from_components refuses the country *)
  | Some ks, Some _ =>
    match row_kinds r with Some _ => true | None => false end
    && Z.eqb (Z.of_nat (List.length ks)) (r_bban_length r)
    (* a position outside every field is one whose class admits the filler "0" *)
    && forallb (fun n => let i := Z.of_nat n in
                  existsb (fun k => in_rng (rng r k) i) the_components
                  || (forallb (fun k => range_is_empty (rng r k) || disjoint (rng r k) (i, i + 1)%Z) the_components
                      && kind_ok (nth n ks Ke) c0)) (seq 0 (List.length ks))
    (* what the default algorithm computes is admitted by the classes of the check-digit field *)
    && match assoc (r_cc r ++ [58%N] ++ k_default) registered with
       | None => true
       | Some (cls, _) =>
         range_is_empty (rng r k_national) || forallb (kind_sub (class_kind cls)) (kinds_at r ks k_national)
       end
  end.
Lemma gen_conform_obl : forallb conform_row_ok the_table = true.
Proof. vm_cast_no_check (eq_refl true). Qed.

Section Row.
Variable cc : text.
Variable r : row.
Variable values : list (text * text).
Hypothesis Er : find_row the_table cc = Some r.
Hypothesis ONLY : forall k, In k the_components ->
  text_eqb k k_bank = false -> text_eqb k k_branch = false -> text_eqb k k_account = false ->
  (len (clean the_env (get_val k values)) <= range_length (fc_rng the_components r k))%Z.

Let comps1 := fc_comps1 the_components r (fc_comps0 the_env the_components r values).
Let V k := V1 the_env the_components r values k.

(* a successful call has passed the three length guards and the structure check *)
Lemma fc_passed b :
  from_components the_env the_components the_table the_algos cc values = Ok b ->
  (len (V k_bank) <= width r k_bank)%Z /\ (len (V k_branch) <= width r k_branch)%Z
  /\ (len (V k_account) <= width r k_account)%Z /\ fc_check the_components r values comps1 = Ok tt.
Proof using Er.
  intro Hb. unfold from_components, get_spec in Hb. rewrite Er in Hb. cbn [bind] in Hb.
  destruct (r_positions r); [|discriminate]. cbv zeta in Hb.
  destruct (fc_split _ _ _ && _); [discriminate|].
  unfold V, V1, width, rng, comps1.
  destruct (Z.ltb_spec (range_length (fc_rng the_components r k_bank))
              (len (get_val k_bank (fc_comps1 the_components r (fc_comps0 the_env the_components r values))))); [discriminate|].
  destruct (Z.ltb_spec (range_length (fc_rng the_components r k_branch))
              (len (get_val k_branch (fc_comps1 the_components r (fc_comps0 the_env the_components r values))))); [discriminate|].
  destruct (Z.ltb_spec (range_length (fc_rng the_components r k_account))
              (len (get_val k_account (fc_comps1 the_components r (fc_comps0 the_env the_components r values))))); [discriminate|].
  destruct (fc_check the_components r values (fc_comps1 the_components r (fc_comps0 the_env the_components r values))) as [[]|x|x];
    try discriminate. repeat split; assumption.
Qed.

(* BBAN.from_components returns a BBAN of the country's structure, provided every field it fills with zeros (a field
   that is not bank/branch/account code, was given no value, and is not the computed check digit) admits "0" *)
Theorem built_conforms b ks :
  classes_of r = Some ks ->
  from_components the_env the_components the_table the_algos cc values = Ok b ->
  (forall k, In k the_components -> range_is_empty (rng r k) = false -> checked_key values k = false ->
     (text_eqb k k_national = true -> compute_national the_algos cc comps1 = Ok []) ->
     forallb (fun kd => kind_ok kd c0) (kinds_at r ks k) = true) ->
  conforms_row r b = true.
Proof using All.
  intros Hks Hb H0.
  destruct (row_facts cc r Er) as (ks' & items & Hp & Eks & Hke & Hlen & Halg).
  assert (Eks' : ks' = ks) by (unfold classes_of in Hks; rewrite Hp in Hks; inversion Hks; subst; reflexivity).
  rewrite Eks' in *. clear Eks' ks'.
  pose proof (find_row_in _ _ _ Er) as [Hin Ecc].
  pose proof gen_conform_obl as O. rewrite forallb_forall in O. specialize (O r Hin). unfold conform_row_ok in O.
  rewrite Hks, Ecc in O.
  assert (Hps : exists ps, r_positions r = Some ps).
  { destruct (r_positions r) as [ps|] eqn:Eps; [exists ps; reflexivity|].
    rewrite (fc_no_positions the_env the_components the_table the_algos cc r values Er Eps) in Hb. discriminate. }
  destruct Hps as [ps Eps]. rewrite Eps in O.
  apply andb_true_iff in O as [O Onat]. apply andb_true_iff in O as [O Ofill]. apply andb_true_iff in O as [Okinds OL].
  apply Z.eqb_eq in OL.
  destruct (fc_result_ext the_env the_components the_table the_algos env_obl gen_zero_obl cc r values Er (layout_of cc r Er) ONLY
              b Hb (fun K => gen_shape cc r Er _ K)) as (K & HK & HL & _ & _ & Hget & _ & Hfill).
  destruct (fc_passed b Hb) as (GB & GR & GA & Hchk).
  unfold conforms_row. unfold row_kinds in *. rewrite Hp in *.
  destruct (position_kinds items) as [kds|] eqn:Ek; [|discriminate].
  rewrite (position_kinds_flat items kds Ek). rewrite <- Eks.
  rewrite HL, Z.eqb_refl. cbn [andb].
  assert (Hlb : List.length ks = List.length b) by (unfold len in HL; lia).
  apply conforms_pointwise; [exact Hlb|]. intros n kd c Hkd Hc.
  assert (Hn : (n < List.length ks)%nat) by (apply nth_error_Some; congruence).
  rewrite forallb_forall in Ofill. specialize (Ofill n). cbv zeta in Ofill.
  assert (Hseq : In n (seq 0 (List.length ks))) by (apply in_seq; lia). specialize (Ofill Hseq).
  apply orb_true_iff in Ofill as [Hcov|Hfree].
  - (* the position lies in a component's field *)
    apply existsb_exists in Hcov as (k & Hk & Hin_rng). unfold in_rng in Hin_rng.
    apply andb_true_iff in Hin_rng as [Hin_rng Hhi]. apply andb_true_iff in Hin_rng as [Hne Hlo].
    apply negb_true_iff in Hne. apply Z.leb_le in Hlo. apply Z.ltb_lt in Hhi.
    assert (Hr : range_in (r_bban_length r) (rng r k) = true).
    { pose proof (layout_of cc r Er) as LAY. unfold fc_layout_ok in LAY. repeat (apply andb_true_iff in LAY as [LAY ?]).
      match goal with H : forallb (fun c => range_in _ _) _ = true |- _ => rewrite forallb_forall in H; exact (H k Hk) end. }
    apply range_in_spec in Hr as [R1 R2].
    destruct (Hget k Hk Hne) as [Hg Hgl].
    set (s := fst (rng r k)) in *. set (e := snd (rng r k)) in *.
    assert (Hcb : nth_error (V2 the_env the_components r values K k) (n - Z.to_nat s) = Some c).
    { unfold rng in Hg. fold (rng r k) in Hg. fold s e in Hg. rewrite <- Hg.
      rewrite get_slice_cutn' by lia.
      rewrite nth_error_slice by lia. exact Hc. }
    assert (Hck : nth_error (kinds_at r ks k) (n - Z.to_nat s) = Some kd).
    { unfold kinds_at. fold s e. rewrite kinds_cutn by lia. rewrite nth_error_slice by lia. exact Hkd. }
    rewrite (V2_eq the_env the_components the_table the_algos env_obl gen_zero_obl cc r values Er (layout_of cc r Er) ONLY) in Hcb.
    assert (Hplain : (text_eqb k k_national = true -> K = []) ->
                     nth_error (V k) (n - Z.to_nat s) = Some c -> kind_ok kd c = true).
    { intros HKn HcV.
      destruct (V1_conf_checked the_env the_components the_table the_algos env_obl gen_zero_obl cc r values Er (layout_of cc r Er) ONLY
                  GB GR GA Hchk k Hk) as [Hm|[Hun Hz]].
      - unfold matches_structure in Hm. rewrite Hp in Hm. rewrite <- Eks in Hm. apply Ok_inj in Hm.
        apply mem_class_ok. exact (all_in_class_nth _ _ _ kd c Hm Hck HcV).
      - fold (V k) in Hz. rewrite Hz in HcV. apply zeros_nth in HcV. subst c.
        assert (Hzero : forallb (fun kd0 => kind_ok kd0 c0) (kinds_at r ks k) = true).
        { apply (H0 k Hk Hne Hun). intro En. rewrite (HKn En) in HK. exact HK. }
        exact (forallb_nth _ _ _ kd Hzero Hck). }
    destruct K as [|c1 K']; [exact (Hplain (fun _ => eq_refl) Hcb)|].
    destruct (text_eqb k k_national) eqn:En; [|apply Hplain; [intro; discriminate|exact Hcb]].
    (* the computed check digits *)
    apply Proofs.CleanFacts.text_eqb_eq in En. subst k.
    unfold compute_national, the_algos, the_find_algo, Algorithms.find_algo in HK.
    destruct (assoc (cc ++ [58%N] ++ k_default) registered) as [[cls acc]|] eqn:Ereg; [|discriminate].
    destruct Halg as (al & Hal & _ & _). rewrite Hal in HK.
    apply orb_true_iff in Onat as [Onat|Onat]; [unfold rng in *; congruence|].
    destruct (class_width cls) as [w|] eqn:Hw.
    + pose proof (national_class_kshape _ _ _ _ _ _ _ _ w Hal HK Hw) as Hsh.
      apply (kind_sub_ok (class_kind cls)); [exact (forallb_nth _ _ _ kd Onat Hck)|exact (forallb_nth _ _ _ c Hsh Hcb)].
    + pose proof gen_shape_obl as S. rewrite forallb_forall in S. specialize (S r Hin). unfold shape_row_ok in S.
      rewrite Ecc, Ereg, Hal, Hw in S. rewrite orb_false_r in S. unfold rng in *. congruence.
  - (* the position lies in no field: it keeps the filler *)
    apply andb_true_iff in Hfree as [Hdis Hz].
    assert (Hq : range_in (r_bban_length r) (Z.of_nat n, Z.of_nat n + 1)%Z = true)
      by (apply range_in_spec; cbn [fst snd]; lia).
    specialize (Hfill _ Hq). cbn [fst snd] in Hfill.
    assert (Hd : forall k, In k the_components ->
              range_is_empty (fc_rng the_components r k) = true \/ disjoint (fc_rng the_components r k) (Z.of_nat n, Z.of_nat n + 1)%Z = true).
    { intros k Hk. rewrite forallb_forall in Hdis. specialize (Hdis k Hk). apply orb_true_iff in Hdis. exact Hdis. }
    specialize (Hfill Hd).
    assert (Hcz : c = c0).
    { assert (E1 : nth_error (get_slice b (Z.of_nat n) (Some (Z.of_nat n + 1)%Z)) 0 = Some c).
      { rewrite get_slice_cutn' by (unfold len; lia).
        replace 0%nat with (n - Z.to_nat (Z.of_nat n))%nat by lia. rewrite nth_error_slice by lia. exact Hc. }
      rewrite Hfill in E1.
      rewrite get_slice_cutn' in E1 by (unfold len; rewrite ?zeros_length; lia).
      rewrite nth_cutn in E1. destruct (0 <? _)%nat; [|discriminate]. exact (zeros_nth _ _ _ E1). }
    subst c. rewrite (nth_error_nth _ _ Ke Hkd) in Hz. exact Hz.
Qed.
End Row.
