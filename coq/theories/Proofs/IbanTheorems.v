(* Generic forms of C01 and C02 (for every environment / configuration / table passing the
   decidable obligations). *)
From Coq Require Import Lia ZifyBool ZifyN.
From Schwifty Require Import Lib.Base Lib.Regex Model.Clean Model.Data Model.Iban Spec.Iso13616.
From Schwifty Require Import Proofs.RegexFacts Proofs.CleanFacts Proofs.NumFacts Proofs.RunsFacts Proofs.IbanFacts.
Ltac Zify.zify_post_hook ::= Z.to_euclidean_division_equations.

Theorem check_digits_shape cc b :
  exists d1 d2, iso_check_digits cc b = [d1; d2] /\ is_ascii_digit d1 = true /\ is_ascii_digit d2 = true
    /\ (2 <= Z.of_N (d1 - 48) * 10 + Z.of_N (d2 - 48) <= 98)%Z.
Proof.
  unfold iso_check_digits. set (M := iso_num (b ++ cc)). pose proof (check_value_range M) as Hv.
  destruct (two_digits_digits (98 - (M * 100) mod 97)%Z ltac:(lia)) as (x1 & x2 & Hx & H1 & H2 & Hxv).
  exists x1, x2. repeat split; try assumption; lia.
Qed.


Section Thms.
Variable e : env.
Variable cfg : iban_cfg.
Variable T : table.
Variable national : text -> text -> outcome bool.
Hypothesis WF : env_wf e = true.
Hypothesis EA : env_alpha_ok e = true.
Hypothesis CFG : cfg_ok cfg = true.
Hypothesis TAB : forallb (row_ok (ic_format_method cfg)) T = true.

(* C01: construction succeeds exactly on ISO-valid texts, and returns the cleaned text *)
Theorem new_iff txt :
  (exists s, iban_new e cfg T national txt false false = Ok s) <-> iso_ok T (clean e txt) = true.
Proof using All.
  unfold iban_new. cbn [bind].
  assert (H : iban_validate e cfg T national false (clean e txt) = Ok true <-> iso_ok T (clean e txt) = true)
    by (apply validate_iff; auto using clean_cleaned).
  destruct (iban_validate e cfg T national false (clean e txt)) as [b| |] eqn:E; cbn [bind].
  - assert (b = true) as ->.
    { unfold iban_validate in E. destruct (run_steps e cfg T national false (clean e txt) (ic_steps cfg)) as [[]| |];
        simpl in E; congruence. }
    rewrite <- H. split; [reflexivity|]. intros _. eexists; reflexivity.
  - split; [intros [s Hs]; discriminate|]. intro Hi. apply H in Hi. discriminate.
  - split; [intros [s Hs]; discriminate|]. intro Hi. apply H in Hi. discriminate.
Qed.

Theorem new_result txt s :
  iban_new e cfg T national txt false false = Ok s -> s = clean e txt.
Proof using All.
  unfold iban_new. cbn [bind].
  destruct (iban_validate e cfg T national false (clean e txt)); cbn [bind]; congruence.
Qed.

Lemma row_facts cc r :
  find_row T cc = Some r ->
  exists c1 c2 kds, cc = [c1; c2] /\ is_ascii_upper c1 = true /\ is_ascii_upper c2 = true
    /\ row_kinds r = Some kds /\ forallb not_e kds = true
    /\ Z.of_nat (length kds) = r_bban_length r /\ r_iban_length r = (r_bban_length r + 4)%Z.
Proof.
  intro Er. pose proof (row_ok_of cfg T TAB _ _ Er) as Hok. unfold row_ok in Hok.
  destruct (runs_of (rp_body (r_regex r))) as [rs|]; [|discriminate].
  destruct (row_kinds r) as [kds|]; [|discriminate].
  apply andb_true_iff in Hok as [Hok Hcc]. apply andb_true_iff in Hok as [Hok _].
  apply andb_true_iff in Hok as [Hok Hil]. apply andb_true_iff in Hok as [Hag Hk].
  destruct (find_row_in T _ _ Er) as [_ Hrcc]. rewrite Hrcc in Hcc.
  destruct cc as [|c1 [|c2 [|]]]; try discriminate. cbn [cc_ok] in Hcc. apply andb_true_iff in Hcc as [U1 U2].
  exists c1, c2, kds. repeat split; try assumption.
  - apply (agree_not_e _ _ Hag).
  - apply Z.eqb_eq. exact Hk.
  - apply Z.eqb_eq. exact Hil.
Qed.

Lemma conforms_row_alpha cc r b :
  find_row T cc = Some r -> conforms_row r b = true -> forallb in_alpha b = true.
Proof.
  intros Er Hc. destruct (row_facts cc r Er) as (c1 & c2 & kds & _ & _ & _ & Hk & He & _).
  unfold conforms_row in Hc. rewrite Hk in Hc. apply andb_true_iff in Hc as [_ Hc].
  apply (conforms_alpha kds); assumption.
Qed.

(* the ISO verdict on  cc d1 d2 b  for a structure-conforming b: exactly the computed pair passes *)
Lemma iso_ok_pair c1 c2 d1 d2 b r :
  find_row T [c1; c2] = Some r -> conforms_row r b = true ->
  is_ascii_digit d1 = true -> is_ascii_digit d2 = true ->
  (iso_ok T (c1 :: c2 :: d1 :: d2 :: b) = true <-> [d1; d2] = iso_check_digits [c1; c2] b).
Proof using All.
  intros Er Hc D1 D2. unfold iso_ok. rewrite Er, D1, D2, Hc. cbn [andb].
  change [c1; c2; d1; d2] with ([c1; c2] ++ [d1; d2]). rewrite app_assoc, iso_num_from, iso_from_app.
  rewrite iso_from_digits by assumption. rewrite <- iso_num_from.
  unfold iso_check_digits. set (M := iso_num (b ++ [c1; c2])).
  set (dd := (Z.of_N (d1 - 48) * 10 + Z.of_N (d2 - 48))%Z).
  assert (Hdd : (0 <= dd <= 99)%Z) by (unfold dd; unfold is_ascii_digit, c0, c9 in D1, D2; lia).
  pose proof (mod97_unique M dd Hdd) as HU. split.
  - intro H. apply andb_true_iff in H as [Hm Hr]. apply Z.eqb_eq in Hm.
    assert (dd = (98 - (M * 100) mod 97)%Z) as <- by (apply HU; split; [exact Hm|lia]).
    unfold dd. rewrite two_digits_inv by assumption. reflexivity.
  - intro H. assert (Heq : dd = (98 - (M * 100) mod 97)%Z).
    { rewrite <- (two_digits_inv d1 d2 D1 D2) in H. fold dd in H.
      pose proof (check_value_range M) as Hv.
      destruct (two_digits_digits dd Hdd) as (x1 & x2 & Hx & _ & _ & Hxv).
      destruct (two_digits_digits (98 - (M * 100) mod 97)%Z ltac:(lia)) as (y1 & y2 & Hy & _ & _ & Hyv).
      rewrite Hx, Hy in H. inversion H; subst. lia. }
    apply HU in Heq as [Hm Hr]. rewrite Hm. cbn [Z.eqb Pos.eqb andb]. lia.
Qed.

Theorem from_bban_valid cc b r :
  find_row T cc = Some r -> conforms_row r b = true ->
  iban_from_bban e cfg T national cc b false false = Ok (cc ++ iso_check_digits cc b ++ b)
  /\ iso_ok T (cc ++ iso_check_digits cc b ++ b) = true.
Proof using All.
  intros Er Hc.
  destruct (row_facts cc r Er) as (c1 & c2 & kds & -> & U1 & U2 & Hk & He & Hlen & Hil).
  pose proof (conforms_row_alpha _ _ _ Er Hc) as Eb.
  assert (ALPHA : ic_alphabet cfg = std_alphabet).
  { unfold cfg_ok in CFG. repeat (apply andb_true_iff in CFG as [CFG ?]). apply text_eqb_eq. exact CFG. }
  destruct (check_digits_shape [c1; c2] b) as (x1 & x2 & Hx & D1 & D2 & Hr).
  assert (Hiso : iso_ok T ([c1; c2] ++ iso_check_digits [c1; c2] b ++ b) = true).
  { rewrite Hx. cbn [app]. apply (iso_ok_pair c1 c2 x1 x2 b r Er Hc D1 D2). symmetry. exact Hx. }
  split; [|exact Hiso].
  unfold iban_from_bban, iso7064_compute, concat_text. cbn [concat]. rewrite app_nil_r.
  rewrite (numerify_nonempty cfg ALPHA) by (destruct b; discriminate).
  assert (Ebc : forallb in_alpha (b ++ [c1; c2]) = true).
  { rewrite forallb_app, Eb. simpl. unfold in_alpha. rewrite U1, U2, !orb_true_r. reflexivity. }
  rewrite Ebc. cbn [bind].
  pose proof (check_value_range (iso_num (b ++ [c1; c2]))) as Hv. rewrite two_digits_fmt by lia.
  fold (iso_check_digits [c1; c2] b).
  assert (Hcl : cleaned e ([c1; c2] ++ iso_check_digits [c1; c2] b ++ b) = true).
  { apply (alpha_cleaned e EA). rewrite Hx. rewrite !forallb_app, Eb. simpl. unfold in_alpha.
    rewrite U1, U2, D1, D2, !orb_true_r. reflexivity. }
  unfold iban_new. rewrite (cleaned_fix e _ Hcl). cbn [bind].
  assert (Hv' : iban_validate e cfg T national false ([c1; c2] ++ iso_check_digits [c1; c2] b ++ b) = Ok true)
    by (apply validate_iff; auto).
  rewrite Hv'. reflexivity.
Qed.

Theorem check_digits_unique cc b r d1 d2 :
  find_row T cc = Some r -> conforms_row r b = true ->
  is_ascii_digit d1 = true -> is_ascii_digit d2 = true ->
  ((exists s, iban_new e cfg T national (cc ++ [d1; d2] ++ b) false false = Ok s)
   <-> [d1; d2] = iso_check_digits cc b).
Proof using All.
  intros Er Hc D1 D2.
  destruct (row_facts cc r Er) as (c1 & c2 & kds & -> & U1 & U2 & Hk & He & Hlen & Hil).
  pose proof (conforms_row_alpha _ _ _ Er Hc) as Eb.
  assert (Hcl : cleaned e ([c1; c2] ++ [d1; d2] ++ b) = true).
  { apply (alpha_cleaned e EA). rewrite !forallb_app, Eb. simpl. unfold in_alpha.
    rewrite U1, U2, D1, D2, !orb_true_r. reflexivity. }
  rewrite new_iff. rewrite (cleaned_fix e _ Hcl). cbn [app].
  apply (iso_ok_pair c1 c2 d1 d2 b r Er Hc D1 D2).
Qed.

(* every accepted IBAN is over 0-9A-Z, and has its country's length *)
Theorem accepted_alphabet s :
  iso_ok T s = true ->
  forallb in_alpha s = true /\ exists r, find_row T (firstn 2 s) = Some r /\ len s = r_iban_length r.
Proof using All.
  intro H. unfold iso_ok in H.
  destruct s as [|c1 [|c2 [|d1 [|d2 b]]]]; try discriminate.
  destruct (find_row T [c1; c2]) as [r|] eqn:Er; [|discriminate].
  apply andb_true_iff in H as [H _]. apply andb_true_iff in H as [H _].
  apply andb_true_iff in H as [H Hc]. apply andb_true_iff in H as [D1 D2].
  destruct (row_facts _ r Er) as (x1 & x2 & kds & Hcc & U1 & U2 & Hk & He & Hlen & Hil).
  inversion Hcc; subst x1 x2.
  pose proof (conforms_row_alpha _ _ _ Er Hc) as Eb. split.
  - simpl. unfold in_alpha at 1 2 3 4. rewrite U1, U2, D1, D2, !orb_true_r. exact Eb.
  - exists r. cbn [firstn]. split; [exact Er|].
    unfold conforms_row in Hc. rewrite Hk in Hc. apply andb_true_iff in Hc as [Hl _]. apply Z.eqb_eq in Hl.
    rewrite !len_cons. lia.
Qed.

End Thms.
