(* C18: laws of merge_dicts / parse_v2 / registry.get for arbitrary JSON contents. *)
From Coq Require Import Lia.
From Schwifty Require Import Lib.Base Lib.Lit Lib.Json Model.Registry Proofs.CleanFacts.
From Coq Require Import String.

Definition perm_ok (perm : list text -> list text) : Prop :=
  forall ks k, In k (perm ks) <-> In k ks.

Lemma jget_app k a b : jget k (a ++ b) = match jget k a with Some v => Some v | None => jget k b end.
Proof.
  induction a as [|[k' v] a IH]; simpl; [reflexivity|]. destruct (text_eqb k k'); [reflexivity|exact IH].
Qed.

Lemma jget_in_keys k o : jhas k o = true <-> In k (jkeys o).
Proof.
  unfold jhas. induction o as [|[k' v] o IH]; simpl; [split; [discriminate|intros []]|].
  destruct (text_eqb k k') eqn:E.
  - apply text_eqb_eq in E. subst. split; auto.
  - rewrite IH. split; [auto|]. intros [H|H]; [|exact H]. subst. rewrite text_eqb_refl in E. discriminate.
Qed.

Lemma jget_none_keys k o : jget k o = None <-> ~ In k (jkeys o).
Proof.
  rewrite <- jget_in_keys. unfold jhas. destruct (jget k o); split; intro H; try reflexivity; try discriminate;
    try (exfalso; apply H; reflexivity); try (intro; discriminate).
Qed.

Lemma jget_map_key (f : text -> json) k ks :
  jget k (map (fun x => (x, f x)) ks) = if existsb (text_eqb k) ks then Some (f k) else None.
Proof.
  induction ks as [|x ks IH]; simpl; [reflexivity|].
  destruct (text_eqb k x) eqn:E; simpl; [apply text_eqb_eq in E; subst; reflexivity|exact IH].
Qed.

Lemma existsb_text_in k ks : existsb (text_eqb k) ks = true <-> In k ks.
Proof.
  rewrite existsb_exists. split.
  - intros (x & Hin & Hx). apply text_eqb_eq in Hx. subst. exact Hin.
  - intro H. exists k. split; [exact H|apply text_eqb_refl].
Qed.

Lemma jget_filter_keep (p : text * json -> bool) k o :
  (forall v, p (k, v) = true) -> jget k (filter p o) = jget k o.
Proof.
  intro Hp. induction o as [|[k' v] o IH]; simpl; [reflexivity|].
  destruct (text_eqb k k') eqn:E.
  - apply text_eqb_eq in E. subst k'. rewrite Hp. simpl. rewrite text_eqb_refl. reflexivity.
  - destruct (p (k', v)); simpl; [rewrite E|]; exact IH.
Qed.

Lemma jget_filter_drop (p : text * json -> bool) k o :
  (forall v, p (k, v) = false) -> jget k (filter p o) = None.
Proof.
  intro Hp. induction o as [|[k' v] o IH]; simpl; [reflexivity|].
  destruct (p (k', v)) eqn:Ep; [|exact IH]. simpl. destruct (text_eqb k k') eqn:E; [|exact IH].
  apply text_eqb_eq in E. subst k'. rewrite Hp in Ep. discriminate.
Qed.

Lemma jget_filter_notin k (m o : obj) :
  jget k m = None -> jget k (filter (fun kv => negb (jhas (fst kv) m)) o) = jget k o.
Proof. intro H. apply jget_filter_keep. intro v. cbn [fst]. unfold jhas. rewrite H. reflexivity. Qed.

Section MergeLaws.
Variable perm : list text -> list text.
Hypothesis PERM : perm_ok perm.

(* one level: what a key maps to in the merged dict *)
Theorem merge_obj_get f l r k :
  jget k (merge_obj perm (S f) l r) =
  match jget k l, jget k r with
  | Some (JObj a), Some (JObj b) => Some (JObj (merge_obj perm f a b))
  | _, Some v => Some v
  | Some v, None => Some v
  | None, None => None
  end.
Proof using PERM.
  cbn [merge_obj].
  set (common := perm (filter (fun k0 => jhas k0 l) (jkeys r))).
  assert (Hc : existsb (text_eqb k) common = true <-> (jhas k l = true /\ jhas k r = true)).
  { rewrite existsb_text_in. unfold common.
    pose proof (PERM (filter (fun k0 => jhas k0 l) (jkeys r)) k) as HP. rewrite HP, filter_In, <- jget_in_keys. tauto. }
  rewrite jget_app, jget_map_key.
  destruct (existsb (text_eqb k) common) eqn:Ec.
  - destruct (proj1 Hc eq_refl) as [Hl Hr]. unfold jhas in Hl, Hr.
    destruct (jget k l) as [vl|]; [|discriminate]. destruct (jget k r) as [vr|]; [|discriminate].
    destruct vl; destruct vr; reflexivity.
  - rewrite jget_app, !jget_filter_notin by (rewrite jget_map_key, Ec; reflexivity).
    destruct (jget k l) as [vl|] eqn:El.
    + destruct (jget k r) as [vr|] eqn:Er; [|destruct vl; reflexivity].
      exfalso. assert (Hf : false = true) by (apply Hc; unfold jhas; rewrite El, Er; auto). discriminate.
    + destruct (jget k r); reflexivity.
Qed.

(* a key the overlay does not name keeps the base value; a key only the overlay names is added *)
Corollary merge_untouched f l r k : jget k r = None -> jget k (merge_obj perm (S f) l r) = jget k l.
Proof using PERM. intro H. rewrite merge_obj_get, H. destruct (jget k l) as [[]|]; reflexivity. Qed.

Corollary merge_scalar_wins f l r k v :
  jget k r = Some v -> (forall b, v <> JObj b) -> jget k (merge_obj perm (S f) l r) = Some v.
Proof using PERM.
  intros H Hv. rewrite merge_obj_get, H. destruct (jget k l) as [[]|]; try reflexivity.
  destruct v; try reflexivity. exfalso. exact (Hv _ eq_refl).
Qed.

Corollary merge_keys f l r k :
  jhas k (merge_obj perm (S f) l r) = jhas k l || jhas k r.
Proof using PERM.
  unfold jhas. rewrite merge_obj_get. destruct (jget k l) as [[]|]; destruct (jget k r) as [[]|]; reflexivity.
Qed.

End MergeLaws.

(* path lookups, and independence of the set-iteration order *)
Fixpoint jpath (p : list text) (j : json) : option json :=
  match p with
  | [] => Some j
  | k :: p' =>
    match j with
    | JObj o => match jget k o with Some v => jpath p' v | None => None end
    | _ => None
    end
  end.

(* what a consumer can observe of a value without looking inside nested dicts *)
Definition shallow (j : option json) : option json :=
  match j with Some (JObj _) => Some (JObj []) | x => x end.

Theorem merge_order_indep perm1 perm2 :
  perm_ok perm1 -> perm_ok perm2 ->
  forall p f l r,
    shallow (jpath p (JObj (merge_obj perm1 f l r))) = shallow (jpath p (JObj (merge_obj perm2 f l r))).
Proof.
  intros P1 P2. induction p as [|k p IH]; intros f l r; [reflexivity|].
  destruct f as [|f]; [reflexivity|]. cbn [jpath].
  rewrite (merge_obj_get perm1 P1), (merge_obj_get perm2 P2).
  destruct (jget k l) as [vl|]; destruct (jget k r) as [vr|]; try reflexivity.
  destruct vl; destruct vr; try reflexivity. apply IH.
Qed.

(* deep version of "changes exactly the keys it names": below a key the overlay does not name,
   every path reads the base *)
Theorem overlay_only_named perm : perm_ok perm ->
  forall f l r k p, jget k r = None ->
    jpath (k :: p) (JObj (merge_obj perm (S f) l r)) = jpath (k :: p) (JObj l).
Proof. intros P f l r k p H. cbn [jpath]. rewrite (merge_untouched perm P) by exact H. reflexivity. Qed.

(* merge is not associative in general: that is why "in file-name order" matters *)
Example merge_order_matters :
  let a := [(tx "k", JNum 1)] in let b := [(tx "k", JNum 2)] in
  jget (tx "k") (merge_dicts (fun x => x) a b) = Some (JNum 2)
  /\ jget (tx "k") (merge_dicts (fun x => x) b a) = Some (JNum 1).
Proof. split; vm_compute; reflexivity. Qed.

(* ---- parse_v2 -------------------------------------------------------------------------------- *)

Lemma jget_jset_same k v o : jget k (jset k v o) = Some v.
Proof.
  induction o as [|[k' v'] o IH]; simpl; [rewrite text_eqb_refl; reflexivity|].
  destruct (text_eqb k k') eqn:E; simpl; rewrite E; [reflexivity|exact IH].
Qed.

Lemma jget_jset_other k k' v o : text_eqb k' k = false -> jget k' (jset k v o) = jget k' o.
Proof.
  intro H. induction o as [|[k2 v2] o IH]; simpl; [rewrite H; reflexivity|].
  destruct (text_eqb k k2) eqn:E; simpl.
  - apply text_eqb_eq in E. subst k2. rewrite H. reflexivity.
  - destruct (text_eqb k' k2); [reflexivity|exact IH].
Qed.

Lemma jget_jremove_other k k' o : text_eqb k' k = false -> jget k' (jremove k o) = jget k' o.
Proof.
  intro H. induction o as [|[k2 v2] o IH]; simpl; [reflexivity|].
  destruct (text_eqb k k2) eqn:E; simpl.
  - apply text_eqb_eq in E. subst k2. rewrite H. reflexivity.
  - destruct (text_eqb k' k2); [reflexivity|exact IH].
Qed.

(* one output entry per listed value, carrying it under dst; every other key of the compact entry
   is kept; "primary" is defaulted to false *)
Theorem expand_entry_spec src dst en values :
  jget src en = Some (JArr values) ->
  exists out, expand_entry src dst en = Ok out /\ List.length out = List.length values
    /\ forall i v, nth_error values i = Some v ->
         exists o, nth_error out i = Some (JObj o) /\ jget dst o = Some v
           /\ (forall k, text_eqb k dst = false -> text_eqb k src = false -> text_eqb k (tx "primary") = false ->
                 jget k o = jget k en)
           /\ (text_eqb (tx "primary") dst = false -> text_eqb (tx "primary") src = false ->
                 jget (tx "primary") o = match jget (tx "primary") en with Some x => Some x | None => Some (JBool false) end).
Proof.
  intro H. unfold expand_entry. rewrite H. eexists. split; [reflexivity|]. split; [apply map_length|].
  intros i v Hi. set (en1 := jremove src en).
  set (en2 := if jhas (tx "primary") en1 then en1 else en1 ++ [(tx "primary", JBool false)]).
  exists (jset dst v en2). split; [rewrite nth_error_map, Hi; reflexivity|]. split; [apply jget_jset_same|]. split.
  - intros k Hd Hs Hp. rewrite (jget_jset_other _ _ _ _ Hd). unfold en2.
    destruct (jhas (tx "primary") en1).
    + unfold en1. apply jget_jremove_other. exact Hs.
    + rewrite jget_app. unfold en1. rewrite (jget_jremove_other _ _ _ Hs).
      destruct (jget k en); [reflexivity|]. cbn [jget]. rewrite Hp. reflexivity.
  - intros Hd Hs. rewrite (jget_jset_other _ _ _ _ Hd). unfold en2, jhas.
    destruct (jget (tx "primary") en1) eqn:E1.
    + rewrite E1. unfold en1 in E1. rewrite (jget_jremove_other _ _ _ Hs) in E1. rewrite E1. reflexivity.
    + rewrite jget_app, E1. unfold en1 in E1. rewrite (jget_jremove_other _ _ _ Hs) in E1. rewrite E1.
      cbn [jget]. rewrite text_eqb_refl. reflexivity.
Qed.

(* ---- registry.get on list registries: concatenation in file order ---------------------------- *)

Lemma get_lists perm (files : list (list json)) acc :
  fold_left (get_step perm) (map (fun l => (false, JArr l)) files) (Ok (RList acc))
  = Ok (RList (acc ++ List.concat files)).
Proof.
  revert acc. induction files as [|l files IH]; intro acc; simpl; [rewrite app_nil_r; reflexivity|].
  rewrite IH, app_assoc. reflexivity.
Qed.

Theorem registry_get_lists perm l (files : list (list json)) :
  registry_get perm (map (fun x => (false, JArr x)) (l :: files)) = Ok (RList (List.concat (l :: files))).
Proof. unfold registry_get. cbn [map fold_left get_step bind fst snd]. rewrite get_lists. reflexivity. Qed.

(* dict registries: left fold of merge_dicts in file order *)
Theorem registry_get_dicts perm o (files : list obj) :
  registry_get perm (map (fun x => (false, JObj x)) (o :: files))
  = Ok (RDict (fold_left (merge_dicts perm) files o)).
Proof.
  unfold registry_get. cbn [map fold_left get_step bind fst snd].
  assert (H : forall acc, fold_left (get_step perm) (map (fun x => (false, JObj x)) files) (Ok (RDict acc))
                          = Ok (RDict (fold_left (merge_dicts perm) files acc))).
  { induction files as [|x files IH]; intro acc; simpl; [reflexivity|apply IH]. }
  rewrite H. reflexivity.
Qed.
