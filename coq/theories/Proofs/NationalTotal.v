(* BBAN.validate_national_checksum raises no foreign exception on a structurally conforming BBAN (C05 with
   national validation), on the regenerated tables. *)
From Coq Require Import Lia ZArith List Bool.
From Schwifty Require Import Lib.Base Lib.Lit Model.Clean Model.Data Model.Iban Model.Bban Model.Generate
  Model.National Model.Algorithms Model.Germany Model.Registry Model.Lookup.
From Schwifty Require Import Spec.Iso13616 Spec.RegistrySpec Spec.NationalPublished.
From Schwifty Require Import Proofs.CleanFacts Proofs.NumFacts Proofs.IbanFacts Proofs.IbanTheorems Proofs.DecompFacts
  Proofs.NationalFacts Proofs.NationalDigits Proofs.NationalCountries Proofs.PlaceFacts Proofs.RebuildFacts
  Proofs.ComputeShape Proofs.ComputeTotal Proofs.GenObligations Proofs.GenerateFacts Proofs.GenerateTotal.
From Schwifty Require Props.C07.
From Schwifty Require Import Gen.Env Gen.IbanData Gen.IbanCfg Gen.ChecksumCfg Gen.GermanyTbl Gen.Banks.
From Coq Require Import String.
Import ListNotations.
Open Scope list_scope.

(* per country: the classes at the positions the default algorithm's validate reads are what it needs *)
Definition nat_row_ok (r : row) : bool :=
  match classes_of r with
  | None => false
  | Some ks =>
    match assoc (r_cc r ++ [58%N] ++ k_default) registered with
    | None => true
    | Some (cls, acc) =>
      match national_class the_env nd_runs (ic_alphabet the_iban_cfg) cls acc with
      | None => false
      | Some _ => forallb (fun k => existsb (text_eqb k) the_components) acc && kinds_ok_v cls (map (kinds_at r ks) acc)
      end
    end
  end.
Lemma gen_nat_obl : forallb nat_row_ok the_table = true.
Proof. vm_cast_no_check (eq_refl true). Qed.

(* a slice of a conforming BBAN at a component's range conforms to the classes there *)
Lemma slice_conf r ks b k :
  conforms ks b = true -> fc_layout_ok the_components r = true -> len b = r_bban_length r -> In k the_components ->
  conf (kinds_at r ks k) (get_slice b (fst (rng r k)) (Some (snd (rng r k)))).
Proof.
  intros Hc LAY Hl Hk. left.
  assert (Hr : range_in (r_bban_length r) (rng r k) = true).
  { unfold fc_layout_ok in LAY. repeat (apply andb_true_iff in LAY as [LAY ?]).
    match goal with H : forallb (fun c => range_in _ _) _ = true |- _ => rewrite forallb_forall in H; exact (H k Hk) end. }
  apply range_in_spec in Hr as [H1 H2]. rewrite <- Hl in H2.
  split.
  - unfold kinds_at. apply slice_matches; assumption.
  - rewrite get_slice_cutn by assumption. unfold kinds_at, py_slice_list, cutn, norm_idx.
    pose proof (RebuildFacts.conforms_length ks b Hc) as Hlen. unfold len in H2.
    replace (fst (rng r k) <? 0)%Z with false by lia. replace (snd (rng r k) <? 0)%Z with false by lia.
    replace (Z.min (fst (rng r k)) (Z.of_nat (List.length ks))) with (fst (rng r k)) by lia.
    replace (Z.min (snd (rng r k)) (Z.of_nat (List.length ks))) with (snd (rng r k)) by lia.
    rewrite !firstn_length, !skipn_length. lia.
Qed.

Lemma national_total_R (R : banks) (ONLYDE : algo_only_for (tx "DE") R = true) : forall cc r b c,
  find_row the_table cc = Some r -> conforms_row r b = true ->
  validate_national the_table the_algos (bank_code_entries R) cc b <> Crash c.
Proof.
  intros cc r b c Er Hconf.
  destruct (text_eqb cc (tx "DE")) eqn:Ede.
  - (* Germany: the bank's method *)
    apply Proofs.CleanFacts.text_eqb_eq in Ede. subst cc.
    unfold validate_national, bban_bank, bban_lookup_key, get_spec. rewrite Er. cbn [bind].
    set (bank := match bank_code_entries R _ _ with [] => None | x :: _ => Some x end).
    set (name := match bank with Some en => match e_algo en with Some a => a | None => k_default end | None => k_default end).
    clearbody name. clear bank.
    destruct (the_algos (tx "DE") name) as [al|] eqn:Hal; [|discriminate].
    change (the_algos (tx "DE") name) with (Props.C07.the_algos Props.C07.de name) in Hal.
    pose proof (Props.C07.C07_accepts name al Hal) as Hacc. rewrite Hacc. cbn [map].
    (* the account number: ten digits *)
    pose proof Props.C07.C07_de_obl as O. unfold Props.C07.de_row_ok in O. rewrite Er in O.
    apply andb_true_iff in O as [O _]. apply andb_true_iff in O as [O _].
    apply andb_true_iff in O as [O Hpos]. apply andb_true_iff in O as [Hnum Hlen]. apply Z.eqb_eq in Hlen.
    pose proof (numeric_row_digits r b Hnum Hconf) as Hd.
    assert (Hl : List.length b = 18%nat).
    { clear - Hconf Hlen. unfold conforms_row in Hconf. destruct (row_kinds r); [|discriminate]. apply andb_true_iff in Hconf as [Hl0 _].
      apply Z.eqb_eq in Hl0. unfold len in Hl0. lia. }
    rewrite !(comp_sl r _ _ _ b) by (first [eassumption|lia]).
    assert (Hda : forallb is_ascii_digit (sl 8 18 b) = true) by (apply sl_forallb; exact Hd).
    assert (Hla : List.length (sl 8 18 b) = 10%nat) by (rewrite sl_length by lia; reflexivity).
    pose proof (fun ex c' => Props.C07.C07_total name al (sl 8 18 b) ex c' Hal Hda Hla) as T.
    destruct (al_validate al [sl 8 18 b] _) as [[|]|x|x] eqn:Ev; cbn [bind]; try discriminate.
    exfalso. exact (T _ x Ev).
  - (* elsewhere: the country's default algorithm *)
    rewrite (validate_national_default the_table the_algos R ONLYDE cc r b Ede Er).
    pose proof (find_row_in _ _ _ Er) as [Hin Ecc].
    pose proof gen_nat_obl as O. rewrite forallb_forall in O. specialize (O r Hin). unfold nat_row_ok, classes_of in O.
    rewrite Ecc in O.
    unfold the_algos, the_find_algo, Algorithms.find_algo.
    destruct (assoc (cc ++ [58%N] ++ k_default) registered) as [[cls acc]|]; [|discriminate].
    destruct (parse_structure (r_bban_spec r)) as [items|] eqn:Hp; [|discriminate].
    destruct (national_class the_env nd_runs (ic_alphabet the_iban_cfg) cls acc) as [al|] eqn:Hal; [|discriminate].
    apply andb_true_iff in O as [Hacc Hkinds]. cbv zeta.
    assert (Eacc : al_accepts al = acc).
    { clear -Hal. unfold national_class in Hal.
      repeat match type of Hal with context [text_eqb cls ?t] => destruct (text_eqb cls t) end;
        try discriminate; inversion Hal; reflexivity. }
    rewrite Eacc.
    set (ks := flat_map (fun it => repeat (it_kind it) (N.to_nat (it_count it))) items) in *.
    assert (Hck : conforms ks b = true /\ len b = r_bban_length r).
    { unfold conforms_row, row_kinds in Hconf. rewrite Hp in Hconf.
      destruct (position_kinds items) as [kds|] eqn:Ek; [|discriminate].
      rewrite (position_kinds_flat items kds Ek) in Hconf. fold ks in Hconf.
      apply andb_true_iff in Hconf as [H1 H2]. apply Z.eqb_eq in H1. split; assumption. }
    destruct Hck as [Hck Hlb].
    assert (Hcomps : comps_ok_v cls (map (fun c0 => get_slice b (fst (position_range r c0)) (Some (snd (position_range r c0)))) acc) = true).
    { apply (kinds_comps_v cls (map (kinds_at r ks) acc)); [exact Hkinds|].
      clear -Hacc Hck Hlb Er. induction acc as [|k acc IH]; [constructor|]. cbn [map forallb] in *.
      apply andb_true_iff in Hacc as [Hk Hacc]. apply existsb_in in Hk. constructor; [|exact (IH Hacc)].
      rewrite <- (fc_rng_eq r k Hk). exact (slice_conf r ks b k Hck (layout_of cc r Er) Hlb Hk). }
    pose proof (class_validate_total the_env the_iban_cfg nd_runs gen_nd_obl gen_alpha_obl cls acc al _
                  (get_slice b (fst (position_range r k_national)) (Some (snd (position_range r k_national)))) Hal Hcomps) as Hnc.
    cbv beta.
    destruct (al_validate al _ _) as [[|]|x|x]; cbn [bind]; try discriminate.
Qed.

Theorem gen_national_total : forall cc r b c,
  find_row the_table cc = Some r -> conforms_row r b = true ->
  validate_national the_table the_algos (bank_code_entries the_banks) cc b <> Crash c.
Proof. exact (national_total_R the_banks gen_onlyde_obl). Qed.
