(* BBAN.random raises nothing but library errors, on the regenerated tables (C13). *)
From Coq Require Import Lia ZArith List Bool.
From Schwifty Require Import Lib.Base Lib.Lit Model.Clean Model.Data Model.Iban Model.Bban Model.Generate Model.Random.
From Schwifty Require Import Spec.Iso13616 Proofs.CleanFacts Proofs.IbanFacts Proofs.PlaceFacts Proofs.RandomFacts
  Proofs.GenObligations Proofs.GenerateFacts Proofs.RandomGen Proofs.GenerateTotal.
From Schwifty Require Import Gen.Env Gen.IbanData Gen.IbanCfg Gen.Banks.
Import ListNotations.

Theorem gen_random_total : forall cc0 reg pins ci bi draws c,
  (forall k v, In (k, v) pins -> cleaned the_env v = true) ->
  (forall d, In d draws -> cleaned the_env (upper the_env d) = true) ->
  (100 <= List.length draws)%nat ->
  random_bban' cc0 reg pins ci bi draws <> Crash c.
Proof.
  intros cc0 reg pins ci bi draws c HP HDRAWS Hlen Hcrash.
  assert (H : is_crash (random_bban' cc0 reg pins ci bi draws) = false).
  { unfold random_bban'.
    apply (random_no_crash the_env the_components the_table the_algos the_banks env_obl gen_zero_obl cc0 reg pins ci bi draws);
      try assumption.
    - intros cc r values Er ONLY. exact (built_total cc r values Er ONLY).
    - intros r Hin. pose proof gen_layout_obl as O. rewrite forallb_forall in O. exact (O r Hin).
    - exact gen_codes_clean_obl.
    - intros r k0 v0 Hin Hkv. pose proof gen_defaults_clean_obl as O. rewrite forallb_forall in O.
      specialize (O r Hin). rewrite forallb_forall in O. exact (O (k0, v0) Hkv). }
  rewrite Hcrash in H. discriminate.
Qed.
