(* BBAN.random / IBAN.random: what comes back was built by from_components from the overlay of pins, registry bank,
   defaults and the draw; a pinned component of its field's width comes back unchanged; the only library error the
   retry loop itself raises is the documented overflow error. *)
From Coq Require Import Lia ZArith List Bool.
From Schwifty Require Import Lib.Base Lib.Lit Model.Clean Model.Data Model.Bban Model.Lookup Model.Random Spec.RegistrySpec.
From Schwifty Require Import Proofs.CleanFacts Proofs.DecompFacts Proofs.PlaceFacts.
Import ListNotations.

Lemma assoc_in {A} k (l : list (text * A)) v : assoc k l = Some v -> exists k', text_eqb k k' = true /\ In (k', v) l.
Proof.
  induction l as [|[k' v'] l IH]; cbn [assoc]; intro H; [discriminate|].
  destruct (text_eqb k k') eqn:E.
  - inversion H; subst. exists k'. split; [exact E|left; reflexivity].
  - destruct (IH H) as (k2 & E2 & Hin). exists k2. split; [exact E2|right; exact Hin].
Qed.

Lemma get_val_in k (l : list (text * text)) : get_val k l = [] \/ In (k, get_val k l) l.
Proof.
  unfold get_val. destruct (assoc k l) as [v|] eqn:E; [|left; reflexivity].
  apply assoc_in in E as (k' & Ek & Hin). apply text_eqb_eq in Ek. subst k'. right. exact Hin.
Qed.

Lemma in_set_assoc_weak k v (l : list (text * text)) k' v' :
  In (k', v') (set_assoc k v l) -> v' = v \/ In (k', v') l.
Proof.
  induction l as [|[k2 v2] l IH]; cbn [set_assoc]; intro H; [destruct H|].
  destruct (text_eqb k k2).
  - destruct H as [H|H]; [inversion H; left; reflexivity|right; right; exact H].
  - destruct H as [H|H]; [right; left; exact H|]. destruct (IH H) as [E|Hin]; [left; exact E|right; right; exact Hin].
Qed.

Lemma py_slice_to_len (s : text) n : (0 <= n)%Z -> (len (py_slice_to s n) <= n)%Z.
Proof.
  intro Hn. unfold py_slice_to, py_slice, norm_idx. replace (0 <? 0)%Z with false by lia. replace (n <? 0)%Z with false by lia.
  replace (Z.min 0 (len s)) with 0%Z by (unfold len; lia). cbn [Z.to_nat skipn]. unfold len. rewrite firstn_length. lia.
Qed.

Lemma py_slice_to_all (s : text) n : len s = n -> py_slice_to s n = s.
Proof.
  intro Hn. unfold py_slice_to, py_slice, norm_idx. replace (0 <? 0)%Z with false by lia.
  replace (n <? 0)%Z with false by (unfold len in Hn; lia).
  replace (Z.min 0 (len s)) with 0%Z by (unfold len; lia). cbn [Z.to_nat skipn]. rewrite Z.sub_0_r.
  apply firstn_all2. unfold len in *. lia.
Qed.

Lemma py_slice_len (s : text) a b' : (0 <= a <= b')%Z -> (b' <= len s)%Z -> len (py_slice s a b') = (b' - a)%Z.
Proof.
  intros H1 H2. unfold py_slice, norm_idx. replace (a <? 0)%Z with false by lia. replace (b' <? 0)%Z with false by lia.
  replace (Z.min a (len s)) with a by lia. replace (Z.min b' (len s)) with b' by lia.
  unfold len in *. rewrite firstn_length, skipn_length. lia.
Qed.
Lemma py_slice_to_min (s : text) n : (0 <= n)%Z -> len (py_slice_to s n) = Z.min (len s) n.
Proof.
  intro Hn. unfold py_slice_to, py_slice, norm_idx. replace (0 <? 0)%Z with false by lia. replace (n <? 0)%Z with false by lia.
  replace (Z.min 0 (len s)) with 0%Z by (unfold len; lia). cbn [Z.to_nat skipn]. unfold len. rewrite firstn_length. lia.
Qed.

Lemma py_slice_cleaned e (s : text) a b' : cleaned e s = true -> cleaned e (py_slice s a b') = true.
Proof. intro H. unfold py_slice. apply cleaned_firstn, cleaned_skipn. exact H. Qed.

Section RandomFacts.
Variable e : env.
Variable components : list text.
Variable T : table.
Variable find_algo : text -> text -> option algo.
Variable R : banks.
Hypothesis WF : env_wf e = true.
Hypothesis ZERO : clean_char e c0 = true.

(* a successful run of the loop returns what from_components built from one of the draws *)
Lemma attempts_ok fuel cc r bank pins : forall draws b,
  attempts e components T find_algo fuel cc r bank pins draws = Ok b ->
  exists d, In d draws /\ from_components e components T find_algo cc (rnd_comps2 e components r bank pins d) = Ok b.
Proof.
  induction fuel as [|fuel IH]; intros draws b H; cbn [attempts] in H; [discriminate|].
  destruct draws as [|d rest]; [discriminate|].
  destruct (from_components e components T find_algo cc (rnd_comps2 e components r bank pins d)) as [b0|x|x] eqn:E.
  - inversion H; subst. exists d. split; [left; reflexivity|exact E].
  - destruct (IH rest b H) as (d' & Hin & Hd). exists d'. split; [right; exact Hin|exact Hd].
  - discriminate.
Qed.

(* the loop itself raises nothing but the overflow error *)
Lemma attempts_err fuel cc r bank pins : forall draws x,
  attempts e components T find_algo fuel cc r bank pins draws = Err x -> x = EGenerateRandomOverflow.
Proof.
  induction fuel as [|fuel IH]; intros draws x H; cbn [attempts] in H; [inversion H; reflexivity|].
  destruct draws as [|d rest]; [discriminate|].
  destruct (from_components e components T find_algo cc (rnd_comps2 e components r bank pins d)); try discriminate.
  exact (IH rest x H).
Qed.


(* with enough draws the loop itself raises no foreign exception unless from_components does *)
Lemma attempts_no_crash fuel cc r bank pins : forall draws,
  (forall d, In d draws -> is_crash (from_components e components T find_algo cc (rnd_comps2 e components r bank pins d)) = false) ->
  (fuel <= List.length draws)%nat ->
  is_crash (attempts e components T find_algo fuel cc r bank pins draws) = false.
Proof.
  induction fuel as [|fuel IH]; intros draws Hd Hl; [reflexivity|]. cbn [attempts].
  destruct draws as [|d rest]; [cbn [List.length] in Hl; lia|].
  pose proof (Hd d (or_introl eq_refl)) as H0.
  destruct (from_components e components T find_algo cc (rnd_comps2 e components r bank pins d)); [reflexivity| |discriminate].
  apply IH; [intros d' Hd'; apply Hd; right; exact Hd'|cbn [List.length] in Hl; lia].
Qed.

Section Pins.
Variable cc : text.
Variable r : row.
Variable bank : option entry.
Variable pins : list (text * text).
Variable d : text.
Hypothesis Er : find_row T cc = Some r.
Hypothesis LAY : fc_layout_ok components r = true.
(* every text that can be handed over is clean: the pins, the registry's bank code, the country's defaults, the draw *)
Hypothesis HP : forall k v, In (k, v) pins -> cleaned e v = true.
Hypothesis HB : forall en, bank = Some en -> cleaned e (e_code en) = true.
Hypothesis HD : forall k v, In (k, v) (r_defaults r) -> cleaned e v = true.
Hypothesis HDRAW : cleaned e (upper e d) = true.

Let rng := fc_rng components r.
Let wd k := range_length (rng k).
Let comps0 := rnd_comps0 components r bank pins (upper e d).
Let comps1 := rnd_comps1 components r pins comps0.
Let comps2 := rnd_comps2 e components r bank pins d.

Lemma rnd_wd_nonneg k : In k components -> (0 <= wd k)%Z.
Proof using All.
  intro Hk. pose proof LAY as LAY'. unfold fc_layout_ok in LAY'. repeat (apply andb_true_iff in LAY' as [LAY' ?]).
  match goal with H : forallb (fun c => range_in _ _) _ = true |- _ => rewrite forallb_forall in H; specialize (H k Hk);
    apply range_in_spec in H end.
  unfold wd, range_length, rng. lia.
Qed.

Lemma comps0_cleaned k v : In (k, v) comps0 -> cleaned e v = true.
Proof using All.
  unfold comps0, rnd_comps0. intro H. apply in_map_iff in H as ([k0 p] & Heq & _). cbn [fst snd] in Heq.
  injection Heq as Hk Hv. subst k0. rewrite <- Hv. clear Hv.
  destruct (assoc k pins) as [pv|] eqn:Ep.
  - apply assoc_in in Ep as (k' & _ & Hin). exact (HP k' pv Hin).
  - destruct (if text_eqb k k_bank then match bank with Some en => e_code en | None => [] end else []) as [|c code] eqn:Ebank.
    + unfold default_for. destruct (assoc k (r_defaults r)) as [dv|] eqn:Edv.
      * apply assoc_in in Edv as (k' & _ & Hin). exact (HD k' dv Hin).
      * apply py_slice_cleaned. exact HDRAW.
    + destruct (text_eqb k k_bank); [|discriminate]. destruct bank as [en|]; [|discriminate].
      rewrite <- Ebank. apply HB. reflexivity.
Qed.

Lemma comps0_keys : map fst comps0 = components.
Proof using All. unfold comps0, rnd_comps0, fc_ranges. rewrite !map_map. cbn [fst]. apply map_id. Qed.

Lemma comps1_cleaned k v : In (k, v) comps1 -> cleaned e v = true.
Proof using All.
  unfold comps1, rnd_comps1. cbv zeta. destruct (_ && _).
  - intro H. apply in_set_assoc_weak in H as [E|H]; [|exact (comps0_cleaned k v H)].
    subst v. apply py_slice_cleaned. destruct (get_val_in k_bank comps0) as [E|Hin]; [rewrite E; reflexivity|].
    exact (comps0_cleaned _ _ Hin).
  - apply comps0_cleaned.
Qed.

Lemma comps1_keys : map fst comps1 = components.
Proof using All. unfold comps1, rnd_comps1. cbv zeta. destruct (_ && _); [rewrite map_fst_set_assoc|]; apply comps0_keys. Qed.

Lemma comps2_keys : map fst comps2 = components.
Proof using All.
  unfold comps2, rnd_comps2. fold comps0. fold comps1. rewrite map_map. cbn [fst]. rewrite <- comps1_keys. reflexivity.
Qed.

Lemma comps2_item k v : In (k, v) comps2 -> In k components /\ cleaned e v = true /\ (len v <= wd k)%Z.
Proof using All.
  unfold comps2, rnd_comps2. fold comps0. fold comps1. intro H. apply in_map_iff in H as ([k1 v1] & Heq & Hin).
  cbn [fst snd] in Heq. inversion Heq; subst k v. clear Heq.
  assert (Hk : In k1 components) by (rewrite <- comps1_keys; apply (in_map fst _ _ Hin)).
  split; [exact Hk|]. split.
  - unfold py_slice_to. apply py_slice_cleaned. exact (comps1_cleaned _ _ Hin).
  - apply py_slice_to_len. exact (rnd_wd_nonneg k1 Hk).
Qed.

Lemma rnd_only : forall k, In k components ->
  text_eqb k k_bank = false -> text_eqb k k_branch = false -> text_eqb k k_account = false ->
  (len (clean e (get_val k comps2)) <= range_length (fc_rng components r k))%Z.
Proof using All.
  intros k Hk _ _ _. destruct (get_val_in k comps2) as [E|Hin].
  - rewrite E. change (clean e []) with (@nil N). pose proof (rnd_wd_nonneg k Hk). unfold wd, rng in *. unfold len. cbn [List.length]. lia.
  - destruct (comps2_item _ _ Hin) as (_ & Hc & Hl). rewrite (cleaned_fix e _ Hc). exact Hl.
Qed.

(* a pinned component survives the overlay untouched when it has its field's width *)
Lemma pin_value k v :
  assoc k pins = Some v -> In k components -> len v = wd k -> get_val k comps2 = v.
Proof using All.
  intros Hp Hk Hl.
  assert (H0 : get_val k comps0 = v).
  { unfold comps0, rnd_comps0, fc_ranges. rewrite map_map. cbn [fst snd].
    rewrite (get_val_map (fun c => match assoc c pins with Some v0 => v0 | None => _ end) k components Hk).
    rewrite Hp. reflexivity. }
  assert (H1 : get_val k comps1 = v).
  { unfold comps1, rnd_comps1. cbv zeta. destruct (assoc k_branch pins) as [bv|] eqn:Eb; cbn [negb andb]; [exact H0|].
    destruct (Z.leb _ _); [|exact H0]. rewrite get_val_set_other; [exact H0|].
    destruct (text_eqb k k_branch) eqn:E; [|reflexivity]. apply text_eqb_eq in E. subst k. congruence. }
  unfold comps2, rnd_comps2. fold comps0. fold comps1.
  assert (Hgen : forall l, get_val k (map (fun kv : text * text => (fst kv, py_slice_to (snd kv) (range_length (fc_rng components r (fst kv))))) l)
                 = match assoc k l with Some x => py_slice_to x (wd k) | None => [] end).
  { induction l as [|[k1 v1] l IH]; [reflexivity|]. unfold get_val in *. cbn [map assoc fst snd].
    destruct (text_eqb k k1) eqn:E; [apply text_eqb_eq in E; subst k1; reflexivity|exact IH]. }
  rewrite Hgen. unfold get_val in H1. destruct (assoc k comps1) as [x|].
  - subst x. apply py_slice_to_all. exact Hl.
  - exact H1.
Qed.

Lemma comps2_get k : get_val k comps2 = py_slice_to (get_val k comps1) (wd k).
Proof using All.
  unfold comps2, rnd_comps2. fold comps0. fold comps1. unfold get_val at 2.
  induction comps1 as [|[k1 v1] l IH].
  { unfold get_val. cbn [map assoc]. unfold py_slice_to, py_slice. rewrite skipn_nil, firstn_nil. reflexivity. }
  unfold get_val in *. cbn [map assoc fst snd].
  destruct (text_eqb k k1) eqn:E; [apply text_eqb_eq in E; subst k1; reflexivity|exact IH].
Qed.

(* a field that is not bank/branch/account code, has positive width and is served by a non-empty pin, a non-empty
   default or a draw of the country's BBAN length receives a non-empty value *)
Lemma comps2_nonempty k :
  In k components -> text_eqb k k_bank = false -> text_eqb k k_branch = false -> (0 < wd k)%Z ->
  (forall k' v, In (k', v) pins -> v <> []) -> (forall k' v, In (k', v) (r_defaults r) -> v <> []) ->
  len (upper e d) = r_bban_length r ->
  get_val k comps2 <> [].
Proof using All.
  intros Hk Hnb Hnbr Hw HPne HDne Hlen.
  assert (H0 : get_val k comps0 <> []).
  { unfold comps0, rnd_comps0, fc_ranges. rewrite map_map. cbn [fst snd].
    rewrite (get_val_map (fun c => match assoc c pins with Some v0 => v0 | None => _ end) k components Hk).
    destruct (assoc k pins) as [pv|] eqn:Ep.
    - apply assoc_in in Ep as (k' & _ & Hin). exact (HPne k' pv Hin).
    - rewrite Hnb. unfold default_for. destruct (assoc k (r_defaults r)) as [dv|] eqn:Edv.
      + apply assoc_in in Edv as (k' & _ & Hin). exact (HDne k' dv Hin).
      + pose proof LAY as LAY'. unfold fc_layout_ok in LAY'. repeat (apply andb_true_iff in LAY' as [LAY' ?]).
        match goal with H : forallb (fun c => range_in _ _) _ = true |- _ => rewrite forallb_forall in H; specialize (H k Hk);
          apply range_in_spec in H as [R1 R2] end.
        assert (Erng : fc_rng components r k = position_range r k)
          by (unfold fc_rng, fc_ranges; rewrite (assoc_map (position_range r) k components Hk); reflexivity).
        rewrite Erng in R1, R2.
        intro E. apply (f_equal len) in E. rewrite py_slice_len in E by (rewrite ?Hlen; assumption).
        unfold wd, range_length, rng in Hw. rewrite Erng in Hw. change (len []) with 0%Z in E. lia. }
  assert (H1 : get_val k comps1 = get_val k comps0).
  { unfold comps1, rnd_comps1. cbv zeta. destruct (_ && _); [|reflexivity]. apply get_val_set_other. exact Hnbr. }
  rewrite comps2_get, H1. intro E. apply (f_equal len) in E. rewrite py_slice_to_min in E by lia.
  change (len []) with 0%Z in E. destruct (get_val k comps0) as [|c l]; [congruence|]. unfold len in E. cbn [List.length] in E. lia.
Qed.

Lemma rnd_nosplit : fc_split components r (fc_comps0 e components r comps2) = false.
Proof using All.
  destruct (fc_split components r (fc_comps0 e components r comps2)) eqn:E; [|reflexivity]. exfalso.
  apply (split_spec e components T find_algo WF ZERO cc r comps2 Er LAY rnd_only) in E as [Hne Hl].
  destruct (lay_facts e components T find_algo WF ZERO cc r comps2 Er LAY rnd_only) as (_ & _ & _ & _ & Hb & Hbr & _).
  rewrite zfill_len in Hl.
  assert (Hle : (len (clean e (get_val k_bank comps2)) <= wd k_bank)%Z).
  { destruct (get_val_in k_bank comps2) as [E|Hin].
    - rewrite E. change (clean e []) with (@nil N). pose proof (rnd_wd_nonneg _ Hb). unfold len. cbn [List.length]. lia.
    - destruct (comps2_item _ _ Hin) as (_ & Hc & Hl'). rewrite (cleaned_fix e _ Hc). exact Hl'. }
  pose proof (rnd_wd_nonneg _ Hbr). unfold wd, rng in *. lia.
Qed.

Theorem pin_honoured b k v :
  from_components e components T find_algo cc comps2 = Ok b ->
  (forall vals K, compute_national find_algo cc vals = Ok K ->
     K = [] \/ range_is_empty (rng k_national) = true \/ (cleaned e K = true /\ len K = wd k_national)) ->
  assoc k pins = Some v -> In k components -> text_eqb k k_national = false -> len v = wd k ->
  get_slice b (fst (rng k)) (Some (snd (rng k))) = v.
Proof using All.
  intros Hb HK Hp Hk Hnn Hl.
  destruct (fc_placed_any e components T find_algo WF ZERO cc r comps2 Er LAY rnd_only b k Hb (fun K => HK _ K) rnd_nosplit Hk Hnn)
    as [Hg _].
  fold rng in Hg. rewrite Hg. rewrite (pin_value k v Hp Hk Hl).
  assert (Hc : cleaned e v = true) by (apply assoc_in in Hp as (k' & _ & Hin); exact (HP k' v Hin)).
  rewrite (cleaned_fix e _ Hc). unfold zfill. fold (wd k). rewrite Hl, Z.leb_refl. reflexivity.
Qed.

Theorem built_shape b :
  from_components e components T find_algo cc comps2 = Ok b ->
  (forall vals K, compute_national find_algo cc vals = Ok K ->
     K = [] \/ range_is_empty (rng k_national) = true \/ (cleaned e K = true /\ len K = wd k_national)) ->
  len b = r_bban_length r /\ cleaned e b = true.
Proof using All.
  intros Hb HK.
  destruct (fc_result e components T find_algo WF ZERO cc r comps2 Er LAY rnd_only b Hb (fun K => HK _ K))
    as (_ & _ & Hlen & Hcl & _).
  split; assumption.
Qed.
End Pins.

(* BBAN.random as a whole *)
Theorem random_pins cc0 reg pins ci bi draws cc b r ps :
  random_bban e components T find_algo R cc0 reg pins ci bi draws = Ok (cc, b) ->
  find_row T cc = Some r -> r_positions r = Some ps -> fc_layout_ok components r = true ->
  forallb (fun en => cleaned e (e_code en)) R = true ->
  (forall k0 v0, In (k0, v0) (r_defaults r) -> cleaned e v0 = true) ->
  (forall k v, In (k, v) pins -> cleaned e v = true) ->
  (forall d, In d draws -> cleaned e (upper e d) = true) ->
  (forall vals K, compute_national find_algo cc vals = Ok K ->
     K = [] \/ range_is_empty (fc_rng components r k_national) = true
     \/ (cleaned e K = true /\ len K = range_length (fc_rng components r k_national))) ->
  len b = r_bban_length r /\ cleaned e b = true /\
  forall k v, assoc k pins = Some v -> In k components -> text_eqb k k_national = false ->
    len v = range_length (fc_rng components r k) ->
    get_slice b (fst (fc_rng components r k)) (Some (snd (fc_rng components r k))) = v.
Proof using WF ZERO.
  intros H Er Eps LAY HCODES HD HP HDRAWS HK.
  unfold random_bban in H. cbv zeta in H. unfold get_spec in H.
  set (cc' := match cc0 with [] => nth ci (country_keys R) [] | _ => cc0 end) in *.
  destruct (find_row T cc') as [r'|] eqn:Er'; [|discriminate]. cbn [bind] in H.
  assert (Ecc : cc = cc').
  { destruct (r_positions r'); [destruct (attempts _ _ _ _ _ _ _ _ _ _)|destruct draws]; cbn [bind] in H; congruence. }
  clearbody cc'. subst cc'. rewrite Er in Er'. inversion Er'; subst r'. clear Er'. rewrite Eps in H.
  remember (if reg then match country_entries R cc with [] => None | l => nth_error l bi end else None) as bank eqn:Ebank.
  destruct (attempts e components T find_algo 100 cc r bank pins draws) as [b0|x|x] eqn:E; try discriminate. cbn [bind] in H.
  inversion H; subst b0. clear H.
  destruct (attempts_ok _ _ _ _ _ _ _ E) as (d & Hd & Hfc).
  assert (HB : forall en, bank = Some en -> cleaned e (e_code en) = true).
  { intros en Hen. rewrite forallb_forall in HCODES. apply HCODES.
    rewrite Ebank in Hen. destruct reg; [|discriminate].
    destruct (country_entries R cc) as [|e0 l] eqn:El; [discriminate|].
    apply nth_error_In in Hen. rewrite <- El in Hen. unfold country_entries, idx_filter in Hen.
    apply filter_In in Hen as [Hen _]. exact Hen. }
  destruct (built_shape cc r bank pins d Er LAY HP HB HD (HDRAWS d Hd) b Hfc HK) as [S1 S2].
  split; [exact S1|]. split; [exact S2|]. intros k v Hp Hk Hnn Hl.
  exact (pin_honoured cc r bank pins d Er LAY HP HB HD (HDRAWS d Hd) b k v Hfc HK Hp Hk Hnn Hl).
Qed.

(* what BBAN.random returns was built by from_components from values that fit their fields *)
Theorem random_built cc0 reg pins ci bi draws cc b r ps :
  random_bban e components T find_algo R cc0 reg pins ci bi draws = Ok (cc, b) ->
  find_row T cc = Some r -> r_positions r = Some ps -> fc_layout_ok components r = true ->
  forallb (fun en => cleaned e (e_code en)) R = true ->
  (forall k0 v0, In (k0, v0) (r_defaults r) -> cleaned e v0 = true) ->
  (forall k v, In (k, v) pins -> cleaned e v = true) ->
  (forall d, In d draws -> cleaned e (upper e d) = true) ->
  exists values, from_components e components T find_algo cc values = Ok b /\
    forall k, In k components ->
      text_eqb k k_bank = false -> text_eqb k k_branch = false -> text_eqb k k_account = false ->
      (len (clean e (get_val k values)) <= range_length (fc_rng components r k))%Z.
Proof using WF ZERO.
  intros H Er Eps LAY HCODES HD HP HDRAWS.
  unfold random_bban in H. cbv zeta in H. unfold get_spec in H.
  set (cc' := match cc0 with [] => nth ci (country_keys R) [] | _ => cc0 end) in *.
  destruct (find_row T cc') as [r'|] eqn:Er'; [|discriminate]. cbn [bind] in H.
  assert (Ecc : cc = cc').
  { destruct (r_positions r'); [destruct (attempts _ _ _ _ _ _ _ _ _ _)|destruct draws]; cbn [bind] in H; congruence. }
  clearbody cc'. subst cc'. rewrite Er in Er'. inversion Er'; subst r'. clear Er'. rewrite Eps in H.
  remember (if reg then match country_entries R cc with [] => None | l => nth_error l bi end else None) as bank eqn:Ebank.
  destruct (attempts e components T find_algo 100 cc r bank pins draws) as [b0|x|x] eqn:E; try discriminate. cbn [bind] in H.
  inversion H; subst b0. clear H.
  destruct (attempts_ok _ _ _ _ _ _ _ E) as (d & Hd & Hfc).
  assert (HB : forall en, bank = Some en -> cleaned e (e_code en) = true).
  { intros en Hen. rewrite forallb_forall in HCODES. apply HCODES.
    rewrite Ebank in Hen. destruct reg; [|discriminate].
    destruct (country_entries R cc) as [|e0 l] eqn:El; [discriminate|].
    apply nth_error_In in Hen. rewrite <- El in Hen. unfold country_entries, idx_filter in Hen.
    apply filter_In in Hen as [Hen _]. exact Hen. }
  exists (rnd_comps2 e components r bank pins d). split; [exact Hfc|].
  exact (rnd_only cc r bank pins d Er LAY HP HB HD (HDRAWS d Hd)).
Qed.

(* the same, naming the values: the overlay of one of the draws *)
Theorem random_built_values cc0 reg pins ci bi draws cc b r ps :
  random_bban e components T find_algo R cc0 reg pins ci bi draws = Ok (cc, b) ->
  find_row T cc = Some r -> r_positions r = Some ps ->
  exists d bank, In d draws /\ (forall en, bank = Some en -> In en R) /\
    from_components e components T find_algo cc (rnd_comps2 e components r bank pins d) = Ok b.
Proof using WF ZERO.
  intros H Er Eps.
  unfold random_bban in H. cbv zeta in H. unfold get_spec in H.
  set (cc' := match cc0 with [] => nth ci (country_keys R) [] | _ => cc0 end) in *.
  destruct (find_row T cc') as [r'|] eqn:Er'; [|discriminate]. cbn [bind] in H.
  assert (Ecc : cc = cc').
  { destruct (r_positions r'); [destruct (attempts _ _ _ _ _ _ _ _ _ _)|destruct draws]; cbn [bind] in H; congruence. }
  clearbody cc'. subst cc'. rewrite Er in Er'. inversion Er'; subst r'. clear Er'. rewrite Eps in H.
  remember (if reg then match country_entries R cc with [] => None | l => nth_error l bi end else None) as bank eqn:Ebank.
  destruct (attempts e components T find_algo 100 cc r bank pins draws) as [b0|x|x] eqn:E; try discriminate. cbn [bind] in H.
  inversion H; subst b0. clear H.
  destruct (attempts_ok _ _ _ _ _ _ _ E) as (d & Hd & Hfc).
  exists d, bank. split; [exact Hd|]. split; [|exact Hfc].
  intros en Hen. rewrite Ebank in Hen. destruct reg; [|discriminate].
  destruct (country_entries R cc) as [|e0 l] eqn:El; [discriminate|].
  apply nth_error_In in Hen. rewrite <- El in Hen. unfold country_entries, idx_filter in Hen.
  apply filter_In in Hen as [Hen _]. exact Hen.
Qed.

(* every value the loop hands to from_components fits its field (for use with totality of from_components) *)
Theorem random_values_fit cc r reg bi pins d :
  find_row T cc = Some r -> fc_layout_ok components r = true ->
  forallb (fun en => cleaned e (e_code en)) R = true ->
  (forall k0 v0, In (k0, v0) (r_defaults r) -> cleaned e v0 = true) ->
  (forall k v, In (k, v) pins -> cleaned e v = true) ->
  cleaned e (upper e d) = true ->
  let bank := if reg : bool then match country_entries R cc with [] => None | l => nth_error l bi end else None in
  forall k, In k components ->
    text_eqb k k_bank = false -> text_eqb k k_branch = false -> text_eqb k k_account = false ->
    (len (clean e (get_val k (rnd_comps2 e components r bank pins d))) <= range_length (fc_rng components r k))%Z.
Proof using All.
  intros Er LAY HCODES HD HP HDRAW bank.
  assert (HB : forall en, bank = Some en -> cleaned e (e_code en) = true).
  { intros en Hen. rewrite forallb_forall in HCODES. apply HCODES.
    unfold bank in Hen. destruct reg; [|discriminate].
    destruct (country_entries R cc) as [|e0 l] eqn:El; [discriminate|].
    apply nth_error_In in Hen. rewrite <- El in Hen. unfold country_entries, idx_filter in Hen.
    apply filter_In in Hen as [Hen _]. exact Hen. }
  exact (rnd_only cc r bank pins d Er LAY HP HB HD HDRAW).
Qed.

(* BBAN.random raises no foreign exception (given the 100 draws the loop may ask for), provided from_components does not
   on values that fit their fields *)
Theorem random_no_crash cc0 reg pins ci bi draws :
  (forall cc r values, find_row T cc = Some r ->
     (forall k, In k components -> text_eqb k k_bank = false -> text_eqb k k_branch = false -> text_eqb k k_account = false ->
        (len (clean e (get_val k values)) <= range_length (fc_rng components r k))%Z) ->
     is_crash (from_components e components T find_algo cc values) = false) ->
  (forall r, In r T -> fc_layout_ok components r = true) ->
  forallb (fun en => cleaned e (e_code en)) R = true ->
  (forall r k0 v0, In r T -> In (k0, v0) (r_defaults r) -> cleaned e v0 = true) ->
  (forall k v, In (k, v) pins -> cleaned e v = true) ->
  (forall d, In d draws -> cleaned e (upper e d) = true) ->
  (100 <= List.length draws)%nat ->
  is_crash (random_bban e components T find_algo R cc0 reg pins ci bi draws) = false.
Proof using WF ZERO.
  intros Htot HLAY HCODES HD HP HDRAWS Hlen.
  unfold random_bban. cbv zeta. unfold get_spec.
  set (cc := match cc0 with [] => nth ci (country_keys R) [] | _ => cc0 end).
  destruct (find_row T cc) as [r|] eqn:Er; [|reflexivity]. cbn [bind].
  assert (Hin : In r T) by (unfold find_row in Er; apply find_some in Er as [Hin _]; exact Hin).
  destruct (r_positions r).
  - remember (if reg then match country_entries R cc with [] => None | l => nth_error l bi end else None) as bank eqn:Ebank.
    assert (Hnc : is_crash (attempts e components T find_algo 100 cc r bank pins draws) = false).
    { apply attempts_no_crash; [|exact Hlen]. intros d Hd. apply (Htot cc r _ Er). subst bank.
      exact (random_values_fit cc r reg bi pins d Er (HLAY r Hin) HCODES (fun k0 v0 => HD r k0 v0 Hin) HP (HDRAWS d Hd)). }
    destruct (attempts e components T find_algo 100 cc r bank pins draws); [reflexivity|reflexivity|discriminate].
  - destruct draws as [|d rest]; [cbn [List.length] in Hlen; lia|reflexivity].
Qed.
(* the first entry registered under a key that some entry carries has that key *)
Lemma found_again' cc b code en :
  In en R -> e_cc en = cc -> e_code en = code -> cc <> [] -> code <> [] ->
  bban_lookup_key T cc b = Ok code ->
  exists x, bban_bank T (bank_code_entries R) cc b = Ok (Some x) /\ e_code x = code /\ e_cc x = cc /\ In x R.
Proof.
  intros Hin Hcc Hcode Hnc Hnk Hkey. unfold bban_bank. rewrite Hkey. cbn [bind].
  assert (Hmem : In en (bank_code_entries R cc code)).
  { unfold bank_code_entries, idx_filter. apply filter_In. split; [exact Hin|].
    unfold key_bank_code. rewrite Hcc, Hcode.
    destruct cc as [|c0 cc']; [congruence|]. destruct code as [|k0 code']; [congruence|]. cbn [nonempty andb].
    unfold pair_eqb. cbn [fst snd]. rewrite !text_eqb_refl. reflexivity. }
  destruct (bank_code_entries R cc code) as [|x l] eqn:El; [destruct Hmem|].
  exists x. split; [reflexivity|].
  assert (Hx : In x (bank_code_entries R cc code)) by (rewrite El; left; reflexivity).
  unfold bank_code_entries, idx_filter in Hx. apply filter_In in Hx as [HxR Hk].
  unfold key_bank_code in Hk. destruct (nonempty (e_cc x) && nonempty (e_code x)); [|discriminate].
  unfold pair_eqb in Hk. cbn [fst snd] in Hk. apply andb_true_iff in Hk as [H1 H2].
  apply text_eqb_eq in H1, H2. repeat split; [symmetry; exact H2|symmetry; exact H1|exact HxR].
Qed.

(* ---- a registry-based draw carries the chosen bank's code in the bank-identifying field(s) ----------------------- *)
Section Listed.
Variable cc : text.
Variable r : row.
Variable en : entry.
Variable pins : list (text * text).
Variable d : text.
Hypothesis Er : find_row T cc = Some r.
Hypothesis LAY : fc_layout_ok components r = true.
Hypothesis HP : forall k v, In (k, v) pins -> cleaned e v = true.
Hypothesis HCODE : cleaned e (e_code en) = true.
Hypothesis HD : forall k v, In (k, v) (r_defaults r) -> cleaned e v = true.
Hypothesis HDRAW : cleaned e (upper e d) = true.
Hypothesis NOBANK : assoc k_bank pins = None.
Hypothesis NOBRANCH : assoc k_branch pins = None.
Hypothesis CODE : e_code en <> [].

Let rng := fc_rng components r.
Let wd k := range_length (rng k).
Let code := e_code en.
Let comps2 := rnd_comps2 e components r (Some en) pins d.

Lemma HB' : forall en', Some en = Some en' -> cleaned e (e_code en') = true.
Proof using All. intros en' H. inversion H; subst. exact HCODE. Qed.

Lemma listed_facts :
  In k_bank components /\ In k_branch components /\ text_eqb k_bank k_branch = false
  /\ text_eqb k_bank k_national = false /\ text_eqb k_branch k_national = false
  /\ (0 <= wd k_bank)%Z /\ (0 <= wd k_branch)%Z.
Proof using All.
  pose proof LAY as L. unfold fc_layout_ok in L. repeat (apply andb_true_iff in L as [L ?]).
  repeat match goal with X : negb _ = true |- _ => apply negb_true_iff in X end.
  repeat match goal with X : existsb _ _ = true |- _ => apply existsb_in in X end.
  match goal with X : forallb (fun c => range_in _ _) _ = true |- _ => rewrite forallb_forall in X; rename X into HR end.
  assert (Hb : In k_bank components) by assumption. assert (Hbr : In k_branch components) by assumption.
  pose proof (HR _ Hb) as R1. pose proof (HR _ Hbr) as R2. apply range_in_spec in R1, R2.
  unfold wd, range_length, rng. repeat split; try assumption; lia.
Qed.

(* the values handed over for the bank and branch fields *)
Lemma listed_values :
  get_val k_bank comps2 = py_slice_to code (wd k_bank)
  /\ ((wd k_bank + wd k_branch <= len code)%Z ->
      get_val k_branch comps2 = py_slice_to (py_slice code (wd k_bank) (wd k_bank + wd k_branch)) (wd k_branch)).
Proof using All.
  destruct listed_facts as (Hb & Hbr & Nbb & _).
  set (comps0 := rnd_comps0 components r (Some en) pins (upper e d)).
  assert (H0 : get_val k_bank comps0 = code).
  { unfold comps0, rnd_comps0, fc_ranges. rewrite map_map. cbn [fst snd].
    rewrite (get_val_map (fun c => match assoc c pins with Some v0 => v0 | None => _ end) k_bank components Hb).
    rewrite NOBANK, text_eqb_refl. fold code. destruct code as [|c0 code'] eqn:Ec; [unfold code in Ec; congruence|reflexivity]. }
  set (comps1 := rnd_comps1 components r pins comps0).
  assert (Hgen : forall k l, get_val k (map (fun kv : text * text => (fst kv, py_slice_to (snd kv) (range_length (fc_rng components r (fst kv))))) l)
                 = match assoc k l with Some x => py_slice_to x (wd k) | None => [] end).
  { intros k l. induction l as [|[k1 v1] l IH]; [reflexivity|]. unfold get_val in *. cbn [map assoc fst snd].
    destruct (text_eqb k k1) eqn:E; [apply text_eqb_eq in E; subst k1; reflexivity|exact IH]. }
  assert (Hin0 : forall k, In k components -> exists v, assoc k comps0 = Some v).
  { intros k Hk. unfold comps0, rnd_comps0, fc_ranges. rewrite map_map. cbn [fst snd].
    rewrite (assoc_map _ k components Hk). eexists; reflexivity. }
  split.
  - unfold comps2, rnd_comps2. fold comps0. fold comps1. rewrite Hgen.
    assert (H1 : get_val k_bank comps1 = code).
    { unfold comps1, rnd_comps1. cbv zeta. destruct (_ && _); [|exact H0]. rewrite get_val_set_other; [exact H0|exact Nbb]. }
    unfold get_val in H1. destruct (assoc k_bank comps1) as [x|] eqn:Ea; [rewrite H1; reflexivity|].
    exfalso. apply CODE. fold code. symmetry. exact H1.
  - intro Hlen. unfold comps2, rnd_comps2. fold comps0. fold comps1. rewrite Hgen.
    assert (H1 : get_val k_branch comps1 = py_slice code (wd k_bank) (wd k_bank + wd k_branch)).
    { unfold comps1, rnd_comps1. cbv zeta. rewrite NOBRANCH. cbn [negb andb]. rewrite H0.
      fold rng. fold (wd k_bank) (wd k_branch).
      replace (wd k_bank + wd k_branch <=? len code)%Z with true by lia.
      apply get_val_set_same. unfold comps0, rnd_comps0, fc_ranges. rewrite !map_map. cbn [fst]. rewrite map_id. exact Hbr. }
    unfold get_val in H1. destruct (assoc k_branch comps1) as [x|] eqn:Ea; [rewrite H1; reflexivity|].
    rewrite <- H1. unfold py_slice_to, py_slice. rewrite skipn_nil, firstn_nil. reflexivity.
Qed.
Lemma zfill_exact s w : len s = w -> zfill s w = s.
Proof. intro H. unfold zfill. rewrite H, Z.leb_refl. reflexivity. Qed.

Lemma rng_pos k : In k components -> position_range r k = rng k.
Proof using All. intro H. unfold rng, fc_rng, fc_ranges. rewrite (assoc_map (position_range r) k components H). reflexivity. Qed.

(* the lookup key read off the result is the chosen bank's code: countries whose bank-identifying field is the bank
   code, or bank code followed by branch code *)
Theorem listed_key b :
  from_components e components T find_algo cc comps2 = Ok b ->
  (forall vals K, compute_national find_algo cc vals = Ok K ->
     K = [] \/ range_is_empty (rng k_national) = true \/ (cleaned e K = true /\ len K = wd k_national)) ->
  (lookup_components r = [k_bank] /\ len code = wd k_bank)
  \/ (lookup_components r = [k_bank; k_branch] /\ len code = (wd k_bank + wd k_branch)%Z) ->
  bban_lookup_key T cc b = Ok code.
Proof using All.
  intros Hb HK Hlay.
  destruct listed_facts as (Hbk & Hbr & Nbb & Nbn & Nrn & Wb & Wr).
  destruct listed_values as [Vb Vr].
  pose proof (rnd_only cc r (Some en) pins d Er LAY HP HB' HD HDRAW) as ONLY.
  pose proof (rnd_nosplit cc r (Some en) pins d Er LAY HP HB' HD HDRAW) as Hs.
  pose proof (fun k Hk Hn => fc_placed_any e components T find_algo WF ZERO cc r comps2 Er LAY ONLY b k Hb (fun K => HK _ K) Hs Hk Hn) as P.
  destruct (P k_bank Hbk Nbn) as [Sb _]. destruct (P k_branch Hbr Nrn) as [Sr _].
  pose proof HCODE as HC. fold code in HC.
  fold rng in Sb, Sr. fold (wd k_bank) in Sb. fold (wd k_branch) in Sr.
  unfold bban_lookup_key, get_spec. rewrite Er. cbn [bind]. f_equal.
  destruct Hlay as [[Hl Hlen]|[Hl Hlen]]; rewrite Hl; cbn [map]; unfold concat_text; cbn [concat]; rewrite ?app_nil_r.
  - rewrite (rng_pos k_bank Hbk). rewrite Sb, Vb. rewrite (py_slice_to_all code (wd k_bank) Hlen).
    rewrite (cleaned_fix e _ HC). apply zfill_exact. exact Hlen.
  - rewrite (rng_pos k_bank Hbk), (rng_pos k_branch Hbr). rewrite Sb, Sr, Vb, (Vr ltac:(lia)).
    assert (L1 : len (py_slice_to code (wd k_bank)) = wd k_bank).
    { unfold py_slice_to. rewrite py_slice_sub by lia. unfold len in *. rewrite firstn_length, skipn_length. cbn [Z.to_nat]. lia. }
    assert (L2 : len (py_slice code (wd k_bank) (wd k_bank + wd k_branch)) = wd k_branch).
    { rewrite py_slice_sub by lia. unfold len in *. rewrite firstn_length, skipn_length. lia. }
    rewrite (py_slice_to_all _ (wd k_branch) L2).
    assert (C1 : cleaned e (py_slice_to code (wd k_bank)) = true) by (unfold py_slice_to; apply py_slice_cleaned; exact HC).
    assert (C2 : cleaned e (py_slice code (wd k_bank) (wd k_bank + wd k_branch)) = true) by (apply py_slice_cleaned; exact HC).
    rewrite (cleaned_fix e _ C1), (cleaned_fix e _ C2), (zfill_exact _ _ L1), (zfill_exact _ _ L2).
    apply split_glue; assumption.
Qed.
End Listed.
(* the bank-identifying field of the country is the bank code, or bank code followed by branch code, and the entry's
   code has exactly that width *)
Definition code_fits (r : row) (en : entry) : bool :=
  let wdk k := range_length (fc_rng components r k) in
  match e_code en with
  | [] => false
  | code =>
    match lookup_components r with
    | [k1] => text_eqb k1 k_bank && Z.eqb (len code) (wdk k_bank)
    | [k1; k2] => text_eqb k1 k_bank && text_eqb k2 k_branch && Z.eqb (len code) (wdk k_bank + wdk k_branch)
    | _ => false
    end
  end.

(* a registry-based draw (bank and branch not pinned) belongs to a listed bank of the country *)
Theorem random_listed cc0 reg pins ci bi draws cc b r ps :
  reg = true ->
  random_bban e components T find_algo R cc0 reg pins ci bi draws = Ok (cc, b) ->
  find_row T cc = Some r -> r_positions r = Some ps -> fc_layout_ok components r = true -> cc <> [] ->
  forallb (fun en => cleaned e (e_code en)) R = true ->
  (forall k0 v0, In (k0, v0) (r_defaults r) -> cleaned e v0 = true) ->
  (forall k v, In (k, v) pins -> cleaned e v = true) ->
  (forall d, In d draws -> cleaned e (upper e d) = true) ->
  (forall vals K, compute_national find_algo cc vals = Ok K ->
     K = [] \/ range_is_empty (fc_rng components r k_national) = true
     \/ (cleaned e K = true /\ len K = range_length (fc_rng components r k_national))) ->
  assoc k_bank pins = None -> assoc k_branch pins = None ->
  (bi < List.length (country_entries R cc))%nat ->
  (forall en, In en (country_entries R cc) -> code_fits r en = true) ->
  exists x, bban_bank T (bank_code_entries R) cc b = Ok (Some x) /\ In x R /\ e_cc x = cc
    /\ bban_lookup_key T cc b = Ok (e_code x).
Proof using WF ZERO.
  intros Hreg H Er Eps LAY Hcc HCODES HD HP HDRAWS HK NB NBR Hbi Hfits. subst reg.
  unfold random_bban in H. cbv zeta in H. unfold get_spec in H.
  set (cc' := match cc0 with [] => nth ci (country_keys R) [] | _ => cc0 end) in *.
  destruct (find_row T cc') as [r'|] eqn:Er'; [|discriminate]. cbn [bind] in H.
  assert (Ecc : cc = cc').
  { destruct (r_positions r'); [destruct (attempts _ _ _ _ _ _ _ _ _ _)|destruct draws]; cbn [bind] in H; congruence. }
  clearbody cc'. subst cc'. rewrite Er in Er'. inversion Er'; subst r'. clear Er'. rewrite Eps in H.
  destruct (nth_error (country_entries R cc) bi) as [en|] eqn:Een; [|apply nth_error_None in Een; lia].
  assert (Ebank : match country_entries R cc with [] => None | l => nth_error l bi end = Some en).
  { destruct (country_entries R cc) as [|e0 l]; [cbn [List.length] in Hbi; lia|exact Een]. }
  rewrite Ebank in H.
  destruct (attempts e components T find_algo 100 cc r (Some en) pins draws) as [b0|x|x] eqn:E; try discriminate. cbn [bind] in H.
  inversion H; subst b0. clear H.
  destruct (attempts_ok _ _ _ _ _ _ _ E) as (d & Hd & Hfc).
  pose proof (nth_error_In _ _ Een) as Hen. pose proof (Hfits en Hen) as Hfit.
  assert (HenR : In en R /\ e_cc en = cc).
  { unfold country_entries, idx_filter in Hen. apply filter_In in Hen as [H1 H2]. split; [exact H1|].
    unfold key_country in H2. destruct (nonempty (e_cc en)); [|discriminate]. apply text_eqb_eq in H2. symmetry. exact H2. }
  destruct HenR as [HenR Hecc].
  assert (HC : cleaned e (e_code en) = true) by (rewrite forallb_forall in HCODES; exact (HCODES en HenR)).
  unfold code_fits in Hfit. destruct (e_code en) as [|c0 code'] eqn:Ecode; [discriminate|].
  assert (Hne : e_code en <> []) by (rewrite Ecode; discriminate).
  assert (Hkey : bban_lookup_key T cc b = Ok (e_code en)).
  { rewrite <- Ecode in Hfit. rewrite <- Ecode in HC. 
    apply (listed_key cc r en pins d Er LAY HP HC HD (HDRAWS d Hd) NB NBR Hne b Hfc HK).
    destruct (lookup_components r) as [|k1 [|k2 [|k3 lk]]]; try discriminate.
    - left. apply andb_true_iff in Hfit as [H1 H2]. apply text_eqb_eq in H1. apply Z.eqb_eq in H2. subst k1. split; [reflexivity|exact H2].
    - right. apply andb_true_iff in Hfit as [H12 H3]. apply andb_true_iff in H12 as [H1 H2].
      apply text_eqb_eq in H1, H2. apply Z.eqb_eq in H3. subst k1 k2. split; [reflexivity|exact H3]. }
  destruct (found_again' cc b (e_code en) en HenR Hecc eq_refl Hcc Hne Hkey) as (x & Hx & Hcx & Hccx & HxR).
  exists x. split; [exact Hx|]. split; [exact HxR|]. split; [exact Hccx|]. rewrite Hcx. exact Hkey.
Qed.
(* every registry entry of the country fits *)
Definition all_fit_gen (cc : text) : bool :=
  match find_row T cc with
  | Some r => forallb (fun en => negb (text_eqb (e_cc en) cc) || code_fits r en) R
  | None => false
  end.

Lemma all_fit_entries cc r :
  find_row T cc = Some r -> all_fit_gen cc = true ->
  forall en, In en (country_entries R cc) -> code_fits r en = true.
Proof.
  intros Er Hfit en Hen. unfold all_fit_gen in Hfit. rewrite Er in Hfit. rewrite forallb_forall in Hfit.
  unfold country_entries, idx_filter in Hen. apply filter_In in Hen as [H1 H2]. specialize (Hfit en H1).
  unfold key_country in H2. destruct (nonempty (e_cc en)); [|discriminate].
  apply text_eqb_eq in H2. subst cc. rewrite text_eqb_refl in Hfit. exact Hfit.
Qed.
End RandomFacts.