(* IBAN.generate / BBAN.from_components look at their component arguments through clean() only - apart from the raw
   emptiness of the branch code (the "given twice" test) and of the components that are neither bank, branch nor account
   code (whether they are checked against the structure).  So white space and letter case in the arguments of generate do
   not matter (C10 for the building entry points). *)
From Coq Require Import Lia ZArith List Bool.
From Schwifty Require Import Lib.Base Model.Clean Model.Data Model.Iban Model.Bban Model.Generate.
From Schwifty Require Import Proofs.CleanFacts.
Import ListNotations.

Section Variants.
Variable e : env.
Variable components : list text.
Variable T : table.
Variable find_algo : text -> text -> option algo.

(* what from_components reads of its argument *)
Definition same_reading (v v' : list (text * text)) : Prop :=
  (forall k, clean e (get_val k v) = clean e (get_val k v'))
  /\ nonempty_text (get_val k_branch v) = nonempty_text (get_val k_branch v')
  /\ (forall k, text_eqb k k_bank = false -> text_eqb k k_branch = false -> text_eqb k k_account = false ->
        nonempty_text (get_val k v) = nonempty_text (get_val k v')).

Lemma fc_comps0_ext r v v' : (forall k, clean e (get_val k v) = clean e (get_val k v')) ->
  fc_comps0 e components r v = fc_comps0 e components r v'.
Proof. intro H. unfold fc_comps0. apply map_ext. intros [k p]. cbn [fst snd]. rewrite (H k). reflexivity. Qed.

Lemma fc_check_ext r v v' : forall l,
  (forall k, text_eqb k k_bank = false -> text_eqb k k_branch = false -> text_eqb k k_account = false ->
     nonempty_text (get_val k v) = nonempty_text (get_val k v')) ->
  fc_check components r v l = fc_check components r v' l.
Proof.
  induction l as [|[k x] l IH]; intro H; [reflexivity|]. cbn [fc_check].
  assert (E : (text_eqb k k_bank || text_eqb k k_branch || text_eqb k k_account || nonempty_text (get_val k v))
            = (text_eqb k k_bank || text_eqb k k_branch || text_eqb k k_account || nonempty_text (get_val k v'))).
  { destruct (text_eqb k k_bank) eqn:E1; [reflexivity|]. destruct (text_eqb k k_branch) eqn:E2; [reflexivity|].
    destruct (text_eqb k k_account) eqn:E3; [reflexivity|]. cbn [orb]. exact (H k E1 E2 E3). }
  rewrite E.
  match goal with |- context [bind ?c _] => destruct c as [[|]|x0|x0] end; cbn [bind]; try reflexivity. exact (IH H).
Qed.

Theorem from_components_reading cc v v' : same_reading v v' ->
  from_components e components T find_algo cc v = from_components e components T find_algo cc v'.
Proof.
  intros (Hc & Hb & Ho). unfold from_components. destruct (get_spec T cc) as [r|x|x]; cbn [bind]; try reflexivity.
  destruct (r_positions r); [|reflexivity]. cbv zeta.
  rewrite (fc_comps0_ext r v v' Hc), Hb, (fc_check_ext r v v' _ Ho). reflexivity.
Qed.

(* the three arguments of generate *)
Lemma get_val_generate k bank account branch :
  get_val k (generate_values bank account branch) =
  if text_eqb k k_bank then bank else if text_eqb k k_branch then branch else if text_eqb k k_account then account else [].
Proof. unfold get_val, generate_values. cbn [assoc]. repeat destruct (text_eqb k _); reflexivity. Qed.

Theorem generate_reading bank account branch bank' account' branch' :
  clean e bank = clean e bank' -> clean e account = clean e account' -> clean e branch = clean e branch' ->
  nonempty_text branch = nonempty_text branch' ->
  same_reading (generate_values bank account branch) (generate_values bank' account' branch').
Proof.
  intros Hb Ha Hr Hn. repeat split.
  - intro k. rewrite !get_val_generate. repeat destruct (text_eqb k _); try assumption; reflexivity.
  - rewrite !get_val_generate. change (text_eqb k_branch k_bank) with false. rewrite (text_eqb_refl k_branch). exact Hn.
  - intros k E1 E2 E3. rewrite !get_val_generate, E1, E2, E3. reflexivity.
Qed.
End Variants.
