(* C06, part 3: Finland (Luhn), Italy / San Marino (CIN), France / Monaco (RIB with letters). *)
From Coq Require Import Lia ZArith List Bool ZifyBool ZifyN String.
From Schwifty Require Import Lib.Base Lib.Lit Model.Clean Model.Data Model.Iban Model.Bban Model.National Model.Germany.
From Schwifty Require Import Spec.Iso13616 Spec.NationalPublished.
From Schwifty Require Import Proofs.CleanFacts Proofs.NumFacts Proofs.IbanFacts Proofs.NationalFacts Proofs.NationalDigits
  Proofs.NationalCountries Proofs.GermanFacts Proofs.ComputeTotal.
Import ListNotations.
Open Scope list_scope.
Ltac Zify.zify_post_hook ::= Z.to_euclidean_division_equations.

(* ---- Finland ---------------------------------------------------------------------------------------------------- *)
Section FI.
Variable nd : list (N * N).
Hypothesis ND : nd_ok nd = true.
Variable alphabet : text.
Hypothesis ALPHA : alphabet = std_alphabet.

Lemma alpha_digits_id s : forallb is_ascii_digit s = true -> alpha_digits alphabet s = Ok s.
Proof using All.
  induction s as [|c s IH]; intro H; [reflexivity|]. cbn [forallb] in H. apply andb_true_iff in H as [Hc Hs].
  cbn [alpha_digits]. rewrite ALPHA, index_of_std. unfold in_alpha. rewrite Hc. cbn [orb]. rewrite <- ALPHA, (IH Hs). cbn [bind].
  unfold aval. rewrite Hc. rewrite str_one by (unfold is_ascii_digit, c0, c9 in Hc; lia).
  cbn [app]. assert (E : (48 + Z.to_N (Z.of_N (c - 48)))%N = c) by (unfold is_ascii_digit, c0, c9 in Hc; lia).
  rewrite E. reflexivity.
Qed.

Lemma digit_sum_text_app a : forall t za zt,
  digit_sum_text nd a = Ok za -> digit_sum_text nd t = Ok zt -> digit_sum_text nd (a ++ t) = Ok (za + zt)%Z.
Proof using All.
  induction a as [|c a IH]; intros t za zt Ha Ht.
  - cbn in Ha. inversion Ha. cbn [app]. rewrite Ht. reflexivity.
  - cbn [digit_sum_text app] in *. destruct (int_char nd c) as [d|x|x]; try discriminate. cbn [bind] in *.
    destruct (digit_sum_text nd a) as [z|x|x] eqn:Ea; try discriminate. cbn [bind] in Ha. apply Ok_inj' in Ha. subst za.
    rewrite (IH t z zt eq_refl Ht). cbn [bind]. f_equal. lia.
Qed.

Lemma luhn_ds : forall s i, forallb is_ascii_digit s = true ->
  exists p, luhn_processed nd i s = Ok p /\ digit_sum_text nd p = Ok (luhn_sum (Nat.even i) s).
Proof using All.
  induction s as [|c s IH]; intros i H; [exists []; split; reflexivity|].
  cbn [forallb] in H. apply andb_true_iff in H as [Hc Hs].
  destruct (IH (S i) Hs) as (t & Ht & Dt). cbn [luhn_processed]. rewrite (int_char_digit nd ND c Hc), Ht. cbn [bind].
  eexists. split; [reflexivity|].
  pose proof (dv_range nd c Hc) as Hr.
  assert (Em : (2 - Z.of_nat (Nat.modulo i 2))%Z = if Nat.even i then 2%Z else 1%Z).
  { destruct (Nat.even i) eqn:E.
    - apply Nat.even_spec in E. destruct E as [k ->]. rewrite Nat.mul_comm, Nat.mod_mul by lia. reflexivity.
    - assert (O : Nat.odd i = true) by (rewrite <- Nat.negb_even, E; reflexivity). apply Nat.odd_spec in O. destruct O as [k ->].
      replace (2 * k + 1)%nat with (1 + k * 2)%nat by lia. rewrite Nat.mod_add by lia. reflexivity. }
  rewrite Em. cbn [luhn_sum]. cbv zeta.
  set (p := ((if Nat.even i then 2 else 1) * dv c)%Z).
  assert (Hp : (0 <= p < 100)%Z) by (unfold p; destruct (Nat.even i); lia).
  pose proof (digit_sum_small nd ND p Hp) as DS. unfold digit_sum in DS.
  rewrite Nat.even_succ, <- Nat.negb_even in Dt.
  rewrite (digit_sum_text_app _ _ _ _ DS Dt). f_equal.
  unfold p. destruct (Nat.even i); cbn [negb]; [reflexivity|]. rewrite Z.mul_1_l. reflexivity.
Qed.

Lemma fi_validate (b : text) :
  List.length b = 14 -> forallb is_ascii_digit b = true ->
  default_validate (fi_compute nd alphabet) [sl 0 3 b; sl 3 13 b] (sl 13 14 b) = Ok (pub_fi b).
Proof using All.
  intros Hl Hd. unfold default_validate, fi_compute, luhn, concat_text. cbn [List.concat]. rewrite app_nil_r.
  rewrite sl_glue by lia.
  assert (Hbody : forallb is_ascii_digit (sl 0 13 b) = true) by (apply sl_forallb; exact Hd).
  rewrite (alpha_digits_id _ Hbody). cbn [bind].
  assert (Hrev : forallb is_ascii_digit (rev (sl 0 13 b)) = true).
  { rewrite forallb_forall in *. intros x Hx. apply in_rev in Hx. exact (Hbody x Hx). }
  destruct (luhn_ds (rev (sl 0 13 b)) 0 Hrev) as (p & Hp & Dp). rewrite Hp. cbn [bind]. rewrite Dp. cbn [bind].
  change (Nat.even 0) with true.
  rewrite sl_single by lia. set (k := nth 13 b 0%N).
  assert (Hk : is_ascii_digit k = true) by (apply nth_digit; [exact Hd|lia]).
  set (s := luhn_sum true (rev (sl 0 13 b))).
  rewrite (str_eq_digit _ k) by (first [lia|exact Hk]). f_equal.
  unfold pub_fi.
  assert (Eb : b = sl 0 13 b ++ [k]).
  { unfold k. rewrite <- (sl_single 13 b) by lia. rewrite sl_glue by lia. rewrite <- Hl. symmetry. apply sl_all. }
  rewrite Eb at 1. rewrite rev_app_distr. cbn [rev app luhn_sum]. cbv zeta. fold s.
  cbn [negb]. fold s. pose proof (dv_range nd k Hk). lia.
Qed.
End FI.

(* ---- Italy / San Marino ------------------------------------------------------------------------------------------- *)
Section IT.
Variable e : env.

Lemma it_letter' c : is_ascii_upper c = true -> find_sub (upper1 e c) upper_letters = Some (Z.of_N (c - 65)).
Proof.
  intro H. assert (Hc : (65 <= c <= 90)%N) by (unfold is_ascii_upper, cA, cZ in H; lia).
  assert (U : upper1 e c = [c]).
  { unfold upper1. replace (c <? 128)%N with true by lia. unfold is_ascii_lower, c_a, c_z.
    replace ((97 <=? c) && (c <=? 122))%N with false by lia. reflexivity. }
  rewrite U.
  assert (F : forallb (fun n => match find_sub [N.of_nat n] upper_letters with
                                | Some i => Z.eqb i (Z.of_N (N.of_nat n - 65)) | None => false end) (seq 65 26) = true)
    by (vm_compute; reflexivity).
  rewrite forallb_forall in F. specialize (F (N.to_nat c)). rewrite N2Nat.id in F.
  assert (Hin : In (N.to_nat c) (seq 65 26)) by (apply in_seq; lia). specialize (F Hin).
  destruct (find_sub [c] upper_letters) as [i|]; [|discriminate]. apply Z.eqb_eq in F. subst i. reflexivity.
Qed.

Lemma it_index_ord c : in_alpha c = true -> it_index e c = Ok (it_ord c) /\ (0 <= it_ord c <= 25)%Z.
Proof.
  intro H. unfold it_index, it_ord. destruct (is_ascii_digit c) eqn:D.
  - split; [reflexivity|]. unfold is_ascii_digit, c0, c9 in D. unfold dv. lia.
  - unfold in_alpha in H. rewrite D in H. cbn [orb] in H. rewrite (it_letter' c H). split; [reflexivity|].
    unfold is_ascii_upper, cA, cZ in H. lia.
Qed.

Lemma it_odds_table k : (0 <= k <= 25)%Z -> nth_error it_odds (Z.to_nat k) = Some (nth (Z.to_nat k) it_odd_table 0%Z).
Proof.
  intro H. change it_odd_table with it_odds. apply nth_error_nth'. change (List.length it_odds) with 26%nat. lia.
Qed.

Lemma it_sum_cin : forall s i, forallb in_alpha s = true -> it_sum e i s = Ok (cin_sum (Nat.even i) s).
Proof.
  induction s as [|c s IH]; intros i H; [reflexivity|]. cbn [forallb] in H. apply andb_true_iff in H as [Hc Hs].
  destruct (it_index_ord c Hc) as [Hk Rk]. cbn [it_sum cin_sum]. rewrite Hk, (IH (S i) Hs). cbn [bind].
  rewrite Nat.even_succ, <- Nat.negb_even. destruct (Nat.even i); cbn [negb].
  - rewrite (it_odds_table _ Rk). reflexivity.
  - reflexivity.
Qed.

Lemma it_validate (b : text) :
  List.length b = 23 -> forallb in_alpha b = true -> is_ascii_upper (nth 0 b 0%N) = true ->
  default_validate (it_compute e) [sl 1 6 b; sl 6 11 b; sl 11 23 b] (sl 0 1 b) = Ok (pub_it b).
Proof.
  intros Hl Ha Hu. unfold default_validate, it_compute, concat_text. cbn [List.concat]. rewrite app_nil_r.
  rewrite !sl_glue by lia.
  assert (Hrest : forallb in_alpha (sl 1 23 b) = true) by (apply sl_forallb; exact Ha).
  rewrite (it_sum_cin _ 0 Hrest). cbn [bind]. change (Nat.even 0) with true.
  set (s := cin_sum true (sl 1 23 b)).
  assert (Hm : (0 <= s mod 26 < 26)%Z) by (apply Z.mod_pos_bound; lia).
  assert (El : nth_error upper_letters (Z.to_nat (s mod 26)) = Some (65 + Z.to_N (s mod 26))%N).
  { assert (F : forallb (fun n => match nth_error upper_letters n with Some c => N.eqb c (65 + N.of_nat n) | None => false end)
                  (seq 0 26) = true) by (vm_compute; reflexivity).
    rewrite forallb_forall in F. specialize (F (Z.to_nat (s mod 26))).
    assert (Hin : In (Z.to_nat (s mod 26)) (seq 0 26)) by (apply in_seq; lia). specialize (F Hin).
    destruct (nth_error upper_letters (Z.to_nat (s mod 26))) as [c|]; [|discriminate]. apply N.eqb_eq in F. subst c.
    f_equal. lia. }
  rewrite El. cbn [bind]. rewrite sl_single by lia. set (cin := nth 0 b 0%N) in *.
  f_equal. unfold pub_it.
  assert (Eb : b = cin :: sl 1 23 b).
  { change (cin :: sl 1 23 b) with ([cin] ++ sl 1 23 b). unfold cin. rewrite <- (sl_single 0 b) by lia.
    rewrite sl_glue by lia. rewrite <- Hl. symmetry. apply sl_all. }
  rewrite Eb at 1. fold s. cbn [text_eqb]. rewrite andb_true_r.
  unfold is_ascii_upper, cA, cZ in Hu. lia.
Qed.
End IT.

(* ---- France / Monaco ------------------------------------------------------------------------------------------------ *)
Section FR.
Variable nd : list (N * N).
Hypothesis ND : nd_ok nd = true.

Lemma fr_digit_subst c : in_alpha c = true -> fr_digit c = Some (fr_subst c) /\ is_ascii_digit (fr_subst c) = true.
Proof.
  intro H. unfold fr_digit, fr_subst. destruct (is_ascii_digit c) eqn:D.
  - assert (U : is_ascii_upper c = false) by (unfold is_ascii_digit, is_ascii_upper, c0, c9, cA, cZ in *; lia).
    rewrite U. split; [reflexivity|exact D].
  - unfold in_alpha in H. rewrite D in H. cbn [orb] in H. rewrite H. split; [reflexivity|].
    unfold is_ascii_upper, cA, cZ in H. unfold is_ascii_digit, c0, c9.
    destruct (N.ltb_spec (c - 65) 9); [lia|]. destruct (N.ltb_spec (c - 65) 18); lia.
Qed.

Lemma fr_map_subst s : forallb in_alpha s = true ->
  fr_map s = Ok (map fr_subst s) /\ forallb is_ascii_digit (map fr_subst s) = true.
Proof.
  induction s as [|c s IH]; intro H; [split; reflexivity|]. cbn [forallb] in H. apply andb_true_iff in H as [Hc Hs].
  destruct (fr_digit_subst c Hc) as [Hd Dd]. destruct (IH Hs) as [Hm Dm].
  cbn [fr_map map forallb]. rewrite Hd, Hm, Dd, Dm. split; reflexivity.
Qed.

Lemma value_digs s : Bundesbank.value (digs s) = dec s.
Proof.
  unfold Bundesbank.value, digs, dec. generalize 0%Z. induction s as [|c s IH]; intro acc; [reflexivity|].
  cbn [map fold_left]. apply IH.
Qed.

Lemma fr_numerify_dec s : forallb in_alpha s = true -> s <> [] -> fr_numerify nd s = Ok (dec (map fr_subst s)).
Proof using ND.
  intros H Hne. unfold fr_numerify. destruct (fr_map_subst s H) as [Hm Dm]. rewrite Hm. cbn [bind].
  assert (Hne' : map fr_subst s <> []) by (destruct s; [congruence|discriminate]).
  rewrite (int_text_value nd ND _ Dm Hne'), value_digs. reflexivity.
Qed.

Lemma fold_pow (y : text) : forall acc,
  fold_left (fun a c => (a * 10 + dv c)%Z) y acc = (acc * 10 ^ Z.of_nat (List.length y) + fold_left (fun a c => (a * 10 + dv c)%Z) y 0)%Z.
Proof.
  induction y as [|c y IH]; intro acc; [cbn; lia|].
  cbn [fold_left List.length]. rewrite (IH (acc * 10 + dv c)%Z), (IH (0 * 10 + dv c)%Z).
  rewrite Nat2Z.inj_succ, Z.pow_succ_r by lia. lia.
Qed.

Lemma dec_app_pow x y : dec (x ++ y) = (dec x * 10 ^ Z.of_nat (List.length y) + dec y)%Z.
Proof. rewrite dec_app. rewrite fold_pow. reflexivity. Qed.

Lemma subst_digit c : is_ascii_digit c = true -> fr_subst c = c.
Proof.
  intro D. unfold fr_subst.
  assert (U : is_ascii_upper c = false) by (unfold is_ascii_digit, is_ascii_upper, c0, c9, cA, cZ in *; lia).
  rewrite U. reflexivity.
Qed.

Lemma fr_validate (b : text) :
  List.length b = 23 -> forallb in_alpha b = true -> forallb is_ascii_digit (sl 21 23 b) = true ->
  default_validate (fr_compute nd) [sl 0 5 b; sl 5 10 b; sl 10 21 b] (sl 21 23 b) = Ok (pub_fr b).
Proof using ND.
  intros Hl Ha Hk.
  assert (L1 : List.length (sl 0 5 b) = 5) by (rewrite sl_length by lia; reflexivity).
  assert (L2 : List.length (sl 5 10 b) = 5) by (rewrite sl_length by lia; reflexivity).
  assert (L3 : List.length (sl 10 21 b) = 11) by (rewrite sl_length by lia; reflexivity).
  assert (L4 : List.length (sl 21 23 b) = 2) by (rewrite sl_length by lia; reflexivity).
  destruct (sl 21 23 b) as [|d1 [|d2 [|d3 rest]]] eqn:Ekey; try discriminate.
  cbn [forallb] in Hk. apply andb_true_iff in Hk as [D1 Hk]. apply andb_true_iff in Hk as [D2 _].
  unfold default_validate, fr_compute, iso_family.
  rewrite (fr_numerify_dec (sl 0 5 b)) by (first [apply sl_forallb; exact Ha|intro E; rewrite E in L1; discriminate]).
  rewrite (fr_numerify_dec (sl 5 10 b)) by (first [apply sl_forallb; exact Ha|intro E; rewrite E in L2; discriminate]).
  rewrite (fr_numerify_dec (sl 10 21 b)) by (first [apply sl_forallb; exact Ha|intro E; rewrite E in L3; discriminate]).
  cbn [bind].
  set (a := dec (map fr_subst (sl 0 5 b))). set (bb := dec (map fr_subst (sl 5 10 b))). set (c := dec (map fr_subst (sl 10 21 b))).
  assert (Hv : (0 <= 97 - (89 * a + 15 * bb + 3 * c) mod 97 <= 99)%Z) by lia.
  rewrite (fmt2_eq _ d1 d2 Hv D1 D2). f_equal.
  (* the published side *)
  assert (Eb : b = sl 0 5 b ++ sl 5 10 b ++ sl 10 21 b ++ [d1; d2]).
  { rewrite <- Ekey. rewrite !sl_glue by lia. rewrite <- Hl. symmetry. apply sl_all. }
  unfold pub_fr. rewrite Eb at 1. rewrite !map_app. cbn [map]. rewrite (subst_digit d1 D1), (subst_digit d2 D2).
  set (A := map fr_subst (sl 0 5 b)) in *. set (B := map fr_subst (sl 5 10 b)) in *. set (C := map fr_subst (sl 10 21 b)) in *.
  replace (A ++ B ++ C ++ [d1; d2]) with ((A ++ B ++ C) ++ [d1; d2]) by (rewrite <- !app_assoc; reflexivity).
  unfold pub_rib_numeric. rewrite sl_key, dec_app2, (dec_two [d1; d2] d1 d2 eq_refl).
  rewrite !dec_app_pow. fold a bb c.
  assert (LB : List.length B = 5) by (unfold B; rewrite map_length; exact L2).
  assert (LC : List.length C = 11) by (unfold C; rewrite map_length; exact L3).
  rewrite app_length, LB, LC. change (Z.of_nat (5 + 11)) with 16%Z. change (Z.of_nat 11) with 11%Z.
  change (10 ^ 16)%Z with 10000000000000000%Z. change (10 ^ 11)%Z with 100000000000%Z.
  unfold dv. set (dd := (Z.of_N (d1 - 48) * 10 + Z.of_N (d2 - 48))%Z).
  assert (Hdd : (0 <= dd <= 99)%Z) by (unfold dd; unfold is_ascii_digit, c0, c9 in D1, D2; lia).
  (* 10^18 = 89, 10^13 = 15, 10^2 = 3 modulo 97 *)
  assert (Emod : (((a * 10000000000000000 + (bb * 100000000000 + c)) * 100) mod 97 = (89 * a + 15 * bb + 3 * c) mod 97)%Z) by lia.
  set (M := ((a * 10000000000000000 + (bb * 100000000000 + c)))%Z) in *.
  set (R := ((89 * a + 15 * bb + 3 * c) mod 97)%Z) in *.
  assert (HR : (0 <= R < 97)%Z) by (unfold R; apply Z.mod_pos_bound; lia).
  destruct (Z.eqb_spec dd (97 - R)) as [He|Hne'].
  - symmetry. replace ((M * 100 + dd) mod 97 =? 0)%Z with true by lia. cbn [andb]. lia.
  - symmetry. apply not_true_iff_false. intro Hp.
    apply andb_true_iff in Hp as [Hp H97]. apply andb_true_iff in Hp as [Hm H1]. lia.
Qed.
End FR.
