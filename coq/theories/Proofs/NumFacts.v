(* numerify (model) = iso_num (spec) on texts over 0-9A-Z, and the mod-97 arithmetic. *)
From Coq Require Import Lia ZifyBool ZifyN.
From Schwifty Require Import Lib.Base Model.Data Model.Iban Spec.Iso13616.
Ltac Zify.zify_post_hook ::= Z.to_euclidean_division_equations.

Fixpoint seqN (a : N) (n : nat) : text :=
  match n with O => [] | S m => a :: seqN (a + 1) m end.

Definition std_alphabet : text := seqN 48 10 ++ seqN 65 26.

Definition in_alpha (c : N) : bool := is_ascii_digit c || is_ascii_upper c.
Definition aval (c : N) : Z := if is_ascii_digit c then Z.of_N (c - 48) else Z.of_N (c - 55).

Lemma index_seqN c : forall n a rest i,
  index_of_aux c (seqN a n ++ rest) i =
  if (N.leb a c && N.ltb c (a + N.of_nat n)) then Some (i + Z.of_N (c - a))%Z
  else index_of_aux c rest (i + Z.of_nat n)%Z.
Proof.
  induction n as [|n IH]; intros a rest i.
  - simpl. replace (i + 0)%Z with i by lia.
    destruct (N.leb a c && N.ltb c (a + 0)) eqn:E; [lia|reflexivity].
  - cbn [seqN app index_of_aux]. destruct (N.eqb_spec a c) as [->|Hne].
    + replace (N.leb c c && N.ltb c (c + N.of_nat (S n))) with true by lia.
      f_equal. lia.
    + rewrite IH.
      destruct (N.leb (a + 1) c && N.ltb c (a + 1 + N.of_nat n)) eqn:E1;
      destruct (N.leb a c && N.ltb c (a + N.of_nat (S n))) eqn:E2; try lia.
      * f_equal. lia.
      * f_equal. lia.
Qed.

Lemma index_of_std c :
  index_of c std_alphabet = if in_alpha c then Some (aval c) else None.
Proof.
  unfold index_of, std_alphabet. rewrite <- (app_nil_r (seqN 65 26)). rewrite !index_seqN.
  cbn [index_of_aux].
  unfold in_alpha, aval, is_ascii_digit, is_ascii_upper, c0, c9, cA, cZ.
  destruct (N.leb 48 c && N.ltb c (48 + N.of_nat 10)) eqn:E1.
  - replace (N.leb 48 c && N.leb c 57) with true by lia. cbn [orb]. f_equal.
  - replace (N.leb 48 c && N.leb c 57) with false by lia. cbn [orb].
    destruct (N.leb 65 c && N.ltb c (65 + N.of_nat 26)) eqn:E2.
    + replace (N.leb 65 c && N.leb c 90) with true by lia. f_equal. lia.
    + replace (N.leb 65 c && N.leb c 90) with false by lia. reflexivity.
Qed.

Lemma aval_range c : in_alpha c = true -> (0 <= aval c < 36)%Z.
Proof. unfold in_alpha, aval, is_ascii_digit, is_ascii_upper, c0, c9, cA, cZ. intro H.
  destruct (N.leb 48 c && N.leb c 57) eqn:E; lia. Qed.

Lemma pow_len_str i : (0 <= i < 36)%Z ->
  (10 ^ len (str_of_Z i) = if i <? 10 then 10 else 100)%Z.
Proof.
  intro Hi.
  assert (H : forallb (fun n => Z.eqb (10 ^ len (str_of_Z (Z.of_nat n)))
                                 (if (Z.of_nat n <? 10)%Z then 10 else 100)%Z) (seq 0 36) = true)
    by (vm_compute; reflexivity).
  rewrite forallb_forall in H. specialize (H (Z.to_nat i)).
  rewrite Z2Nat.id in H by lia. apply Z.eqb_eq. apply H. apply in_seq. lia.
Qed.

Definition iso_step (acc : Z) (c : N) : Z :=
  if is_ascii_digit c then (acc * 10 + Z.of_N (c - 48))%Z else (acc * 100 + Z.of_N (c - 55))%Z.
Definition iso_from (acc : Z) (s : text) : Z := fold_left iso_step s acc.

Lemma iso_num_from s : iso_num s = iso_from 0 s.
Proof. reflexivity. Qed.

Lemma iso_from_app acc a b : iso_from acc (a ++ b) = iso_from (iso_from acc a) b.
Proof. apply fold_left_app. Qed.

Lemma iso_from_digits acc d1 d2 :
  is_ascii_digit d1 = true -> is_ascii_digit d2 = true ->
  iso_from acc [d1; d2] = (acc * 100 + (Z.of_N (d1 - 48) * 10 + Z.of_N (d2 - 48)))%Z.
Proof. intros H1 H2. unfold iso_from, iso_step. simpl. rewrite H1, H2. lia. Qed.

Section Num.
Variable cfg : iban_cfg.
Hypothesis ALPHA : ic_alphabet cfg = std_alphabet.

Lemma numerify_go_spec : forall s acc,
  numerify_go cfg acc s =
  if forallb in_alpha s then Ok (iso_from acc s) else Crash PValueError.
Proof.
  induction s as [|c s IH]; intro acc; [reflexivity|].
  cbn [numerify_go forallb]. rewrite ALPHA, index_of_std.
  destruct (in_alpha c) eqn:E; [|reflexivity].
  rewrite IH. cbn [andb]. destruct (forallb in_alpha s); [|reflexivity].
  f_equal. unfold iso_from. cbn [fold_left]. f_equal.
  rewrite pow_len_str by (apply aval_range; exact E).
  unfold iso_step, aval. unfold in_alpha, is_ascii_digit, is_ascii_upper, c0, c9, cA, cZ in *.
  destruct (N.leb 48 c && N.leb c 57) eqn:E1.
  - replace (Z.of_N (c - 48) <? 10)%Z with true by lia. lia.
  - replace (Z.of_N (c - 55) <? 10)%Z with false by lia. lia.
Qed.

Lemma numerify_spec s :
  numerify cfg s =
  match s with [] => Crash PValueError | _ => if forallb in_alpha s then Ok (iso_num s) else Crash PValueError end.
Proof. destruct s; [reflexivity|]. unfold numerify. rewrite numerify_go_spec. reflexivity. Qed.

Lemma numerify_nonempty s : s <> [] ->
  numerify cfg s = if forallb in_alpha s then Ok (iso_num s) else Crash PValueError.
Proof. intro H. rewrite numerify_spec. destruct s; [congruence|reflexivity]. Qed.

End Num.

(* the heart of ISO 7064 mod 97-10: among 00..99 exactly one pair gives remainder 1 and lies in 02..98 *)
Lemma mod97_unique (M dd : Z) :
  (0 <= dd <= 99)%Z ->
  (((M * 100 + dd) mod 97 = 1 /\ 2 <= dd <= 98) <-> dd = 98 - (M * 100) mod 97)%Z.
Proof. intro H. lia. Qed.

Lemma check_value_range (M : Z) : (2 <= 98 - (M * 100) mod 97 <= 98)%Z.
Proof. lia. Qed.

Lemma two_digits_fmt v : (0 <= v <= 99)%Z -> fmt0d 2 v = two_digits v.
Proof.
  intro Hv.
  assert (H : forallb (fun n => text_eqb (fmt0d 2 (Z.of_nat n)) (two_digits (Z.of_nat n))) (seq 0 100) = true)
    by (vm_compute; reflexivity).
  rewrite forallb_forall in H. specialize (H (Z.to_nat v)). rewrite Z2Nat.id in H by lia.
  assert (Hin : In (Z.to_nat v) (seq 0 100)) by (apply in_seq; lia).
  specialize (H Hin). revert H. generalize (fmt0d 2 v) (two_digits v). clear.
  induction t as [|x t IH]; intros [|y u]; simpl; intro H; try reflexivity; try discriminate.
  apply andb_true_iff in H as [H1 H2]. apply N.eqb_eq in H1. subst. f_equal. apply IH. exact H2.
Qed.

Lemma two_digits_inv d1 d2 :
  is_ascii_digit d1 = true -> is_ascii_digit d2 = true ->
  two_digits (Z.of_N (d1 - 48) * 10 + Z.of_N (d2 - 48)) = [d1; d2].
Proof.
  unfold is_ascii_digit, c0, c9, two_digits. intros H1 H2.
  f_equal; [|f_equal]; lia.
Qed.

Lemma two_digits_digits v : (0 <= v <= 99)%Z ->
  exists d1 d2, two_digits v = [d1; d2] /\ is_ascii_digit d1 = true /\ is_ascii_digit d2 = true
                /\ (Z.of_N (d1 - 48) * 10 + Z.of_N (d2 - 48) = v)%Z.
Proof.
  intro Hv. unfold two_digits. eexists _, _. split; [reflexivity|].
  unfold is_ascii_digit, c0, c9. repeat split; lia.
Qed.
