(* C10: whitespace and case never matter; formatting round-trips.  C11: lossless decomposition. *)
From Coq Require Import Lia ZifyBool ZifyN.
From Schwifty Require Import Lib.Base Lib.Regex Model.Clean Model.Data Model.Iban Model.Bic Model.Bban.
From Schwifty Require Import Spec.Iso13616 Spec.Iso9362.
From Schwifty Require Import Proofs.CleanFacts Proofs.NumFacts Proofs.RunsFacts Proofs.IbanFacts Proofs.IbanTheorems Proofs.BicFacts.

(* ---- case ----------------------------------------------------------------------------------- *)

Definition fold_case (c : N) : N := if is_ascii_lower c then (c - 32)%N else c.

(* ASCII letters are not whitespace in this environment *)
Definition env_letters_ok (e : env) : bool :=
  forallb (fun c => negb (is_space e c)) (seqN 65 26 ++ seqN 97 26).

Section Case.
Variable e : env.
Hypothesis WF : env_wf e = true.
Hypothesis LET : env_letters_ok e = true.

Lemma letter_not_space c : is_ascii_lower c = true \/ is_ascii_upper c = true -> is_space e c = false.
Proof using LET.
  intro H. unfold env_letters_ok in LET. rewrite forallb_forall in LET.
  apply negb_true_iff. apply LET. apply in_or_app.
  unfold is_ascii_lower, is_ascii_upper, c_a, c_z, cA, cZ in H.
  destruct H as [H|H]; [right|left]; apply in_seqN; lia.
Qed.

Lemma upper1_fold c : upper1 e (fold_case c) = upper1 e c.
Proof.
  unfold fold_case. destruct (is_ascii_lower c) eqn:El; [|reflexivity].
  unfold upper1. unfold is_ascii_lower, c_a, c_z in El.
  replace (N.ltb (c - 32) 128) with true by lia. replace (N.ltb c 128) with true by lia.
  unfold is_ascii_lower, c_a, c_z. replace (N.leb 97 (c - 32) && N.leb (c - 32) 122) with false by lia.
  replace (N.leb 97 c && N.leb c 122) with true by lia. reflexivity.
Qed.

Lemma space_fold c : is_space e (fold_case c) = is_space e c.
Proof using LET.
  unfold fold_case. destruct (is_ascii_lower c) eqn:El; [|reflexivity].
  rewrite (letter_not_space c (or_introl El)). apply letter_not_space. right.
  unfold is_ascii_lower, is_ascii_upper, c_a, c_z, cA, cZ in *. lia.
Qed.

(* texts that differ only in the case of ASCII letters clean to the same compact form *)
Theorem clean_case t t' : map fold_case t = map fold_case t' -> clean e t = clean e t'.
Proof using LET.
  assert (H : forall t, clean e (map fold_case t) = clean e t).
  { induction t0 as [|c t0 IH]; [reflexivity|]. unfold clean, upper in *. cbn [map filter].
    rewrite space_fold. destruct (negb (is_space e c)); cbn [flat_map]; rewrite ?upper1_fold, IH; reflexivity. }
  intro Heq. rewrite <- (H t), <- (H t'), Heq. reflexivity.
Qed.

(* whitespace anywhere does not matter *)
Theorem clean_insert_ws a w b : forallb (is_space e) w = true -> clean e (a ++ w ++ b) = clean e (a ++ b).
Proof. intro H. rewrite !clean_app, (clean_ws e w H). reflexivity. Qed.

End Case.

(* ---- IBAN.formatted ------------------------------------------------------------------------- *)

Lemma groups4_concat : forall n s, length s <= n -> concat (groups4 n s) = s.
Proof.
  induction n as [|n IH]; intros s H.
  - destruct s; [reflexivity|simpl in H; lia].
  - cbn [groups4]. destruct s as [|c s]; [reflexivity|]. cbn [concat].
    rewrite IH; [apply firstn_skipn|]. pose proof (skipn_length 4 (c :: s)) as Hs. simpl in *. lia.
Qed.

Lemma groups4_sizes : forall n s, Forall (fun g => 1 <= length g <= 4) (groups4 n s).
Proof.
  induction n as [|n IH]; intro s; cbn [groups4]; [constructor|].
  destruct s as [|c s]; [constructor|]. constructor; [|apply IH].
  change (firstn 4 (c :: s)) with (c :: firstn 3 s). cbn [length]. pose proof (firstn_le_length 3 s). lia.
Qed.

(* all groups but the last have exactly four characters *)
Lemma groups4_full : forall n s g rest, groups4 n s = g :: rest -> rest <> [] -> length g = 4.
Proof.
  intros [|n] s g rest H Hne; cbn [groups4] in H; [discriminate|].
  destruct s as [|c s]; [discriminate|]. injection H as Hg Hr. subst g rest.
  destruct (Nat.le_gt_cases 4 (length (c :: s))) as [Hl|Hl];
    [assert (Hf : length (firstn 4 (c :: s)) = 4) by (rewrite firstn_length; lia); exact Hf|].
  exfalso. apply Hne. destruct s as [|? [|? [|? ?]]]; simpl in Hl; try lia; destruct n; reflexivity.
Qed.

Section Fmt.
Variable e : env.
Hypothesis WF : env_wf e = true.

Lemma clean_join_space : forall gs,
  forallb (cleaned e) gs = true -> clean e (join [32%N] gs) = concat gs.
Proof using WF.
  induction gs as [|g gs IH]; intro H; [reflexivity|].
  cbn [forallb] in H. apply andb_true_iff in H as [Hg Hr].
  destruct gs as [|g' gs'].
  - cbn [join concat]. rewrite app_nil_r. apply cleaned_fix. exact Hg.
  - change (join [32%N] (g :: g' :: gs')) with (g ++ [32%N] ++ join [32%N] (g' :: gs')).
    rewrite (clean_insert_ws e g [32%N] _) by (cbn [forallb]; rewrite (ws_sp e WF); reflexivity).
    rewrite clean_app, (cleaned_fix e g Hg), (IH Hr). reflexivity.
Qed.

Lemma groups4_cleaned : forall n s, cleaned e s = true -> forallb (cleaned e) (groups4 n s) = true.
Proof.
  induction n as [|n IH]; intros s H; cbn [groups4]; [reflexivity|].
  destruct s as [|c s]; [reflexivity|]. cbn [forallb].
  rewrite (cleaned_firstn e 4 _ H), (IH _ (cleaned_skipn e 4 _ H)). reflexivity.
Qed.

(* parsing the formatted form of any IBAN object (validated or not) gives back its compact form *)
Theorem iban_formatted_roundtrip s : cleaned e s = true -> clean e (iban_formatted s) = s.
Proof using WF.
  intro H. unfold iban_formatted. rewrite clean_join_space by (apply groups4_cleaned; exact H).
  apply groups4_concat. lia.
Qed.

End Fmt.

(* ---- BIC parts and formatted ----------------------------------------------------------------- *)

Definition bic_parts_ok (cfg : bic_cfg) : bool :=
  Z.eqb (fst (bc_bank cfg)) 0 && Z.eqb (snd (bc_bank cfg)) 4
  && Z.eqb (fst (bc_country cfg)) 4 && Z.eqb (snd (bc_country cfg)) 6
  && Z.eqb (fst (bc_location cfg)) 6 && Z.eqb (snd (bc_location cfg)) 8
  && Z.eqb (fst (bc_branch cfg)) 8 && Z.eqb (snd (bc_branch cfg)) 11.

Lemma pair_eta (p : Z * Z) a b : Z.eqb (fst p) a = true -> Z.eqb (snd p) b = true -> p = (a, b).
Proof. destruct p. simpl. intros H1 H2. apply Z.eqb_eq in H1, H2. subst. reflexivity. Qed.

Section BicFmt.
Variable e : env.
Variable cfg : bic_cfg.
Hypothesis WF : env_wf e = true.
Hypothesis PARTS : bic_parts_ok cfg = true.

Lemma parts_std :
  bc_bank cfg = (0, 4)%Z /\ bc_country cfg = (4, 6)%Z /\ bc_location cfg = (6, 8)%Z /\ bc_branch cfg = (8, 11)%Z.
Proof using PARTS.
  unfold bic_parts_ok in PARTS. repeat (apply andb_true_iff in PARTS as [PARTS ?]).
  repeat split; apply pair_eta; assumption.
Qed.

(* every BIC of length 8 or 11 decomposes into its four parts, and its formatted form is the parts
   joined by single spaces and parses back to it *)
Theorem bic_decompose s :
  length s = 8 \/ length s = 11 ->
  bic_bank_code cfg s ++ bic_country_code cfg s ++ bic_location_code cfg s ++ bic_branch_code cfg s = s
  /\ length (bic_bank_code cfg s) = 4 /\ length (bic_country_code cfg s) = 2
  /\ length (bic_location_code cfg s) = 2
  /\ bic_formatted cfg s =
       bic_bank_code cfg s ++ [32%N] ++ bic_country_code cfg s ++ [32%N] ++ bic_location_code cfg s
       ++ match bic_branch_code cfg s with [] => [] | b => [32%N] ++ b end
  /\ (cleaned e s = true -> clean e (bic_formatted cfg s) = s).
Proof using WF PARTS.
  intro Hl. destruct parts_std as (Hb & Hc & Hlo & Hbr).
  unfold bic_formatted, bic_bank_code, bic_country_code, bic_location_code, bic_branch_code, part.
  rewrite Hb, Hc, Hlo, Hbr. cbn [fst snd].
  destruct Hl as [Hl|Hl].
  - destruct s as [|a1 [|a2 [|a3 [|a4 [|a5 [|a6 [|a7 [|a8 [|x s]]]]]]]]]; try discriminate.
    cbv [get_slice len length Z.of_nat Pos.of_succ_nat Pos.succ Z.ltb Z.leb Z.compare Pos.compare Pos.compare_cont
         andb py_slice norm_idx Z.min Z.max Z.add Z.sub Z.opp Z.pos_sub Pos.pred_double Z.double Z.succ_double Z.pred_double
         Z.to_nat Pos.to_nat Pos.iter_op Nat.add firstn skipn join app Pos.add Pos.add_carry].
    repeat split; try reflexivity.
    intro Hcl. unfold cleaned in Hcl. cbn [forallb] in Hcl.
    repeat (apply andb_true_iff in Hcl as [? Hcl]).
    repeat match goal with H : clean_char e ?c = true |- _ =>
      let Hs := fresh "Hs" in let Hu := fresh "Hu" in
      unfold clean_char in H; apply andb_true_iff in H as [Hs Hu];
      apply negb_true_iff in Hs; apply text_eqb_eq in Hu end.
    pose proof (ws_sp e WF) as Hsp.
    unfold clean, upper. cbn [filter].
    repeat match goal with H : is_space e _ = _ |- _ => rewrite H; clear H end.
    cbn [negb flat_map].
    repeat match goal with H : upper1 e _ = _ |- _ => rewrite H; clear H end. reflexivity.
  - destruct s as [|a1 [|a2 [|a3 [|a4 [|a5 [|a6 [|a7 [|a8 [|a9 [|a10 [|a11 [|x s]]]]]]]]]]]]; try discriminate.
    cbv [get_slice len length Z.of_nat Pos.of_succ_nat Pos.succ Z.ltb Z.leb Z.compare Pos.compare Pos.compare_cont
         andb py_slice norm_idx Z.min Z.max Z.add Z.sub Z.opp Z.pos_sub Pos.pred_double Z.double Z.succ_double Z.pred_double
         Z.to_nat Pos.to_nat Pos.iter_op Nat.add firstn skipn join app Pos.add Pos.add_carry].
    repeat split; try reflexivity.
    intro Hcl. unfold cleaned in Hcl. cbn [forallb] in Hcl.
    repeat (apply andb_true_iff in Hcl as [? Hcl]).
    repeat match goal with H : clean_char e ?c = true |- _ =>
      let Hs := fresh "Hs" in let Hu := fresh "Hu" in
      unfold clean_char in H; apply andb_true_iff in H as [Hs Hu];
      apply negb_true_iff in Hs; apply text_eqb_eq in Hu end.
    pose proof (ws_sp e WF) as Hsp.
    unfold clean, upper. cbn [filter].
    repeat match goal with H : is_space e _ = _ |- _ => rewrite H; clear H end.
    cbn [negb flat_map].
    repeat match goal with H : upper1 e _ = _ |- _ => rewrite H; clear H end. reflexivity.
Qed.

End BicFmt.
