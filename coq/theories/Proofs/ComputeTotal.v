(* The national check-digit computations never raise a foreign exception on the input BBAN.from_components gives them:
   clean alphanumeric (or numeric) text of the field widths. *)
From Coq Require Import Lia ZArith List Bool ZifyBool ZifyN String.
From Schwifty Require Import Lib.Base Lib.Lit Model.Clean Model.Data Model.Iban Model.Bban Model.National.
From Schwifty Require Import Spec.Iso13616 Spec.NationalPublished.
From Schwifty Require Import Proofs.CleanFacts Proofs.NumFacts Proofs.IbanFacts Proofs.NationalFacts Proofs.NationalDigits
  Proofs.GermanFacts.
Import ListNotations.
Open Scope list_scope.
Ltac Zify.zify_post_hook ::= Z.to_euclidean_division_equations.

Definition digits (s : text) : bool := forallb is_ascii_digit s.
Definition alnum (s : text) : bool := forallb in_alpha s.

Lemma digits_alnum s : digits s = true -> alnum s = true.
Proof. apply digits_alpha. Qed.

Lemma str_of_Z_digits z : (0 <= z <= 99)%Z -> digits (str_of_Z z) = true.
Proof.
  intro H. destruct (Z_lt_le_dec z 10).
  - rewrite str_one by lia. unfold digits. cbn [forallb]. unfold is_ascii_digit, c0, c9. lia.
  - rewrite str_two by lia. unfold digits. cbn [forallb]. unfold is_ascii_digit, c0, c9. lia.
Qed.

Section Total.
Variable e : env.
Variable cfg : iban_cfg.
Variable nd : list (N * N).
Hypothesis ND : nd_ok nd = true.
Hypothesis ALPHA : ic_alphabet cfg = std_alphabet.
Let alphabet := ic_alphabet cfg.

Lemma numerify_total s : alnum s = true -> s <> [] -> exists z, Model.National.numerify alphabet s = Ok z.
Proof using All.
  intros Ha Hne. unfold alphabet. rewrite numerify_same, (numerify_nonempty cfg ALPHA s Hne).
  unfold alnum in Ha. rewrite Ha. eexists; reflexivity.
Qed.

Lemma weighted_total s m ws : digits s = true -> exists z, weighted nd s m ws = Ok z.
Proof using All. intro H. rewrite (weighted_digits nd ND s m ws H). eexists; reflexivity. Qed.

Lemma weighted_sum_total s ws : digits s = true -> exists z, Model.National.weighted_sum nd ws s = Ok z.
Proof using All. intro H. rewrite (weighted_sum_digits nd ND ws s H). eexists; reflexivity. Qed.

(* france *)
Lemma fr_digit_total c : in_alpha c = true -> exists d, fr_digit c = Some d /\ is_ascii_digit d = true.
Proof using All.
  intro H. unfold fr_digit. destruct (is_ascii_digit c) eqn:D; [exists c; split; [reflexivity|exact D]|].
  unfold in_alpha in H. rewrite D in H. cbn [orb] in H. rewrite H.
  unfold is_ascii_upper, cA, cZ in H. eexists. split; [reflexivity|].
  unfold is_ascii_digit, c0, c9.
  destruct (N.ltb_spec (c - 65) 9); [lia|]. destruct (N.ltb_spec (c - 65) 18); lia.
Qed.

Lemma fr_map_total s : alnum s = true -> exists t, fr_map s = Ok t /\ digits t = true /\ List.length t = List.length s.
Proof using All.
  induction s as [|c s IH]; intro H; [exists []; repeat split|].
  unfold alnum in H. cbn [forallb] in H. apply andb_true_iff in H as [Hc Hs].
  destruct (fr_digit_total c Hc) as (d & Hd & Dd). destruct (IH Hs) as (t & Ht & Dt & Lt).
  exists (d :: t). cbn [fr_map]. rewrite Hd, Ht. cbn [bind]. repeat split.
  - unfold digits. cbn [forallb]. rewrite Dd. exact Dt.
  - cbn [List.length]. f_equal. exact Lt.
Qed.

Lemma fr_numerify_total s : alnum s = true -> s <> [] -> exists z, fr_numerify nd s = Ok z.
Proof using All.
  intros Ha Hne. unfold fr_numerify. destruct (fr_map_total s Ha) as (t & Ht & Dt & Lt). rewrite Ht. cbn [bind].
  assert (t <> []) by (destruct t; [destruct s; [congruence|discriminate]|discriminate]).
  rewrite (int_text_value nd ND t Dt H). eexists; reflexivity.
Qed.

(* italy *)
Lemma it_letter c : is_ascii_upper c = true -> find_sub (upper1 e c) upper_letters = Some (Z.of_N (c - 65)).
Proof using All.
  intro H. assert (Hc : (65 <= c <= 90)%N) by (unfold is_ascii_upper, cA, cZ in H; lia).
  assert (U : upper1 e c = [c]).
  { unfold upper1. replace (c <? 128)%N with true by lia. unfold is_ascii_lower, c_a, c_z.
    replace ((97 <=? c) && (c <=? 122))%N with false by lia. reflexivity. }
  rewrite U.
  assert (F : forallb (fun n => match find_sub [N.of_nat n] upper_letters with
                                | Some i => Z.eqb i (Z.of_N (N.of_nat n - 65)) | None => false end) (seq 65 26) = true)
    by (vm_compute; reflexivity).
  rewrite forallb_forall in F. specialize (F (N.to_nat c)). rewrite N2Nat.id in F.
  assert (Hin : In (N.to_nat c) (seq 65 26)) by (apply in_seq; lia). specialize (F Hin).
  destruct (find_sub [c] upper_letters) as [i|]; [|discriminate]. apply Z.eqb_eq in F. subst i. reflexivity.
Qed.

Lemma it_index_total c : in_alpha c = true -> exists k, it_index e c = Ok k /\ (0 <= k <= 25)%Z.
Proof using All.
  intro H. unfold it_index. destruct (is_ascii_digit c) eqn:D.
  - eexists. split; [reflexivity|]. unfold is_ascii_digit, c0, c9 in D. lia.
  - unfold in_alpha in H. rewrite D in H. cbn [orb] in H. rewrite (it_letter c H). eexists. split; [reflexivity|].
    unfold is_ascii_upper, cA, cZ in H. lia.
Qed.

Lemma it_sum_total s : alnum s = true -> forall i, exists z, it_sum e i s = Ok z.
Proof using All.
  induction s as [|c s IH]; intros H i; [eexists; reflexivity|].
  unfold alnum in H. cbn [forallb] in H. apply andb_true_iff in H as [Hc Hs].
  destruct (it_index_total c Hc) as (k & Hk & Rk). destruct (IH Hs (S i)) as (z & Hz).
  cbn [it_sum]. rewrite Hk, Hz. cbn [bind]. destruct (Nat.even (S i)); [eexists; reflexivity|].
  destruct (nth_error it_odds (Z.to_nat k)) as [o|] eqn:Eo; [eexists; reflexivity|].
  apply nth_error_None in Eo. unfold it_odds in Eo. cbn [List.length] in Eo. lia.
Qed.

Lemma it_compute_total cs : alnum (concat_text cs) = true -> is_crash (it_compute e cs) = false.
Proof using All.
  intro H. unfold it_compute. destruct (it_sum_total _ H 0) as (z & Hz). rewrite Hz. cbn [bind].
  destruct (nth_error upper_letters (Z.to_nat (z mod 26))) eqn:E; [reflexivity|].
  apply nth_error_None in E. change (List.length upper_letters) with 26%nat in E. lia.
Qed.

(* finland (Luhn) *)
Lemma alpha_digits_total s : alnum s = true -> exists t, alpha_digits alphabet s = Ok t /\ digits t = true.
Proof using All.
  induction s as [|c s IH]; intro H; [exists []; split; reflexivity|].
  unfold alnum in H. cbn [forallb] in H. apply andb_true_iff in H as [Hc Hs].
  destruct (IH Hs) as (t & Ht & Dt). cbn [alpha_digits]. unfold alphabet in *. rewrite ALPHA in Ht |- *.
  rewrite index_of_std, Hc, Ht. cbn [bind].
  eexists. split; [reflexivity|]. unfold digits. rewrite forallb_app. fold (digits t). rewrite Dt, andb_true_r.
  apply str_of_Z_digits. unfold aval. unfold in_alpha, is_ascii_digit, is_ascii_upper, c0, c9, cA, cZ in Hc.
  destruct (is_ascii_digit c) eqn:D; unfold is_ascii_digit, c0, c9 in D; lia.
Qed.

Lemma luhn_processed_total s : digits s = true -> forall i, exists t, luhn_processed nd i s = Ok t /\ digits t = true.
Proof using All.
  induction s as [|c s IH]; intros H i; [exists []; split; reflexivity|].
  unfold digits in H. cbn [forallb] in H. apply andb_true_iff in H as [Hc Hs].
  destruct (IH Hs (S i)) as (t & Ht & Dt). cbn [luhn_processed]. rewrite (int_char_digit nd ND c Hc), Ht. cbn [bind].
  eexists. split; [reflexivity|]. unfold digits. rewrite forallb_app. fold (digits t). rewrite Dt, andb_true_r.
  apply str_of_Z_digits. pose proof (dv_range nd c Hc). assert (0 <= Z.of_nat (Nat.modulo i 2) <= 1)%Z.
  { pose proof (Nat.mod_upper_bound i 2 ltac:(lia)). lia. } nia.
Qed.

Lemma digit_sum_text_total s : digits s = true -> exists z, digit_sum_text nd s = Ok z.
Proof using All.
  induction s as [|c s IH]; intro H; [eexists; reflexivity|].
  unfold digits in H. cbn [forallb] in H. apply andb_true_iff in H as [Hc Hs]. destruct (IH Hs) as (z & Hz).
  cbn [digit_sum_text]. rewrite (int_char_digit nd ND c Hc), Hz. cbn [bind]. eexists; reflexivity.
Qed.

Lemma fi_compute_total cs : alnum (concat_text cs) = true -> is_crash (fi_compute nd alphabet cs) = false.
Proof using All.
  intro H. unfold fi_compute, luhn. destruct (alpha_digits_total _ H) as (t & Ht & Dt). rewrite Ht. cbn [bind].
  assert (Dr : digits (rev t) = true).
  { unfold digits in *. rewrite forallb_forall in *. intros x Hx. apply in_rev in Hx. exact (Dt x Hx). }
  destruct (luhn_processed_total _ Dr 0) as (p & Hp & Dp). rewrite Hp. cbn [bind].
  destruct (digit_sum_text_total _ Dp) as (z & Hz). rewrite Hz. reflexivity.
Qed.

(* ---- per class: what the computation needs of its inputs ---------------------------------------------------- *)
Definition nonempty_t (s : text) : bool := match s with [] => false | _ => true end.

Definition comps_ok (cls : text) (comps : list text) : bool :=
  if text_eqb cls (tx "belgium.DefaultAlgorithm") || text_eqb cls (tx "iso7064_mod97_10.DefaultAlgorithm")
     || text_eqb cls (tx "iso7064_mod97_10_variant.DefaultAlgorithm")
  then alnum (concat_text comps) && nonempty_t (concat_text comps)
  else if text_eqb cls (tx "france.DefaultAlgorithm") then
    match comps with [a; b; c] => alnum a && alnum b && alnum c && nonempty_t a && nonempty_t b && nonempty_t c | _ => false end
  else if text_eqb cls (tx "spain.DefaultAlgorithm") then
    match comps with [a; b; c] => digits a && digits b && digits c | _ => false end
  else if text_eqb cls (tx "italy.DefaultAlgorithm") || text_eqb cls (tx "finland.DefaultAlgorithm")
  then alnum (concat_text comps)
  else if text_eqb cls (tx "norway.DefaultAlgorithm") then
    match comps with [x; y] => digits x && digits y | _ => false end
  else if text_eqb cls (tx "poland.DefaultAlgorithm") || text_eqb cls (tx "estonia.DefaultAlgorithm")
  then digits (concat_text comps)
  else if text_eqb cls (tx "czech_republic.DefaultAlgorithm") then true
  else if text_eqb cls (tx "iceland.DefaultAlgorithm") then match comps with [h] => digits h | _ => false end
  else false.

Lemma nonempty_ne s : nonempty_t s = true -> s <> [].
Proof. destruct s; [discriminate|congruence]. Qed.

Lemma digits_app a b : digits (a ++ b) = digits a && digits b.
Proof. apply forallb_app. Qed.

Lemma digits_skipn n s : digits s = true -> digits (skipn n s) = true.
Proof.
  unfold digits. rewrite !forallb_forall. intros H x Hx. apply H. revert s H Hx.
  induction n as [|n IH]; intros s H Hx; [exact Hx|]. destruct s as [|y s]; [destruct Hx|].
  right. apply (IH s); [intros z Hz; apply H; right; exact Hz|exact Hx].
Qed.

Lemma digits_rev s : digits s = true -> digits (rev s) = true.
Proof. unfold digits. rewrite !forallb_forall. intros H x Hx. apply H. apply in_rev. exact Hx. Qed.

Lemma iso_family_total pre post cs : (exists z, pre cs = Ok z) -> is_crash (iso_family pre post cs) = false.
Proof. intros [z Hz]. unfold iso_family. rewrite Hz. reflexivity. Qed.

Lemma pre_default_total cs : alnum (concat_text cs) = true -> concat_text cs <> [] -> exists z, pre_default alphabet cs = Ok z.
Proof using All.
  intros Ha Hne. unfold pre_default. destruct (numerify_total _ Ha Hne) as (z & Hz). rewrite Hz. eexists; reflexivity.
Qed.

Theorem class_total cls acc al comps :
  national_class e nd alphabet cls acc = Some al -> comps_ok cls comps = true -> is_crash (al_compute al comps) = false.
Proof using All.
  unfold national_class, comps_ok.
  destruct (text_eqb cls (tx "belgium.DefaultAlgorithm")) eqn:E1.
  { intros H Hc; inversion H; subst al; cbn [al_compute mk orb] in *. apply andb_true_iff in Hc as [Ha Hn]. apply nonempty_ne in Hn.
    unfold be_compute. apply iso_family_total. destruct (pre_default_total comps Ha Hn) as (z & Hz). rewrite Hz. eexists; reflexivity. }
  destruct (text_eqb cls (tx "iso7064_mod97_10.DefaultAlgorithm")) eqn:E2.
  { intros H Hc; inversion H; subst al; cbn [al_compute mk orb] in *. apply andb_true_iff in Hc as [Ha Hn]. apply nonempty_ne in Hn.
    unfold iso_compute. apply iso_family_total. exact (pre_default_total comps Ha Hn). }
  destruct (text_eqb cls (tx "iso7064_mod97_10_variant.DefaultAlgorithm")) eqn:E3.
  { intros H Hc; inversion H; subst al; cbn [al_compute mk orb] in *. apply andb_true_iff in Hc as [Ha Hn]. apply nonempty_ne in Hn.
    unfold variant_compute. apply iso_family_total. exact (pre_default_total comps Ha Hn). }
  cbn [orb].
  destruct (text_eqb cls (tx "france.DefaultAlgorithm")) eqn:E4.
  { intros H Hc; inversion H; subst al; cbn [al_compute mk] in *.
    destruct comps as [|a [|b [|c [|d comps]]]]; try discriminate.
    repeat (apply andb_true_iff in Hc as [Hc ?]).
    unfold fr_compute. apply iso_family_total.
    destruct (fr_numerify_total a) as (za & Hza); [assumption|apply nonempty_ne; assumption|].
    destruct (fr_numerify_total b) as (zb & Hzb); [assumption|apply nonempty_ne; assumption|].
    destruct (fr_numerify_total c) as (zc & Hzc); [assumption|apply nonempty_ne; assumption|].
    rewrite Hza, Hzb, Hzc. eexists; reflexivity. }
  destruct (text_eqb cls (tx "spain.DefaultAlgorithm")) eqn:E5.
  { intros H Hc; inversion H; subst al; cbn [al_compute mk] in *.
    destruct comps as [|a [|b [|c [|d comps]]]]; try discriminate.
    apply andb_true_iff in Hc as [Hc Dc]. apply andb_true_iff in Hc as [Da Db].
    unfold es_compute.
    destruct (weighted_total (a ++ b) 11 (skipn 2 es_weights)) as (w1 & Hw1); [rewrite digits_app, Da, Db; reflexivity|].
    destruct (weighted_total c 11 es_weights Dc) as (w2 & Hw2). rewrite Hw1, Hw2. reflexivity. }
  destruct (text_eqb cls (tx "italy.DefaultAlgorithm")) eqn:E6.
  { intros H Hc; inversion H; subst al; cbn [al_compute mk orb] in *. apply it_compute_total. exact Hc. }
  destruct (text_eqb cls (tx "finland.DefaultAlgorithm")) eqn:E7.
  { intros H Hc; inversion H; subst al; cbn [al_compute mk orb] in *. apply fi_compute_total. exact Hc. }
  cbn [orb].
  destruct (text_eqb cls (tx "norway.DefaultAlgorithm")) eqn:E8.
  { intros H Hc; inversion H; subst al; cbn [al_compute mk] in *.
    destruct comps as [|x [|y [|z comps]]]; try discriminate. apply andb_true_iff in Hc as [Dx Dy].
    unfold no_compute. cbv zeta.
    assert (Dv : digits (if text_eqb (py_slice_to y 2) (tx "00") then py_slice_from y 2 else concat_text [x; y]) = true).
    { destruct (text_eqb (py_slice_to y 2) (tx "00")).
      - unfold py_slice_from. apply digits_skipn. exact Dy.
      - unfold concat_text. cbn [concat]. rewrite app_nil_r, digits_app, Dx, Dy. reflexivity. }
    destruct (weighted_sum_total _ no_weights Dv) as (t & Ht). rewrite Ht. cbn [bind].
    destruct (Z.eqb (11 - t mod 11) 10); reflexivity. }
  destruct (text_eqb cls (tx "poland.DefaultAlgorithm")) eqn:E9.
  { intros H Hc; inversion H; subst al; cbn [al_compute mk orb] in *.
    unfold pl_compute. destruct (weighted_total _ 10 [3; 9; 7; 1; 3; 9; 7]%Z Hc) as (d & Hd). rewrite Hd. reflexivity. }
  destruct (text_eqb cls (tx "estonia.DefaultAlgorithm")) eqn:E10.
  { intros H Hc; inversion H; subst al; cbn [al_compute mk orb] in *.
    unfold ee_compute. cbv zeta.
    destruct (weighted_total (rev (concat_text comps)) 10
                (cycle_to [7; 3; 1]%Z [] (List.length (rev (concat_text comps)))) (digits_rev _ Hc)) as (d & Hd).
    rewrite Hd. reflexivity. }
  cbn [orb].
  destruct (text_eqb cls (tx "czech_republic.DefaultAlgorithm")) eqn:E11.
  { intros H Hc; inversion H; subst al; reflexivity. }
  destruct (text_eqb cls (tx "iceland.DefaultAlgorithm")) eqn:E12.
  { intros H Hc; inversion H; subst al; cbn [al_compute mk] in *.
    destruct comps as [|h [|h2 comps]]; try discriminate.
    unfold is_compute. destruct (weighted_total h 11 [3; 2; 7; 6; 5; 4; 3; 2]%Z Hc) as (r & Hr). rewrite Hr. cbn [bind].
    destruct (Z.eqb r 0); reflexivity. }
  discriminate.
Qed.

(* the same for validate: the classes without a validate of their own compute and compare; Czechia/Slovakia and
   Iceland have their own *)
Definition comps_ok_v (cls : text) (comps : list text) : bool :=
  if text_eqb cls (tx "czech_republic.DefaultAlgorithm") then
    match comps with [a; b] => digits a && digits b | _ => false end
  else if text_eqb cls (tx "iceland.DefaultAlgorithm") then
    match comps with [h] => digits h && Nat.leb 9 (List.length h) | _ => false end
  else comps_ok cls comps.

Theorem class_validate_total cls acc al comps expected :
  national_class e nd alphabet cls acc = Some al -> comps_ok_v cls comps = true ->
  is_crash (al_validate al comps expected) = false.
Proof using All.
  intros Hal Hc. unfold comps_ok_v in Hc.
  destruct (text_eqb cls (tx "czech_republic.DefaultAlgorithm")) eqn:Ecz.
  { unfold national_class in Hal.
    repeat match type of Hal with context [text_eqb cls ?t] => destruct (text_eqb cls t) eqn:? end;
      try discriminate; inversion Hal; subst al; cbn [al_validate mk];
      try (apply Proofs.CleanFacts.text_eqb_eq in Ecz; subst cls; discriminate).
    all: destruct comps as [|a [|b [|c comps]]]; try discriminate; apply andb_true_iff in Hc as [Da Db].
    all: unfold cz_validate;
      destruct (weighted_total a 11 (skipn 4 cz_weights) Da) as (d1 & Hd1);
      destruct (weighted_total b 11 cz_weights Db) as (d2 & Hd2); rewrite Hd1, Hd2; reflexivity. }
  destruct (text_eqb cls (tx "iceland.DefaultAlgorithm")) eqn:Eis.
  { unfold national_class in Hal.
    repeat match type of Hal with context [text_eqb cls ?t] => destruct (text_eqb cls t) eqn:? end;
      try discriminate; inversion Hal; subst al; cbn [al_validate mk];
      try (apply Proofs.CleanFacts.text_eqb_eq in Eis; subst cls; discriminate).
    all: destruct comps as [|h [|h2 comps]]; try discriminate; apply andb_true_iff in Hc as [Dh Lh]; apply Nat.leb_le in Lh.
    all: unfold is_validate, is_compute;
      destruct (weighted_total h 11 [3; 2; 7; 6; 5; 4; 3; 2]%Z Dh) as (r & Hr); rewrite Hr; cbn [bind];
      change 8%Z with (Z.of_nat 8); rewrite (Proofs.NationalCountries.py_index_nth h 8) by lia; reflexivity. }
  (* the other classes: default validate *)
  pose proof (class_total cls acc al comps Hal Hc) as Hcomp.
  unfold national_class in Hal.
  repeat match type of Hal with context [text_eqb cls ?t] => destruct (text_eqb cls t) eqn:? end;
    try discriminate; inversion Hal; subst al; cbn [al_validate al_compute mk] in *;
    unfold default_validate;
    match goal with |- context [bind ?c _] => destruct c; try discriminate; reflexivity end.
Qed.
End Total.

(* ---- from structure classes to characters ---------------------------------------------------------------------- *)
Definition noKe (k : kind) : bool := match k with Ke => false | _ => true end.
Definition isKn (k : kind) : bool := match k with Kn => true | _ => false end.

Lemma mem_in c l : mem c l = true -> In c l.
Proof. unfold mem. intro H. apply existsb_exists in H as (x & Hx & E). apply N.eqb_eq in E. subst. exact Hx. Qed.

Lemma class_alnum k c : noKe k = true -> mem c (class_chars k) = true -> in_alpha c = true.
Proof.
  intros Hk Hm. apply mem_in in Hm.
  assert (F : forallb in_alpha (class_chars k) = true) by (destruct k; [vm_compute; reflexivity..|discriminate]).
  rewrite forallb_forall in F. exact (F c Hm).
Qed.

Lemma class_digit c : mem c (class_chars Kn) = true -> is_ascii_digit c = true.
Proof.
  intro Hm. apply mem_in in Hm.
  assert (F : forallb is_ascii_digit (class_chars Kn) = true) by (vm_compute; reflexivity).
  rewrite forallb_forall in F. exact (F c Hm).
Qed.

Lemma all_in_class_alnum : forall ks v, all_in_class ks v = true -> List.length v <= List.length ks ->
  forallb noKe ks = true -> alnum v = true.
Proof.
  induction ks as [|k ks IH]; intros [|c v] H Hl Hk; try reflexivity; cbn [List.length] in Hl; try lia.
  cbn [all_in_class forallb] in *. apply andb_true_iff in H as [H1 H2]. apply andb_true_iff in Hk as [K1 K2].
  unfold alnum. cbn [forallb]. rewrite (class_alnum k c K1 H1). apply (IH v H2); [lia|exact K2].
Qed.

Lemma all_in_class_digits : forall ks v, all_in_class ks v = true -> List.length v <= List.length ks ->
  forallb isKn ks = true -> digits v = true.
Proof.
  induction ks as [|k ks IH]; intros [|c v] H Hl Hk; try reflexivity; cbn [List.length] in Hl; try lia.
  cbn [all_in_class forallb] in *. apply andb_true_iff in H as [H1 H2]. apply andb_true_iff in Hk as [K1 K2].
  destruct k; try discriminate. unfold digits. cbn [forallb]. rewrite (class_digit c H1). apply (IH v H2); [lia|exact K2].
Qed.

(* a component value as from_components hands it over: of its positions' classes and of the field's width, or all zeros *)
Definition conf (ks : list kind) (v : text) : Prop :=
  (all_in_class ks v = true /\ List.length v = List.length ks) \/ v = zeros (List.length ks).

Lemma zeros_digits n : digits (zeros n) = true.
Proof. induction n as [|n IH]; [reflexivity|]. unfold digits, zeros in *. cbn [repeat forallb]. rewrite IH. reflexivity. Qed.

Lemma conf_len ks v : conf ks v -> List.length v = List.length ks.
Proof. intros [[_ H]| ->]; [exact H|apply repeat_length]. Qed.
Lemma conf_alnum ks v : conf ks v -> forallb noKe ks = true -> alnum v = true.
Proof. intros [[H Hl]| ->] Hk; [apply (all_in_class_alnum ks v H); [lia|exact Hk]|apply digits_alnum, zeros_digits]. Qed.
Lemma conf_digits ks v : conf ks v -> forallb isKn ks = true -> digits v = true.
Proof. intros [[H Hl]| ->] Hk; [apply (all_in_class_digits ks v H); [lia|exact Hk]|apply zeros_digits]. Qed.

Lemma confs_alnum kss comps : Forall2 conf kss comps -> forallb noKe (List.concat kss) = true -> alnum (concat_text comps) = true.
Proof.
  unfold concat_text. induction 1 as [|ks v kss comps Hc _ IH]; intro Hk; [reflexivity|].
  cbn [List.concat] in *. rewrite forallb_app in Hk. apply andb_true_iff in Hk as [K1 K2].
  pose proof (conf_alnum ks v Hc K1) as A. specialize (IH K2). unfold alnum in *. rewrite forallb_app, A. exact IH.
Qed.
Lemma confs_digits kss comps : Forall2 conf kss comps -> forallb isKn (List.concat kss) = true -> digits (concat_text comps) = true.
Proof.
  unfold concat_text. induction 1 as [|ks v kss comps Hc _ IH]; intro Hk; [reflexivity|].
  cbn [List.concat] in *. rewrite forallb_app in Hk. apply andb_true_iff in Hk as [K1 K2].
  pose proof (conf_digits ks v Hc K1) as A. specialize (IH K2). unfold digits in *. rewrite forallb_app, A. exact IH.
Qed.
Lemma confs_len kss comps : Forall2 conf kss comps -> List.length (concat_text comps) = List.length (List.concat kss).
Proof.
  unfold concat_text. induction 1 as [|ks v kss comps Hc _ IH]; [reflexivity|].
  cbn [List.concat]. rewrite !app_length, (conf_len ks v Hc), IH. reflexivity.
Qed.

Definition nonempty_k (ks : list kind) : bool := match ks with [] => false | _ => true end.

Definition kinds_ok (cls : text) (kss : list (list kind)) : bool :=
  if text_eqb cls (tx "belgium.DefaultAlgorithm") || text_eqb cls (tx "iso7064_mod97_10.DefaultAlgorithm")
     || text_eqb cls (tx "iso7064_mod97_10_variant.DefaultAlgorithm")
  then forallb noKe (List.concat kss) && nonempty_k (List.concat kss)
  else if text_eqb cls (tx "france.DefaultAlgorithm") then
    match kss with
    | [a; b; c] => forallb noKe a && forallb noKe b && forallb noKe c && nonempty_k a && nonempty_k b && nonempty_k c
    | _ => false end
  else if text_eqb cls (tx "spain.DefaultAlgorithm") then
    match kss with [a; b; c] => forallb isKn a && forallb isKn b && forallb isKn c | _ => false end
  else if text_eqb cls (tx "italy.DefaultAlgorithm") || text_eqb cls (tx "finland.DefaultAlgorithm")
  then forallb noKe (List.concat kss)
  else if text_eqb cls (tx "norway.DefaultAlgorithm") then
    match kss with [x; y] => forallb isKn x && forallb isKn y | _ => false end
  else if text_eqb cls (tx "poland.DefaultAlgorithm") || text_eqb cls (tx "estonia.DefaultAlgorithm")
  then forallb isKn (List.concat kss)
  else if text_eqb cls (tx "czech_republic.DefaultAlgorithm") then true
  else if text_eqb cls (tx "iceland.DefaultAlgorithm") then match kss with [h] => forallb isKn h | _ => false end
  else false.

Lemma nonempty_conf ks v : conf ks v -> nonempty_k ks = true -> nonempty_t v = true.
Proof.
  intros Hc Hk. apply conf_len in Hc. destruct ks; [discriminate|]. destruct v; [discriminate|reflexivity].
Qed.

Theorem kinds_comps cls kss comps : kinds_ok cls kss = true -> Forall2 conf kss comps -> comps_ok cls comps = true.
Proof.
  unfold kinds_ok, comps_ok. intros H F.
  destruct (text_eqb cls (tx "belgium.DefaultAlgorithm") || text_eqb cls (tx "iso7064_mod97_10.DefaultAlgorithm")
            || text_eqb cls (tx "iso7064_mod97_10_variant.DefaultAlgorithm")).
  { apply andb_true_iff in H as [H1 H2]. rewrite (confs_alnum kss comps F H1). cbn [andb].
    pose proof (confs_len kss comps F) as L. destruct (List.concat kss); [discriminate|]. destruct (concat_text comps); [discriminate|reflexivity]. }
  destruct (text_eqb cls (tx "france.DefaultAlgorithm")).
  { destruct kss as [|a [|b [|c [|d kss]]]]; try discriminate.
    inversion F as [|? va ? ? Ca F1]; subst. inversion F1 as [|? vb ? ? Cb F2]; subst. inversion F2 as [|? vc ? ? Cc F3]; subst.
    inversion F3; subst. repeat (apply andb_true_iff in H as [H ?]).
    rewrite (conf_alnum a va Ca), (conf_alnum b vb Cb), (conf_alnum c vc Cc) by assumption.
    rewrite (nonempty_conf a va Ca), (nonempty_conf b vb Cb), (nonempty_conf c vc Cc) by assumption. reflexivity. }
  destruct (text_eqb cls (tx "spain.DefaultAlgorithm")).
  { destruct kss as [|a [|b [|c [|d kss]]]]; try discriminate.
    inversion F as [|? va ? ? Ca F1]; subst. inversion F1 as [|? vb ? ? Cb F2]; subst. inversion F2 as [|? vc ? ? Cc F3]; subst.
    inversion F3; subst. repeat (apply andb_true_iff in H as [H ?]).
    rewrite (conf_digits a va Ca), (conf_digits b vb Cb), (conf_digits c vc Cc) by assumption. reflexivity. }
  destruct (text_eqb cls (tx "italy.DefaultAlgorithm") || text_eqb cls (tx "finland.DefaultAlgorithm")).
  { exact (confs_alnum kss comps F H). }
  destruct (text_eqb cls (tx "norway.DefaultAlgorithm")).
  { destruct kss as [|a [|b [|c kss]]]; try discriminate.
    inversion F as [|? va ? ? Ca F1]; subst. inversion F1 as [|? vb ? ? Cb F2]; subst. inversion F2; subst.
    apply andb_true_iff in H as [H1 H2]. rewrite (conf_digits a va Ca H1), (conf_digits b vb Cb H2). reflexivity. }
  destruct (text_eqb cls (tx "poland.DefaultAlgorithm") || text_eqb cls (tx "estonia.DefaultAlgorithm")).
  { exact (confs_digits kss comps F H). }
  destruct (text_eqb cls (tx "czech_republic.DefaultAlgorithm")); [reflexivity|].
  destruct (text_eqb cls (tx "iceland.DefaultAlgorithm")); [|discriminate].
  destruct kss as [|a [|b kss]]; try discriminate. inversion F as [|? va ? ? Ca F1]; subst. inversion F1; subst.
  exact (conf_digits a va Ca H).
Qed.

Definition kinds_ok_v (cls : text) (kss : list (list kind)) : bool :=
  if text_eqb cls (tx "czech_republic.DefaultAlgorithm") then
    match kss with [a; b] => forallb isKn a && forallb isKn b | _ => false end
  else if text_eqb cls (tx "iceland.DefaultAlgorithm") then
    match kss with [h] => forallb isKn h && Nat.leb 9 (List.length h) | _ => false end
  else kinds_ok cls kss.

Theorem kinds_comps_v cls kss comps : kinds_ok_v cls kss = true -> Forall2 conf kss comps -> comps_ok_v cls comps = true.
Proof.
  unfold kinds_ok_v, comps_ok_v. intros H F.
  destruct (text_eqb cls (tx "czech_republic.DefaultAlgorithm")).
  { destruct kss as [|a [|b [|c kss]]]; try discriminate.
    inversion F as [|? va ? ? Ca F1]; subst. inversion F1 as [|? vb ? ? Cb F2]; subst. inversion F2; subst.
    apply andb_true_iff in H as [H1 H2]. rewrite (conf_digits a va Ca H1), (conf_digits b vb Cb H2). reflexivity. }
  destruct (text_eqb cls (tx "iceland.DefaultAlgorithm")).
  { destruct kss as [|a [|b kss]]; try discriminate. inversion F as [|? va ? ? Ca F1]; subst. inversion F1; subst.
    apply andb_true_iff in H as [H1 H2]. rewrite (conf_digits a va Ca H1), (conf_len a va Ca). exact H2. }
  exact (kinds_comps cls kss comps H F).
Qed.
