(* IBAN.generate on the regenerated tables: placement, validity, error classes (the statements of C08/C09 are
   restated in Props/). *)
From Coq Require Import Lia ZArith List Bool.
From Schwifty Require Import Lib.Base Lib.Lit Model.Clean Model.Data Model.Iban Model.Bban Model.Generate
  Model.National Model.Algorithms Model.Germany.
From Schwifty Require Import Spec.Iso13616 Spec.RegistrySpec.
From Schwifty Require Import Proofs.CleanFacts Proofs.NumFacts Proofs.IbanFacts Proofs.IbanTheorems Proofs.DecompFacts Proofs.NationalFacts
  Proofs.PlaceFacts Proofs.ComputeShape Proofs.GenObligations.
From Schwifty Require Import Gen.Env Gen.IbanData Gen.IbanCfg Gen.ChecksumCfg Gen.GermanyTbl.
Import ListNotations.

Definition the_components := ic_components the_iban_cfg.
Definition the_german := german_class nd_runs german_table account_code_length.
Definition the_algos := the_find_algo the_env the_iban_cfg nd_runs registered the_german.
Definition rng (r : row) := fc_rng the_components r.
Definition width (r : row) (k : text) : Z := range_length (rng r k).
Definition generate (national : text -> text -> outcome bool) :=
  iban_generate the_env the_iban_cfg the_table national the_components the_algos.
Definition field (r : row) (k : text) (s : text) : text :=
  let b := iban_bban the_env s in get_slice b (fst (rng r k)) (Some (snd (rng r k))).
Definition padded (r : row) (k v : text) : text := zfill (clean the_env v) (width r k).

(* obligations on the regenerated data: every country's position table lays the components out inside the BBAN
   without overlap (under the names the code uses), and "0" survives cleaning *)
Lemma gen_layout_obl : forallb (fc_layout_ok the_components) the_table = true.
Proof. vm_cast_no_check (eq_refl true). Qed.
Lemma gen_zero_obl : clean_char the_env c0 = true.
Proof. vm_cast_no_check (eq_refl true). Qed.

(* what the placement needs of the country's check-digit algorithm: nothing if it computes none or the country has
   no check-digit field; otherwise clean text of the field's width *)
Definition checksum_shape (cc : text) (r : row) : Prop :=
  forall vals K, compute_national the_algos cc vals = Ok K ->
    K = [] \/ range_is_empty (rng r k_national) = true
    \/ (cleaned the_env K = true /\ len K = width r k_national).

Lemma shape_no_algorithm cc r : the_algos cc k_default = None -> checksum_shape cc r.
Proof. intros H vals K HK. unfold compute_national in HK. rewrite H in HK. inversion HK. left; reflexivity. Qed.

Lemma shape_no_field cc r : range_is_empty (rng r k_national) = true -> checksum_shape cc r.
Proof. intros H vals K _. right; left; exact H. Qed.

Lemma layout_of cc r : find_row the_table cc = Some r -> fc_layout_ok the_components r = true.
Proof.
  intro Er. apply find_row_in in Er as [Hin _]. pose proof gen_layout_obl as O. rewrite forallb_forall in O. exact (O r Hin).
Qed.

Lemma only_three cc r bank account branch :
  find_row the_table cc = Some r -> forall k, In k the_components ->
  text_eqb k k_bank = false -> text_eqb k k_branch = false -> text_eqb k k_account = false ->
  (len (clean the_env (get_val k (generate_values bank account branch))) <= range_length (fc_rng the_components r k))%Z.
Proof.
  intros Er k Hk H1 H2 H3. unfold get_val, generate_values. cbn [assoc]. rewrite H1, H2, H3.
  pose proof (layout_of cc r Er) as LAY. unfold fc_layout_ok in LAY.
  repeat (apply andb_true_iff in LAY as [LAY ?]).
  match goal with H : forallb (fun c => range_in _ _) _ = true |- _ => rewrite forallb_forall in H; specialize (H k Hk);
    apply range_in_spec in H end.
  change (clean the_env []) with (@nil N). unfold range_length, len. cbn [List.length]. lia.
Qed.

Lemma values_bank bank account branch : get_val k_bank (generate_values bank account branch) = bank.
Proof. reflexivity. Qed.
Lemma values_branch bank account branch : get_val k_branch (generate_values bank account branch) = branch.
Proof. reflexivity. Qed.
Lemma values_account bank account branch : get_val k_account (generate_values bank account branch) = account.
Proof. reflexivity. Qed.

(* a generated IBAN is the country code, two check digits and the BBAN built from the components; it is ISO-valid *)
Lemma generate_parts national cc bank account branch s :
  generate national cc bank account branch = Ok s ->
  iso_ok the_table s = true /\
  exists b, from_components the_env the_components the_table the_algos cc (generate_values bank account branch) = Ok b
    /\ (cleaned the_env b = true -> iban_bban the_env s = b).
Proof.
  intro H. unfold generate, iban_generate in H.
  destruct (from_components the_env the_components the_table the_algos cc (generate_values bank account branch))
    as [b|x|x] eqn:Eb; try discriminate. cbn [bind] in H.
  unfold iban_from_bban in H. destruct (iso7064_compute the_iban_cfg [b; cc]) as [d|x|x] eqn:Ed; try discriminate.
  cbn [bind] in H.
  assert (Hiso : iso_ok the_table (clean the_env (cc ++ d ++ b)) = true).
  { apply (new_iff the_env the_iban_cfg the_table national env_obl env_alpha_obl cfg_obl table_obl). exists s. exact H. }
  pose proof (new_result the_env the_iban_cfg the_table national env_obl env_alpha_obl cfg_obl table_obl _ _ H) as Es.
  split; [rewrite Es; exact Hiso|]. exists b. split; [reflexivity|]. intro Hcl.
  destruct (find_row the_table cc) as [r|] eqn:Er;
    [|rewrite (fc_unknown_country _ _ _ _ _ _ Er) in Eb; discriminate].
  destruct (row_facts the_iban_cfg the_table table_obl cc r Er) as (c1 & c2 & kds & Ecc & U1 & U2 & _).
  unfold iso7064_compute in Ed. destruct (Iban.numerify the_iban_cfg (concat_text [b; cc])) as [n|x|x]; try discriminate.
  cbn [bind] in Ed. pose proof (check_value_range n) as Hr. rewrite two_digits_fmt in Ed by lia.
  destruct (two_digits_digits (98 - (n * 100) mod 97)%Z ltac:(lia)) as (x1 & x2 & Hx & D1 & D2 & _).
  rewrite Hx in Ed. inversion Ed as [Ed']. subst d cc. clear Ed.
  assert (Hhead : cleaned the_env ([c1; c2] ++ [x1; x2]) = true).
  { apply (alpha_cleaned the_env env_alpha_obl). cbn [app forallb]. unfold in_alpha. rewrite U1, U2, D1, D2, !orb_true_r. reflexivity. }
  assert (Hall : cleaned the_env ([c1; c2] ++ [x1; x2] ++ b) = true).
  { rewrite app_assoc, cleaned_app, Hhead, Hcl. reflexivity. }
  rewrite (cleaned_fix the_env _ Hall) in Es. subst s. cbn [app].
  unfold iban_bban. rewrite slice_bban. apply (cleaned_fix the_env). exact Hcl.
Qed.

(* a bank code whose padded form has the combined bank-plus-branch width (and the country has a branch field) *)
Definition combined (r : row) (bank : text) : Prop :=
  width r k_branch <> 0%Z /\ len (padded r k_bank bank) = (width r k_bank + width r k_branch)%Z.

Lemma split_iff cc r bank account branch :
  find_row the_table cc = Some r ->
  fc_split the_components r (fc_comps0 the_env the_components r (generate_values bank account branch)) = true
  <-> combined r bank.
Proof.
  intro Er.
  exact (split_spec the_env the_components the_table the_algos env_obl gen_zero_obl cc r
           (generate_values bank account branch) Er (layout_of cc r Er) (only_three cc r bank account branch Er)).
Qed.

Theorem gen_valid : forall national cc bank account branch s,
  generate national cc bank account branch = Ok s -> iso_ok the_table s = true.
Proof. intros national cc bank account branch s H. exact (proj1 (generate_parts national cc bank account branch s H)). Qed.

(* each supplied component - cleaned, zero-padded to its field width - is the BBAN substring at the published position *)
Theorem gen_placed : forall national cc r bank account branch s,
  find_row the_table cc = Some r -> checksum_shape cc r ->
  generate national cc bank account branch = Ok s -> ~ combined r bank ->
  field r k_bank s = padded r k_bank bank /\ len (padded r k_bank bank) = width r k_bank
  /\ field r k_branch s = padded r k_branch branch /\ len (padded r k_branch branch) = width r k_branch
  /\ field r k_account s = padded r k_account account /\ len (padded r k_account account) = width r k_account.
Proof.
  intros national cc r bank account branch s Er Hshape H Hnc.
  destruct (generate_parts national cc bank account branch s H) as (_ & b & Hb & Hbban).
  set (values := generate_values bank account branch) in *.
  assert (Hs : fc_split the_components r (fc_comps0 the_env the_components r values) = false).
  { destruct (fc_split _ _ _) eqn:E; [|reflexivity]. exfalso. apply Hnc. apply (split_iff cc r bank account branch Er). exact E. }
  pose proof (fun k => fc_placed the_env the_components the_table the_algos env_obl gen_zero_obl cc r values Er
                (layout_of cc r Er) (only_three cc r bank account branch Er) b k Hb (fun K => Hshape _ K) Hs) as P.
  destruct (fc_result the_env the_components the_table the_algos env_obl gen_zero_obl cc r values Er
              (layout_of cc r Er) (only_three cc r bank account branch Er) b Hb (fun K => Hshape _ K)) as (_ & _ & _ & Hcl & _).
  unfold field. rewrite (Hbban Hcl).
  destruct (P k_bank (or_introl eq_refl)) as [B1 B2].
  destruct (P k_branch (or_intror (or_introl eq_refl))) as [R1 R2].
  destruct (P k_account (or_intror (or_intror eq_refl))) as [A1 A2].
  repeat split; assumption.
Qed.

(* a bank code of combined width is split across the bank and branch fields (no separate branch code then) *)
Theorem gen_placed_combined : forall national cc r bank account branch s,
  find_row the_table cc = Some r -> checksum_shape cc r ->
  generate national cc bank account branch = Ok s -> combined r bank ->
  field r k_bank s ++ field r k_branch s = padded r k_bank bank
  /\ field r k_account s = padded r k_account account /\ branch = [].
Proof.
  intros national cc r bank account branch s Er Hshape H Hc.
  destruct (generate_parts national cc bank account branch s H) as (_ & b & Hb & Hbban).
  set (values := generate_values bank account branch) in *.
  assert (Hs : fc_split the_components r (fc_comps0 the_env the_components r values) = true)
    by (apply (split_iff cc r bank account branch Er); exact Hc).
  destruct (fc_placed_split the_env the_components the_table the_algos env_obl gen_zero_obl cc r values Er
              (layout_of cc r Er) (only_three cc r bank account branch Er) b Hb (fun K => Hshape _ K) Hs) as (P1 & _ & P3 & P4).
  destruct (fc_result the_env the_components the_table the_algos env_obl gen_zero_obl cc r values Er
              (layout_of cc r Er) (only_three cc r bank account branch Er) b Hb (fun K => Hshape _ K)) as (_ & _ & _ & Hcl & _).
  unfold field. rewrite (Hbban Hcl). repeat split; assumption.
Qed.

(* supplied characters are never dropped or changed: the padded value ends with the cleaned value *)
Theorem gen_kept : forall r k v, exists pad, padded r k v = pad ++ clean the_env v \/
  (exists c rest, clean the_env v = c :: rest /\ padded r k v = c :: pad ++ rest).
Proof.
  intros r k v. unfold padded, zfill. destruct (Z.leb (width r k) (len (clean the_env v))).
  - exists []. left. reflexivity.
  - destruct (clean the_env v) as [|c rest]; [eexists; left; rewrite app_nil_r; reflexivity|].
    destruct (N.eqb c cplus || N.eqb c cminus); eexists; [right; exists c, rest; split; reflexivity|left; reflexivity].
Qed.

(* the error class of an over-long component; unknown country; no published positions *)
Theorem gen_long_bank : forall national cc r ps bank account branch,
  find_row the_table cc = Some r -> r_positions r = Some ps -> ~ combined r bank ->
  (width r k_bank < len (clean the_env bank))%Z ->
  generate national cc bank account branch = Err EInvalidBankCode.
Proof.
  intros national cc r ps bank account branch Er Hps Hnc Hlong. unfold generate, iban_generate.
  rewrite (fc_bank_too_long the_env the_components the_table the_algos env_obl gen_zero_obl cc r
             (generate_values bank account branch) Er (layout_of cc r Er) (only_three cc r bank account branch Er) ps Hps);
    [reflexivity| |exact Hlong].
  destruct (fc_split _ _ _) eqn:E; [|reflexivity]. exfalso. apply Hnc. apply (split_iff cc r bank account branch Er). exact E.
Qed.

Theorem gen_long_branch : forall national cc r ps bank account branch,
  find_row the_table cc = Some r -> r_positions r = Some ps -> ~ combined r bank ->
  (len (clean the_env bank) <= width r k_bank)%Z -> (width r k_branch < len (clean the_env branch))%Z ->
  generate national cc bank account branch = Err EInvalidBranchCode.
Proof.
  intros national cc r ps bank account branch Er Hps Hnc Hfit Hlong. unfold generate, iban_generate.
  rewrite (fc_branch_too_long the_env the_components the_table the_algos env_obl gen_zero_obl cc r
             (generate_values bank account branch) Er (layout_of cc r Er) (only_three cc r bank account branch Er) ps Hps);
    [reflexivity| |exact Hfit|exact Hlong].
  destruct (fc_split _ _ _) eqn:E; [|reflexivity]. exfalso. apply Hnc. apply (split_iff cc r bank account branch Er). exact E.
Qed.

Theorem gen_long_account : forall national cc r ps bank account branch,
  find_row the_table cc = Some r -> r_positions r = Some ps ->
  (~ combined r bank /\ (len (clean the_env bank) <= width r k_bank)%Z /\ (len (clean the_env branch) <= width r k_branch)%Z)
  \/ (combined r bank /\ branch = []) ->
  (width r k_account < len (clean the_env account))%Z ->
  generate national cc bank account branch = Err EInvalidAccountCode.
Proof.
  intros national cc r ps bank account branch Er Hps Hcase Hlong. unfold generate, iban_generate.
  rewrite (fc_account_too_long the_env the_components the_table the_algos env_obl gen_zero_obl cc r
             (generate_values bank account branch) Er (layout_of cc r Er) (only_three cc r bank account branch Er) ps Hps);
    [reflexivity| |exact Hlong].
  destruct Hcase as [(Hnc & F1 & F2)|(Hc & Hb)].
  - left. split; [|split; assumption].
    destruct (fc_split _ _ _) eqn:E; [|reflexivity]. exfalso. apply Hnc. apply (split_iff cc r bank account branch Er). exact E.
  - right. split; [apply (split_iff cc r bank account branch Er); exact Hc|exact Hb].
Qed.

Theorem gen_unknown_country : forall national cc bank account branch,
  find_row the_table cc = None -> generate national cc bank account branch = Err EInvalidCountryCode.
Proof.
  intros national cc bank account branch H. unfold generate, iban_generate.
  rewrite (fc_unknown_country _ _ _ _ _ _ H). reflexivity.
Qed.

Theorem gen_no_positions : forall national cc r bank account branch,
  find_row the_table cc = Some r -> r_positions r = None -> generate national cc bank account branch = Err ESchwifty.
Proof.
  intros national cc r bank account branch H Hp. unfold generate, iban_generate.
  rewrite (fc_no_positions _ _ _ _ _ _ _ H Hp). reflexivity.
Qed.


(* ---- the check-digit algorithms all return clean text of their field's width -------------------------------- *)
Definition shape_row_ok (r : row) : bool :=
  match assoc (r_cc r ++ [58%N] ++ k_default) registered with
  | None => true
  | Some (cls, acc) =>
    match national_class the_env nd_runs (ic_alphabet the_iban_cfg) cls acc with
    | None => false
    | Some _ =>
      range_is_empty (rng r k_national)
      || match class_width cls with Some w => Z.eqb (width r k_national) (Z.of_nat w) | None => false end
    end
  end.
Lemma gen_shape_obl : forallb shape_row_ok the_table = true.
Proof. vm_cast_no_check (eq_refl true). Qed.

Theorem gen_shape : forall cc r, find_row the_table cc = Some r -> checksum_shape cc r.
Proof.
  intros cc r Er vals K HK. apply find_row_in in Er as [Hin Ecc].
  pose proof gen_shape_obl as O. rewrite forallb_forall in O. specialize (O r Hin). unfold shape_row_ok in O.
  rewrite Ecc in O. unfold compute_national, the_algos, the_find_algo, Algorithms.find_algo in HK.
  destruct (assoc (cc ++ [58%N] ++ k_default) registered) as [[cls acc]|]; [|left; inversion HK; reflexivity].
  destruct (national_class the_env nd_runs (ic_alphabet the_iban_cfg) cls acc) as [al|] eqn:Ecls; [|discriminate].
  destruct (class_width cls) as [w|] eqn:Hw.
  - destruct (national_class_shape the_env nd_runs (ic_alphabet the_iban_cfg) cls acc al _ K w Ecls HK Hw) as [Hlen Halpha].
    apply orb_true_iff in O as [O|O]; [right; left; exact O|right; right].
    apply Z.eqb_eq in O. split; [apply (alpha_cleaned the_env env_alpha_obl); exact Halpha|].
    unfold len. rewrite Hlen. symmetry. exact O.
  - rewrite orb_false_r in O. right; left. exact O.
Qed.

(* unconditional forms *)
Theorem gen_placed_all : forall national cc r bank account branch s,
  find_row the_table cc = Some r ->
  generate national cc bank account branch = Ok s -> ~ combined r bank ->
  field r k_bank s = padded r k_bank bank /\ len (padded r k_bank bank) = width r k_bank
  /\ field r k_branch s = padded r k_branch branch /\ len (padded r k_branch branch) = width r k_branch
  /\ field r k_account s = padded r k_account account /\ len (padded r k_account account) = width r k_account.
Proof. intros national cc r bank account branch s Er. exact (gen_placed national cc r bank account branch s Er (gen_shape cc r Er)). Qed.

Theorem gen_placed_combined_all : forall national cc r bank account branch s,
  find_row the_table cc = Some r ->
  generate national cc bank account branch = Ok s -> combined r bank ->
  field r k_bank s ++ field r k_branch s = padded r k_bank bank
  /\ field r k_account s = padded r k_account account /\ branch = [].
Proof. intros national cc r bank account branch s Er. exact (gen_placed_combined national cc r bank account branch s Er (gen_shape cc r Er)). Qed.


(* ---- C09: what generate builds passes the country's own national validation ---------------------------------- *)
From Schwifty Require Import Model.Registry Model.Lookup Gen.Banks.
From Coq Require Import String.
Open Scope list_scope.

Lemma gen_onlyde_obl : algo_only_for (tx "DE") the_banks = true.
Proof. vm_cast_no_check (eq_refl true). Qed.

(* for a country whose default algorithm computes digits: it has a check-digit field of the computed width, and the
   fields the algorithm reads are components other than that field *)
Definition computing_row_ok (r : row) : bool :=
  match assoc (r_cc r ++ [58%N] ++ k_default) registered with
  | None => true
  | Some (cls, acc) =>
    match class_width cls with
    | None => true
    | Some w =>
      negb (range_is_empty (rng r k_national)) && Z.eqb (width r k_national) (Z.of_nat w)
      && forallb (fun k => existsb (text_eqb k) the_components && negb (text_eqb k k_national)) acc
    end
  end.
Lemma gen_computing_obl : forallb computing_row_ok the_table = true.
Proof. vm_cast_no_check (eq_refl true). Qed.

Lemma fc_rng_eq r c : In c the_components -> rng r c = position_range r c.
Proof. intro H. unfold rng, fc_rng, fc_ranges. rewrite (assoc_map (position_range r) c the_components H). reflexivity. Qed.

(* whatever from_components built (from values that fit their fields) passes the national validation *)
Theorem built_national_valid : forall cc r cls acc w values b,
  find_row the_table cc = Some r -> text_eqb cc (tx "DE") = false ->
  assoc (cc ++ [58%N] ++ k_default) registered = Some (cls, acc) -> class_width cls = Some w ->
  from_components the_env the_components the_table the_algos cc values = Ok b ->
  (forall k, In k the_components ->
     text_eqb k k_bank = false -> text_eqb k k_branch = false -> text_eqb k k_account = false ->
     (len (clean the_env (get_val k values)) <= range_length (fc_rng the_components r k))%Z) ->
  validate_national the_table the_algos (bank_code_entries the_banks) cc b = Ok true.
Proof.
  intros cc r cls acc w values b Er Hde Hreg Hw Hb ONLY.
  pose proof (find_row_in _ _ _ Er) as [Hin Ecc].
  pose proof gen_computing_obl as O. rewrite forallb_forall in O. specialize (O r Hin). unfold computing_row_ok in O.
  rewrite Ecc, Hreg, Hw in O. apply andb_true_iff in O as [O Hacc]. apply andb_true_iff in O as [Hne Hwidth].
  apply negb_true_iff in Hne. apply Z.eqb_eq in Hwidth.
  pose proof gen_shape_obl as S. rewrite forallb_forall in S. specialize (S r Hin). unfold shape_row_ok in S.
  rewrite Ecc, Hreg in S.
  destruct (national_class the_env nd_runs (ic_alphabet the_iban_cfg) cls acc) as [al|] eqn:Ecls; [|discriminate].
  clear S.
  assert (Hal : the_algos cc k_default = Some al).
  { unfold the_algos, the_find_algo, Algorithms.find_algo. rewrite Hreg, Ecls. reflexivity. }
  destruct (national_class_default _ _ _ _ _ _ _ Ecls Hw) as (Eacc & Eval & Hwpos).
  assert (Hacc' : forall k, In k (al_accepts al) -> In k the_components /\ text_eqb k k_national = false).
  { rewrite Eacc. intros k Hk. rewrite forallb_forall in Hacc. specialize (Hacc k Hk).
    apply andb_true_iff in Hacc as [H1 H2]. apply negb_true_iff in H2. split; [apply existsb_in; exact H1|exact H2]. }
  destruct (fc_checksum_agrees the_env the_components the_table the_algos env_obl gen_zero_obl cc r values Er
              (layout_of cc r Er) ONLY b al Hb (fun K => gen_shape cc r Er _ K) Hal Hacc')
    as (K & HK & Hnat).
  assert (HKne : K <> []).
  { destruct (national_class_shape _ _ _ _ _ _ _ K w Ecls HK Hw) as [Hlen _]. intro E. subst K. cbn in Hlen. lia. }
  specialize (Hnat HKne Hne).
  rewrite (validate_national_default the_table the_algos the_banks gen_onlyde_obl cc r b Hde Er), Hal. cbv zeta.
  assert (Hn_in : In k_national the_components).
  { pose proof (layout_of cc r Er) as LAY. unfold fc_layout_ok in LAY. repeat (apply andb_true_iff in LAY as [LAY ?]).
    apply existsb_in. assumption. }
  cbv beta. rewrite <- (fc_rng_eq r k_national Hn_in).
  assert (Emap : map (fun c => get_slice b (fst (position_range r c)) (Some (snd (position_range r c)))) (al_accepts al)
                 = map (fun k => get_slice b (fst (rng r k)) (Some (snd (rng r k)))) (al_accepts al)).
  { apply map_ext_in. intros k Hk. destruct (Hacc' k Hk) as [Hc _]. rewrite (fc_rng_eq r k Hc). reflexivity. }
  rewrite Emap, Eval. unfold default_validate. unfold rng in HK, Hnat. unfold rng. rewrite HK. cbn [bind].
  rewrite Hnat, text_eqb_refl. reflexivity.
Qed.

Theorem gen_national_valid : forall national cc r cls acc w bank account branch s,
  find_row the_table cc = Some r -> text_eqb cc (tx "DE") = false ->
  assoc (cc ++ [58%N] ++ k_default) registered = Some (cls, acc) -> class_width cls = Some w ->
  generate national cc bank account branch = Ok s ->
  validate_national the_table the_algos (bank_code_entries the_banks) cc (iban_bban the_env s) = Ok true.
Proof.
  intros national cc r cls acc w bank account branch s Er Hde Hreg Hw H.
  destruct (generate_parts national cc bank account branch s H) as (_ & b & Hb & Hbban).
  destruct (fc_result the_env the_components the_table the_algos env_obl gen_zero_obl cc r _ Er
              (layout_of cc r Er) (only_three cc r bank account branch Er) b Hb (fun K => gen_shape cc r Er _ K))
    as (_ & _ & _ & Hcl & _).
  rewrite (Hbban Hcl).
  exact (built_national_valid cc r cls acc w _ b Er Hde Hreg Hw Hb (only_three cc r bank account branch Er)).
Qed.

(* ---- C09: parse and rebuild ---------------------------------------------------------------------------------------- *)
From Schwifty Require Import Proofs.RebuildFacts.

(* the fields every registered default algorithm reads are components; "DE:default" is not registered *)
Definition accepts_row_ok (r : row) : bool :=
  match assoc (r_cc r ++ [58%N] ++ k_default) registered with
  | None => true
  | Some (cls, acc) => forallb (fun k => existsb (text_eqb k) the_components) acc && negb (text_eqb (r_cc r) (tx "DE"))
  end.
Lemma gen_accepts_obl : forallb accepts_row_ok the_table = true.
Proof. vm_cast_no_check (eq_refl true). Qed.

Definition read_off (r : row) (b : text) : list (text * text) := rb_values the_components r b.

Theorem gen_rebuild : forall cc r ps b,
  find_row the_table cc = Some r -> r_positions r = Some ps -> conforms_row r b = true ->
  validate_national the_table the_algos (bank_code_entries the_banks) cc b = Ok true ->
  exists b', from_components the_env the_components the_table the_algos cc (read_off r b) = Ok b' /\ len b' = len b /\
    forall k, In k the_components ->
      get_slice b' (fst (rng r k)) (Some (snd (rng r k))) = get_slice b (fst (rng r k)) (Some (snd (rng r k))).
Proof.
  intros cc r ps b Er Eps Hconf Hvalid.
  assert (Hcl : cleaned the_env b = true).
  { apply (alpha_cleaned the_env env_alpha_obl).
    exact (conforms_row_alpha the_iban_cfg the_table table_obl cc r b Er Hconf). }
  apply (rebuild the_env the_components the_table the_algos env_obl gen_zero_obl cc r ps b Er Eps (layout_of cc r Er) Hconf Hcl).
  intros al Hal. pose proof (find_row_in _ _ _ Er) as [Hin Ecc].
  pose proof gen_accepts_obl as A. rewrite forallb_forall in A. specialize (A r Hin). unfold accepts_row_ok in A.
  pose proof gen_shape_obl as S. rewrite forallb_forall in S. specialize (S r Hin). unfold shape_row_ok in S.
  pose proof gen_computing_obl as C. rewrite forallb_forall in C. specialize (C r Hin). unfold computing_row_ok in C.
  rewrite Ecc in A, S, C.
  unfold the_algos, the_find_algo, Algorithms.find_algo in Hal.
  destruct (assoc (cc ++ [58%N] ++ k_default) registered) as [[cls acc]|] eqn:Hreg; [|discriminate].
  apply andb_true_iff in A as [Hacc Hde]. apply negb_true_iff in Hde.
  destruct (national_class the_env nd_runs (ic_alphabet the_iban_cfg) cls acc) as [al'|] eqn:Ecls; [|discriminate].
  inversion Hal; subst al'. clear Hal.
  assert (Hal : the_algos cc k_default = Some al).
  { unfold the_algos, the_find_algo, Algorithms.find_algo. rewrite Hreg, Ecls. reflexivity. }
  assert (Eacc : al_accepts al = acc).
  { clear -Ecls. unfold national_class in Ecls.
    repeat match type of Ecls with context [text_eqb cls ?t] => destruct (text_eqb cls t) end;
      try discriminate; inversion Ecls; reflexivity. }
  assert (Hacc' : forall k, In k (al_accepts al) -> In k the_components).
  { rewrite Eacc. intros k Hk. rewrite forallb_forall in Hacc. apply existsb_in. exact (Hacc k Hk). }
  split; [exact Hacc'|].
  rewrite (validate_national_default the_table the_algos the_banks gen_onlyde_obl cc r b Hde Er), Hal in Hvalid.
  cbv zeta in Hvalid. cbv beta in Hvalid.
  assert (Hn_in : In k_national the_components).
  { pose proof (layout_of cc r Er) as LAY. unfold fc_layout_ok in LAY. repeat (apply andb_true_iff in LAY as [LAY ?]).
    apply existsb_in. assumption. }
  rewrite <- (fc_rng_eq r k_national Hn_in) in Hvalid.
  assert (Emap : map (fun c => get_slice b (fst (position_range r c)) (Some (snd (position_range r c)))) (al_accepts al)
                 = map (rb_comp the_components r b) (al_accepts al)).
  { apply map_ext_in. intros k Hk. unfold rb_comp. fold (rng r k). rewrite (fc_rng_eq r k (Hacc' k Hk)). reflexivity. }
  rewrite Emap in Hvalid.
  destruct (al_validate al (map (rb_comp the_components r b) (al_accepts al))
              (get_slice b (fst (rng r k_national)) (Some (snd (rng r k_national))))) as [[|]|x|x] eqn:Ev;
    try discriminate.
  destruct (national_class_valid_compute _ _ _ _ _ _ _ _ Ecls Ev) as (K & HK & Hexp).
  exists K. split; [exact HK|].
  destruct (class_width cls) as [w|] eqn:Hw.
  - right; right. exact (Hexp w eq_refl).
  - cbv beta iota in S. rewrite orb_false_r in S. right; left. exact S.
Qed.

