(* C04: BIC validation (model) = ISO 9362 (spec) under decidable obligations on the configuration. *)
From Coq Require Import Lia ZifyBool ZifyN.
From Schwifty Require Import Lib.Base Lib.Regex Model.Clean Model.Data Model.Bic Spec.Iso13616 Spec.Iso9362.
From Schwifty Require Import Proofs.RegexFacts Proofs.CleanFacts Proofs.NumFacts Proofs.RunsFacts Proofs.IbanFacts.

Fixpoint runs_opt_of (x : rx) : option (list (nat * cls) * list (nat * cls)) :=
  match x with
  | RSeq a b =>
    match runs_of a, runs_opt_of b with
    | Some l, Some (m, o) => Some (l ++ m, o)
    | _, _ => None
    end
  | RRep O (Some 1) y =>
    match runs_of y with Some o => Some ([], o) | None => None end
  | _ => None
  end.

Lemma expand_app a b : expand (a ++ b) = expand a ++ expand b.
Proof. unfold expand. apply flat_map_app. Qed.

Lemma conforms_cls_nil s : conforms_cls [] s = true <-> s = [].
Proof. destruct s; simpl; split; intro H; try reflexivity; discriminate. Qed.

Lemma runs_opt_lang x : forall l o s,
  runs_opt_of x = Some (l, o) ->
  (lang (compile x) s <-> conforms_cls (expand l) s = true \/ conforms_cls (expand (l ++ o)) s = true).
Proof.
  induction x as [k|lo hi y IH|a IHa b IHb|a IHa b IHb|]; intros l o s H; simpl in H; try discriminate.
  - destruct lo; [|discriminate]. destruct hi as [[|[|hi]]|]; try discriminate.
    destruct (runs_of y) as [oo|] eqn:Ey; [|discriminate]. inversion H; subst l o. clear H.
    cbn [compile rep upto Nat.sub app]. rewrite lang_seq_iff. split.
    + intros (u & v & -> & Hu & Hv). apply lang_eps in Hu. subst u. cbn [app].
      inversion Hv; subst.
      * match goal with X : lang Eps _ |- _ => apply lang_eps in X; subst end. left. reflexivity.
      * match goal with X : lang (Seq _ Eps) _ |- _ => apply lang_seq_iff in X as (u' & v' & -> & Hu' & Hv') end.
        apply lang_eps in Hv'. subst v'. rewrite app_nil_r. right. apply (runs_lang y oo); assumption.
    + intros [H|H].
      * apply conforms_cls_nil in H. subst s. exists [], []. split; [reflexivity|]. split; [constructor|].
        apply LAltL. constructor.
      * exists [], s. split; [reflexivity|]. split; [constructor|]. apply LAltR.
        rewrite <- (app_nil_r s). constructor; [|constructor]. apply (runs_lang y oo); assumption.
  - destruct (runs_of a) as [la|] eqn:Ea; [|discriminate].
    destruct (runs_opt_of b) as [[m oo]|] eqn:Eb; [|discriminate]. inversion H; subst l o. clear H.
    cbn [compile]. rewrite lang_seq_iff. rewrite <- app_assoc, !expand_app. split.
    + intros (u & v & -> & Hu & Hv). apply (runs_lang a la) in Hu; [|exact Ea].
      apply (IHb m oo v eq_refl) in Hv. rewrite expand_app in Hv. destruct Hv as [Hv|Hv]; [left|right];
        apply conforms_cls_app; exists u, v; auto.
    + intros [H|H]; apply conforms_cls_app in H as (u & v & -> & Hu & Hv); exists u, v;
        (split; [reflexivity|]); (split; [apply (runs_lang a la); assumption|]);
        apply (IHb m oo v eq_refl); rewrite expand_app; [left|right]; exact Hv.
Qed.

(* ---- class agreement on texts without ASCII lower-case letters -------------------------------- *)

Fixpoint cls_eqb (a b : cls) : bool :=
  match a, b with
  | [], [] => true
  | (x1, y1) :: a', (x2, y2) :: b' => N.eqb x1 x2 && N.eqb y1 y2 && cls_eqb a' b'
  | _, _ => false
  end.

Lemma cls_eqb_eq a b : cls_eqb a b = true -> a = b.
Proof.
  revert b. induction a as [|[x1 y1] a IH]; intros [|[x2 y2] b]; simpl; intro H; try reflexivity; try discriminate.
  apply andb_true_iff in H as [H H3]. apply andb_true_iff in H as [H1 H2].
  apply N.eqb_eq in H1, H2. subst. f_equal. apply IH. exact H3.
Qed.

Definition cls_is_kind (k : cls) (kd : kind) : bool :=
  match kd with
  | Kn => cls_eqb k [(48, 57)]%N
  | Ka => cls_eqb k [(65, 90)]%N || cls_eqb k [(65, 90); (97, 122)]%N
  | Kc => cls_eqb k [(48, 57); (65, 90)]%N || cls_eqb k [(48, 57); (65, 90); (97, 122)]%N
  | Ke => false
  end.

Lemma cls_is_kind_spec k kd c :
  cls_is_kind k kd = true -> is_ascii_lower c = false -> in_cls c k = kind_ok kd c.
Proof.
  unfold is_ascii_lower, c_a, c_z. intros H Hl. destruct kd; simpl in H; try discriminate.
  - apply cls_eqb_eq in H. subst k. unfold in_cls, kind_ok, is_ascii_digit, c0, c9. simpl. lia.
  - apply orb_true_iff in H as [H|H]; apply cls_eqb_eq in H; subst k;
      unfold in_cls, kind_ok, is_ascii_upper, cA, cZ; simpl; lia.
  - apply orb_true_iff in H as [H|H]; apply cls_eqb_eq in H; subst k;
      unfold in_cls, kind_ok, is_ascii_digit, is_ascii_upper, c0, c9, cA, cZ; simpl; lia.
Qed.

Fixpoint kinds_agree (ks : list cls) (kds : list kind) : bool :=
  match ks, kds with
  | [], [] => true
  | k :: ks', kd :: kds' => cls_is_kind k kd && kinds_agree ks' kds'
  | _, _ => false
  end.

Lemma kinds_agree_conforms ks : forall kds s,
  kinds_agree ks kds = true -> forallb (fun c => negb (is_ascii_lower c)) s = true ->
  conforms_cls ks s = conforms kds s.
Proof.
  induction ks as [|k ks IH]; intros [|kd kds] s Ha Hs; simpl in Ha; try discriminate.
  - destruct s; reflexivity.
  - destruct s as [|c s]; [reflexivity|]. simpl in Hs. apply andb_true_iff in Hs as [Hc Hs].
    apply andb_true_iff in Ha as [Hk Hr]. apply negb_true_iff in Hc.
    simpl. rewrite (IH kds s Hr Hs), (cls_is_kind_spec k kd c Hk Hc). reflexivity.
Qed.

(* ---- obligations ---------------------------------------------------------------------------- *)

Definition bstep_eqb (a b : bstep) : bool :=
  match a, b with BLength, BLength | BStructure, BStructure | BCountry, BCountry => true | _, _ => false end.
Definition has_bstep (st : bstep) (l : list bstep) : bool := existsb (bstep_eqb st) l.

Definition bic_pat_ok (m : remethod) (strict : bool) (p : repat) : bool :=
  match runs_opt_of (rp_body p) with
  | Some (l, o) =>
    kinds_agree (expand l) (bic_kinds strict false) && kinds_agree (expand (l ++ o)) (bic_kinds strict true)
    && match m with
       | MFull => true
       | MMatch => rp_eol p
       | MSearch => rp_bol p && rp_eol p
       end
  | None => false
  end.

Definition bic_cfg_ok (cfg : bic_cfg) : bool :=
  has_bstep BLength (bc_steps cfg) && has_bstep BStructure (bc_steps cfg) && has_bstep BCountry (bc_steps cfg)
  && forallb (fun n => Z.eqb n 8 || Z.eqb n 11) (bc_lengths cfg)
  && memZ 8 (bc_lengths cfg) && memZ 11 (bc_lengths cfg)
  && bic_pat_ok (bc_method cfg) false (bc_iso cfg) && bic_pat_ok (bc_method cfg) true (bc_swift cfg)
  && Z.eqb (fst (bc_country cfg)) 4 && Z.eqb (snd (bc_country cfg)) 6.

(* ---- the equivalence ------------------------------------------------------------------------ *)

Lemma slice_4_6 s : (6 <= len s)%Z -> get_slice s 4 (Some 6%Z) = firstn 2 (skipn 4 s).
Proof.
  intro H. unfold get_slice. replace ((4 <? len s) && (6 <=? len s))%Z with true by lia.
  unfold py_slice, norm_idx. replace (4 <? 0)%Z with false by lia. replace (6 <? 0)%Z with false by lia.
  replace (Z.min 4 (len s)) with 4%Z by lia. replace (Z.min 6 (len s)) with 6%Z by lia. reflexivity.
Qed.

Section Main.
Variable e : env.
Variable cfg : bic_cfg.
Variable countries : list text.
Hypothesis WF : env_wf e = true.
Hypothesis CFG : bic_cfg_ok cfg = true.

Lemma bic_steps_ok strict s l :
  bic_run_steps cfg countries strict s l = Ok tt <->
  forall st, In st l -> bic_run_step cfg countries strict s st = Ok tt.
Proof.
  induction l as [|st l IH]; simpl.
  - split; [intros _ st []|reflexivity].
  - destruct (bic_run_step cfg countries strict s st) as [[]| |] eqn:E; simpl.
    + rewrite IH. split.
      * intros H st' [<-|Hin]; [exact E|apply H; exact Hin].
      * intros H st' Hin. apply H. right. exact Hin.
    + split; [discriminate|]. intro H. specialize (H st (or_introl eq_refl)). congruence.
    + split; [discriminate|]. intro H. specialize (H st (or_introl eq_refl)). congruence.
Qed.

Lemma has_bstep_in st l : has_bstep st l = true -> In st l.
Proof.
  unfold has_bstep. intro H. apply existsb_exists in H as (x & Hin & Hx).
  destruct st, x; try discriminate; exact Hin.
Qed.

Lemma structure_iff (strict : bool) s :
  cleaned e s = true -> forallb (fun c => negb (is_ascii_lower c)) s = true ->
  pat_apply (bc_method cfg) (if strict then bc_swift cfg else bc_iso cfg) s =
  conforms (bic_kinds strict false) s || conforms (bic_kinds strict true) s.
Proof using WF CFG.
  intros Hcl Hnl.
  set (p := if strict then bc_swift cfg else bc_iso cfg).
  assert (Hp : bic_pat_ok (bc_method cfg) strict p = true).
  { unfold bic_cfg_ok in CFG. repeat (apply andb_true_iff in CFG as [CFG ?]). subst p. destruct strict; assumption. }
  unfold bic_pat_ok in Hp. destruct (runs_opt_of (rp_body p)) as [[l o]|] eqn:Er; [|discriminate].
  apply andb_true_iff in Hp as [Hp Hm]. apply andb_true_iff in Hp as [H8 H11].
  assert (Hl : matches (compile (rp_body p)) s =
               conforms (bic_kinds strict false) s || conforms (bic_kinds strict true) s).
  { apply eq_true_iff_eq. rewrite matches_lang, (runs_opt_lang _ l o s Er), orb_true_iff.
    rewrite (kinds_agree_conforms _ _ s H8 Hnl), (kinds_agree_conforms _ _ s H11 Hnl). reflexivity. }
  unfold pat_apply. destruct (bc_method cfg).
  - exact Hl.
  - rewrite Hm. rewrite prefix_match_eol_full by (apply (cleaned_no_nl e WF); exact Hcl). exact Hl.
  - apply andb_true_iff in Hm as [Hb He]. rewrite Hb, He.
    rewrite prefix_match_eol_full by (apply (cleaned_no_nl e WF); exact Hcl). exact Hl.
Qed.

Lemma bic_kinds_len (strict long : bool) s :
  conforms (bic_kinds strict long) s = true -> len s = if long then 11%Z else 8%Z.
Proof. intro H. apply conforms_length in H. unfold len. rewrite H. destruct strict, long; reflexivity. Qed.

Theorem bic_validate_iff strict s :
  cleaned e s = true -> forallb (fun c => negb (is_ascii_lower c)) s = true ->
  (bic_validate cfg countries strict s = Ok true <-> iso9362_ok countries strict s = true).
Proof using WF CFG.
  intros Hcl Hnl. unfold bic_validate.
  assert (Hsteps : bic_run_steps cfg countries strict s (bc_steps cfg) = Ok tt <-> iso9362_ok countries strict s = true).
  2:{ destruct (bic_run_steps cfg countries strict s (bc_steps cfg)) as [[]| |]; simpl;
      rewrite <- Hsteps; split; intro H; try reflexivity; try discriminate. }
  pose proof CFG as C. unfold bic_cfg_ok in C.
  apply andb_true_iff in C as [C Hc6]. apply andb_true_iff in C as [C Hc4].
  apply andb_true_iff in C as [C _]. apply andb_true_iff in C as [C _].
  apply andb_true_iff in C as [C M11]. apply andb_true_iff in C as [C M8].
  apply andb_true_iff in C as [C Hlens]. apply andb_true_iff in C as [C S3].
  apply andb_true_iff in C as [S1 S2]. apply Z.eqb_eq in Hc4, Hc6.
  assert (Hcc : forall t, (6 <= len t)%Z -> bic_country_code cfg t = firstn 2 (skipn 4 t)).
  { intros t Ht. unfold bic_country_code, part. rewrite Hc4, Hc6. apply slice_4_6. exact Ht. }
  rewrite bic_steps_ok. unfold iso9362_ok. split.
  - intro Hall.
    pose proof (Hall _ (has_bstep_in _ _ S1)) as EL. pose proof (Hall _ (has_bstep_in _ _ S2)) as ES.
    pose proof (Hall _ (has_bstep_in _ _ S3)) as EC. cbn [bic_run_step] in EL, ES, EC.
    rewrite (structure_iff strict s Hcl Hnl) in ES.
    destruct (conforms (bic_kinds strict false) s || conforms (bic_kinds strict true) s) eqn:Ek; [|discriminate].
    cbn [andb]. destruct (memZ (len s) (bc_lengths cfg)) eqn:El; [|discriminate].
    assert (H6 : (6 <= len s)%Z).
    { unfold memZ in El. apply existsb_exists in El as (n & Hin & Hn). apply Z.eqb_eq in Hn.
      rewrite forallb_forall in Hlens. specialize (Hlens n Hin). lia. }
    rewrite (Hcc s H6) in EC. unfold mem_text in EC. unfold known_country.
    destruct (existsb (text_eqb (firstn 2 (skipn 4 s))) countries); [reflexivity|discriminate].
  - intro H. apply andb_true_iff in H as [Hk Hc].
    assert (Hlen : len s = 8%Z \/ len s = 11%Z).
    { apply orb_true_iff in Hk as [Hk|Hk]; apply bic_kinds_len in Hk; auto. }
    intros st _. destruct st; cbn [bic_run_step].
    + replace (memZ (len s) (bc_lengths cfg)) with true; [reflexivity|].
      destruct Hlen as [-> | ->]; symmetry; assumption.
    + rewrite (structure_iff strict s Hcl Hnl), Hk. reflexivity.
    + rewrite (Hcc s ltac:(lia)). unfold mem_text. unfold known_country in Hc. rewrite Hc. reflexivity.
Qed.

(* the constructor *)
Theorem bic_new_iff txt strict :
  (exists s, bic_new e cfg countries txt false strict = Ok s) <-> iso9362_ok countries strict (clean e txt) = true.
Proof using WF CFG.
  unfold bic_new. cbn [bind].
  pose proof (bic_validate_iff strict (clean e txt) (clean_cleaned e WF txt) (clean_no_lower e WF txt)) as H.
  destruct (bic_validate cfg countries strict (clean e txt)) as [b| |] eqn:E; cbn [bind].
  - assert (b = true) as ->.
    { unfold bic_validate in E. destruct (bic_run_steps cfg countries strict (clean e txt) (bc_steps cfg)) as [[]| |];
        simpl in E; congruence. }
    rewrite <- H. split; [reflexivity|]. intros _. eexists; reflexivity.
  - split; [intros [s Hs]; discriminate|]. intro Hi. apply H in Hi. discriminate.
  - split; [intros [s Hs]; discriminate|]. intro Hi. apply H in Hi. discriminate.
Qed.

End Main.
