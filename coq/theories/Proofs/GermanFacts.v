(* C07: the WeightedModulus template of germany.py against the Bundesbank's description of a standard method
   (positions a..b read from the right, weights, modulus, cross sums or not, rule for the result, check digit at c). *)
From Coq Require Import Lia ZArith List Bool ZifyBool ZifyN String.
From Schwifty Require Import Lib.Base Lib.Lit Model.Clean Model.Data Model.Bban Model.National Model.Germany.
From Schwifty Require Import Spec.NationalPublished Spec.Bundesbank.
From Schwifty Require Import Proofs.CleanFacts Proofs.NumFacts Proofs.IbanFacts Proofs.PlaceFacts Proofs.NationalDigits Proofs.NationalCountries.
Import ListNotations.
Open Scope list_scope.
Ltac Zify.zify_post_hook ::= Z.to_euclidean_division_equations.

Lemma in_firstn' {A} (x : A) : forall n l, In x (firstn n l) -> In x l.
Proof.
  induction n as [|n IH]; intros l H; [destruct H|]. destruct l as [|y l]; [destruct H|].
  cbn [firstn] in H. destruct H as [H|H]; [left; exact H|right; apply IH; exact H].
Qed.
Lemma in_skipn' {A} (x : A) : forall n l, In x (skipn n l) -> In x l.
Proof. induction n as [|n IH]; intros l H; [exact H|]. destruct l as [|y l]; [destruct H|]. right. apply IH. exact H. Qed.

Lemma tsum_firstn q : forall xs ws, tsum q (firstn (List.length xs) ws) xs = tsum q ws xs.
Proof.
  induction xs as [|x xs IH]; intros [|w ws]; cbn [List.length firstn tsum]; try reflexivity.
  rewrite IH. reflexivity.
Qed.

Definition digs (account : text) : list Z := map dv account.

Lemma str_two v : (10 <= v <= 99)%Z -> str_of_Z v = [(48 + Z.to_N (v / 10))%N; (48 + Z.to_N (v mod 10))%N].
Proof.
  intro H.
  assert (F : forallb (fun n => text_eqb (str_of_Z (Z.of_nat n))
                 [(48 + Z.to_N (Z.of_nat n / 10))%N; (48 + Z.to_N (Z.of_nat n mod 10))%N]) (seq 10 90) = true)
    by (vm_compute; reflexivity).
  rewrite forallb_forall in F. specialize (F (Z.to_nat v)). rewrite Z2Nat.id in F by lia.
  apply text_eqb_eq. apply F. apply in_seq. lia.
Qed.

Lemma Ok_inj' {A} (x y : A) : Ok x = Ok y -> x = y.
Proof. intro H. injection H as H. exact H. Qed.

Lemma nth_digit_pos' account i : forallb is_ascii_digit account = true -> List.length account = 10%nat -> (i < 10)%nat ->
  py_index account (Z.of_nat i) = Ok (nth i account 0%N) /\ is_ascii_digit (nth i account 0%N) = true
  /\ pos (S i) (digs account) = dv (nth i account 0%N).
Proof.
  intros Hd Hl Hi. split; [apply (py_index_nth account i); lia|]. split; [apply nth_digit; [exact Hd|lia]|].
  unfold pos, digs. cbn [Nat.sub]. rewrite Nat.sub_0_r. change 0%Z with (dv 0%N) at 1. rewrite map_nth. reflexivity.
Qed.

Section German.
Variable nd : list (N * N).
Hypothesis ND : nd_ok nd = true.
Variable tbl : list (text * gclass).

Lemma digit_char v : (0 <= v <= 9)%Z -> is_ascii_digit (48 + Z.to_N v)%N = true /\ dv (48 + Z.to_N v)%N = v.
Proof. intro H. unfold is_ascii_digit, dv, c0, c9. split; lia. Qed.

Lemma digit_sum_small z : (0 <= z < 100)%Z -> digit_sum nd z = Ok (z / 10 + z mod 10)%Z.
Proof using ND.
  intro H. unfold digit_sum. destruct (Z_lt_le_dec z 10) as [Hs|Hb].
  - rewrite str_one by lia. cbn [digit_sum_text]. destruct (digit_char z ltac:(lia)) as [D V].
    rewrite (int_char_digit nd ND _ D), V. cbn [bind]. f_equal. lia.
  - rewrite str_two by lia. cbn [digit_sum_text].
    destruct (digit_char (z / 10) ltac:(lia)) as [D1 V1]. destruct (digit_char (z mod 10) ltac:(lia)) as [D2 V2].
    rewrite (int_char_digit nd ND _ D1), (int_char_digit nd ND _ D2), V1, V2. cbn [bind]. f_equal. lia.
Qed.

Definition cross_of (k : k_summand) : option cross :=
  match k with SPlain => Some Plain | SDigitSum => Some CrossSum | SMod10 => Some UnitsOnly | SPlusW11 => None end.

Lemma summand_term g q d w :
  cross_of (g_summand g) = Some q -> (0 <= d <= 9)%Z -> (0 <= w <= 10)%Z -> summand nd g d w = Ok (term q w d).
Proof using ND.
  intros Hq Hd Hw. unfold summand. destruct (g_summand g); inversion Hq; subst q; cbn [term].
  - f_equal. lia.
  - rewrite digit_sum_small by nia. f_equal. replace (d * w)%Z with (w * d)%Z by lia. reflexivity.
  - f_equal. f_equal. lia.
Qed.

Lemma dv_range c : is_ascii_digit c = true -> (0 <= dv c <= 9)%Z.
Proof. unfold is_ascii_digit, dv, c0, c9. lia. Qed.

Lemma wsum_go_tsum g q : cross_of (g_summand g) = Some q ->
  forall digits ws, forallb is_ascii_digit digits = true -> forallb (fun w => (0 <=? w) && (w <=? 10))%Z ws = true ->
  wsum_go nd g digits ws = Ok (tsum q ws (map dv digits)).
Proof using ND.
  intro Hq. induction digits as [|c digits IH]; intros [|w ws] Hd Hw; cbn [wsum_go tsum map]; try reflexivity.
  cbn [forallb] in Hd, Hw. apply andb_true_iff in Hd as [Hc Hd]. apply andb_true_iff in Hw as [Hw1 Hw].
  unfold int_c. rewrite (int_char_digit nd ND c Hc). cbn [bind].
  rewrite (summand_term g q (dv c) w Hq (dv_range c Hc)) by lia. cbn [bind].
  rewrite (IH ws Hd Hw). cbn [bind]. reflexivity.
Qed.

Lemma cycle_to_length {A} (ws : list A) : ws <> [] -> forall n cur, List.length (cycle_to ws cur n) = n.
Proof.
  intros Hne. induction n as [|n IH]; intro cur; [reflexivity|]. cbn [cycle_to].
  destruct cur as [|x r]; [destruct ws as [|x r]; [congruence|]|]; cbn [List.length]; f_equal; apply IH.
Qed.

Lemma cycle_to_forallb {A} (p : A -> bool) (ws : list A) : forallb p ws = true ->
  forall n cur, forallb p cur = true -> forallb p (cycle_to ws cur n) = true.
Proof.
  intro Hws. induction n as [|n IH]; intros cur Hcur; [reflexivity|]. cbn [cycle_to].
  destruct cur as [|x r].
  - destruct ws as [|x r]; [reflexivity|]. cbn [forallb] in *. apply andb_true_iff in Hws as [H1 H2].
    rewrite H1. cbn [andb]. apply IH. exact H2.
  - cbn [forallb] in *. apply andb_true_iff in Hcur as [H1 H2]. rewrite H1. cbn [andb]. apply IH. exact H2.
Qed.

(* ---- the template with the default get_digits / remainder hooks -------------------------------------------- *)
Section Std.
Variable g : gclass.
Variables a b c : nat.
Variable q : cross.
Variable account0 account : text.
Hypothesis Hadj : adjust g account0 = account.
Hypothesis Hposof : positions_of g account = Ok (Z.of_nat a, Z.of_nat b, Z.of_nat c).
Hypothesis Hab : (1 <= a /\ a <= b /\ b <= 10)%nat.
Hypothesis Hc : (1 <= c <= 10)%nat.
Hypothesis Kdig : g_digits g = DDefault.
Hypothesis Kq : cross_of (g_summand g) = Some q.
Hypothesis Kw : forallb (fun w => (0 <=? w) && (w <=? 10))%Z (g_weights g) = true.
Hypothesis Kwne : g_weights g <> [].
Hypothesis Hdig : forallb is_ascii_digit account = true.
Hypothesis Hlen : List.length account = 10%nat.

Let ds := digs account.
Definition oriented : list Z := if g_reverse g then rev (span a b ds) else span a b ds.
Definition wadj (s : Z) : Z := match g_wsum g with WPlain => s | WMinus1 => (s - 1)%Z end.
Definition std_sum : Z := wadj (tsum q (cycle_to (g_weights g) [] (b - (a - 1))%nat) oriented).
(* what compute_remainder makes of the weighted sum (the hook: modulo, or iterated cross sum) *)
Variable std_rem : Z.
Hypothesis Hrem : remainder_of nd g std_sum = Ok std_rem.
Definition std_checksum : Z := match g_minuend g with None => std_rem | Some m => (m - std_rem)%Z end.
Hypothesis HR : (0 <= std_checksum <= 99)%Z.

Lemma std_digits :
  get_digits nd 10 g account = Ok (if g_reverse g then rev (sl (a - 1)%nat b account) else sl (a - 1)%nat b account).
Proof using All.
  unfold get_digits, digits_default. rewrite Hposof. cbn [bind]. unfold len. rewrite Hlen.
  change (Z.of_nat 10) with 10%Z. cbn [Z.eqb Pos.eqb negb].
  replace ((0 <=? Z.of_nat a - 1) && (Z.of_nat a - 1 <=? 10))%Z with true by lia.
  replace ((Z.of_nat a - 1 <=? Z.of_nat b) && (Z.of_nat b <=? 10))%Z with true by lia. cbn [negb].
  rewrite Kdig. cbn [bind]. f_equal.
  rewrite py_slice_sub by (unfold len; lia).
  replace (firstn (Z.to_nat (Z.of_nat b - (Z.of_nat a - 1))) (skipn (Z.to_nat (Z.of_nat a - 1)) account))
    with (sl (a - 1)%nat b account) by (unfold sl; f_equal; [lia|f_equal; lia]).
  reflexivity.
Qed.

Lemma span_sl : span a b ds = map dv (sl (a - 1)%nat b account).
Proof using All.
  unfold span, sl, ds, digs. rewrite <- firstn_map, <- skipn_map. f_equal. lia.
Qed.

Lemma std_compute_core :
  compute_core nd 10 g account0 = (do r <- reconcile g std_checksum std_rem; Ok (str_of_Z r, std_rem)).
Proof using All.
  unfold compute_core. rewrite Hadj, std_digits. cbn [bind].
  unfold weighted_sum.
  assert (Hl : List.length (sl (a - 1)%nat b account) = (b - (a - 1))%nat) by (apply sl_length; lia).
  assert (Hl' : List.length (if g_reverse g then rev (sl (a - 1)%nat b account) else sl (a - 1)%nat b account) = (b - (a - 1))%nat)
    by (destruct (g_reverse g); rewrite ?rev_length; exact Hl).
  rewrite Hl'.
  rewrite (wsum_go_tsum g q Kq).
  - cbn [bind].
    assert (E : map dv (if g_reverse g then rev (sl (a - 1)%nat b account) else sl (a - 1)%nat b account) = oriented).
    { unfold oriented. rewrite span_sl. destruct (g_reverse g); [apply map_rev|reflexivity]. }
    rewrite E. fold (wadj (tsum q (cycle_to (g_weights g) [] (b - (a - 1))%nat) oriented)). fold std_sum.
    rewrite Hrem. cbn [bind]. fold std_checksum. reflexivity.
  - pose proof (sl_forallb is_ascii_digit (a - 1)%nat b account Hdig) as F.
    destruct (g_reverse g); [|exact F]. rewrite forallb_forall in *. intros x Hx. apply in_rev in Hx. exact (F x Hx).
  - apply cycle_to_forallb; [exact Kw|reflexivity].
Qed.

Lemma reconcile_range r : reconcile g std_checksum std_rem = Ok r -> (0 <= r <= 99)%Z.
Proof using All.
  pose proof HR as C. unfold reconcile.
  destruct (g_rec g).
  - intro H. apply Ok_inj' in H. subst r. destruct (10 <=? std_checksum)%Z; lia.
  - destruct (Z.eqb std_rem 0); [intro H; apply Ok_inj' in H; subst r; lia|].
    destruct (Z.eqb std_rem 1); [discriminate|]. intro H. apply Ok_inj' in H. subst r. lia.
  - intro H. apply Ok_inj' in H. subst r. destruct (Z.eqb std_checksum 10); [lia|]. destruct (10 <=? std_checksum)%Z; lia.
  - destruct (Z.eqb std_checksum 10); [discriminate|]. intro H. apply Ok_inj' in H. subst r. lia.
Qed.

Lemma check_char : char_at account (Z.of_nat c - 1) = Ok [nth (c - 1)%nat account 0%N]
  /\ is_ascii_digit (nth (c - 1)%nat account 0%N) = true
  /\ pos c ds = dv (nth (c - 1)%nat account 0%N).
Proof using All.
  split; [|split].
  - unfold char_at. replace (Z.of_nat c - 1)%Z with (Z.of_nat (c - 1)%nat) by lia. rewrite py_index_nth by lia. reflexivity.
  - apply nth_digit; [exact Hdig|lia].
  - unfold pos, ds, digs. change 0%Z with (dv 0%N) at 1. rewrite map_nth. reflexivity.
Qed.

Theorem std_validate :
  validate_default nd 10 g account0 = (do r <- reconcile g std_checksum std_rem; Ok (pos c ds =? r)%Z).
Proof using All.
  unfold validate_default. cbv zeta. rewrite std_compute_core.
  destruct (reconcile g std_checksum std_rem) as [r|x|x] eqn:Er; cbn [bind]; try reflexivity.
  rewrite Hadj, Hposof. cbn [bind]. destruct check_char as (Hch & Hd & Hp). rewrite Hch. cbn [bind fst]. f_equal.
  rewrite (str_eq_digit r _ (reconcile_range r Er) Hd), Hp. reflexivity.
Qed.
End Std.


(* ---- the template with any get_digits / summand hooks: what is needed is what they return ----------------------- *)
Section Gen.
Variable g : gclass.
Variable c : nat.
Variables pa pb : Z.
Variable account0 account digits : text.
Variables Sm R : Z.
Hypothesis Hadj : adjust g account0 = account.
Hypothesis Hposof : positions_of g account = Ok (pa, pb, Z.of_nat c).
Hypothesis Hc : (1 <= c <= 10)%nat.
Hypothesis Hdigits : get_digits nd 10 g account = Ok digits.
Hypothesis Hsum : wsum_go nd g digits (cycle_to (g_weights g) [] (List.length digits)) = Ok Sm.
Hypothesis Hrem : remainder_of nd g (wadj g Sm) = Ok R.
Hypothesis HR : (0 <= std_checksum g R <= 99)%Z.
Hypothesis Hdig : forallb is_ascii_digit account = true.
Hypothesis Hlen : List.length account = 10%nat.

Lemma gen_compute_core :
  compute_core nd 10 g account0 = (do r <- reconcile g (std_checksum g R) R; Ok (str_of_Z r, R)).
Proof using All.
  unfold compute_core. rewrite Hadj, Hdigits. cbn [bind]. unfold weighted_sum. rewrite Hsum. cbn [bind].
  fold (wadj g Sm). rewrite Hrem. cbn [bind]. fold (std_checksum g R). reflexivity.
Qed.

Lemma gen_reconcile_range r : reconcile g (std_checksum g R) R = Ok r -> (0 <= r <= 99)%Z.
Proof using All.
  pose proof HR as C. unfold reconcile.
  destruct (g_rec g).
  - intro H. apply Ok_inj' in H. subst r. destruct (10 <=? std_checksum g R)%Z; lia.
  - destruct (Z.eqb R 0); [intro H; apply Ok_inj' in H; subst r; lia|].
    destruct (Z.eqb R 1); [discriminate|]. intro H. apply Ok_inj' in H. subst r. lia.
  - intro H. apply Ok_inj' in H. subst r. destruct (Z.eqb (std_checksum g R) 10); [lia|]. destruct (10 <=? std_checksum g R)%Z; lia.
  - destruct (Z.eqb (std_checksum g R) 10); [discriminate|]. intro H. apply Ok_inj' in H. subst r. lia.
Qed.

Theorem gen_validate :
  validate_default nd 10 g account0 = (do r <- reconcile g (std_checksum g R) R; Ok (pos c (digs account) =? r)%Z).
Proof using All.
  unfold validate_default. cbv zeta. rewrite gen_compute_core.
  destruct (reconcile g (std_checksum g R) R) as [r|x|x] eqn:Er; cbn [bind]; try reflexivity.
  rewrite Hadj, Hposof. cbn [bind].
  destruct (nth_digit_pos' account (c - 1) Hdig Hlen ltac:(lia)) as (Hi & Hd & Hp).
  unfold char_at. replace (Z.of_nat c - 1)%Z with (Z.of_nat (c - 1)) by lia. rewrite Hi. cbn [bind fst]. f_equal.
  rewrite (str_eq_digit r _ (gen_reconcile_range r Er) Hd). replace (S (c - 1)) with c in Hp by lia. rewrite Hp. reflexivity.
Qed.
End Gen.

(* ---- the rule for the result ------------------------------------------------------------------------------ *)
Definition result_of (g : gclass) : option result :=
  match g_rec g, g_minuend g with
  | RecDefault, Some m => if (m =? 10) && (g_modulus g =? 10) then Some Minus10
                          else if (m =? 11) && (g_modulus g =? 11) then Some Minus11_06 else None
  | Rec02, Some m => if (m =? 11) && (g_modulus g =? 11) then Some Minus11_02 else None
  | Rec11, Some m => if (m =? 11) && (g_modulus g =? 11) then Some Minus11_11 else None
  | Rec76, None => if g_modulus g =? 11 then Some Itself else None
  | _, _ => None
  end%Z.

Definition verdict (o : outcome bool) : option bool :=
  match o with Ok v => Some v | Err EInvalidBBANChecksum => Some false | _ => None end.

Lemma reconcile_expected g res rem x :
  result_of g = Some res -> (0 <= rem < g_modulus g)%Z ->
  verdict (do r <- reconcile g (match g_minuend g with None => rem | Some m => m - rem end)%Z rem; Ok (x =? r)%Z)
  = Some (match expected res rem with Some k => (x =? k)%Z | None => false end).
Proof.
  unfold result_of, reconcile, expected. intros Hres Hrem.
  destruct (g_rec g), (g_minuend g) as [m|]; try discriminate.
  - destruct ((m =? 10) && (g_modulus g =? 10))%Z eqn:E1.
    + inversion Hres; subst res. apply andb_true_iff in E1 as [E1 E2]. apply Z.eqb_eq in E1, E2. subst m.
      cbn [bind verdict]. f_equal. destruct (Z.eqb_spec rem 0); [subst; reflexivity|].
      replace (10 <=? 10 - rem)%Z with false by lia. reflexivity.
    + destruct ((m =? 11) && (g_modulus g =? 11))%Z eqn:E2; [|discriminate].
      inversion Hres; subst res. apply andb_true_iff in E2 as [E2 E3]. apply Z.eqb_eq in E2, E3. subst m.
      cbn [bind verdict]. f_equal. destruct (Z.eqb_spec rem 0); [subst; reflexivity|].
      destruct (Z.eqb_spec rem 1); [subst; reflexivity|]. cbn [orb].
      replace (10 <=? 11 - rem)%Z with false by lia. reflexivity.
  - destruct ((m =? 11) && (g_modulus g =? 11))%Z eqn:E2; [|discriminate].
    inversion Hres; subst res. apply andb_true_iff in E2 as [E2 E3]. apply Z.eqb_eq in E2, E3. subst m.
    destruct (Z.eqb_spec rem 0); [subst; reflexivity|]. destruct (Z.eqb_spec rem 1); reflexivity.
  - destruct ((m =? 11) && (g_modulus g =? 11))%Z eqn:E2; [|discriminate].
    inversion Hres; subst res. apply andb_true_iff in E2 as [E2 E3]. apply Z.eqb_eq in E2, E3. subst m.
    cbn [bind verdict]. f_equal. destruct (Z.eqb_spec rem 0); [subst; reflexivity|].
    destruct (Z.eqb_spec rem 1); [subst; reflexivity|].
    replace (11 - rem =? 10)%Z with false by lia. replace (10 <=? 11 - rem)%Z with false by lia. reflexivity.
  - destruct (g_modulus g =? 11)%Z eqn:E; [|discriminate]. inversion Hres; subst res.
    destruct (Z.eqb_spec rem 10); reflexivity.
Qed.

(* everything std_validate needs of a class, as one boolean over the translated table row *)
Definition k_pos_static (k : k_pos) : bool := match k with PStatic => true | _ => false end.
Definition k_adj_id (k : k_adj) : bool := match k with AId => true | _ => false end.
Definition k_digits_default (k : k_digits) : bool := match k with DDefault => true | _ => false end.
Definition k_wsum_plain (k : k_wsum) : bool := match k with WPlain => true | _ => false end.
Definition k_rem_mod (k : k_rem) : bool := match k with RMod => true | _ => false end.
Definition cross_eqb (x y : cross) : bool :=
  match x, y with Plain, Plain | CrossSum, CrossSum | UnitsOnly, UnitsOnly => true | _, _ => false end.
Definition result_eqb (x y : result) : bool :=
  match x, y with
  | Minus10, Minus10 | Minus11_06, Minus11_06 | Minus11_02, Minus11_02 | Minus11_11, Minus11_11 | Itself, Itself => true
  | _, _ => false
  end.
Fixpoint zlist_eqb (x y : list Z) : bool :=
  match x, y with [], [] => true | u :: x', v :: y' => (u =? v)%Z && zlist_eqb x' y' | _, _ => false end.
Lemma zlist_eqb_eq x : forall y, zlist_eqb x y = true -> x = y.
Proof.
  induction x as [|u x IH]; intros [|v y] H; cbn [zlist_eqb] in H; try reflexivity; try discriminate.
  apply andb_true_iff in H as [H1 H2]. apply Z.eqb_eq in H1. subst. f_equal. apply IH. exact H2.
Qed.

(* what the template needs of a class besides where its positions come from *)
Definition core_ok (g : gclass) (a b c : nat) (q : cross) (res : result) (ws : list Z) (m : Z) : bool :=
  Nat.leb 1 a && Nat.leb a b && Nat.leb b 10 && Nat.leb 1 c && Nat.leb c 10
  && k_digits_default (g_digits g) && k_wsum_plain (g_wsum g)
  && k_rem_mod (g_rem g) && g_reverse g
  && match cross_of (g_summand g) with Some q' => cross_eqb q' q | None => false end
  && forallb (fun w => (0 <=? w) && (w <=? 10))%Z (g_weights g)
  && match g_weights g with [] => false | _ => true end
  && match result_of g with Some r => result_eqb r res | None => false end
  && zlist_eqb (cycle_to (g_weights g) [] (b - (a - 1))) (firstn (b - (a - 1)) ws) && (g_modulus g =? m)%Z.

Definition std_ok (g : gclass) (a b c : nat) (q : cross) (res : result) (ws : list Z) (m : Z) : bool :=
  (let '(pa, pb, pc) := g_positions g in (pa =? Z.of_nat a)%Z && (pb =? Z.of_nat b)%Z && (pc =? Z.of_nat c)%Z)
  && k_pos_static (g_pos g) && k_adj_id (g_adj g) && core_ok g a b c q res ws m.

(* the template on the (adjusted) account with positions (a, b, c): verdict, and what compute leaves behind *)
Theorem core_method g a b c q res ws m account0 account :
  core_ok g a b c q res ws m = true ->
  adjust g account0 = account -> positions_of g account = Ok (Z.of_nat a, Z.of_nat b, Z.of_nat c) ->
  forallb is_ascii_digit account = true -> List.length account = 10%nat ->
  verdict (validate_default nd 10 g account0) = Some (std a b c ws q m res (digs account))
  /\ (let rem := rem_of a b ws q m (digs account) in
      compute_core nd 10 g account0
      = (do r <- reconcile g (match g_minuend g with None => rem | Some mm => (mm - rem)%Z end) rem; Ok (str_of_Z r, rem)))
  /\ (0 <= rem_of a b ws q m (digs account) < m)%Z
  /\ result_of g = Some res
  /\ (forall r, reconcile g (match g_minuend g with None => rem_of a b ws q m (digs account)
                                | Some mm => (mm - rem_of a b ws q m (digs account))%Z end)
                  (rem_of a b ws q m (digs account)) = Ok r ->
       std a b c ws q m res (digs account) = (pos c (digs account) =? r)%Z /\ (0 <= r <= 99)%Z
       /\ validate_default nd 10 g account0 = Ok (std a b c ws q m res (digs account))).
Proof using All.
  intros H Hadj Hposof Hdig Hlen. unfold core_ok in H.
  repeat (apply andb_true_iff in H as [H ?]).
  repeat match goal with X : (_ =? _)%Z = true |- _ => apply Z.eqb_eq in X end.
  repeat match goal with X : Nat.leb _ _ = true |- _ => apply Nat.leb_le in X end.
  destruct (g_digits g) eqn:Kdig; try discriminate. destruct (g_wsum g) eqn:Kws; try discriminate.
  destruct (g_rem g) eqn:Krem; try discriminate.
  destruct (cross_of (g_summand g)) as [q'|] eqn:Kq; [|discriminate].
  assert (q' = q) by (destruct q', q; try discriminate; reflexivity). subst q'.
  destruct (result_of g) as [res'|] eqn:Kres; [|discriminate].
  assert (res' = res) by (destruct res', res; try discriminate; reflexivity). subst res'.
  assert (Kwne : g_weights g <> []) by (destruct (g_weights g); [discriminate|congruence]).
  match goal with X : zlist_eqb _ (firstn _ ws) = true |- _ => apply zlist_eqb_eq in X; rename X into Hws end.
  assert (Kmod : (0 < g_modulus g <= 99)%Z).
  { unfold result_of in Kres. destruct (g_rec g), (g_minuend g) as [mm|]; try discriminate;
      repeat match type of Kres with context [if ?c then _ else _] => destruct c eqn:? end; try discriminate;
      repeat match goal with X : (_ && _)%bool = true |- _ => apply andb_true_iff in X as [? ?] end;
      repeat match goal with X : (_ =? _)%Z = true |- _ => apply Z.eqb_eq in X end; lia. }
  assert (Kmin : match g_minuend g with None => True | Some mm => (g_modulus g - 1 <= mm <= 99)%Z end).
  { unfold result_of in Kres. destruct (g_rec g), (g_minuend g) as [mm|]; try discriminate; try exact I;
      repeat match type of Kres with context [if ?c then _ else _] => destruct c eqn:? end; try discriminate;
      repeat match goal with X : (_ && _)%bool = true |- _ => apply andb_true_iff in X as [? ?] end;
      repeat match goal with X : (_ =? _)%Z = true |- _ => apply Z.eqb_eq in X end; lia. }
  assert (Krev : g_reverse g = true) by assumption.
  set (R := (std_sum g a b q account mod g_modulus g)%Z).
  assert (Hrem : remainder_of nd g (std_sum g a b q account) = Ok R) by (unfold remainder_of; rewrite Krem; reflexivity).
  assert (Hrange : (0 <= R < g_modulus g)%Z) by (apply Z.mod_pos_bound; lia).
  assert (HR : (0 <= std_checksum g R <= 99)%Z) by (unfold std_checksum; destruct (g_minuend g); lia).
  assert (Erem : R = rem_of a b ws q m (digs account)).
  { unfold R, std_sum, rem_of, oriented, wadj. rewrite Krev, Kws, Hws.
    assert (Hn : (b - (a - 1))%nat = List.length (rev (span a b (digs account)))).
    { rewrite rev_length. unfold span, digs. rewrite firstn_length, skipn_length, map_length. lia. }
    rewrite Hn, tsum_firstn. subst m. reflexivity. }
  pose proof (std_validate g a b c q account0 account Hadj Hposof ltac:(lia) ltac:(lia) Kdig Kq
                ltac:(assumption) Kwne Hdig Hlen R Hrem HR) as SV.
  pose proof (std_compute_core g a b c q account0 account Hadj Hposof ltac:(lia) ltac:(lia) Kdig Kq
                ltac:(assumption) Kwne Hdig Hlen R Hrem HR) as SC.
  split; [|split; [|split; [|split]]].
  - rewrite SV. unfold std_checksum. rewrite (reconcile_expected g res R _ Kres Hrange).
    unfold std. fold (rem_of a b ws q m (digs account)). rewrite Erem. reflexivity.
  - cbv zeta. rewrite SC. unfold std_checksum. rewrite Erem. reflexivity.
  - rewrite <- Erem. subst m. exact Hrange.
  - reflexivity.
  - intros r Hr. rewrite <- Erem in Hr. fold (std_checksum g R) in Hr.
    pose proof (reconcile_expected g res R (pos c (digs account)) Kres Hrange) as RE.
    fold (std_checksum g R) in RE. rewrite Hr in RE. cbn [bind verdict] in RE.
    assert (Estd : std a b c ws q m res (digs account) = (pos c (digs account) =? r)%Z).
    { unfold std. fold (rem_of a b ws q m (digs account)). rewrite <- Erem. congruence. }
    split; [exact Estd|]. split.
    + exact (reconcile_range g a b c q account0 account Hadj Hposof ltac:(lia) ltac:(lia) Kdig Kq
               ltac:(assumption) Kwne Hdig Hlen R Hrem HR r Hr).
    + rewrite SV, Hr. cbn [bind]. rewrite Estd. reflexivity.
Qed.

Theorem std_method g a b c q res ws m account :
  std_ok g a b c q res ws m = true ->
  forallb is_ascii_digit account = true -> List.length account = 10%nat ->
  verdict (validate_default nd 10 g account) = Some (std a b c ws q m res (digs account)).
Proof using All.
  intros H Hdig Hlen. unfold std_ok in H.
  apply andb_true_iff in H as [H Hcore]. apply andb_true_iff in H as [H Kadj]. apply andb_true_iff in H as [Hpos Kpos].
  destruct (g_positions g) as [[pa pb] pc] eqn:Epos.
  apply andb_true_iff in Hpos as [Hpos P3]. apply andb_true_iff in Hpos as [P1 P2].
  apply Z.eqb_eq in P1, P2, P3. subst pa pb pc.
  destruct (g_pos g) eqn:Epk; try discriminate. destruct (g_adj g) eqn:Eak; try discriminate.
  assert (Hadj : adjust g account = account) by (unfold adjust; rewrite Eak; reflexivity).
  assert (Hposof : positions_of g account = Ok (Z.of_nat a, Z.of_nat b, Z.of_nat c))
    by (unfold positions_of; rewrite Epk, Epos; reflexivity).
  exact (proj1 (core_method g a b c q res ws m account account Hcore Hadj Hposof Hdig Hlen)).
Qed.

(* ---- wrappers around the template: 08, 09, 63, 99 ---------------------------------------------------------- *)
Lemma int_go_digits : forall s acc, forallb is_ascii_digit s = true ->
  int_go nd acc s = Ok (fold_left (fun a d => a * 10 + d)%Z (map dv s) acc).
Proof using ND.
  induction s as [|c s IH]; intros acc H; [reflexivity|]. cbn [forallb] in H. apply andb_true_iff in H as [Hc Hs].
  cbn [int_go map fold_left]. rewrite (int_char_digit nd ND c Hc). cbn [bind]. apply IH. exact Hs.
Qed.

Lemma int_text_value s : forallb is_ascii_digit s = true -> s <> [] -> int_text nd s = Ok (value (digs s)).
Proof using ND.
  intros H Hne. unfold int_text. destruct s as [|c s]; [congruence|]. rewrite int_go_digits by exact H. reflexivity.
Qed.

Lemma account_nonempty (account : text) : List.length account = 10%nat -> account <> [].
Proof. intros H E. subst. discriminate. Qed.

Lemma first_digit account : forallb is_ascii_digit account = true -> List.length account = 10%nat ->
  py_index account 0 = Ok (nth 0 account 0%N) /\ is_ascii_digit (nth 0 account 0%N) = true
  /\ pos 1 (digs account) = dv (nth 0 account 0%N).
Proof.
  intros Hd Hl. split; [apply (py_index_nth account 0); lia|]. split; [apply nth_digit; [exact Hd|lia]|].
  unfold pos, digs. cbn [Nat.sub]. change 0%Z with (dv 0%N) at 1. rewrite map_nth. reflexivity.
Qed.

Theorem m08_method g a b c q res ws m account :
  g_validate g = V08 -> std_ok g a b c q res ws m = true ->
  forallb is_ascii_digit account = true -> List.length account = 10%nat ->
  verdict (validate1 nd tbl 10 g account)
  = Some (if (value (digs account) <? g_min_account g)%Z then true else std a b c ws q m res (digs account)).
Proof using All.
  intros Hv Hok Hd Hl. unfold validate1. rewrite Hv. unfold int_t.
  rewrite (int_text_value account Hd (account_nonempty account Hl)). cbn [bind].
  destruct (value (digs account) <? g_min_account g)%Z; [reflexivity|].
  exact (std_method g a b c q res ws m account Hok Hd Hl).
Qed.

Theorem m99_method g a b c q res ws m account :
  g_validate g = V99 -> std_ok g a b c q res ws m = true ->
  forallb is_ascii_digit account = true -> List.length account = 10%nat ->
  verdict (validate1 nd tbl 10 g account)
  = Some (let v := value (digs account) in
          if ((396000000 <=? v) && (v <=? 499999999))%Z then true else std a b c ws q m res (digs account)).
Proof using All.
  intros Hv Hok Hd Hl. unfold validate1. rewrite Hv. unfold int_t.
  rewrite (int_text_value account Hd (account_nonempty account Hl)). cbn [bind]. cbv zeta.
  destruct ((396000000 <=? value (digs account)) && (value (digs account) <=? 499999999))%Z; [reflexivity|].
  exact (std_method g a b c q res ws m account Hok Hd Hl).
Qed.

Theorem m63_method g a b c q res ws m account :
  g_validate g = V63 -> std_ok g a b c q res ws m = true ->
  forallb is_ascii_digit account = true -> List.length account = 10%nat ->
  verdict (validate1 nd tbl 10 g account)
  = Some ((pos 1 (digs account) =? 0)%Z && std a b c ws q m res (digs account)).
Proof using All.
  intros Hv Hok Hd Hl. unfold validate1. rewrite Hv.
  destruct (first_digit account Hd Hl) as (Hi & Hdig & Hp). rewrite Hi, Hp. cbn [bind].
  assert (E : N.eqb (nth 0 account 0%N) 48 = (dv (nth 0 account 0%N) =? 0)%Z).
  { unfold is_ascii_digit, c0, c9 in Hdig. unfold dv. lia. }
  rewrite E. destruct (dv (nth 0 account 0%N) =? 0)%Z; cbn [negb andb]; [|reflexivity].
  exact (std_method g a b c q res ws m account Hok Hd Hl).
Qed.

Theorem m09_method g account : g_validate g = V09 -> verdict (validate1 nd tbl 10 g account) = Some true.
Proof. intro Hv. unfold validate1. rewrite Hv. reflexivity. Qed.

(* ---- 88: the evaluated positions depend on the third digit ------------------------------------------------- *)
Lemma nth_digit_pos account i : forallb is_ascii_digit account = true -> List.length account = 10%nat -> (i < 10)%nat ->
  py_index account (Z.of_nat i) = Ok (nth i account 0%N) /\ is_ascii_digit (nth i account 0%N) = true
  /\ pos (S i) (digs account) = dv (nth i account 0%N).
Proof.
  intros Hd Hl Hi. split; [apply (py_index_nth account i); lia|]. split; [apply nth_digit; [exact Hd|lia]|].
  unfold pos, digs. cbn [Nat.sub]. rewrite Nat.sub_0_r. change 0%Z with (dv 0%N) at 1. rewrite map_nth. reflexivity.
Qed.

Lemma digit_eqb c k : is_ascii_digit c = true -> (0 <= k <= 9)%Z -> N.eqb c (48 + Z.to_N k) = (dv c =? k)%Z.
Proof. intros H Hk. unfold is_ascii_digit, c0, c9 in H. unfold dv. lia. Qed.

Theorem m88_method g q res ws1 ws2 m account :
  g_validate g = VDefault -> g_pos g = P88 -> g_adj g = AId -> g_positions g = (4, 9, 10)%Z ->
  core_ok g 3 9 10 q res ws1 m = true -> core_ok g 4 9 10 q res ws2 m = true ->
  forallb is_ascii_digit account = true -> List.length account = 10%nat ->
  verdict (validate1 nd tbl 10 g account)
  = Some (if (pos 3 (digs account) =? 9)%Z then std 3 9 10 ws1 q m res (digs account)
          else std 4 9 10 ws2 q m res (digs account)).
Proof using All.
  intros Hv Kpos Kadj Hpos H1 H2 Hd Hl. unfold validate1. rewrite Hv.
  assert (Hadj : adjust g account = account) by (unfold adjust; rewrite Kadj; reflexivity).
  destruct (nth_digit_pos account 2 Hd Hl ltac:(lia)) as (Hi & Hdig & Hp).
  assert (Hposof : positions_of g account = if (pos 3 (digs account) =? 9)%Z then Ok (3, 9, 10)%Z else Ok (4, 9, 10)%Z).
  { unfold positions_of. rewrite Kpos. change 2%Z with (Z.of_nat 2). rewrite Hi. cbn [bind].
    assert (E : N.eqb (nth 2 account 0%N) 57 = (dv (nth 2 account 0%N) =? 9)%Z)
      by (unfold is_ascii_digit, c0, c9 in Hdig; unfold dv; lia).
    rewrite E, Hp, Hpos. reflexivity. }
  destruct (pos 3 (digs account) =? 9)%Z.
  - exact (proj1 (core_method g 3 9 10 q res ws1 m account account H1 Hadj Hposof Hd Hl)).
  - exact (proj1 (core_method g 4 9 10 q res ws2 m account account H2 Hadj Hposof Hd Hl)).
Qed.

(* ---- 26: numbers with two leading zeros are shifted left first ------------------------------------------------ *)
Theorem m26_method g a b c q res ws m account :
  g_validate g = VDefault -> g_pos g = PStatic -> g_adj g = A26 ->
  g_positions g = (Z.of_nat a, Z.of_nat b, Z.of_nat c) -> core_ok g a b c q res ws m = true ->
  forallb is_ascii_digit account = true -> List.length account = 10%nat ->
  verdict (validate1 nd tbl 10 g account)
  = Some (let ds := digs account in
          let ds' := if ((pos 1 ds =? 0) && (pos 2 ds =? 0))%Z then skipn 2 ds ++ [0; 0]%Z else ds in
          std a b c ws q m res ds').
Proof using All.
  intros Hv Kpos Kadj Hpos Hcore Hd Hl. unfold validate1. rewrite Hv. cbv zeta.
  destruct account as [|c1 [|c2 rest]]; try discriminate.
  cbn [forallb] in Hd. apply andb_true_iff in Hd as [D1 Hd]. apply andb_true_iff in Hd as [D2 Hd].
  set (account := c1 :: c2 :: rest) in *.
  set (account' := if startswith (tx "00") account then py_slice_from account 2 ++ tx "00" else account).
  assert (Hadj : adjust g account = account') by (unfold adjust; rewrite Kadj; reflexivity).
  assert (Hsw : startswith (tx "00") account = ((pos 1 (digs account) =? 0) && (pos 2 (digs account) =? 0))%Z).
  { unfold account. cbn [startswith pos digs map nth Nat.sub]. change (s2t "00") with [48%N; 48%N].
    cbn [startswith]. rewrite andb_true_r.
    unfold is_ascii_digit, c0, c9 in D1, D2. unfold dv. f_equal; lia. }
  assert (Hslice : py_slice_from account 2 = rest).
  { unfold py_slice_from, norm_idx, len. unfold account. cbn [List.length] in *.
    replace (2 <? 0)%Z with false by lia.
    replace (Z.to_nat (Z.min 2 (Z.of_nat (S (S (List.length rest)))))) with 2%nat by lia. reflexivity. }
  assert (Hds' : digs account' = if ((pos 1 (digs account) =? 0) && (pos 2 (digs account) =? 0))%Z
                                 then skipn 2 (digs account) ++ [0; 0]%Z else digs account).
  { unfold account'. rewrite Hsw. destruct ((pos 1 (digs account) =? 0) && (pos 2 (digs account) =? 0))%Z; [|reflexivity].
    rewrite Hslice. unfold digs, account. cbn [map skipn]. rewrite map_app. reflexivity. }
  assert (Hd' : forallb is_ascii_digit account' = true).
  { unfold account'. destruct (startswith (tx "00") account).
    - rewrite Hslice, forallb_app, Hd. reflexivity.
    - unfold account. cbn [forallb]. rewrite D1, D2, Hd. reflexivity. }
  assert (Hl' : List.length account' = 10%nat).
  { unfold account'. destruct (startswith (tx "00") account); [|exact Hl].
    rewrite Hslice, app_length. unfold account in Hl. change (tx "00") with [48%N; 48%N]. cbn [List.length] in *. lia. }
  assert (Hposof : positions_of g account' = Ok (Z.of_nat a, Z.of_nat b, Z.of_nat c))
    by (unfold positions_of; rewrite Kpos, Hpos; reflexivity).
  rewrite <- Hds'. exact (proj1 (core_method g a b c q res ws m account account' Hcore Hadj Hposof Hd' Hl')).
Qed.

(* ---- methods whose rule for the result never fails: the template's value and what it leaves behind --------- *)
Lemma result_default g res : result_of g = Some res -> res = Minus10 \/ res = Minus11_06 -> g_rec g = RecDefault.
Proof.
  unfold result_of. intros H Hres. destruct (g_rec g), (g_minuend g) as [mm|]; try discriminate; try reflexivity;
    repeat match type of H with context [if ?c then _ else _] => destruct c end; try discriminate;
    inversion H; subst res; destruct Hres; discriminate.
Qed.

Theorem std_total g a b c q res ws m account :
  std_ok g a b c q res ws m = true -> res = Minus10 \/ res = Minus11_06 ->
  forallb is_ascii_digit account = true -> List.length account = 10%nat ->
  validate_default nd 10 g account = Ok (std a b c ws q m res (digs account))
  /\ exists r0, compute_core nd 10 g account = Ok (str_of_Z r0, rem_of a b ws q m (digs account))
       /\ std a b c ws q m res (digs account) = (pos c (digs account) =? r0)%Z /\ (0 <= r0 <= 99)%Z
  /\ g_positions g = (Z.of_nat a, Z.of_nat b, Z.of_nat c).
Proof using All.
  intros H Hres Hdig Hlen. unfold std_ok in H.
  apply andb_true_iff in H as [H Hcore]. apply andb_true_iff in H as [H Kadj]. apply andb_true_iff in H as [Hpos Kpos].
  destruct (g_positions g) as [[pa pb] pc] eqn:Epos.
  apply andb_true_iff in Hpos as [Hpos P3]. apply andb_true_iff in Hpos as [P1 P2].
  apply Z.eqb_eq in P1, P2, P3. subst pa pb pc.
  destruct (g_pos g) eqn:Epk; try discriminate. destruct (g_adj g) eqn:Eak; try discriminate.
  assert (Hadj : adjust g account = account) by (unfold adjust; rewrite Eak; reflexivity).
  assert (Hposof : positions_of g account = Ok (Z.of_nat a, Z.of_nat b, Z.of_nat c))
    by (unfold positions_of; rewrite Epk, Epos; reflexivity).
  destruct (core_method g a b c q res ws m account account Hcore Hadj Hposof Hdig Hlen) as (_ & Hcc & _ & Hro & Hall).
  pose proof (result_default g res Hro Hres) as Hrec.
  set (rem := rem_of a b ws q m (digs account)) in *.
  set (chk := match g_minuend g with None => rem | Some mm => (mm - rem)%Z end) in *.
  assert (Hr : reconcile g chk rem = Ok (if (10 <=? chk)%Z then 0 else chk)%Z) by (unfold reconcile; rewrite Hrec; reflexivity).
  destruct (Hall _ Hr) as (E1 & E2 & E3).
  split; [exact E3|]. exists (if (10 <=? chk)%Z then 0 else chk)%Z. split; [|split; [exact E1|split; [exact E2|reflexivity]]].
  cbv zeta in Hcc. rewrite Hcc. fold chk. rewrite Hr. reflexivity.
Qed.

(* ---- 25 -------------------------------------------------------------------------------------------------------- *)
Theorem m25_method g a b c q ws m account :
  g_validate g = V25 -> std_ok g a b c q Minus11_06 ws m = true ->
  forallb is_ascii_digit account = true -> List.length account = 10%nat ->
  verdict (validate1 nd tbl 10 g account)
  = Some (std a b c ws q m Minus11_06 (digs account)
          && (negb (rem_of a b ws q m (digs account) =? 1)%Z || (pos 2 (digs account) =? 8)%Z || (pos 2 (digs account) =? 9)%Z)).
Proof using All.
  intros Hv Hok Hd Hl. unfold validate1. rewrite Hv.
  destruct (std_total g a b c q Minus11_06 ws m account Hok (or_intror eq_refl) Hd Hl) as (Hvd & r0 & Hcc & _ & _).
  rewrite Hvd, Hcc. cbn [bind snd].
  destruct (nth_digit_pos account 1 Hd Hl ltac:(lia)) as (Hi & Hdig & Hp). change (py_index account 1) with (py_index account (Z.of_nat 1)). rewrite Hi. cbn [bind].
  assert (E8 : N.eqb (nth 1 account 0%N) 56 = (pos 2 (digs account) =? 8)%Z)
    by (rewrite Hp; unfold is_ascii_digit, c0, c9 in Hdig; unfold dv; lia).
  assert (E9 : N.eqb (nth 1 account 0%N) 57 = (pos 2 (digs account) =? 9)%Z)
    by (rewrite Hp; unfold is_ascii_digit, c0, c9 in Hdig; unfold dv; lia).
  rewrite E8, E9.
  destruct (rem_of a b ws q m (digs account) =? 1)%Z, (pos 2 (digs account) =? 8)%Z, (pos 2 (digs account) =? 9)%Z,
    (std a b c ws q m Minus11_06 (digs account)); reflexivity.
Qed.

(* ---- 16, 23: with remainder 1 a number whose check digit repeats the digit before it is correct ---------------- *)
Theorem m16_method g a b c q ws m account :
  g_validate g = V16 -> std_ok g a b c q Minus11_06 ws m = true -> (2 <= c)%nat ->
  forallb is_ascii_digit account = true -> List.length account = 10%nat ->
  verdict (validate1 nd tbl 10 g account)
  = Some (std a b c ws q m Minus11_06 (digs account)
          || ((rem_of a b ws q m (digs account) =? 1)%Z && (pos (c - 1) (digs account) =? pos c (digs account))%Z)).
Proof using All.
  intros Hv Hok Hc2 Hd Hl. unfold validate1. rewrite Hv.
  destruct (std_total g a b c q Minus11_06 ws m account Hok (or_intror eq_refl) Hd Hl) as (_ & r0 & Hcc & Estd & Hr0 & Hpos).
  rewrite Hcc, Hpos. cbn [bind snd fst].
  assert (Hc10 : (c <= 10)%nat).
  { unfold std_ok, core_ok in Hok. repeat (apply andb_true_iff in Hok as [Hok ?]).
    repeat match goal with X : Nat.leb _ _ = true |- _ => apply Nat.leb_le in X end. lia. }
  destruct (nth_digit_pos account (c - 1) Hd Hl ltac:(lia)) as (Hi9 & Hd9 & Hp9).
  destruct (nth_digit_pos account (c - 2) Hd Hl ltac:(lia)) as (Hi8 & Hd8 & Hp8).
  replace (S (c - 1)) with c in Hp9 by lia. replace (S (c - 2)) with (c - 1)%nat in Hp8 by lia.
  replace (Z.of_nat c - 1)%Z with (Z.of_nat (c - 1)) by lia.
  replace (Z.of_nat (c - 1) - 1)%Z with (Z.of_nat (c - 2)) by lia.
  unfold char_at. rewrite Hi9, Hi8. cbn [bind].
  rewrite (str_eq_digit r0 _ Hr0 Hd9), <- Hp9, <- Estd.
  assert (E : N.eqb (nth (c - 2) account 0%N) (nth (c - 1) account 0%N) = (pos (c - 1) (digs account) =? pos c (digs account))%Z).
  { rewrite Hp8, Hp9. unfold is_ascii_digit, c0, c9 in Hd8, Hd9. unfold dv. lia. }
  destruct (rem_of a b ws q m (digs account) =? 1)%Z; cbn [bind andb].
  - rewrite E. destruct (pos (c - 1) (digs account) =? pos c (digs account))%Z; cbn [verdict];
      [rewrite orb_true_r; reflexivity|rewrite orb_false_r; reflexivity].
  - rewrite orb_false_r. reflexivity.
Qed.

(* ---- 91: four variants of the template, tried in turn ------------------------------------------------------------ *)
Theorem m91_method g v1 v2 v3 v4 p1 p2 p3 p4 account :
  g_validate g = V91 ->
  variant tbl "Variant1" = Some v1 -> variant tbl "Variant2" = Some v2 ->
  variant tbl "Variant3" = Some v3 -> variant tbl "Variant4" = Some v4 ->
  (let ok v (p : nat * nat * nat * cross * list Z * Z) :=
     let '(a, b, c, q, ws, m) := p in std_ok v a b c q Minus11_06 ws m in
   ok v1 p1 && ok v2 p2 && ok v3 p3 && ok v4 p4 = true) ->
  forallb is_ascii_digit account = true -> List.length account = 10%nat ->
  verdict (validate1 nd tbl 10 g account)
  = Some (let sp (p : nat * nat * nat * cross * list Z * Z) :=
            let '(a, b, c, q, ws, m) := p in std a b c ws q m Minus11_06 (digs account) in
          sp p1 || sp p2 || sp p3 || sp p4).
Proof using All.
  intros Hv E1 E2 E3 E4 Hok Hd Hl. unfold validate1. rewrite Hv, E1, E2, E3, E4. cbv zeta in *.
  destruct p1 as [[[[[a1 b1] c1] q1] ws1] m1], p2 as [[[[[a2 b2] c2] q2] ws2] m2],
           p3 as [[[[[a3 b3] c3] q3] ws3] m3], p4 as [[[[[a4 b4] c4] q4] ws4] m4].
  apply andb_true_iff in Hok as [Hok O4]. apply andb_true_iff in Hok as [Hok O3]. apply andb_true_iff in Hok as [O1 O2].
  rewrite (proj1 (std_total v1 a1 b1 c1 q1 Minus11_06 ws1 m1 account O1 (or_intror eq_refl) Hd Hl)).
  rewrite (proj1 (std_total v2 a2 b2 c2 q2 Minus11_06 ws2 m2 account O2 (or_intror eq_refl) Hd Hl)).
  rewrite (proj1 (std_total v3 a3 b3 c3 q3 Minus11_06 ws3 m3 account O3 (or_intror eq_refl) Hd Hl)).
  rewrite (proj1 (std_total v4 a4 b4 c4 q4 Minus11_06 ws4 m4 account O4 (or_intror eq_refl) Hd Hl)).
  cbn [bind].
  destruct (std a1 b1 c1 ws1 q1 m1 Minus11_06 (digs account)); [reflexivity|].
  destruct (std a2 b2 c2 ws2 q2 m2 Minus11_06 (digs account)); [reflexivity|].
  destruct (std a3 b3 c3 ws3 q3 m3 Minus11_06 (digs account)); reflexivity.
Qed.

(* ---- 17: weights from the left, cross sums, (sum - 1) mod 11, 10 - remainder ------------------------------------ *)
Definition kcomp_default (k : k_compute) : bool := match k with CDefault => true | _ => false end.
Definition ok17 (g : gclass) : bool :=
  (let '(pa, pb, pc) := g_positions g in (pa =? 2)%Z && (pb =? 7)%Z && (pc =? 8)%Z)
  && k_pos_static (g_pos g) && k_adj_id (g_adj g) && k_digits_default (g_digits g) && k_rem_mod (g_rem g)
  && negb (g_reverse g) && match g_wsum g with WMinus1 => true | _ => false end
  && match g_summand g with SDigitSum => true | _ => false end
  && zlist_eqb (g_weights g) [1; 2]%Z && (g_modulus g =? 11)%Z
  && match g_minuend g with Some mm => (mm =? 10)%Z | None => false end
  && match g_rec g with RecDefault => true | _ => false end
  && match g_validate g with VDefault => true | _ => false end.

Theorem m17_method g account :
  ok17 g = true -> forallb is_ascii_digit account = true -> List.length account = 10%nat ->
  verdict (validate1 nd tbl 10 g account)
  = Some (let r := ((tsum CrossSum [1; 2; 1; 2; 1; 2] (span 2 7 (digs account)) - 1) mod 11)%Z in
          (pos 8 (digs account) =? (if (r =? 0)%Z then 0 else 10 - r))%Z).
Proof using All.
  intros H Hd Hl. unfold ok17 in H. repeat (apply andb_true_iff in H as [H ?]).
  destruct (g_positions g) as [[pa pb] pc] eqn:Epos. repeat (apply andb_true_iff in H as [H ?]).
  repeat match goal with X : (_ =? _)%Z = true |- _ => apply Z.eqb_eq in X end. subst pa pb pc.
  destruct (g_pos g) eqn:Kpos; try discriminate. destruct (g_adj g) eqn:Kadj; try discriminate.
  destruct (g_digits g) eqn:Kdig; try discriminate. destruct (g_rem g) eqn:Krem; try discriminate.
  destruct (g_reverse g) eqn:Krev; try discriminate. destruct (g_wsum g) eqn:Kws; try discriminate.
  destruct (g_summand g) eqn:Ksum; try discriminate. destruct (g_minuend g) as [mm|] eqn:Kmin; try discriminate.
  destruct (g_rec g) eqn:Krec; try discriminate. destruct (g_validate g) eqn:Kv; try discriminate.
  match goal with X : zlist_eqb (g_weights g) _ = true |- _ => apply zlist_eqb_eq in X; rename X into Kw end.
  match goal with X : (mm =? 10)%Z = true |- _ => apply Z.eqb_eq in X; subst mm end.
  match goal with X : g_modulus g = 11%Z |- _ => rename X into Kmod end.
  unfold validate1. rewrite Kv.
  assert (Hadj : adjust g account = account) by (unfold adjust; rewrite Kadj; reflexivity).
  assert (Hposof : positions_of g account = Ok (Z.of_nat 2, Z.of_nat 7, Z.of_nat 8))
    by (unfold positions_of; rewrite Kpos, Epos; reflexivity).
  assert (Kq : cross_of (g_summand g) = Some CrossSum) by (rewrite Ksum; reflexivity).
  assert (Hw1 : forallb (fun w => (0 <=? w) && (w <=? 10))%Z (g_weights g) = true) by (rewrite Kw; reflexivity).
  assert (Hw2 : g_weights g <> []) by (rewrite Kw; discriminate).
  set (R := (std_sum g 2 7 CrossSum account mod g_modulus g)%Z).
  assert (Hrem : remainder_of nd g (std_sum g 2 7 CrossSum account) = Ok R) by (unfold remainder_of; rewrite Krem; reflexivity).
  assert (Hrange : (0 <= R < 11)%Z) by (unfold R; rewrite Kmod; apply Z.mod_pos_bound; lia).
  assert (HR : (0 <= std_checksum g R <= 99)%Z) by (unfold std_checksum; rewrite Kmin; lia).
  rewrite (std_validate g 2 7 8 CrossSum account account Hadj Hposof ltac:(lia) ltac:(lia) Kdig Kq Hw1 Hw2 Hd Hl R Hrem HR).
  unfold std_checksum, reconcile. rewrite Kmin, Krec. cbn [bind verdict]. cbv zeta. f_equal.
  assert (ER : R = ((tsum CrossSum [1; 2; 1; 2; 1; 2] (span 2 7 (digs account)) - 1) mod 11)%Z).
  { unfold R, std_sum, oriented, wadj. rewrite Krev, Kws, Kw, Kmod. reflexivity. }
  rewrite <- ER.
  destruct (Z.eqb_spec R 0) as [->|Hne]; [reflexivity|]. replace (10 <=? 10 - R)%Z with false by lia. reflexivity.
Qed.

(* ---- 21: the cross sum of the weighted sum is iterated down to one digit ------------------------------------------ *)
Lemma iter_digit_sum_small z : (0 <= z <= 99)%Z -> iter_digit_sum nd 8 z = Ok (iter_cross 4 z).
Proof using ND.
  intro Hz. cbn [iter_digit_sum iter_cross].
  destruct (Z.ltb_spec z 10) as [H1|H1]; [reflexivity|].
  rewrite digit_sum_small by lia. cbn [bind].
  replace (z / 100 + (z / 10) mod 10 + z mod 10)%Z with (z / 10 + z mod 10)%Z by lia.
  set (z1 := (z / 10 + z mod 10)%Z). assert (Hz1 : (0 <= z1 <= 18)%Z) by (unfold z1; lia).
  destruct (Z.ltb_spec z1 10) as [H2|H2]; [reflexivity|].
  rewrite digit_sum_small by lia. cbn [bind].
  replace (z1 / 100 + (z1 / 10) mod 10 + z1 mod 10)%Z with (z1 / 10 + z1 mod 10)%Z by lia.
  set (z2 := (z1 / 10 + z1 mod 10)%Z). assert (Hz2 : (0 <= z2 <= 9)%Z) by (unfold z2; lia).
  replace (z2 <? 10)%Z with true by lia. reflexivity.
Qed.

Lemma iter_cross_range z : (0 <= z <= 99)%Z -> (0 <= iter_cross 4 z <= 9)%Z.
Proof.
  intro Hz. cbn [iter_cross]. destruct (Z.ltb_spec z 10); [lia|].
  set (z1 := (z / 100 + (z / 10) mod 10 + z mod 10)%Z). assert (Hz1 : (0 <= z1 <= 18)%Z) by (unfold z1; lia).
  destruct (Z.ltb_spec z1 10); [lia|].
  set (z2 := (z1 / 100 + (z1 / 10) mod 10 + z1 mod 10)%Z). assert (Hz2 : (0 <= z2 <= 9)%Z) by (unfold z2; lia).
  replace (z2 <? 10)%Z with true by lia. lia.
Qed.

Lemma tsum_cross_bound : forall ws xs,
  forallb (fun w => (0 <=? w) && (w <=? 2))%Z ws = true -> forallb (fun d => (0 <=? d) && (d <=? 9))%Z xs = true ->
  (0 <= tsum CrossSum ws xs <= 9 * Z.of_nat (List.length xs))%Z.
Proof.
  induction ws as [|w ws IH]; intros [|x xs] Hw Hx; cbn [tsum List.length]; try lia.
  cbn [forallb] in Hw, Hx. apply andb_true_iff in Hw as [Hw1 Hw]. apply andb_true_iff in Hx as [Hx1 Hx].
  specialize (IH xs Hw Hx). unfold term.
  assert (0 <= w * x <= 18)%Z by nia. lia.
Qed.

Lemma digs_range account : forallb is_ascii_digit account = true ->
  forallb (fun d => (0 <=? d) && (d <=? 9))%Z (digs account) = true.
Proof.
  intro H. unfold digs. rewrite forallb_forall in *. intros d Hd. apply in_map_iff in Hd as (c & <- & Hc).
  pose proof (dv_range c (H c Hc)). lia.
Qed.

Definition ok21 (g : gclass) : bool :=
  (let '(pa, pb, pc) := g_positions g in (pa =? 1)%Z && (pb =? 9)%Z && (pc =? 10)%Z)
  && k_pos_static (g_pos g) && k_adj_id (g_adj g) && k_digits_default (g_digits g)
  && match g_rem g with RIterDigitSum => true | _ => false end
  && g_reverse g && k_wsum_plain (g_wsum g)
  && match g_summand g with SDigitSum => true | _ => false end
  && zlist_eqb (g_weights g) [2; 1]%Z
  && match g_minuend g with Some mm => (mm =? 10)%Z | None => false end
  && match g_rec g with RecDefault => true | _ => false end
  && match g_validate g with VDefault => true | _ => false end.

Theorem m21_method g account :
  ok21 g = true -> forallb is_ascii_digit account = true -> List.length account = 10%nat ->
  verdict (validate1 nd tbl 10 g account)
  = Some (let qq := iter_cross 4 (tsum CrossSum w21 (rev (span 1 9 (digs account)))) in
          (pos 10 (digs account) =? (if (qq =? 0)%Z then 0 else 10 - qq))%Z).
Proof using All.
  intros H Hd Hl. unfold ok21 in H. repeat (apply andb_true_iff in H as [H ?]).
  destruct (g_positions g) as [[pa pb] pc] eqn:Epos. repeat (apply andb_true_iff in H as [H ?]).
  repeat match goal with X : (_ =? _)%Z = true |- _ => apply Z.eqb_eq in X end. subst pa pb pc.
  destruct (g_pos g) eqn:Kpos; try discriminate. destruct (g_adj g) eqn:Kadj; try discriminate.
  destruct (g_digits g) eqn:Kdig; try discriminate. destruct (g_rem g) eqn:Krem; try discriminate.
  destruct (g_reverse g) eqn:Krev; try discriminate. destruct (g_wsum g) eqn:Kws; try discriminate.
  destruct (g_summand g) eqn:Ksum; try discriminate. destruct (g_minuend g) as [mm|] eqn:Kmin; try discriminate.
  destruct (g_rec g) eqn:Krec; try discriminate. destruct (g_validate g) eqn:Kv; try discriminate.
  match goal with X : zlist_eqb (g_weights g) _ = true |- _ => apply zlist_eqb_eq in X; rename X into Kw end.
  match goal with X : (mm =? 10)%Z = true |- _ => apply Z.eqb_eq in X; subst mm end.
  unfold validate1. rewrite Kv.
  assert (Hadj : adjust g account = account) by (unfold adjust; rewrite Kadj; reflexivity).
  assert (Hposof : positions_of g account = Ok (Z.of_nat 1, Z.of_nat 9, Z.of_nat 10))
    by (unfold positions_of; rewrite Kpos, Epos; reflexivity).
  assert (Kq : cross_of (g_summand g) = Some CrossSum) by (rewrite Ksum; reflexivity).
  assert (Hw1 : forallb (fun w => (0 <=? w) && (w <=? 10))%Z (g_weights g) = true) by (rewrite Kw; reflexivity).
  assert (Hw2 : g_weights g <> []) by (rewrite Kw; discriminate).
  assert (ES : std_sum g 1 9 CrossSum account = tsum CrossSum w21 (rev (span 1 9 (digs account)))).
  { unfold std_sum, oriented, wadj. rewrite Krev, Kws, Kw. reflexivity. }
  assert (HS : (0 <= std_sum g 1 9 CrossSum account <= 99)%Z).
  { rewrite ES.
    pose proof (tsum_cross_bound w21 (rev (span 1 9 (digs account))) eq_refl) as B.
    assert (Hx : forallb (fun d => (0 <=? d) && (d <=? 9))%Z (rev (span 1 9 (digs account))) = true).
    { pose proof (digs_range account Hd) as F. rewrite forallb_forall in *. intros d Hin. apply in_rev in Hin.
      unfold span in Hin. apply in_firstn' in Hin. apply in_skipn' in Hin. exact (F d Hin). }
    specialize (B Hx).
    assert (Hl9 : List.length (rev (span 1 9 (digs account))) = 9%nat).
    { rewrite rev_length. unfold span, digs. rewrite firstn_length, skipn_length, map_length, Hl. reflexivity. }
    rewrite Hl9 in B. lia. }
  set (R := iter_cross 4 (std_sum g 1 9 CrossSum account)).
  assert (Hrem : remainder_of nd g (std_sum g 1 9 CrossSum account) = Ok R)
    by (unfold remainder_of; rewrite Krem; apply iter_digit_sum_small; exact HS).
  pose proof (iter_cross_range _ HS) as HRr. fold R in HRr.
  assert (HR : (0 <= std_checksum g R <= 99)%Z) by (unfold std_checksum; rewrite Kmin; lia).
  rewrite (std_validate g 1 9 10 CrossSum account account Hadj Hposof ltac:(lia) ltac:(lia) Kdig Kq Hw1 Hw2 Hd Hl R Hrem HR).
  unfold std_checksum, reconcile. rewrite Kmin, Krec. cbn [bind verdict]. cbv zeta. f_equal.
  unfold R. rewrite ES. fold (iter_cross 4 (tsum CrossSum w21 (rev (span 1 9 (digs account))))).
  set (qq := iter_cross 4 (tsum CrossSum w21 (rev (span 1 9 (digs account))))) in *.
  assert (Hq : (0 <= qq <= 9)%Z) by (unfold qq; rewrite <- ES; exact HRr).
  destruct (Z.eqb_spec qq 0) as [->|Hne]; [reflexivity|]. replace (10 <=? 10 - qq)%Z with false by lia. reflexivity.
Qed.

(* ---- 61: with an 8 at position 9, positions 9 and 10 are evaluated too --------------------------------------------- *)
Definition ok61 (g : gclass) : bool :=
  (let '(pa, pb, pc) := g_positions g in (pa =? 1)%Z && (pb =? 7)%Z && (pc =? 8)%Z)
  && k_pos_static (g_pos g) && k_adj_id (g_adj g)
  && match g_digits g with D61 => true | _ => false end
  && k_rem_mod (g_rem g) && g_reverse g && k_wsum_plain (g_wsum g)
  && match g_summand g with SDigitSum => true | _ => false end
  && zlist_eqb (g_weights g) [2; 1]%Z && (g_modulus g =? 10)%Z
  && match g_minuend g with Some mm => (mm =? 10)%Z | None => false end
  && match g_rec g with RecDefault => true | _ => false end
  && match g_validate g with VDefault => true | _ => false end.

Theorem m61_method g account :
  ok61 g = true -> forallb is_ascii_digit account = true -> List.length account = 10%nat ->
  verdict (validate1 nd tbl 10 g account)
  = Some (let ds := digs account in
          if (pos 9 ds =? 8)%Z
          then (pos 8 ds =? (let r := (tsum CrossSum w21 (span 1 7 ds ++ [pos 9 ds; pos 10 ds]) mod 10)%Z in
                             if (r =? 0)%Z then 0 else 10 - r))%Z
          else std 1 7 8 w21 CrossSum 10 Minus10 ds).
Proof using All.
  intros H Hd Hl. unfold ok61 in H. repeat (apply andb_true_iff in H as [H ?]).
  destruct (g_positions g) as [[pa pb] pc] eqn:Epos. repeat (apply andb_true_iff in H as [H ?]).
  repeat match goal with X : (_ =? _)%Z = true |- _ => apply Z.eqb_eq in X end. subst pa pb pc.
  destruct (g_pos g) eqn:Kpos; try discriminate. destruct (g_adj g) eqn:Kadj; try discriminate.
  destruct (g_digits g) eqn:Kdig; try discriminate. destruct (g_rem g) eqn:Krem; try discriminate.
  destruct (g_reverse g) eqn:Krev; try discriminate. destruct (g_wsum g) eqn:Kws; try discriminate.
  destruct (g_summand g) eqn:Ksum; try discriminate. destruct (g_minuend g) as [mm|] eqn:Kmin; try discriminate.
  destruct (g_rec g) eqn:Krec; try discriminate. destruct (g_validate g) eqn:Kv; try discriminate.
  match goal with X : zlist_eqb (g_weights g) _ = true |- _ => apply zlist_eqb_eq in X; rename X into Kw end.
  match goal with X : (mm =? 10)%Z = true |- _ => apply Z.eqb_eq in X; subst mm end.
  match goal with X : g_modulus g = 10%Z |- _ => rename X into Kmod end.
  unfold validate1. rewrite Kv.
  destruct account as [|x1 [|x2 [|x3 [|x4 [|x5 [|x6 [|x7 [|x8 [|x9 [|x10 [|x11 rest]]]]]]]]]]]; try discriminate.
  cbn [forallb] in Hd. repeat (apply andb_true_iff in Hd as [? Hd]).
  set (account := [x1; x2; x3; x4; x5; x6; x7; x8; x9; x10]) in *.
  assert (Hda : forallb is_ascii_digit account = true)
    by (unfold account; cbn [forallb]; repeat match goal with X : is_ascii_digit _ = true |- _ => rewrite X; clear X end; reflexivity).
  assert (Hadj : adjust g account = account) by (unfold adjust; rewrite Kadj; reflexivity).
  assert (Hposof : positions_of g account = Ok (1%Z, 7%Z, Z.of_nat 8)) by (unfold positions_of; rewrite Kpos, Epos; reflexivity).
  assert (Kq : cross_of (g_summand g) = Some CrossSum) by (rewrite Ksum; reflexivity).
  set (digits := if N.eqb x9 56 then [x10; x9; x7; x6; x5; x4; x3; x2; x1] else [x7; x6; x5; x4; x3; x2; x1]).
  assert (Hdigits : get_digits nd 10 g account = Ok digits).
  { unfold get_digits, digits_default. rewrite Hposof. cbn [bind]. rewrite Krev, Kdig. unfold digits.
    change (len account) with 10%Z. cbn [Z.eqb Pos.eqb negb Z.sub Z.leb Z.compare Pos.compare Pos.compare_cont andb Z.opp Z.add Z.pos_sub Z.succ_double Z.pred_double Z.double Pos.pred_double].
    cbn [bind].
    change (py_slice account 0 7) with [x1; x2; x3; x4; x5; x6; x7].
    change (py_index account 8) with (Ok x9). cbn [bind].
    change (py_slice_from account 8) with [x9; x10].
    destruct (N.eqb x9 56); reflexivity. }
  assert (Ddigits : forallb is_ascii_digit digits = true).
  { unfold account in Hda. cbn [forallb] in Hda. repeat (apply andb_true_iff in Hda as [? Hda]).
    unfold digits. destruct (N.eqb x9 56); cbn [forallb];
      repeat match goal with X : is_ascii_digit _ = true |- _ => rewrite X; clear X end; reflexivity. }
  assert (Hw1 : forallb (fun w => (0 <=? w) && (w <=? 10))%Z (cycle_to (g_weights g) [] (List.length digits)) = true)
    by (apply cycle_to_forallb; [rewrite Kw; reflexivity|reflexivity]).
  pose proof (wsum_go_tsum g CrossSum Kq digits _ Ddigits Hw1) as Hsum.
  set (Sm := tsum CrossSum (cycle_to (g_weights g) [] (List.length digits)) (map dv digits)) in *.
  set (R := (Sm mod 10)%Z).
  assert (Hrem : remainder_of nd g (wadj g Sm) = Ok R)
    by (unfold remainder_of, wadj; rewrite Krem, Kws, Kmod; reflexivity).
  assert (HRr : (0 <= R < 10)%Z) by (apply Z.mod_pos_bound; lia).
  assert (HR : (0 <= std_checksum g R <= 99)%Z) by (unfold std_checksum; rewrite Kmin; lia).
  rewrite (gen_validate g 8 1 7 account account digits Sm R Hadj Hposof ltac:(lia) Hdigits Hsum Hrem HR Hda eq_refl).
  unfold std_checksum, reconcile. rewrite Kmin, Krec. cbn [bind verdict]. cbv zeta. f_equal.
  change (pos 9 (digs account)) with (dv x9). change (pos 8 (digs account)) with (dv x8). change (pos 10 (digs account)) with (dv x10).
  assert (E9 : N.eqb x9 56 = (dv x9 =? 8)%Z).
  { unfold account in Hda. cbn [forallb] in Hda. repeat (apply andb_true_iff in Hda as [? Hda]).
    match goal with X : is_ascii_digit x9 = true |- _ => unfold is_ascii_digit, c0, c9 in X end. unfold dv. lia. }
  unfold R, Sm, digits. rewrite Kw, E9.
  destruct (dv x9 =? 8)%Z.
  - change (cycle_to [2; 1]%Z [] (List.length [x10; x9; x7; x6; x5; x4; x3; x2; x1])) with [2; 1; 2; 1; 2; 1; 2; 1; 2]%Z.
    unfold span, digs, account, w21. cbn [map firstn skipn Nat.sub Nat.add app tsum].
    set (T := (term CrossSum 2 (dv x10) + (term CrossSum 1 (dv x9) + (term CrossSum 2 (dv x7) + (term CrossSum 1 (dv x6)
               + (term CrossSum 2 (dv x5) + (term CrossSum 1 (dv x4) + (term CrossSum 2 (dv x3) + (term CrossSum 1 (dv x2)
               + (term CrossSum 2 (dv x1) + 0)))))))))%Z).
    set (T' := (term CrossSum 2 (dv x1) + (term CrossSum 1 (dv x2) + (term CrossSum 2 (dv x3) + (term CrossSum 1 (dv x4)
               + (term CrossSum 2 (dv x5) + (term CrossSum 1 (dv x6) + (term CrossSum 2 (dv x7) + (term CrossSum 1 (dv x9)
               + (term CrossSum 2 (dv x10) + 0)))))))))%Z).
    assert (ET : T = T') by (unfold T, T'; lia). rewrite <- ET.
    destruct (Z.eqb_spec (T mod 10) 0) as [->|Hne]; [reflexivity|]. replace (10 <=? 10 - T mod 10)%Z with false by lia. reflexivity.
  - change (cycle_to [2; 1]%Z [] (List.length [x7; x6; x5; x4; x3; x2; x1])) with [2; 1; 2; 1; 2; 1; 2]%Z.
    unfold std, expected, span, pos, digs, account, w21. cbn [map firstn skipn Nat.sub Nat.add rev app tsum nth].
    set (T := (term CrossSum 2 (dv x7) + (term CrossSum 1 (dv x6) + (term CrossSum 2 (dv x5) + (term CrossSum 1 (dv x4)
               + (term CrossSum 2 (dv x3) + (term CrossSum 1 (dv x2) + (term CrossSum 2 (dv x1) + 0)))))))%Z).
    destruct (Z.eqb_spec (T mod 10) 0) as [->|Hne]; [reflexivity|]. replace (10 <=? 10 - T mod 10)%Z with false by lia. reflexivity.
Qed.

(* ---- 76: leading zeros of the evaluated positions are dropped; equivalence except for remainder 10 --------------- *)
Lemma lstrip0_split s : exists k, s = repeat 48%N k ++ lstrip0 s.
Proof.
  induction s as [|x s IH]; [exists 0%nat; reflexivity|]. cbn [lstrip0]. unfold c0.
  destruct (N.eqb_spec x 48) as [->|Hne]; [|exists 0%nat; reflexivity].
  destruct IH as [k Hk]. exists (S k). cbn [repeat app]. f_equal. exact Hk.
Qed.

Lemma tsum_plain_all_zeros : forall ws k, tsum Plain ws (repeat 0%Z k) = 0%Z.
Proof.
  induction ws as [|w ws IH]; intros [|k]; cbn [repeat tsum term]; try reflexivity. rewrite IH. lia.
Qed.

Lemma tsum_plain_zeros : forall ws xs k, tsum Plain ws (xs ++ repeat 0%Z k) = tsum Plain ws xs.
Proof.
  induction ws as [|w ws IH]; intros xs k.
  - destruct (xs ++ repeat 0%Z k); destruct xs; reflexivity.
  - destruct xs as [|x xs]; cbn [app].
    + rewrite tsum_plain_all_zeros. reflexivity.
    + cbn [tsum]. rewrite IH. reflexivity.
Qed.

Lemma cycle_prefix {A} (ws : list A) : forall n m cur, (n <= m)%nat -> cycle_to ws cur n = firstn n (cycle_to ws cur m).
Proof.
  induction n as [|n IH]; intros m cur H; [reflexivity|]. destruct m as [|m]; [lia|]. cbn [cycle_to].
  destruct cur as [|x r]; [destruct ws as [|x r]; [reflexivity|]|]; cbn [firstn]; f_equal; apply IH; lia.
Qed.

Definition ok76 (g : gclass) : bool :=
  (let '(pa, pb, pc) := g_positions g in (pa =? 2)%Z && (pb =? 7)%Z && (pc =? 8)%Z)
  && k_pos_static (g_pos g) && k_adj_id (g_adj g)
  && match g_digits g with D76 => true | _ => false end
  && k_rem_mod (g_rem g) && g_reverse g && k_wsum_plain (g_wsum g)
  && match g_summand g with SPlain => true | _ => false end
  && zlist_eqb (g_weights g) [2; 3; 4; 5; 6; 7; 8]%Z && (g_modulus g =? 11)%Z
  && match g_minuend g with None => true | _ => false end
  && match g_rec g with RecDefault => true | _ => false end
  && match g_validate g with V76 => true | _ => false end.

(* what the code computes for method 76, for every account: remainder 10 is turned into check digit 0 *)
Theorem m76_value g account :
  ok76 g = true -> forallb is_ascii_digit account = true -> List.length account = 10%nat ->
  verdict (validate1 nd tbl 10 g account)
  = Some (existsb (Z.eqb (pos 1 (digs account))) [0; 4; 6; 7; 8; 9]%Z
          && (let R := rem_of 2 7 [2; 3; 4; 5; 6; 7]%Z Plain 11 (digs account) in
              (pos 8 (digs account) =? (if (10 <=? R)%Z then 0 else R))%Z)).
Proof using All.
  intros H Hd Hl. unfold ok76 in H. repeat (apply andb_true_iff in H as [H ?]).
  destruct (g_positions g) as [[pa pb] pc] eqn:Epos. repeat (apply andb_true_iff in H as [H ?]).
  repeat match goal with X : (_ =? _)%Z = true |- _ => apply Z.eqb_eq in X end. subst pa pb pc.
  destruct (g_pos g) eqn:Kpos; try discriminate. destruct (g_adj g) eqn:Kadj; try discriminate.
  destruct (g_digits g) eqn:Kdig; try discriminate. destruct (g_rem g) eqn:Krem; try discriminate.
  destruct (g_reverse g) eqn:Krev; try discriminate. destruct (g_wsum g) eqn:Kws; try discriminate.
  destruct (g_summand g) eqn:Ksum; try discriminate. destruct (g_minuend g) as [mm|] eqn:Kmin; try discriminate.
  destruct (g_rec g) eqn:Krec; try discriminate. destruct (g_validate g) eqn:Kv; try discriminate.
  match goal with X : zlist_eqb (g_weights g) _ = true |- _ => apply zlist_eqb_eq in X; rename X into Kw end.
  match goal with X : g_modulus g = 11%Z |- _ => rename X into Kmod end.
  unfold validate1. rewrite Kv.
  destruct (first_digit account Hd Hl) as (Hi0 & Hd0 & Hp0). rewrite Hi0. cbn [bind]. unfold int_c.
  rewrite (int_char_digit nd ND _ Hd0). cbn [bind]. rewrite Hp0.
  assert (Emem : mem_Z (dv (nth 0 account 0%N)) [0; 4; 6; 7; 8; 9]%Z = existsb (Z.eqb (dv (nth 0 account 0%N))) [0; 4; 6; 7; 8; 9]%Z)
    by reflexivity.
  rewrite Emem. destruct (existsb (Z.eqb (dv (nth 0 account 0%N))) [0; 4; 6; 7; 8; 9]%Z); cbn [negb andb]; [|reflexivity].
  (* the template on the stripped digits *)
  assert (Hadj : adjust g account = account) by (unfold adjust; rewrite Kadj; reflexivity).
  assert (Hposof : positions_of g account = Ok (2%Z, 7%Z, Z.of_nat 8)) by (unfold positions_of; rewrite Kpos, Epos; reflexivity).
  set (sfx := sl 1 7 account).
  assert (Hsd : forallb is_ascii_digit sfx = true) by (apply sl_forallb; exact Hd).
  set (digits := rev (lstrip0 sfx)).
  assert (Hdigits : get_digits nd 10 g account = Ok digits).
  { unfold get_digits, digits_default. rewrite Hposof. cbn [bind]. unfold len. rewrite Hl.
    change (Z.of_nat 10) with 10%Z. cbn [Z.eqb Pos.eqb negb Z.sub Z.leb Z.compare Pos.compare Pos.compare_cont andb Z.opp Z.add Z.pos_sub Z.succ_double Z.pred_double Z.double Pos.pred_double].
    cbn [bind]. rewrite Krev, Kdig. cbn [bind].
    rewrite py_slice_sub by (unfold len; lia). change (Z.to_nat (7 - 1)) with 6%nat. change (Z.to_nat 1) with 1%nat.
    change (firstn 6 (skipn 1 account)) with sfx. unfold rstrip0. rewrite rev_involutive. reflexivity. }
  destruct (lstrip0_split sfx) as [k Hk].
  assert (Hsl : forallb is_ascii_digit (lstrip0 sfx) = true).
  { rewrite Hk in Hsd. rewrite forallb_app in Hsd. apply andb_true_iff in Hsd as [_ Hsd]. exact Hsd. }
  assert (Ddigits : forallb is_ascii_digit digits = true).
  { unfold digits. rewrite forallb_forall in *. intros x Hx. apply in_rev in Hx. exact (Hsl x Hx). }
  assert (Kq : cross_of (g_summand g) = Some Plain) by (rewrite Ksum; reflexivity).
  assert (Hw1 : forallb (fun w => (0 <=? w) && (w <=? 10))%Z (cycle_to (g_weights g) [] (List.length digits)) = true)
    by (apply cycle_to_forallb; [rewrite Kw; reflexivity|reflexivity]).
  pose proof (wsum_go_tsum g Plain Kq digits _ Ddigits Hw1) as Hsum.
  (* the sum over the stripped digits is the sum over all six *)
  assert (Lsfx : List.length sfx = 6%nat) by (unfold sfx; rewrite sl_length by lia; reflexivity).
  assert (Ldig : (List.length digits <= 6)%nat).
  { unfold digits. rewrite rev_length. rewrite Hk in Lsfx. rewrite app_length, repeat_length in Lsfx. lia. }
  assert (ES : tsum Plain (cycle_to (g_weights g) [] (List.length digits)) (map dv digits)
               = tsum Plain [2; 3; 4; 5; 6; 7]%Z (rev (span 2 7 (digs account)))).
  { rewrite Kw. rewrite (cycle_prefix [2; 3; 4; 5; 6; 7; 8]%Z _ 6 [] Ldig).
    change (cycle_to [2; 3; 4; 5; 6; 7; 8]%Z [] 6) with [2; 3; 4; 5; 6; 7]%Z.
    rewrite <- (map_length dv digits), tsum_firstn.
    assert (Espan : span 2 7 (digs account) = map dv sfx).
    { unfold span, sfx, sl, digs. rewrite <- firstn_map, <- skipn_map. reflexivity. }
    rewrite Espan.
    assert (Erev : rev (map dv sfx) = map dv digits ++ repeat 0%Z k).
    { rewrite Hk at 1. rewrite map_app, rev_app_distr, <- map_rev. fold digits. f_equal.
      clear. induction k as [|k IH]; [reflexivity|]. cbn [repeat map rev]. rewrite IH. change (dv 48) with 0%Z.
      clear. induction k as [|k IH]; [reflexivity|]. cbn [repeat app]. f_equal. exact IH. }
    rewrite Erev, tsum_plain_zeros. reflexivity. }
  set (Sm := tsum Plain (cycle_to (g_weights g) [] (List.length digits)) (map dv digits)) in *.
  set (R := (Sm mod 11)%Z).
  assert (Hrem : remainder_of nd g (wadj g Sm) = Ok R) by (unfold remainder_of, wadj; rewrite Krem, Kws, Kmod; reflexivity).
  assert (HRr : (0 <= R < 11)%Z) by (apply Z.mod_pos_bound; lia).
  assert (HR : (0 <= std_checksum g R <= 99)%Z) by (unfold std_checksum; rewrite Kmin; lia).
  rewrite (gen_validate g 8 2 7 account account digits Sm R Hadj Hposof ltac:(lia) Hdigits Hsum Hrem HR Hd Hl).
  unfold std_checksum, reconcile. rewrite Kmin, Krec. cbn [bind verdict]. f_equal. cbv zeta.
  assert (ER : R = rem_of 2 7 [2; 3; 4; 5; 6; 7]%Z Plain 11 (digs account)) by (unfold R, rem_of; rewrite ES; reflexivity).
  rewrite <- ER. reflexivity.
Qed.

Theorem m76_partial g account :
  ok76 g = true -> forallb is_ascii_digit account = true -> List.length account = 10%nat ->
  rem_of 2 7 [2; 3; 4; 5; 6; 7]%Z Plain 11 (digs account) <> 10%Z ->
  verdict (validate1 nd tbl 10 g account)
  = Some (existsb (Z.eqb (pos 1 (digs account))) [0; 4; 6; 7; 8; 9]%Z
          && std 2 7 8 [2; 3; 4; 5; 6; 7]%Z Plain 11 Itself (digs account)).
Proof using All.
  intros H Hd Hl Hrem10. rewrite (m76_value g account H Hd Hl). cbv zeta. f_equal. f_equal.
  unfold std, expected. fold (rem_of 2 7 [2; 3; 4; 5; 6; 7]%Z Plain 11 (digs account)).
  set (R := rem_of 2 7 [2; 3; 4; 5; 6; 7]%Z Plain 11 (digs account)) in *.
  assert (HRr : (0 <= R < 11)%Z) by (unfold R, rem_of; apply Z.mod_pos_bound; lia).
  replace (R =? 10)%Z with false by lia. replace (10 <=? R)%Z with false by lia. reflexivity.
Qed.

(* ---- 24 ---------------------------------------------------------------------------------------------------------------- *)
Lemma wsum_go_sum24 g : g_summand g = SPlusW11 ->
  forall digits ws, forallb is_ascii_digit digits = true -> wsum_go nd g digits ws = Ok (sum24 ws (map dv digits)).
Proof using ND.
  intro Hs. induction digits as [|x digits IH]; intros [|w ws] Hd; cbn [wsum_go sum24 map]; try reflexivity.
  cbn [forallb] in Hd. apply andb_true_iff in Hd as [Hx Hd]. unfold int_c. rewrite (int_char_digit nd ND x Hx). cbn [bind].
  unfold summand. rewrite Hs. cbn [bind]. rewrite (IH ws Hd). cbn [bind]. f_equal. f_equal. f_equal. lia.
Qed.

Lemma sum24_firstn : forall xs ws, sum24 (firstn (List.length xs) ws) xs = sum24 ws xs.
Proof.
  induction xs as [|x xs IH]; intros [|w ws]; cbn [List.length firstn sum24]; try reflexivity. rewrite IH. reflexivity.
Qed.

Lemma lstrip0_drop s : forallb is_ascii_digit s = true -> map dv (lstrip0 s) = drop_zeros (map dv s).
Proof.
  induction s as [|x s IH]; intro H; [reflexivity|]. cbn [forallb] in H. apply andb_true_iff in H as [Hx Hs].
  cbn [lstrip0 map drop_zeros]. unfold c0. destruct (N.eqb_spec x 48) as [->|Hne].
  - change (dv 48) with 0%Z. apply IH. exact Hs.
  - assert (dv x <> 0%Z) by (unfold is_ascii_digit, c0, c9 in Hx; unfold dv; lia).
    destruct (dv x) eqn:E; [congruence|cbn [map]; rewrite E; reflexivity|cbn [map]; rewrite E; reflexivity].
Qed.

Lemma lstrip0_digits s : forallb is_ascii_digit s = true -> forallb is_ascii_digit (lstrip0 s) = true.
Proof.
  intro H. destruct (lstrip0_split s) as [k Hk]. rewrite Hk in H. rewrite forallb_app in H.
  apply andb_true_iff in H as [_ H]. exact H.
Qed.

Lemma lstrip0_length s : (List.length (lstrip0 s) <= List.length s)%nat.
Proof. destruct (lstrip0_split s) as [k Hk]. rewrite Hk at 2. rewrite app_length. lia. Qed.

Definition ok24 (g : gclass) : bool :=
  (let '(pa, pb, pc) := g_positions g in (pa =? 1)%Z && (pb =? 9)%Z && (pc =? 10)%Z)
  && k_pos_static (g_pos g) && k_adj_id (g_adj g)
  && match g_digits g with D24 => true | _ => false end
  && k_rem_mod (g_rem g) && negb (g_reverse g) && k_wsum_plain (g_wsum g)
  && match g_summand g with SPlusW11 => true | _ => false end
  && zlist_eqb (g_weights g) [1; 2; 3]%Z && (g_modulus g =? 10)%Z
  && match g_minuend g with None => true | _ => false end
  && match g_rec g with RecDefault => true | _ => false end
  && match g_validate g with VDefault => true | _ => false end.

Theorem m24_method g account :
  ok24 g = true -> forallb is_ascii_digit account = true -> List.length account = 10%nat ->
  verdict (validate1 nd tbl 10 g account) = Some (m24 (digs account)).
Proof using All.
  intros H Hd Hl. unfold ok24 in H. repeat (apply andb_true_iff in H as [H ?]).
  destruct (g_positions g) as [[pa pb] pc] eqn:Epos. repeat (apply andb_true_iff in H as [H ?]).
  repeat match goal with X : (_ =? _)%Z = true |- _ => apply Z.eqb_eq in X end. subst pa pb pc.
  destruct (g_pos g) eqn:Kpos; try discriminate. destruct (g_adj g) eqn:Kadj; try discriminate.
  destruct (g_digits g) eqn:Kdig; try discriminate. destruct (g_rem g) eqn:Krem; try discriminate.
  destruct (g_reverse g) eqn:Krev; try discriminate. destruct (g_wsum g) eqn:Kws; try discriminate.
  destruct (g_summand g) eqn:Ksum; try discriminate. destruct (g_minuend g) as [mm|] eqn:Kmin; try discriminate.
  destruct (g_rec g) eqn:Krec; try discriminate. destruct (g_validate g) eqn:Kv; try discriminate.
  match goal with X : zlist_eqb (g_weights g) _ = true |- _ => apply zlist_eqb_eq in X; rename X into Kw end.
  match goal with X : g_modulus g = 10%Z |- _ => rename X into Kmod end.
  unfold validate1. rewrite Kv.
  assert (Hadj : adjust g account = account) by (unfold adjust; rewrite Kadj; reflexivity).
  assert (Hposof : positions_of g account = Ok (1%Z, 9%Z, Z.of_nat 10)) by (unfold positions_of; rewrite Kpos, Epos; reflexivity).
  set (body := sl 0 9 account).
  assert (Hbd : forallb is_ascii_digit body = true) by (apply sl_forallb; exact Hd).
  assert (Lb : List.length body = 9%nat) by (unfold body; rewrite sl_length by lia; reflexivity).
  destruct (first_digit account Hd Hl) as (Hi0 & Hd0 & Hp0).
  assert (Hb0 : nth 0 body 0%N = nth 0 account 0%N) by (unfold body; rewrite sl_nth by lia; reflexivity).
  set (v := dv (nth 0 account 0%N)) in *.
  set (body' := if mem_Z v [3; 4; 5; 6]%Z then skipn 1 body else if (v =? 9)%Z then skipn 3 body else body).
  set (digits := lstrip0 body').
  assert (Hb'd : forallb is_ascii_digit body' = true).
  { unfold body'. destruct (mem_Z v [3; 4; 5; 6]%Z); [apply forallb_skipn'; exact Hbd|].
    destruct (v =? 9)%Z; [apply forallb_skipn'; exact Hbd|exact Hbd]. }
  assert (Hdigits : get_digits nd 10 g account = Ok digits).
  { unfold get_digits, digits_default. rewrite Hposof. cbn [bind]. unfold len. rewrite Hl.
    change (Z.of_nat 10) with 10%Z. cbn [Z.eqb Pos.eqb negb Z.sub Z.leb Z.compare Pos.compare Pos.compare_cont andb Z.opp Z.add Z.pos_sub Z.succ_double Z.pred_double Z.double Pos.pred_double].
    cbn [bind]. rewrite Krev, Kdig.
    rewrite py_slice_sub by (unfold len; lia). change (Z.to_nat (9 - 0)) with 9%nat. change (Z.to_nat 0) with 0%nat.
    change (firstn 9 (skipn 0 account)) with body.
    change (py_index body 0) with (py_index body (Z.of_nat 0)). rewrite (py_index_nth body 0) by lia. cbn [bind]. unfold int_c. rewrite Hb0, (int_char_digit nd ND _ Hd0). cbn [bind].
    fold v. unfold digits, body'.
    assert (S1 : py_slice_from body 1 = skipn 1 body).
    { unfold py_slice_from, norm_idx, len. rewrite Lb. reflexivity. }
    assert (S3 : py_slice_from body 3 = skipn 3 body).
    { unfold py_slice_from, norm_idx, len. rewrite Lb. reflexivity. }
    rewrite S1, S3. reflexivity. }
  assert (Ddigits : forallb is_ascii_digit digits = true) by (apply lstrip0_digits; exact Hb'd).
  pose proof (wsum_go_sum24 g Ksum digits (cycle_to (g_weights g) [] (List.length digits)) Ddigits) as Hsum.
  set (Sm := sum24 (cycle_to (g_weights g) [] (List.length digits)) (map dv digits)) in *.
  set (R := (Sm mod 10)%Z).
  assert (Hrem : remainder_of nd g (wadj g Sm) = Ok R) by (unfold remainder_of, wadj; rewrite Krem, Kws, Kmod; reflexivity).
  assert (HRr : (0 <= R < 10)%Z) by (apply Z.mod_pos_bound; lia).
  assert (HR : (0 <= std_checksum g R <= 99)%Z) by (unfold std_checksum; rewrite Kmin; lia).
  rewrite (gen_validate g 10 1 9 account account digits Sm R Hadj Hposof ltac:(lia) Hdigits Hsum Hrem HR Hd Hl).
  unfold std_checksum, reconcile. rewrite Kmin, Krec. cbn [bind verdict]. f_equal.
  replace (10 <=? R)%Z with false by lia.
  unfold m24. cbv zeta. f_equal.
  (* the spec's significant digits are the model's *)
  assert (Espan : span 1 9 (digs account) = map dv body).
  { unfold span, body, sl, digs. rewrite <- firstn_map, <- skipn_map. reflexivity. }
  assert (Ldig : (List.length digits <= 9)%nat).
  { unfold digits. pose proof (lstrip0_length body') as L1. unfold body' in *.
    destruct (mem_Z v [3; 4; 5; 6]%Z); [rewrite skipn_length in L1; lia|].
    destruct (v =? 9)%Z; [rewrite skipn_length in L1; lia|lia]. }
  unfold R, Sm. rewrite Kw. rewrite (cycle_prefix [1; 2; 3]%Z _ 9 [] Ldig).
  change (cycle_to [1; 2; 3]%Z [] 9) with [1; 2; 3; 1; 2; 3; 1; 2; 3]%Z.
  rewrite <- (map_length dv digits), sum24_firstn.
  unfold digits. rewrite (lstrip0_drop body' Hb'd). rewrite Espan, Hp0. fold v.
  assert (Ebody : map dv body' = (if (3 <=? v) && (v <=? 6) then skipn 1 (map dv body)
                                  else if v =? 9 then skipn 3 (map dv body) else map dv body)%Z).
  { unfold body'. assert (Em : mem_Z v [3; 4; 5; 6]%Z = ((3 <=? v) && (v <=? 6))%Z).
    { unfold mem_Z. cbn [existsb]. lia. }
    rewrite Em. destruct ((3 <=? v) && (v <=? 6))%Z; [symmetry; apply skipn_map|]. destruct (v =? 9)%Z; [symmetry; apply skipn_map|reflexivity]. }
  rewrite Ebody. reflexivity.
Qed.

(* ---- 68 ---------------------------------------------------------------------------------------------------------------- *)
Lemma term_zero q w : term q w 0 = 0%Z.
Proof. destruct q; cbn [term]; rewrite Z.mul_0_r; reflexivity. Qed.

Lemma tsum_all_zeros q : forall ws k, tsum q ws (repeat 0%Z k) = 0%Z.
Proof. induction ws as [|w ws IH]; intros [|k]; cbn [repeat tsum]; try reflexivity. rewrite IH, term_zero. reflexivity. Qed.

Lemma tsum_zeros q : forall ws xs k, tsum q ws (xs ++ repeat 0%Z k) = tsum q ws xs.
Proof.
  induction ws as [|w ws IH]; intros xs k.
  - destruct (xs ++ repeat 0%Z k); destruct xs; reflexivity.
  - destruct xs as [|x xs]; cbn [app]; [rewrite tsum_all_zeros; reflexivity|]. cbn [tsum]. rewrite IH. reflexivity.
Qed.

(* dropping the leading zeros of the evaluated digits (they are at the end of the reversed list) does not change the sum *)
Lemma strip_sum q (W : list Z) (sfx : text) :
  forallb is_ascii_digit sfx = true ->
  tsum q (cycle_to W [] (List.length (rev (lstrip0 sfx)))) (map dv (rev (lstrip0 sfx)))
  = tsum q (cycle_to W [] (List.length sfx)) (rev (map dv sfx)).
Proof.
  intro Hd. destruct (lstrip0_split sfx) as [k Hk].
  assert (Ll : (List.length (rev (lstrip0 sfx)) <= List.length sfx)%nat) by (rewrite rev_length; apply lstrip0_length).
  rewrite (cycle_prefix W _ (List.length sfx) [] Ll). rewrite <- (map_length dv (rev (lstrip0 sfx))), tsum_firstn.
  assert (Erev : rev (map dv sfx) = map dv (rev (lstrip0 sfx)) ++ repeat 0%Z k).
  { rewrite Hk at 1. rewrite map_app, rev_app_distr, <- map_rev. f_equal.
    clear. induction k as [|k IH]; [reflexivity|]. cbn [repeat map rev]. rewrite IH. change (dv 48) with 0%Z.
    clear. induction k as [|k IH]; [reflexivity|]. cbn [repeat app]. f_equal. exact IH. }
  rewrite Erev, tsum_zeros. reflexivity.
Qed.

Definition ok68 (g : gclass) : bool :=
  (let '(pa, pb, pc) := g_positions g in (pa =? 1)%Z && (pb =? 9)%Z && (pc =? 10)%Z)
  && k_pos_static (g_pos g) && k_adj_id (g_adj g)
  && match g_digits g with D68 => true | _ => false end
  && k_rem_mod (g_rem g) && g_reverse g && k_wsum_plain (g_wsum g)
  && match g_summand g with SDigitSum => true | _ => false end
  && zlist_eqb (g_weights g) [2; 1]%Z && (g_modulus g =? 10)%Z
  && match g_minuend g with Some mm => (mm =? 10)%Z | None => false end
  && match g_rec g with RecDefault => true | _ => false end
  && match g_validate g with V68 => true | _ => false end.

Section M68.
Variable g : gclass.
Hypothesis OK : ok68 g = true.

Lemma ok68_facts :
  g_positions g = (1, 9, 10)%Z /\ g_pos g = PStatic /\ g_adj g = AId /\ g_digits g = D68 /\ g_rem g = RMod
  /\ g_reverse g = true /\ g_wsum g = WPlain /\ g_summand g = SDigitSum /\ g_weights g = [2; 1]%Z
  /\ g_modulus g = 10%Z /\ g_minuend g = Some 10%Z /\ g_rec g = RecDefault /\ g_validate g = V68.
Proof using OK.
  pose proof OK as H. unfold ok68 in H. repeat (apply andb_true_iff in H as [H ?]).
  destruct (g_positions g) as [[pa pb] pc] eqn:Epos. repeat (apply andb_true_iff in H as [H ?]).
  repeat match goal with X : (_ =? _)%Z = true |- _ => apply Z.eqb_eq in X end. subst pa pb pc.
  destruct (g_pos g); try discriminate. destruct (g_adj g); try discriminate.
  destruct (g_digits g); try discriminate. destruct (g_rem g); try discriminate.
  destruct (g_reverse g); try discriminate. destruct (g_wsum g); try discriminate.
  destruct (g_summand g); try discriminate. destruct (g_minuend g) as [mm|]; try discriminate.
  destruct (g_rec g); try discriminate. destruct (g_validate g); try discriminate.
  match goal with X : zlist_eqb (g_weights g) _ = true |- _ => apply zlist_eqb_eq in X end.
  match goal with X : (mm =? 10)%Z = true |- _ => apply Z.eqb_eq in X; subst mm end.
  repeat split; assumption.
Qed.

(* the template on an account (ten digits) whose first digit is 0: all of positions 2..9 are evaluated *)
Lemma m68_short acc :
  forallb is_ascii_digit acc = true -> List.length acc = 10%nat -> nth 0 acc 0%N = 48%N ->
  exists r0, compute_core nd 10 g acc = Ok (str_of_Z r0, (tsum CrossSum w21 (rev (span 2 9 (digs acc))) mod 10)%Z)
    /\ (0 <= r0 <= 99)%Z
    /\ std 2 9 10 w21 CrossSum 10 Minus10 (digs acc) = (pos 10 (digs acc) =? r0)%Z
    /\ validate_default nd 10 g acc = Ok (std 2 9 10 w21 CrossSum 10 Minus10 (digs acc)).
Proof using All.
  intros Hd Hl H0.
  destruct ok68_facts as (Epos & Kpos & Kadj & Kdig & Krem & Krev & Kws & Ksum & Kw & Kmod & Kmin & Krec & Kv).
  assert (Hadj : adjust g acc = acc) by (unfold adjust; rewrite Kadj; reflexivity).
  assert (Hposof : positions_of g acc = Ok (1%Z, 9%Z, Z.of_nat 10)) by (unfold positions_of; rewrite Kpos, Epos; reflexivity).
  set (body := sl 0 9 acc).
  assert (Hbd : forallb is_ascii_digit body = true) by (apply sl_forallb; exact Hd).
  assert (Lb : List.length body = 9%nat) by (unfold body; rewrite sl_length by lia; reflexivity).
  assert (Hb0 : exists rest, body = 48%N :: rest /\ List.length rest = 8%nat).
  { destruct body as [|y rest] eqn:Eb; [discriminate|]. exists rest. split; [|cbn [List.length] in Lb; lia].
    f_equal. rewrite <- H0. change y with (nth 0 (y :: rest) 0%N). rewrite <- Eb. unfold body. rewrite sl_nth by lia. reflexivity. }
  destruct Hb0 as (rest & Eb & Lr).
  set (digits := rev (lstrip0 body)).
  assert (Lstrip : (List.length (lstrip0 body) <= 8)%nat).
  { rewrite Eb. cbn [lstrip0]. unfold c0. rewrite N.eqb_refl. pose proof (lstrip0_length rest). lia. }
  assert (Hdigits : get_digits nd 10 g acc = Ok digits).
  { unfold get_digits, digits_default. rewrite Hposof. cbn [bind]. unfold len. rewrite Hl.
    change (Z.of_nat 10) with 10%Z. cbn [Z.eqb Pos.eqb negb Z.sub Z.leb Z.compare Pos.compare Pos.compare_cont andb Z.opp Z.add Z.pos_sub Z.succ_double Z.pred_double Z.double Pos.pred_double].
    cbn [bind]. rewrite Krev, Kdig.
    rewrite py_slice_sub by (unfold len; lia). change (Z.to_nat (9 - 0)) with 9%nat. change (Z.to_nat 0) with 0%nat.
    change (firstn 9 (skipn 0 acc)) with body. unfold rstrip0. rewrite rev_involutive. fold digits.
    assert (Hne : (Z.of_nat (List.length digits) =? 9)%Z = false) by (unfold digits; rewrite rev_length; lia).
    rewrite Hne. reflexivity. }
  assert (Ddigits : forallb is_ascii_digit digits = true).
  { unfold digits. pose proof (lstrip0_digits body Hbd) as F. rewrite forallb_forall in *. intros x Hx. apply in_rev in Hx. exact (F x Hx). }
  assert (Kq : cross_of (g_summand g) = Some CrossSum) by (rewrite Ksum; reflexivity).
  assert (Hw1 : forallb (fun w => (0 <=? w) && (w <=? 10))%Z (cycle_to (g_weights g) [] (List.length digits)) = true)
    by (apply cycle_to_forallb; [rewrite Kw; reflexivity|reflexivity]).
  pose proof (wsum_go_tsum g CrossSum Kq digits _ Ddigits Hw1) as Hsum.
  assert (ES : tsum CrossSum (cycle_to (g_weights g) [] (List.length digits)) (map dv digits)
               = tsum CrossSum w21 (rev (span 2 9 (digs acc)))).
  { rewrite Kw. unfold digits. rewrite (strip_sum CrossSum [2; 1]%Z body Hbd). rewrite Lb.
    change (cycle_to [2; 1]%Z [] 9) with w21.
    assert (E1 : map dv body = 0%Z :: span 2 9 (digs acc)).
    { unfold span, body, sl, digs. destruct acc as [|a0 acc']; [discriminate|]. cbn [nth] in H0. subst a0.
      change (9 - 0)%nat with 9%nat. change (9 - 2 + 1)%nat with 8%nat. change (2 - 1)%nat with 1%nat.
      change (skipn 0 (48%N :: acc')) with (48%N :: acc'). change (firstn 9 (48%N :: acc')) with (48%N :: firstn 8 acc').
      change (map dv (48%N :: firstn 8 acc')) with (0%Z :: map dv (firstn 8 acc')).
      change (skipn 1 (map dv (48%N :: acc'))) with (map dv acc'). f_equal. symmetry. apply firstn_map. }
    rewrite E1. cbn [rev]. change [0%Z] with (repeat 0%Z 1). rewrite tsum_zeros. reflexivity. }
  set (Sm := tsum CrossSum (cycle_to (g_weights g) [] (List.length digits)) (map dv digits)) in *.
  set (R := (Sm mod 10)%Z).
  assert (Hrem : remainder_of nd g (wadj g Sm) = Ok R) by (unfold remainder_of, wadj; rewrite Krem, Kws, Kmod; reflexivity).
  assert (HRr : (0 <= R < 10)%Z) by (apply Z.mod_pos_bound; lia).
  assert (HR : (0 <= std_checksum g R <= 99)%Z) by (unfold std_checksum; rewrite Kmin; lia).
  set (r0 := (if (R =? 0)%Z then 0 else 10 - R)%Z).
  assert (Hrec : reconcile g (std_checksum g R) R = Ok r0).
  { unfold reconcile, std_checksum. rewrite Krec, Kmin. unfold r0. f_equal.
    destruct (Z.eqb_spec R 0) as [->|Hne]; [reflexivity|]. replace (10 <=? 10 - R)%Z with false by lia. reflexivity. }
  exists r0. split.
  - rewrite (gen_compute_core g 10 1 9 acc acc digits Sm R Hadj Hposof ltac:(lia) Hdigits Hsum Hrem HR Hd Hl), Hrec. cbn [bind].
    unfold R. rewrite ES. reflexivity.
  - assert (Estd : std 2 9 10 w21 CrossSum 10 Minus10 (digs acc) = (pos 10 (digs acc) =? r0)%Z).
    { unfold std, expected. rewrite <- ES. fold R. reflexivity. }
    split; [unfold r0; destruct (R =? 0)%Z; lia|]. split; [exact Estd|].
    rewrite (gen_validate g 10 1 9 acc acc digits Sm R Hadj Hposof ltac:(lia) Hdigits Hsum Hrem HR Hd Hl), Hrec. cbn [bind].
    rewrite Estd. reflexivity.
Qed.

Lemma lstrip0_nz s : nth 0 s 0%N <> 48%N -> lstrip0 s = s.
Proof. destruct s as [|x s]; [reflexivity|]. cbn [nth lstrip0]. unfold c0. intro H. destruct (N.eqb_spec x 48); [congruence|reflexivity]. Qed.

Lemma firstn_rev' {A} (l : list A) n : (n <= List.length l)%nat -> firstn n (rev l) = rev (skipn (List.length l - n) l).
Proof.
  intro H. rewrite <- (firstn_skipn (List.length l - n) l) at 1. rewrite rev_app_distr.
  rewrite firstn_app. rewrite rev_length, skipn_length.
  replace (n - (List.length l - (List.length l - n)))%nat with 0%nat by lia. cbn [firstn]. rewrite app_nil_r.
  apply firstn_all2. rewrite rev_length, skipn_length. lia.
Qed.

(* ten-digit account numbers (first digit not 0): position 4 must be 9, and positions 4..9 are evaluated *)
Lemma m68_long acc :
  forallb is_ascii_digit acc = true -> List.length acc = 10%nat -> nth 0 acc 0%N <> 48%N ->
  (nth 3 acc 0%N <> 57%N ->
     compute_core nd 10 g acc = Err EInvalidBBANChecksum /\ validate_default nd 10 g acc = Err EInvalidBBANChecksum)
  /\ (nth 3 acc 0%N = 57%N -> validate_default nd 10 g acc = Ok (std 4 9 10 w21 CrossSum 10 Minus10 (digs acc))).
Proof using All.
  intros Hd Hl H0.
  destruct ok68_facts as (Epos & Kpos & Kadj & Kdig & Krem & Krev & Kws & Ksum & Kw & Kmod & Kmin & Krec & Kv).
  assert (Hadj : adjust g acc = acc) by (unfold adjust; rewrite Kadj; reflexivity).
  assert (Hposof : positions_of g acc = Ok (1%Z, 9%Z, Z.of_nat 10)) by (unfold positions_of; rewrite Kpos, Epos; reflexivity).
  set (body := sl 0 9 acc).
  assert (Hbd : forallb is_ascii_digit body = true) by (apply sl_forallb; exact Hd).
  assert (Lb : List.length body = 9%nat) by (unfold body; rewrite sl_length by lia; reflexivity).
  assert (Hb0 : nth 0 body 0%N = nth 0 acc 0%N) by (unfold body; rewrite sl_nth by lia; reflexivity).
  assert (Hb3 : nth 3 body 0%N = nth 3 acc 0%N) by (unfold body; rewrite sl_nth by lia; reflexivity).
  assert (Hstrip : lstrip0 body = body) by (apply lstrip0_nz; rewrite Hb0; exact H0).
  assert (Hgd : get_digits nd 10 g acc =
                if negb (N.eqb (nth 3 acc 0%N) 57) then Err EInvalidBBANChecksum else Ok (rev (sl 3 9 acc))).
  { unfold get_digits, digits_default. rewrite Hposof. cbn [bind]. unfold len. rewrite Hl.
    change (Z.of_nat 10) with 10%Z. cbn [Z.eqb Pos.eqb negb Z.sub Z.leb Z.compare Pos.compare Pos.compare_cont andb Z.opp Z.add Z.pos_sub Z.succ_double Z.pred_double Z.double Pos.pred_double].
    cbn [bind]. rewrite Krev, Kdig.
    rewrite py_slice_sub by (unfold len; lia). change (Z.to_nat (9 - 0)) with 9%nat. change (Z.to_nat 0) with 0%nat.
    change (firstn 9 (skipn 0 acc)) with body. unfold rstrip0. rewrite rev_involutive, Hstrip.
    rewrite rev_length, Lb. change (Z.of_nat 9 =? 9)%Z with true. cbv iota.
    change 5%Z with (Z.of_nat 5). rewrite (py_index_nth (rev body) 5) by (rewrite rev_length; lia). cbn [bind].
    rewrite rev_nth by lia. rewrite Lb. change (9 - 6)%nat with 3%nat. rewrite Hb3.
    destruct (negb (N.eqb (nth 3 acc 0%N) 57)); [reflexivity|]. f_equal.
    change 6%Z with (Z.of_nat 6). rewrite py_slice_to_firstn by (rewrite rev_length; lia).
    rewrite firstn_rev' by lia. rewrite Lb. change (9 - 6)%nat with 3%nat. f_equal.
    unfold body. rewrite sl_skipn by lia. reflexivity. }
  split.
  - intro H3. assert (E : negb (N.eqb (nth 3 acc 0%N) 57) = true) by (apply negb_true_iff, N.eqb_neq; exact H3).
    rewrite E in Hgd. split.
    + unfold compute_core. rewrite Hadj, Hgd. reflexivity.
    + unfold validate_default. cbv zeta. unfold compute_core. rewrite Hadj, Hgd. reflexivity.
  - intro H3. rewrite H3 in Hgd. change (negb (N.eqb 57 57)) with false in Hgd. cbv iota in Hgd.
    set (digits := rev (sl 3 9 acc)) in *.
    assert (Ddigits : forallb is_ascii_digit digits = true).
    { unfold digits. pose proof (sl_forallb is_ascii_digit 3 9 acc Hd) as F. rewrite forallb_forall in *. intros x Hx. apply in_rev in Hx. exact (F x Hx). }
    assert (Ld : List.length digits = 6%nat) by (unfold digits; rewrite rev_length, sl_length by lia; reflexivity).
    assert (Kq : cross_of (g_summand g) = Some CrossSum) by (rewrite Ksum; reflexivity).
    assert (Hw1 : forallb (fun w => (0 <=? w) && (w <=? 10))%Z (cycle_to (g_weights g) [] (List.length digits)) = true)
      by (apply cycle_to_forallb; [rewrite Kw; reflexivity|reflexivity]).
    pose proof (wsum_go_tsum g CrossSum Kq digits _ Ddigits Hw1) as Hsum.
    assert (ES : tsum CrossSum (cycle_to (g_weights g) [] (List.length digits)) (map dv digits)
                 = tsum CrossSum w21 (rev (span 4 9 (digs acc)))).
    { rewrite Kw, Ld. change (cycle_to [2; 1]%Z [] 6) with (firstn 6 w21).
      assert (E1 : map dv digits = rev (span 4 9 (digs acc))).
      { unfold digits, span, sl, digs. rewrite map_rev, <- firstn_map, <- skipn_map. reflexivity. }
      rewrite E1. replace 6%nat with (List.length (rev (span 4 9 (digs acc)))) at 1; [apply tsum_firstn|].
      rewrite <- E1, map_length. exact Ld. }
    set (Sm := tsum CrossSum (cycle_to (g_weights g) [] (List.length digits)) (map dv digits)) in *.
    set (R := (Sm mod 10)%Z).
    assert (Hrem : remainder_of nd g (wadj g Sm) = Ok R) by (unfold remainder_of, wadj; rewrite Krem, Kws, Kmod; reflexivity).
    assert (HRr : (0 <= R < 10)%Z) by (apply Z.mod_pos_bound; lia).
    assert (HR : (0 <= std_checksum g R <= 99)%Z) by (unfold std_checksum; rewrite Kmin; lia).
    rewrite (gen_validate g 10 1 9 acc acc digits Sm R Hadj Hposof ltac:(lia) Hgd Hsum Hrem HR Hd Hl).
    unfold reconcile, std_checksum. rewrite Krec, Kmin. cbn [bind]. f_equal.
    unfold std, expected. rewrite <- ES. fold R.
    destruct (Z.eqb_spec R 0) as [->|Hne]; [reflexivity|]. replace (10 <=? 10 - R)%Z with false by lia. reflexivity.
Qed.

Theorem m68_method account :
  forallb is_ascii_digit account = true -> List.length account = 10%nat ->
  verdict (validate1 nd tbl 10 g account) = Some (m68 (digs account)).
Proof using All.
  intros Hd Hl.
  destruct ok68_facts as (Epos & Kpos & Kadj & Kdig & Krem & Krev & Kws & Ksum & Kw & Kmod & Kmin & Krec & Kv).
  unfold validate1. rewrite Kv. unfold int_t.
  rewrite (int_text_value account Hd (account_nonempty account Hl)). cbn [bind]. unfold m68. cbv zeta.
  destruct ((400000000 <=? value (digs account)) && (value (digs account) <=? 499999999))%Z; [reflexivity|].
  (* the account with positions 3 and 4 blanked *)
  set (acc2 := py_slice_to account 2 ++ tx "00" ++ py_slice_from account 4).
  assert (Eacc2 : acc2 = firstn 2 account ++ [48%N; 48%N] ++ skipn 4 account).
  { unfold acc2. change 2%Z with (Z.of_nat 2). change 4%Z with (Z.of_nat 4).
    rewrite py_slice_to_firstn, py_slice_from_skipn by lia. reflexivity. }
  assert (Hd2 : forallb is_ascii_digit acc2 = true).
  { rewrite Eacc2, !forallb_app. rewrite forallb_firstn', forallb_skipn' by exact Hd. reflexivity. }
  assert (Hl2 : List.length acc2 = 10%nat).
  { rewrite Eacc2, !app_length, firstn_length, skipn_length, Hl. reflexivity. }
  destruct account as [|x1 [|x2 [|x3 [|x4 [|x5 [|x6 [|x7 [|x8 [|x9 [|x10 [|x11 rest]]]]]]]]]]]; try discriminate.
  set (account := [x1; x2; x3; x4; x5; x6; x7; x8; x9; x10]) in *.
  assert (Eacc2' : acc2 = [x1; x2; 48%N; 48%N; x5; x6; x7; x8; x9; x10]) by (rewrite Eacc2; reflexivity).
  assert (Edigs2 : digs acc2 = firstn 2 (digs account) ++ [0; 0]%Z ++ skipn 4 (digs account)) by (rewrite Eacc2'; reflexivity).
  assert (D1 : is_ascii_digit x1 = true /\ is_ascii_digit x4 = true /\ is_ascii_digit x10 = true).
  { unfold account in Hd. cbn [forallb] in Hd. repeat (apply andb_true_iff in Hd as [? Hd]). repeat split; assumption. }
  destruct D1 as (Dx1 & Dx4 & Dx10).
  change (pos 1 (digs account)) with (dv x1). change (pos 4 (digs account)) with (dv x4).
  assert (E1 : (dv x1 =? 0)%Z = N.eqb x1 48) by (unfold is_ascii_digit, c0, c9 in Dx1; unfold dv; lia).
  assert (E4 : (dv x4 =? 9)%Z = N.eqb x4 57) by (unfold is_ascii_digit, c0, c9 in Dx4; unfold dv; lia).
  rewrite E1, E4, <- Edigs2.
  destruct (N.eqb_spec x1 48) as [Hx1|Hx1]; cbn [negb].
  - (* short account numbers *)
    destruct (m68_short account Hd Hl Hx1) as (r0 & _ & _ & _ & Hv). rewrite Hv. cbn [bind].
    destruct (std 2 9 10 w21 CrossSum 10 Minus10 (digs account)); [reflexivity|]. cbn [orb].
    assert (Hx1' : nth 0 acc2 0%N = 48%N) by (rewrite Eacc2'; exact Hx1).
    destruct (m68_short acc2 Hd2 Hl2 Hx1') as (r2 & Hcc & Hr2 & Hstd & _). rewrite Hcc, Epos. cbn [bind fst].
    change (char_at account (10 - 1)) with (Ok [x10] : outcome text). cbn [bind].
    rewrite (str_eq_digit r2 x10 Hr2 Dx10), Hstd. rewrite Eacc2'. reflexivity.
  - (* ten-digit account numbers *)
    destruct (m68_long account Hd Hl Hx1) as [Hbad Hgood].
    destruct (N.eqb_spec x4 57) as [Hx4|Hx4]; cbn [andb].
    + rewrite (Hgood Hx4). cbn [bind].
      destruct (std 4 9 10 w21 CrossSum 10 Minus10 (digs account)); [reflexivity|].
      assert (H0' : nth 0 acc2 0%N <> 48%N) by (rewrite Eacc2'; exact Hx1).
      destruct (m68_long acc2 Hd2 Hl2 H0') as [Hbad2 _].
      assert (H3' : nth 3 acc2 0%N <> 57%N) by (rewrite Eacc2'; cbn [nth]; lia).
      rewrite (proj1 (Hbad2 H3')). reflexivity.
    + rewrite (proj2 (Hbad Hx4)). reflexivity.
Qed.
End M68.
End German.
