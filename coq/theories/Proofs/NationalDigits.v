(* C06, part 2: digit-level facts for the weighted-sum algorithms. *)
From Coq Require Import Lia ZifyBool ZifyN.
From Schwifty Require Import Lib.Base Lib.Lit Model.Clean Model.Data Model.Bban Model.National.
From Schwifty Require Import Spec.Iso13616 Spec.NationalPublished Proofs.CleanFacts Proofs.NumFacts Proofs.IbanFacts.
From Coq Require Import String.
Ltac Zify.zify_post_hook ::= Z.to_euclidean_division_equations.

(* int() on every ASCII digit is its value: a check on the generated Nd table *)
Definition nd_ok (nd : list (N * N)) : bool :=
  forallb (fun c => match int_char nd c with Ok v => Z.eqb v (Z.of_N (c - 48)) | _ => false end) digit_cps.

Section Digits.
Variable nd : list (N * N).
Hypothesis ND : nd_ok nd = true.

Lemma int_char_digit c : is_ascii_digit c = true -> int_char nd c = Ok (dv c).
Proof using ND.
  intro H. unfold nd_ok in ND. rewrite forallb_forall in ND.
  assert (Hin : In c digit_cps) by (apply in_seqN; unfold is_ascii_digit, c0, c9 in H; lia).
  specialize (ND c Hin). destruct (int_char nd c) as [v| |]; try discriminate.
  apply Z.eqb_eq in ND. subst v. reflexivity.
Qed.

Lemma weighted_sum_digits : forall ws s,
  forallb is_ascii_digit s = true -> weighted_sum nd ws s = Ok (wsum ws s).
Proof using ND.
  induction ws as [|w ws IH]; intros [|c s] H; cbn [weighted_sum wsum]; try reflexivity.
  cbn [forallb] in H. apply andb_true_iff in H as [Hc Hs].
  rewrite (int_char_digit c Hc). cbn [bind]. rewrite (IH s Hs). reflexivity.
Qed.

Lemma weighted_digits s m ws :
  forallb is_ascii_digit s = true -> weighted nd s m ws = Ok (wsum ws s mod m)%Z.
Proof using ND. intro H. unfold weighted. rewrite (weighted_sum_digits ws s H). reflexivity. Qed.

End Digits.

(* str(v) for a one-digit and a two-digit value *)
Lemma str_one v : (0 <= v <= 9)%Z -> str_of_Z v = [(48 + Z.to_N v)%N].
Proof.
  intro H.
  assert (F : forallb (fun n => text_eqb (str_of_Z (Z.of_nat n)) [(48 + Z.to_N (Z.of_nat n))%N]) (seq 0 10) = true)
    by (vm_compute; reflexivity).
  rewrite forallb_forall in F. specialize (F (Z.to_nat v)). rewrite Z2Nat.id in F by lia.
  apply text_eqb_eq. apply F. apply in_seq. lia.
Qed.

Lemma str_two_len v : (10 <= v <= 99)%Z -> List.length (str_of_Z v) = 2.
Proof.
  intro H.
  assert (F : forallb (fun n => Nat.eqb (List.length (str_of_Z (Z.of_nat n))) 2) (seq 10 90) = true)
    by (vm_compute; reflexivity).
  rewrite forallb_forall in F. specialize (F (Z.to_nat v)). rewrite Z2Nat.id in F by lia.
  apply Nat.eqb_eq. apply F. apply in_seq. lia.
Qed.

Lemma str_eq_digit v c :
  (0 <= v <= 99)%Z -> is_ascii_digit c = true ->
  text_eqb (str_of_Z v) [c] = Z.eqb (dv c) v.
Proof.
  intros Hv Hc. destruct (Z_le_gt_dec v 9) as [H9|H9].
  - rewrite str_one by lia. cbn [text_eqb]. rewrite andb_true_r.
    unfold dv. unfold is_ascii_digit, c0, c9 in Hc. lia.
  - pose proof (str_two_len v ltac:(lia)) as Hl.
    destruct (str_of_Z v) as [|x [|y [|z t]]]; try discriminate. cbn [text_eqb]. rewrite andb_false_r.
    unfold dv. unfold is_ascii_digit, c0, c9 in Hc. lia.
Qed.

Lemma wsum_app ws1 : forall ws2 s1 s2, List.length ws1 = List.length s1 ->
  wsum (ws1 ++ ws2) (s1 ++ s2) = (wsum ws1 s1 + wsum ws2 s2)%Z.
Proof.
  induction ws1 as [|w ws1 IH]; intros ws2 [|c s1] s2 H; cbn in *; try discriminate; try lia.
  rewrite IH by lia. lia.
Qed.
