(* Structure regexes as runs of counted character classes; agreement of regex classes with the
   ISO character kinds on the alphabet 0-9A-Z. *)
From Coq Require Import Lia.
From Schwifty Require Import Lib.Base Lib.Regex Model.Data Spec.Iso13616 Proofs.RegexFacts Proofs.NumFacts.

Fixpoint runs_of (x : rx) : option (list (nat * cls)) :=
  match x with
  | RChr k => Some [(1, k)]
  | RRep lo (Some hi) (RChr k) => if Nat.eqb lo hi then Some [(lo, k)] else None
  | RSeq a b =>
    match runs_of a, runs_of b with
    | Some l, Some m => Some (l ++ m)
    | _, _ => None
    end
  | REps => Some []
  | _ => None
  end.

Definition expand (rs : list (nat * cls)) : list cls := flat_map (fun p => repeat (snd p) (fst p)) rs.

Fixpoint conforms_cls (ks : list cls) (s : text) : bool :=
  match ks, s with
  | [], [] => true
  | k :: ks', c :: s' => in_cls c k && conforms_cls ks' s'
  | _, _ => false
  end.

Lemma conforms_cls_app a b s :
  conforms_cls (a ++ b) s = true <-> exists u v, s = u ++ v /\ conforms_cls a u = true /\ conforms_cls b v = true.
Proof.
  revert s. induction a as [|k a IH]; intro s; simpl.
  - split.
    + intro H. exists [], s. auto.
    + intros (u & v & -> & Hu & Hv). destruct u; [exact Hv|discriminate].
  - destruct s as [|c s].
    + split; [discriminate|]. intros (u & v & Heq & Hu & Hv). destruct u; discriminate.
    + rewrite andb_true_iff, IH. split.
      * intros [Hc (u & v & -> & Hu & Hv)]. exists (c :: u), v. simpl. rewrite Hc. auto.
      * intros (u & v & Heq & Hu & Hv). destruct u as [|x u]; [discriminate|].
        simpl in Heq. inversion Heq; subst. apply andb_true_iff in Hu as [Hc Hu]. split; [exact Hc|].
        exists u, v. auto.
Qed.

Lemma conforms_cls_repeat k n s :
  conforms_cls (repeat k n) s = true <-> length s = n /\ forallb (fun c => in_cls c k) s = true.
Proof.
  revert s. induction n as [|n IH]; intros [|c s]; simpl; split; intro H; auto; try discriminate;
    try (destruct H; discriminate).
  - apply andb_true_iff in H as [Hc H]. apply IH in H as [Hl Hf]. rewrite Hc, Hf. auto.
  - destruct H as [Hl H]. apply andb_true_iff in H as [Hc Hf]. rewrite Hc. simpl. apply IH. split; [lia|exact Hf].
Qed.

Lemma conforms_cls_length ks s : conforms_cls ks s = true -> length s = length ks.
Proof.
  revert s. induction ks as [|k ks IH]; intros [|c s]; simpl; intro H; try reflexivity; try discriminate.
  apply andb_true_iff in H as [_ H]. f_equal. apply IH. exact H.
Qed.

Lemma runs_lang x : forall rs s,
  runs_of x = Some rs -> (lang (compile x) s <-> conforms_cls (expand rs) s = true).
Proof.
  induction x as [k|lo hi x IH|a IHa b IHb|a IHa b IHb|]; intros rs s Hr; simpl in Hr.
  - inversion Hr; subst. simpl. split.
    + intro H; inversion H; subst. simpl.
      match goal with X : in_cls _ _ = true |- _ => rewrite X end. reflexivity.
    + destruct s as [|c [|d s]]; simpl; try discriminate.
      * rewrite andb_true_r. intro H. constructor. exact H.
      * rewrite andb_false_r. discriminate.
  - destruct hi as [hi|]; [|discriminate]. destruct x; try discriminate.
    destruct (Nat.eqb_spec lo hi) as [->|]; [|discriminate]. inversion Hr; subst.
    simpl. rewrite Nat.sub_diag. simpl. rewrite app_nil_r, conforms_cls_repeat, lang_seq_iff. split.
    + intros (u & v & -> & Hu & Hv). apply lang_eps in Hv. subst v. rewrite app_nil_r.
      apply lang_rep_chr. exact Hu.
    + intro H. exists s, []. rewrite app_nil_r. split; [reflexivity|]. split; [|constructor].
      apply lang_rep_chr. exact H.
  - destruct (runs_of a) as [l|]; [|discriminate]. destruct (runs_of b) as [m|]; [|discriminate].
    inversion Hr; subst. simpl. unfold expand. rewrite flat_map_app. fold (expand l) (expand m).
    rewrite lang_seq_iff, conforms_cls_app. split; intros (u & v & -> & Hu & Hv); exists u, v;
      (split; [reflexivity|]); split; try (apply (IHa l); auto; fail); try (apply (IHb m); auto; fail).
  - discriminate.
  - inversion Hr; subst. simpl. rewrite lang_eps. destruct s; simpl; split; auto; discriminate.
Qed.

(* ---- agreement of a regex class with an ISO kind on 0-9A-Z ---------------------------------- *)

Definition cls_agree (k : cls) (kd : kind) : bool :=
  forallb (fun c => Bool.eqb (in_cls c k) (kind_ok kd c)) std_alphabet.

Definition not_e (kd : kind) : bool := match kd with Ke => false | _ => true end.

Lemma index_of_aux_in c l : forall i j, index_of_aux c l i = Some j -> In c l.
Proof.
  induction l as [|x l IH]; simpl; intros i j H; [discriminate|].
  destruct (N.eqb_spec x c) as [->|]; [left; reflexivity|right; eapply IH; exact H].
Qed.

Lemma in_alpha_std c : in_alpha c = true -> In c std_alphabet.
Proof.
  intro H. pose proof (index_of_std c) as Hi. rewrite H in Hi. eapply index_of_aux_in. exact Hi.
Qed.

Lemma kind_ok_alpha kd c : not_e kd = true -> kind_ok kd c = true -> in_alpha c = true.
Proof.
  unfold in_alpha. destruct kd; simpl; intros He H; try discriminate.
  - rewrite H. reflexivity.
  - rewrite H. apply orb_true_r.
  - exact H.
Qed.

Fixpoint agree_all (ks : list cls) (kds : list kind) : bool :=
  match ks, kds with
  | [], [] => true
  | k :: ks', kd :: kds' => cls_agree k kd && not_e kd && agree_all ks' kds'
  | _, _ => false
  end.

Lemma agree_conforms ks : forall kds s,
  agree_all ks kds = true -> forallb in_alpha s = true ->
  conforms_cls ks s = conforms kds s.
Proof.
  induction ks as [|k ks IH]; intros [|kd kds] s Ha Hs; simpl in Ha; try discriminate.
  - destruct s; reflexivity.
  - destruct s as [|c s]; [reflexivity|]. simpl in Hs. apply andb_true_iff in Hs as [Hc Hs].
    apply andb_true_iff in Ha as [Ha Hr]. apply andb_true_iff in Ha as [Hag _].
    simpl. rewrite (IH kds s Hr Hs). f_equal.
    unfold cls_agree in Hag. rewrite forallb_forall in Hag.
    specialize (Hag c (in_alpha_std c Hc)). apply eqb_prop in Hag. exact Hag.
Qed.

Lemma conforms_alpha kds : forall s,
  forallb not_e kds = true -> conforms kds s = true -> forallb in_alpha s = true.
Proof.
  induction kds as [|kd kds IH]; intros [|c s] He H; simpl in *; try reflexivity; try discriminate.
  apply andb_true_iff in He as [He1 He2]. apply andb_true_iff in H as [H1 H2].
  rewrite (kind_ok_alpha kd c He1 H1). simpl. apply IH; assumption.
Qed.

Lemma agree_not_e ks : forall kds, agree_all ks kds = true -> forallb not_e kds = true.
Proof.
  induction ks as [|k ks IH]; intros [|kd kds] H; simpl in *; try reflexivity; try discriminate.
  apply andb_true_iff in H as [H Hr]. apply andb_true_iff in H as [_ He]. rewrite He. simpl. apply IH. exact Hr.
Qed.

Lemma conforms_length kds s : conforms kds s = true -> length s = length kds.
Proof.
  revert s. induction kds as [|k ks IH]; intros [|c s]; simpl; intro H; try reflexivity; try discriminate.
  apply andb_true_iff in H as [_ H]. f_equal. apply IH. exact H.
Qed.
