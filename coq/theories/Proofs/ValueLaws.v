(* C16: equality is an equivalence, hashing is consistent with it, the order is a strict total order on
   compact forms and <= agrees with it; copies under a consistent protocol. *)
From Coq Require Import Lia.
From Schwifty Require Import Lib.Base Model.Data Model.Objects Proofs.CleanFacts.

Lemma text_ltb_irrefl a : text_ltb a a = false.
Proof. induction a as [|x a IH]; simpl; [reflexivity|]. rewrite N.ltb_irrefl, N.eqb_refl. exact IH. Qed.

Lemma text_ltb_trans : forall a b c, text_ltb a b = true -> text_ltb b c = true -> text_ltb a c = true.
Proof.
  induction a as [|x a IH]; intros [|y b] [|z c]; simpl; intros H1 H2; try discriminate; try reflexivity.
  destruct (N.ltb_spec x y) as [Hxy|Hxy].
  - destruct (N.ltb_spec y z) as [Hyz|Hyz].
    + replace (N.ltb x z) with true by (symmetry; apply N.ltb_lt; lia). reflexivity.
    + destruct (N.eqb_spec y z) as [->|]; [|discriminate].
      replace (N.ltb x z) with true by (symmetry; apply N.ltb_lt; lia). reflexivity.
  - destruct (N.eqb_spec x y) as [->|]; [|discriminate].
    destruct (N.ltb_spec y z) as [Hyz|Hyz]; [reflexivity|].
    destruct (N.eqb_spec y z) as [->|]; [|discriminate]. eapply IH; eassumption.
Qed.

Lemma text_trichotomy : forall a b, text_ltb a b = true \/ a = b \/ text_ltb b a = true.
Proof.
  induction a as [|x a IH]; intros [|y b]; simpl; auto.
  destruct (N.ltb_spec x y) as [Hxy|Hxy]; [auto|].
  destruct (N.eqb_spec x y) as [->|Hne].
  - rewrite N.ltb_irrefl, N.eqb_refl. destruct (IH b) as [H|[->|H]]; auto.
  - right; right. replace (N.ltb y x) with true by (symmetry; apply N.ltb_lt; lia). reflexivity.
Qed.

Lemma text_ltb_asym a b : text_ltb a b = true -> text_ltb b a = false.
Proof.
  intro H. destruct (text_ltb b a) eqn:E; [|reflexivity].
  pose proof (text_ltb_trans _ _ _ H E) as Hc. rewrite text_ltb_irrefl in Hc. discriminate.
Qed.

(* equality *)
Theorem eq_refl_obj a : obj_eq a a = true.
Proof. apply text_eqb_refl. Qed.
Theorem eq_sym_obj a b : obj_eq a b = obj_eq b a.
Proof. unfold obj_eq. apply eq_true_iff_eq. rewrite !text_eqb_eq. split; congruence. Qed.
Theorem eq_trans_obj a b c : obj_eq a b = true -> obj_eq b c = true -> obj_eq a c = true.
Proof. unfold obj_eq. rewrite !text_eqb_eq. congruence. Qed.
Theorem eq_str_obj a s : obj_eq_str a s = true <-> o_compact a = s.
Proof. apply text_eqb_eq. Qed.
(* equal objects hash alike, whatever str's hash function is: usable interchangeably as dict keys *)
Theorem hash_consistent h a b : obj_eq a b = true -> obj_hash h a = obj_hash h b.
Proof. unfold obj_eq, obj_hash. rewrite text_eqb_eq. congruence. Qed.

(* order *)
Theorem lt_irrefl_obj a : obj_lt a a = false.
Proof. apply text_ltb_irrefl. Qed.
Theorem lt_trans_obj a b c : obj_lt a b = true -> obj_lt b c = true -> obj_lt a c = true.
Proof. apply text_ltb_trans. Qed.
Theorem lt_total_obj a b : obj_lt a b = true \/ obj_eq a b = true \/ obj_lt b a = true.
Proof.
  unfold obj_lt, obj_eq. destruct (text_trichotomy (o_compact a) (o_compact b)) as [H|[H|H]]; auto.
  right; left. apply text_eqb_eq. exact H.
Qed.
Theorem le_agrees a b : obj_le a b = obj_lt a b || obj_eq a b.
Proof.
  unfold obj_le, obj_lt, obj_eq.
  destruct (text_trichotomy (o_compact a) (o_compact b)) as [H|[H|H]].
  - rewrite H, (text_ltb_asym _ _ H). reflexivity.
  - rewrite H, text_ltb_irrefl, text_eqb_refl. reflexivity.
  - rewrite H, (text_ltb_asym _ _ H). simpl. symmetry. destruct (text_eqb _ _) eqn:E; [|reflexivity].
    apply text_eqb_eq in E. rewrite E, text_ltb_irrefl in H. discriminate.
Qed.

(* copies: when each class's __new__ arity equals what its __getnewargs__ supplies and __deepcopy__ does
   not re-validate, every kind of copy yields the same value (class, compact form, country, BBAN) *)
Definition proto_ok (cfg : obj_cfg) : bool :=
  rebuild_ok cfg CIban && rebuild_ok cfg CBic && rebuild_ok cfg CBban
  && match cp_deepcopy (oc_iban cfg), cp_deepcopy (oc_bic cfg), cp_deepcopy (oc_bban cfg) with
     | DcRevalidate, _, _ | _, DcRevalidate, _ | _, _, DcRevalidate => false
     | _, _, _ => true
     end
  && oc_eq_compact cfg && oc_hash_compact cfg && oc_lt_compact cfg.

Theorem copies_preserve cfg revalidate o :
  proto_ok cfg = true ->
  shallow_copy cfg o = Ok o /\ pickle_roundtrip cfg o = Ok o /\ deep_copy cfg revalidate o = Ok o.
Proof.
  intro H. unfold proto_ok in H.
  apply andb_true_iff in H as [H _]. apply andb_true_iff in H as [H _]. apply andb_true_iff in H as [H _].
  apply andb_true_iff in H as [H Hd]. apply andb_true_iff in H as [H Hbb]. apply andb_true_iff in H as [Hi Hb].
  assert (Hr : rebuild_ok cfg (o_class o) = true) by (destruct (o_class o); assumption).
  assert (Hp : pickle_roundtrip cfg o = Ok o).
  { unfold pickle_roundtrip. rewrite Hr. destruct o as [c s cc [cb|]]; cbn [o_bban]; [|reflexivity].
    unfold copy_bban. rewrite Hbb. reflexivity. }
  split; [unfold shallow_copy; rewrite Hr; reflexivity|]. split; [exact Hp|].
  unfold deep_copy.
  destruct (o_class o); cbn [proto];
    destruct (cp_deepcopy (oc_iban cfg)); destruct (cp_deepcopy (oc_bic cfg)); destruct (cp_deepcopy (oc_bban cfg));
    try discriminate; exact Hp.
Qed.
