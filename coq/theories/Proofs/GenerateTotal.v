(* IBAN.generate raises nothing but library errors (C08's last clause), on the regenerated tables. *)
From Coq Require Import Lia ZArith List Bool.
From Schwifty Require Import Lib.Base Lib.Lit Model.Clean Model.Data Model.Iban Model.Bban Model.Generate
  Model.National Model.Algorithms Model.Germany.
From Schwifty Require Import Spec.Iso13616 Spec.RegistrySpec.
From Schwifty Require Import Proofs.CleanFacts Proofs.NumFacts Proofs.IbanFacts Proofs.IbanTheorems Proofs.TotalFacts
  Proofs.NationalFacts Proofs.NationalDigits Proofs.PlaceFacts Proofs.ComputeShape Proofs.ComputeTotal
  Proofs.GenObligations Proofs.GenerateFacts.
From Schwifty Require Import Gen.Env Gen.IbanData Gen.IbanCfg Gen.ChecksumCfg Gen.GermanyTbl.
Import ListNotations.

Definition classes_of (r : row) : option (list kind) :=
  match parse_structure (r_bban_spec r) with
  | Some items => Some (flat_map (fun it => repeat (it_kind it) (N.to_nat (it_count it))) items)
  | None => None
  end.
Definition kinds_at (r : row) (ks : list kind) (k : text) : list kind :=
  py_slice_list ks (fst (rng r k)) (snd (rng r k)).

(* obligation on every country row: the structure string is understood, has no blank class, every component's range lies
   inside it; the default check-digit algorithm (if any) is a national one, reads components, and the classes at the
   positions it reads are what its arithmetic needs (digits for the weighted sums, letters or digits otherwise) *)
Definition total_row_ok (r : row) : bool :=
  match classes_of r with
  | None => false
  | Some ks =>
    forallb noKe ks
    && forallb (fun k => Z.eqb (Z.of_nat (List.length (kinds_at r ks k))) (width r k)) the_components
    && match assoc (r_cc r ++ [58%N] ++ k_default) registered with
       | None => true
       | Some (cls, acc) =>
         match national_class the_env nd_runs (ic_alphabet the_iban_cfg) cls acc with
         | None => false
         | Some _ => forallb (fun k => existsb (text_eqb k) the_components) acc && kinds_ok cls (map (kinds_at r ks) acc)
         end
       end
  end.
Lemma gen_total_obl : forallb total_row_ok the_table = true.
Proof. vm_cast_no_check (eq_refl true). Qed.
Lemma gen_nd_obl : nd_ok nd_runs = true.
Proof. vm_cast_no_check (eq_refl true). Qed.
Lemma gen_alpha_obl : ic_alphabet the_iban_cfg = std_alphabet.
Proof. vm_cast_no_check (eq_refl std_alphabet). Qed.
Lemma gen_guard_obl : steps_guarded false false (ic_steps the_iban_cfg) = true.
Proof. vm_cast_no_check (eq_refl true). Qed.
Lemma gen_chars_obl : chars_strict the_iban_cfg = true.
Proof. vm_cast_no_check (eq_refl true). Qed.
Lemma gen_strict_obl : forallb row_strict the_table = true.
Proof. vm_cast_no_check (eq_refl true). Qed.

Section Row.
Variable cc : text.
Variable r : row.
Variable values : list (text * text).
Hypothesis Er : find_row the_table cc = Some r.
Hypothesis ONLY : forall k, In k the_components ->
  text_eqb k k_bank = false -> text_eqb k k_branch = false -> text_eqb k k_account = false ->
  (len (clean the_env (get_val k values)) <= range_length (fc_rng the_components r k))%Z.

Let comps1 := fc_comps1 the_components r (fc_comps0 the_env the_components r values).
Let V k := V1 the_env the_components r values k.

Lemma row_facts : exists ks items,
  parse_structure (r_bban_spec r) = Some items /\
  ks = flat_map (fun it => repeat (it_kind it) (N.to_nat (it_count it))) items /\
  forallb noKe ks = true /\
  (forall k, In k the_components -> Z.of_nat (List.length (kinds_at r ks k)) = width r k) /\
  match assoc (cc ++ [58%N] ++ k_default) registered with
  | None => True
  | Some (cls, acc) =>
    exists al, national_class the_env nd_runs (ic_alphabet the_iban_cfg) cls acc = Some al /\
      (forall k, In k acc -> In k the_components) /\ kinds_ok cls (map (kinds_at r ks) acc) = true
  end.
Proof using Er.
  pose proof (find_row_in _ _ _ Er) as [Hin Ecc].
  pose proof gen_total_obl as O. rewrite forallb_forall in O. specialize (O r Hin). unfold total_row_ok, classes_of in O.
  rewrite Ecc in O.
  destruct (parse_structure (r_bban_spec r)) as [items|]; [|discriminate].
  exists (flat_map (fun it => repeat (it_kind it) (N.to_nat (it_count it))) items), items.
  apply andb_true_iff in O as [O Halg]. apply andb_true_iff in O as [Hke Hw].
  split; [reflexivity|]. split; [reflexivity|]. split; [exact Hke|]. split.
  - intros k Hk. rewrite forallb_forall in Hw. apply Z.eqb_eq. exact (Hw k Hk).
  - destruct (assoc (cc ++ [58%N] ++ k_default) registered) as [[cls acc]|]; [|exact I].
    destruct (national_class the_env nd_runs (ic_alphabet the_iban_cfg) cls acc) as [al|]; [|discriminate].
    exists al. split; [reflexivity|]. apply andb_true_iff in Halg as [Hacc Hk]. split; [|exact Hk].
    intros k Hk'. rewrite forallb_forall in Hacc. apply existsb_in. exact (Hacc k Hk').
Qed.

Lemma kinds_noKe ks k : forallb noKe ks = true -> forallb noKe (kinds_at r ks k) = true.
Proof. intro H. unfold kinds_at, py_slice_list. apply forallb_firstn', forallb_skipn'. exact H. Qed.

(* with the guards and the structure check passed, every component value conforms to the classes at its positions *)
Lemma values_conf ks items :
  parse_structure (r_bban_spec r) = Some items ->
  ks = flat_map (fun it => repeat (it_kind it) (N.to_nat (it_count it))) items ->
  (forall k, In k the_components -> Z.of_nat (List.length (kinds_at r ks k)) = width r k) ->
  (len (V k_bank) <= width r k_bank)%Z -> (len (V k_branch) <= width r k_branch)%Z -> (len (V k_account) <= width r k_account)%Z ->
  fc_check the_components r values comps1 = Ok tt ->
  forall k, In k the_components -> conf (kinds_at r ks k) (V k).
Proof using All.
  intros Hp Eks Hlen GB GR GA Hchk k Hk.
  pose proof (V1_ok the_env the_components the_table the_algos env_obl gen_zero_obl cc r values Er (layout_of cc r Er) ONLY
                GB GR GA k Hk) as [Hl _].
  destruct (V1_conf the_env the_components the_table the_algos env_obl gen_zero_obl cc r values Er (layout_of cc r Er) ONLY
              GB GR GA Hchk k Hk) as [Hm|Hz].
  - left. unfold matches_structure in Hm. rewrite Hp in Hm. rewrite <- Eks in Hm. split.
    + inversion Hm as [Hm']. rewrite Hm'. exact Hm'.
    + specialize (Hlen k Hk). unfold width, rng in Hlen. fold (V k) in Hl. unfold len in Hl. unfold kinds_at, rng in *. lia.
  - right. fold (V k) in Hz. rewrite Hz. f_equal. specialize (Hlen k Hk). unfold width, rng, kinds_at in *. lia.
Qed.

Theorem built_total : is_crash (from_components the_env the_components the_table the_algos cc values) = false.
Proof using All.
  destruct row_facts as (ks & items & Hp & Eks & Hke & Hlen & Halg).
  apply (fc_no_crash_if the_env the_components the_table the_algos env_obl gen_zero_obl cc r values Er (layout_of cc r Er) ONLY items Hp).
  intros GB GR GA Hchk.
  unfold compute_national, the_algos, the_find_algo, Algorithms.find_algo.
  destruct (assoc (cc ++ [58%N] ++ k_default) registered) as [[cls acc]|]; [|reflexivity].
  destruct Halg as (al & Hal & Hacc & Hkinds). rewrite Hal.
  assert (Eacc : al_accepts al = acc).
  { clear -Hal. unfold national_class in Hal.
    repeat match type of Hal with context [text_eqb cls ?t] => destruct (text_eqb cls t) end;
      try discriminate; inversion Hal; reflexivity. }
  rewrite Eacc.
  apply (class_total the_env the_iban_cfg nd_runs gen_nd_obl gen_alpha_obl cls acc al _ Hal).
  apply (kinds_comps cls (map (kinds_at r ks) acc)); [exact Hkinds|].
  assert (Hconf : forall k, In k the_components -> conf (kinds_at r ks k) (V k))
    by (exact (values_conf ks items Hp Eks Hlen GB GR GA Hchk)).
  clear -Hacc Hconf. induction acc as [|k acc IH]; [constructor|]. cbn [map]. constructor.
  - change (match assoc k (fc_comps1 the_components r (fc_comps0 the_env the_components r values)) with Some v => v | None => [] end)
      with (V k). apply Hconf. apply Hacc. left; reflexivity.
  - apply IH. intros k' Hk'. apply Hacc. right; exact Hk'.
Qed.

(* what from_components returns is made of capitals and digits only *)
Theorem built_alnum b :
  from_components the_env the_components the_table the_algos cc values = Ok b -> forallb in_alpha b = true.
Proof using All.
  intro Hb. destruct row_facts as (ks & items & Hp & Eks & Hke & Hlen & Halg).
  destruct (fc_result_ext the_env the_components the_table the_algos env_obl gen_zero_obl cc r values Er (layout_of cc r Er) ONLY
              b Hb (fun K => gen_shape cc r Er _ K)) as (K & HK & _ & _ & _ & _ & Hpred & _).
  apply (Hpred in_alpha eq_refl). intros k Hk Hne.
  rewrite (V2_eq the_env the_components the_table the_algos env_obl gen_zero_obl cc r values Er (layout_of cc r Er) ONLY).
  (* the guards and the structure check have passed, since the call succeeded *)
  assert (Hpass : (len (V k_bank) <= width r k_bank)%Z /\ (len (V k_branch) <= width r k_branch)%Z
                  /\ (len (V k_account) <= width r k_account)%Z /\ fc_check the_components r values comps1 = Ok tt).
  { clear -Hb Er. unfold from_components, get_spec in Hb. rewrite Er in Hb. cbn [bind] in Hb.
    destruct (r_positions r); [|discriminate]. cbv zeta in Hb.
    destruct (fc_split _ _ _ && _); [discriminate|].
    unfold V, V1, width, rng, comps1.
    destruct (Z.ltb_spec (range_length (fc_rng the_components r k_bank))
                (len (get_val k_bank (fc_comps1 the_components r (fc_comps0 the_env the_components r values))))); [discriminate|].
    destruct (Z.ltb_spec (range_length (fc_rng the_components r k_branch))
                (len (get_val k_branch (fc_comps1 the_components r (fc_comps0 the_env the_components r values))))); [discriminate|].
    destruct (Z.ltb_spec (range_length (fc_rng the_components r k_account))
                (len (get_val k_account (fc_comps1 the_components r (fc_comps0 the_env the_components r values))))); [discriminate|].
    destruct (fc_check the_components r values (fc_comps1 the_components r (fc_comps0 the_env the_components r values))) as [[]|x|x];
      try discriminate. repeat split; assumption. }
  destruct Hpass as (GB & GR & GA & Hchk).
  pose proof (values_conf ks items Hp Eks Hlen GB GR GA Hchk k Hk) as Hc.
  assert (HV : forallb in_alpha (V k) = true) by (exact (conf_alnum _ _ Hc (kinds_noKe ks k Hke))).
  destruct K as [|c0' K']; [exact HV|]. destruct (text_eqb k k_national) eqn:En; [|exact HV].
  (* the computed digits: capitals or digits by the shape of the algorithm's output *)
  apply Proofs.CleanFacts.text_eqb_eq in En. subst k.
  unfold compute_national, the_algos, the_find_algo, Algorithms.find_algo in HK.
  destruct (assoc (cc ++ [58%N] ++ k_default) registered) as [[cls acc]|] eqn:Ereg; [|discriminate].
  destruct Halg as (al & Hal & _ & _). rewrite Hal in HK.
  destruct (class_width cls) as [w|] eqn:Hw.
  - exact (proj2 (national_class_shape _ _ _ _ _ _ _ _ w Hal HK Hw)).
  - (* no width: the country has no check-digit field (shape obligation), contradiction with the non-empty range *)
    pose proof (find_row_in _ _ _ Er) as [Hin Ecc].
    pose proof gen_shape_obl as S. rewrite forallb_forall in S. specialize (S r Hin). unfold shape_row_ok in S.
    rewrite Ecc, Ereg, Hal, Hw in S. rewrite orb_false_r in S. unfold rng in S. congruence.
Qed.
End Row.

Theorem gen_generate_total : forall national cc bank account branch c,
  generate national cc bank account branch <> Crash c.
Proof.
  intros national cc bank account branch c. unfold generate, iban_generate.
  destruct (find_row the_table cc) as [r|] eqn:Er;
    [|rewrite (fc_unknown_country _ _ _ _ _ _ Er); discriminate].
  pose proof (built_total cc r (generate_values bank account branch) Er (only_three cc r bank account branch Er)) as Hnc.
  destruct (from_components the_env the_components the_table the_algos cc (generate_values bank account branch)) as [b|x|x] eqn:Eb;
    [|discriminate|discriminate]. cbn [bind].
  pose proof (built_alnum cc r (generate_values bank account branch) Er (only_three cc r bank account branch Er) b Eb) as Hb.
  destruct (IbanTheorems.row_facts the_iban_cfg the_table table_obl cc r Er) as (c1 & c2 & kds & Ecc & U1 & U2 & _).
  unfold iban_from_bban, iso7064_compute, concat_text. cbn [concat]. rewrite app_nil_r.
  rewrite (numerify_nonempty the_iban_cfg gen_alpha_obl) by (subst cc; destruct b; discriminate).
  assert (Ha : forallb in_alpha (b ++ cc) = true).
  { rewrite forallb_app, Hb. subst cc. cbn [forallb]. unfold in_alpha. rewrite U1, U2, !orb_true_r. reflexivity. }
  rewrite Ha. cbn [bind].
  apply (iban_total the_env the_iban_cfg the_table national env_obl env_alpha_obl cfg_obl table_obl
           gen_guard_obl gen_chars_obl gen_strict_obl).
Qed.
