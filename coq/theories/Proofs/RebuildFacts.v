(* Reading the components off a structurally conforming BBAN and building a BBAN from them again gives the same
   text at every component's position (C09, second half). *)
From Coq Require Import Lia ZArith List Bool.
From Schwifty Require Import Lib.Base Lib.Lit Model.Clean Model.Data Model.Bban Spec.Iso13616 Spec.RegistrySpec.
From Schwifty Require Import Proofs.CleanFacts Proofs.DecompFacts Proofs.PlaceFacts.
Import ListNotations.

(* ---- structure classes ---------------------------------------------------------------------------------------- *)
Lemma position_kinds_flat items : forall ks, position_kinds items = Some ks ->
  ks = flat_map (fun it => repeat (it_kind it) (N.to_nat (it_count it))) items.
Proof.
  induction items as [|it items IH]; intros ks H; cbn [position_kinds] in H.
  - inversion H. reflexivity.
  - destruct (it_fixed it); [|discriminate]. destruct (position_kinds items) as [ks'|]; [|discriminate].
    inversion H. cbn [flat_map]. f_equal. apply IH. reflexivity.
Qed.

Lemma kind_ok_class k c : kind_ok k c = true -> mem c (class_chars k) = true.
Proof.
  intro H.
  assert (Hc : (c < 128)%N).
  { destruct k; cbn [kind_ok] in H; unfold is_ascii_digit, is_ascii_upper, c0, c9, cA, cZ in H;
      rewrite ?orb_true_iff, ?andb_true_iff, ?N.leb_le, ?N.eqb_eq in H; lia. }
  assert (F : forallb (fun c => implb (kind_ok k c) (mem c (class_chars k))) ascii_cps = true)
    by (destruct k; vm_compute; reflexivity).
  rewrite forallb_forall in F. specialize (F c (in_ascii_cps c Hc)). rewrite H in F. exact F.
Qed.

Lemma conforms_all_in_class : forall ks b, conforms ks b = true -> all_in_class ks b = true.
Proof.
  induction ks as [|k ks IH]; intros [|c b] H; cbn [conforms all_in_class] in *; try reflexivity; try discriminate.
  apply andb_true_iff in H as [H1 H2]. rewrite (kind_ok_class k c H1), (IH b H2). reflexivity.
Qed.

Lemma conforms_skipn : forall m ks b, conforms ks b = true -> conforms (skipn m ks) (skipn m b) = true.
Proof.
  induction m as [|m IH]; intros ks b H; [exact H|].
  destruct ks as [|k ks], b as [|c b]; cbn [conforms skipn] in *; try reflexivity; try discriminate.
  apply andb_true_iff in H as [_ H]. apply IH. exact H.
Qed.

Lemma all_in_class_firstn : forall n ks b, all_in_class ks b = true -> all_in_class (firstn n ks) (firstn n b) = true.
Proof.
  induction n as [|n IH]; intros ks b H; [reflexivity|].
  destruct ks as [|k ks], b as [|c b]; cbn [all_in_class firstn] in *; try reflexivity.
  apply andb_true_iff in H as [H1 H2]. rewrite H1, (IH ks b H2). reflexivity.
Qed.

Lemma conforms_length : forall ks b, conforms ks b = true -> List.length ks = List.length b.
Proof.
  induction ks as [|k ks IH]; intros [|c b] H; cbn [conforms] in H; try reflexivity; try discriminate.
  apply andb_true_iff in H as [_ H]. cbn [List.length]. f_equal. apply IH. exact H.
Qed.

(* a slice of a conforming BBAN passes bban._matches_structure for that range *)
Lemma slice_matches (ks : list kind) (b : text) (p : Z * Z) :
  conforms ks b = true -> (0 <= fst p <= snd p)%Z -> (snd p <= len b)%Z ->
  all_in_class (py_slice_list ks (fst p) (snd p)) (get_slice b (fst p) (Some (snd p))) = true.
Proof.
  intros Hc H1 H2. rewrite get_slice_cutn by assumption. unfold cutn, py_slice_list.
  pose proof (conforms_length ks b Hc) as Hl. unfold len in H2. unfold norm_idx.
  replace (fst p <? 0)%Z with false by lia. replace (snd p <? 0)%Z with false by lia.
  replace (Z.min (fst p) (Z.of_nat (List.length ks))) with (fst p) by lia.
  replace (Z.min (snd p) (Z.of_nat (List.length ks))) with (snd p) by lia.
  replace (Z.to_nat (snd p - fst p)) with (Z.to_nat (snd p) - Z.to_nat (fst p)) by lia.
  apply all_in_class_firstn, conforms_all_in_class, conforms_skipn. exact Hc.
Qed.

Section Rebuild.
Variable e : env.
Variable components : list text.
Variable T : table.
Variable find_algo : text -> text -> option algo.
Hypothesis WF : env_wf e = true.
Hypothesis ZERO : clean_char e c0 = true.
Variable cc : text.
Variable r : row.
Variable ps : list (text * (Z * Z)).
Variable b : text.
Hypothesis Er : find_row T cc = Some r.
Hypothesis Eps : r_positions r = Some ps.
Hypothesis LAY : fc_layout_ok components r = true.
Hypothesis Hconf : conforms_row r b = true.
Hypothesis Hcl : cleaned e b = true.

Let L := r_bban_length r.
Let rng := fc_rng components r.
Let wd k := range_length (rng k).
Definition rb_comp (k : text) : text := get_slice b (fst (rng k)) (Some (snd (rng k))).
Definition rb_values : list (text * text) := map (fun k => (k, rb_comp k)) components.

(* the country's check-digit computation, run on the components read off b, succeeds and - where its result is
   written into a field - returns what b holds there  (for a nationally valid b: see GenerateFacts) *)
Hypothesis HNAT : forall al, find_algo cc k_default = Some al ->
  (forall k, In k (al_accepts al) -> In k components) /\
  exists K, al_compute al (map rb_comp (al_accepts al)) = Ok K /\
    (K = [] \/ range_is_empty (rng k_national) = true \/ K = rb_comp k_national).

Lemma rb_len_b : len b = L.
Proof using All.
  pose proof Hconf as Hc. unfold conforms_row in Hc. destruct (row_kinds r); [|discriminate].
  apply andb_true_iff in Hc as [H _]. apply Z.eqb_eq. exact H.
Qed.

Lemma rb_range k : In k components -> (0 <= fst (rng k) <= snd (rng k))%Z /\ (snd (rng k) <= len b)%Z.
Proof using All.
  intro Hk. pose proof LAY as LAY'. unfold fc_layout_ok in LAY'. fold rng L in LAY'.
  repeat (apply andb_true_iff in LAY' as [LAY' ?]).
  match goal with H : forallb (fun c => range_in _ _) _ = true |- _ => rewrite forallb_forall in H; specialize (H k Hk);
    apply range_in_spec in H end.
  rewrite rb_len_b. assumption.
Qed.

Lemma rb_comp_len k : In k components -> len (rb_comp k) = wd k.
Proof using All.
  intro Hk. destruct (rb_range k Hk) as [H1 H2]. unfold rb_comp. rewrite get_slice_cutn by assumption.
  unfold cutn, len, wd, range_length. rewrite firstn_length, skipn_length. unfold len in H2. lia.
Qed.

Lemma rb_comp_cleaned k : In k components -> cleaned e (rb_comp k) = true.
Proof using All.
  intro Hk. destruct (rb_range k Hk) as [H1 H2]. unfold rb_comp. rewrite get_slice_cutn by assumption.
  unfold cutn. apply cleaned_firstn, cleaned_skipn. exact Hcl.
Qed.

Lemma rb_get k : In k components -> get_val k rb_values = rb_comp k.
Proof. intro Hk. unfold rb_values. apply get_val_map. exact Hk. Qed.

Lemma rb_G k : In k components -> zfill (clean e (get_val k rb_values)) (wd k) = rb_comp k.
Proof using All.
  intro Hk. rewrite (rb_get k Hk), (cleaned_fix e _ (rb_comp_cleaned k Hk)). unfold zfill.
  rewrite (rb_comp_len k Hk), Z.leb_refl. reflexivity.
Qed.

Lemma rb_only : forall k, In k components ->
  text_eqb k k_bank = false -> text_eqb k k_branch = false -> text_eqb k k_account = false ->
  (len (clean e (get_val k rb_values)) <= range_length (fc_rng components r k))%Z.
Proof using All.
  intros k Hk _ _ _. rewrite (rb_get k Hk), (cleaned_fix e _ (rb_comp_cleaned k Hk)).
  fold rng. fold (wd k). rewrite (rb_comp_len k Hk). lia.
Qed.

Let comps0 := fc_comps0 e components r rb_values.

Lemma rb_comps0 : comps0 = map (fun c => (c, rb_comp c)) components.
Proof using All.
  unfold comps0. rewrite (comps0_map e components T find_algo WF ZERO cc r rb_values Er LAY rb_only).
  apply map_ext_in. intros c Hc. f_equal. apply rb_G. exact Hc.
Qed.

Lemma rb_nosplit : fc_split components r comps0 = false.
Proof using All.
  destruct (fc_split components r comps0) eqn:E; [|reflexivity]. exfalso.
  apply (split_spec e components T find_algo WF ZERO cc r rb_values Er LAY rb_only) in E as [Hne Hl].
  destruct (lay_facts e components T find_algo WF ZERO cc r rb_values Er LAY rb_only) as (_ & _ & _ & _ & Hb & _).
  fold rng in Hne, Hl. fold (wd k_branch) in Hne. fold (wd k_bank) (wd k_branch) in Hl.
  rewrite (rb_G k_bank Hb), (rb_comp_len _ Hb) in Hl. lia.
Qed.

Lemma rb_comps1 : fc_comps1 components r comps0 = map (fun c => (c, rb_comp c)) components.
Proof using All. unfold fc_comps1. rewrite rb_nosplit. exact rb_comps0. Qed.

Lemma rb_check : forall l, (forall k, In k l -> In k components) ->
  fc_check components r rb_values (map (fun c => (c, rb_comp c)) l) = Ok tt.
Proof using All.
  induction l as [|k l IH]; intro Hin; [reflexivity|]. cbn [map fc_check].
  assert (Hk : In k components) by (apply Hin; left; reflexivity).
  assert (Hm : matches_structure r (fc_rng components r k) (rb_comp k) = Ok true).
  { destruct (rb_range k Hk) as [H1 H2].
    unfold matches_structure. pose proof Hconf as Hc. unfold conforms_row, row_kinds in Hc.
    destruct (parse_structure (r_bban_spec r)) as [items|]; [|discriminate].
    destruct (position_kinds items) as [ks|] eqn:Ek; [|discriminate].
    apply andb_true_iff in Hc as [_ Hc]. rewrite <- (position_kinds_flat items ks Ek).
    f_equal. apply slice_matches; assumption. }
  destruct (text_eqb k k_bank || text_eqb k k_branch || text_eqb k k_account || nonempty_text (get_val k rb_values)).
  - rewrite Hm. cbn [bind]. apply IH. intros k' Hk'. apply Hin. right. exact Hk'.
  - cbn [bind]. apply IH. intros k' Hk'. apply Hin. right. exact Hk'.
Qed.

Lemma rb_compute :
  exists K, compute_national find_algo cc (fc_comps1 components r comps0) = Ok K /\
    (K = [] \/ range_is_empty (rng k_national) = true \/ K = rb_comp k_national).
Proof using All.
  pose proof rb_comps1 as E1. pose proof HNAT as HN.
  unfold compute_national. destruct (find_algo cc k_default) as [al|];
    [|exists []; split; [reflexivity|left; reflexivity]].
  destruct (HN al eq_refl) as (Hacc & K & HK & Hcase). exists K. split; [|exact Hcase].
  rewrite <- HK. f_equal. apply map_ext_in. intros k Hk. rewrite E1.
  change (match assoc k (map (fun c => (c, rb_comp c)) components) with Some v => v | None => [] end)
    with (get_val k (map (fun c => (c, rb_comp c)) components)).
  apply get_val_map. apply Hacc. exact Hk.
Qed.

Theorem rebuild :
  exists b', from_components e components T find_algo cc rb_values = Ok b' /\ len b' = len b /\
    forall k, In k components -> get_slice b' (fst (rng k)) (Some (snd (rng k))) = rb_comp k.
Proof using All.
  destruct rb_compute as (K & HK & Hcase).
  destruct (lay_facts e components T find_algo WF ZERO cc r rb_values Er LAY rb_only)
    as (_ & _ & _ & _ & Hb & Hbr & Hac & Hn & _).
  assert (Hfc : from_components e components T find_algo cc rb_values
                = Ok (clean e (fc_place components r (fc_comps2 K (fc_comps1 components r comps0))))).
  { unfold from_components, get_spec. rewrite Er. cbn [bind]. rewrite Eps. cbv zeta.
    change (fc_comps0 e components r rb_values) with comps0. rewrite rb_nosplit. cbn [andb].
    rewrite rb_comps1. rewrite !(get_val_map rb_comp) by assumption.
    fold rng. fold (wd k_bank) (wd k_branch) (wd k_account).
    rewrite !rb_comp_len by assumption. rewrite !Z.ltb_irrefl.
    rewrite (rb_check components (fun k H => H)). cbn [bind].
    rewrite <- rb_comps1. rewrite HK. reflexivity. }
  eexists. split; [exact Hfc|].
  assert (HKshape : forall K', compute_national find_algo cc (fc_comps1 components r (fc_comps0 e components r rb_values)) = Ok K' ->
            K' = [] \/ range_is_empty (fc_rng components r k_national) = true
            \/ (cleaned e K' = true /\ len K' = range_length (fc_rng components r k_national))).
  { intros K' HK'. change (fc_comps0 e components r rb_values) with comps0 in HK'. rewrite HK in HK'.
    inversion HK'; subst K'. destruct Hcase as [H0|[H0|H0]]; [left; exact H0|right; left; exact H0|right; right].
    rewrite H0. split; [apply rb_comp_cleaned; exact Hn|apply rb_comp_len; exact Hn]. }
  destruct (fc_result e components T find_algo WF ZERO cc r rb_values Er LAY rb_only _ Hfc HKshape)
    as (K2 & HK2 & Hlen & _ & _ & Hget).
  change (fc_comps0 e components r rb_values) with comps0 in HK2. rewrite HK in HK2. inversion HK2; subst K2.
  split; [rewrite Hlen; symmetry; exact rb_len_b|].
  intros k Hk. destruct (range_is_empty (rng k)) eqn:Ee.
  - apply empty_range in Ee. unfold rb_comp. rewrite Ee. cbn [fst snd]. rewrite !get_slice_00. reflexivity.
  - destruct (Hget k Hk Ee) as [Hg _]. fold rng in Hg. rewrite Hg.
    rewrite (V2_eq e components T find_algo WF ZERO cc r rb_values Er LAY rb_only).
    assert (HV1 : V1 e components r rb_values k = rb_comp k).
    { unfold V1. change (fc_comps0 e components r rb_values) with comps0. rewrite rb_comps1. apply get_val_map. exact Hk. }
    destruct K as [|c K']; [exact HV1|]. destruct (text_eqb k k_national) eqn:En; [|exact HV1].
    apply text_eqb_eq in En. subst k. destruct Hcase as [H0|[H0|H0]]; [discriminate|fold rng in Ee; congruence|exact H0].
Qed.
End Rebuild.
