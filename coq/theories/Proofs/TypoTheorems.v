(* C03 at the level of the ISO predicate: a valid IBAN with one same-kind substitution after the
   country code, or one adjacent same-kind transposition anywhere, is not valid. *)
From Coq Require Import Lia ZifyBool ZifyN.
From Schwifty Require Import Lib.Base Lib.Regex Model.Clean Model.Data Model.Iban Spec.Iso13616.
From Schwifty Require Import Proofs.CleanFacts Proofs.NumFacts Proofs.RunsFacts Proofs.IbanFacts Proofs.IbanTheorems Proofs.TypoFacts.

Definition rearr (s : text) : text := skipn 4 s ++ firstn 4 s.

Lemma iso_ok_inv T s :
  iso_ok T s = true ->
  exists c1 c2 d1 d2 b r, s = c1 :: c2 :: d1 :: d2 :: b /\ find_row T [c1; c2] = Some r
    /\ is_ascii_digit d1 = true /\ is_ascii_digit d2 = true
    /\ (iso_num (rearr s) mod 97 = 1)%Z.
Proof.
  intro H. unfold iso_ok in H. destruct s as [|c1 [|c2 [|d1 [|d2 b]]]]; try discriminate.
  destruct (find_row T [c1; c2]) as [r|] eqn:Er; [|discriminate].
  apply andb_true_iff in H as [H _]. apply andb_true_iff in H as [H Hm].
  apply andb_true_iff in H as [H _]. apply andb_true_iff in H as [D1 D2].
  apply Z.eqb_eq in Hm. exists c1, c2, d1, d2, b, r. unfold rearr. cbn [skipn firstn]. auto.
Qed.

Lemma iso_ok_len T s : iso_ok T s = true -> 4 <= length s.
Proof. intro H. apply iso_ok_inv in H as (c1 & c2 & d1 & d2 & b & r & -> & _). simpl. lia. Qed.

(* where a text position lands in the rearranged string *)
Lemma rearr_subst p q (y : N) :
  2 <= length p -> 4 <= length (p ++ y :: q) ->
  exists u v, forall z, rearr (p ++ z :: q) = u ++ z :: v.
Proof.
  intros Hp Hl. destruct p as [|p1 [|p2 [|p3 [|p4 p]]]]; try (simpl in Hp; lia).
  - destruct q as [|q1 q]; [simpl in Hl; lia|]. exists (q ++ [p1; p2]), [q1]. intro z.
    unfold rearr. cbn [app skipn firstn]. rewrite <- app_assoc. reflexivity.
  - exists (q ++ [p1; p2; p3]), []. intro z. unfold rearr. cbn [app skipn firstn].
    rewrite <- app_assoc. reflexivity.
  - exists p, (q ++ [p1; p2; p3; p4]). intro z. unfold rearr. cbn [app skipn firstn].
    rewrite <- app_assoc. reflexivity.
Qed.

Lemma rearr_swap p q :
  length p <> 1 -> length p <> 3 ->
  exists u v, forall z1 z2 : N, rearr (p ++ z1 :: z2 :: q) = u ++ z1 :: z2 :: v.
Proof.
  intros H1 H3. destruct p as [|p1 [|p2 [|p3 [|p4 p]]]]; try (simpl in *; lia).
  - destruct q as [|q1 [|q2 q]].
    + exists [], []. reflexivity.
    + exists [], [q1]. reflexivity.
    + exists q, [q1; q2]. intros. unfold rearr. cbn [app skipn firstn]. reflexivity.
  - exists (q ++ [p1; p2]), []. intros. unfold rearr. cbn [app skipn firstn]. rewrite <- app_assoc. reflexivity.
  - exists p, (q ++ [p1; p2; p3; p4]). intros. unfold rearr. cbn [app skipn firstn]. rewrite <- app_assoc. reflexivity.
Qed.

Definition max_len_ok (T : table) : bool := forallb (fun r => Z.leb (r_iban_length r) 34) T.

Section Typo.
Variable e : env.
Variable cfg : iban_cfg.
Variable T : table.
Hypothesis WF : env_wf e = true.
Hypothesis EA : env_alpha_ok e = true.
Hypothesis CFG : cfg_ok cfg = true.
Hypothesis TAB : forallb (row_ok (ic_format_method cfg)) T = true.
Hypothesis MAXLEN : max_len_ok T = true.

Theorem subst_rejected p y q x :
  2 <= length p -> iso_ok T (p ++ y :: q) = true ->
  same_kind x y = true -> x <> y ->
  iso_ok T (p ++ x :: q) = false.
Proof using All.
  intros Hp Hs Hk Hne. destruct (iso_ok T (p ++ x :: q)) eqn:Hs'; [exfalso|reflexivity].
  pose proof (iso_ok_len _ _ Hs) as Hl.
  apply iso_ok_inv in Hs as (c1 & c2 & d1 & d2 & b & r & _ & _ & _ & _ & Hm).
  apply iso_ok_inv in Hs' as (c1' & c2' & d1' & d2' & b' & r' & _ & _ & _ & _ & Hm').
  destruct (rearr_subst p q y Hp Hl) as (u & v & Hr). rewrite Hr in Hm, Hm'.
  exact (subst_detected _ _ _ _ Hk Hne Hm Hm').
Qed.

Lemma valid_len_bound s : iso_ok T s = true -> length s <= 34.
Proof using All.
  intro H. destruct (accepted_alphabet e cfg T (fun _ _ => Ok true) WF EA CFG TAB s H) as [_ (r & Er & Hl)].
  unfold max_len_ok in MAXLEN. rewrite forallb_forall in MAXLEN.
  apply find_row_in in Er as [Hin _]. specialize (MAXLEN r Hin). apply Z.leb_le in MAXLEN.
  unfold len in Hl. lia.
Qed.

Theorem swap_rejected p a b q :
  iso_ok T (p ++ a :: b :: q) = true ->
  same_kind a b = true -> a <> b ->
  iso_ok T (p ++ b :: a :: q) = false.
Proof using All.
  intros Hs Hk Hne. destruct (iso_ok T (p ++ b :: a :: q)) eqn:Hs'; [exfalso|reflexivity].
  pose proof (valid_len_bound _ Hs) as Hlen.
  apply iso_ok_inv in Hs as (c1 & c2 & d1 & d2 & bb & r & Es & Er & D1 & D2 & Hm).
  apply iso_ok_inv in Hs' as (c1' & c2' & d1' & d2' & bb' & r' & Es' & Er' & D1' & D2' & Hm').
  destruct (Nat.eq_dec (length p) 1) as [L1|L1]; [|destruct (Nat.eq_dec (length p) 3) as [L3|L3]].
  - (* second letter / first check digit: never of the same kind *)
    destruct p as [|p1 [|]]; try discriminate. cbn [app] in Es. injection Es as <- <- <- Eq.
    destruct (row_facts cfg T TAB _ _ Er) as (x1 & x2 & kds & Hcc & U1 & U2 & _).
    inversion Hcc; subst x1 x2.
    unfold same_kind in Hk. unfold is_ascii_upper, is_ascii_digit, c0, c9, cA, cZ in *. lia.
  - (* the seam: second check digit / first BBAN character *)
    destruct p as [|p1 [|p2 [|p3 [|]]]]; try discriminate.
    cbn [app] in Es. injection Es as <- <- <- <- Eq.
    assert (Db : is_ascii_digit b = true).
    { unfold same_kind in Hk. unfold is_ascii_upper, is_ascii_digit, c0, c9, cA, cZ in *. lia. }
    assert (R : forall z1 z2 : N, rearr ([p1; p2; p3] ++ z1 :: z2 :: q) = z2 :: (q ++ [p1; p2; p3]) ++ [z1]).
    { intros. unfold rearr. cbn [app skipn firstn]. rewrite <- app_assoc. reflexivity. }
    rewrite R in Hm, Hm'.
    refine (seam_detected a b (q ++ [p1; p2; p3]) D2 Db Hne _ Hm Hm').
    rewrite app_length in *. simpl length in *. lia.
  - destruct (rearr_swap p q L1 L3) as (u & v & Hr). rewrite Hr in Hm, Hm'.
    exact (swap_detected _ _ _ _ Hk Hne Hm Hm').
Qed.

(* through C01 to the constructor: the mutated text is rejected by IBAN(...) *)
Theorem typo_constructor national s' :
  iso_ok T (clean e s') = false ->
  ~ exists r, iban_new e cfg T national s' false false = Ok r.
Proof using All.
  intros H Hex. apply (new_iff e cfg T national WF EA CFG TAB) in Hex. congruence.
Qed.

End Typo.
