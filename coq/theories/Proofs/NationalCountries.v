(* C06, part 3: the weighted-sum countries (PL, NO, EE, CZ/SK, IS, ES), generic in the row: the positions the
   published rule presumes are decidable obligations on the regenerated table. *)
From Coq Require Import Lia ZifyBool ZifyN.
From Schwifty Require Import Lib.Base Lib.Lit Model.Clean Model.Data Model.Iban Model.Bban Model.National Model.Algorithms Model.Lookup.
From Schwifty Require Import Spec.Iso13616 Spec.RegistrySpec Spec.NationalPublished.
From Schwifty Require Import Proofs.CleanFacts Proofs.NumFacts Proofs.IbanFacts Proofs.IbanTheorems Proofs.DecompFacts
  Proofs.NationalFacts Proofs.NationalDigits.
From Coq Require Import String.
Ltac Zify.zify_post_hook ::= Z.to_euclidean_division_equations.

(* ---- slices ---------------------------------------------------------------------------------------- *)
Lemma skipn_skipn' {A} : forall a k (l : list A), skipn k (skipn a l) = skipn (a + k) l.
Proof. induction a as [|a IH]; intros k l; simpl; [reflexivity|]. destruct l; [destruct k; reflexivity|apply IH]. Qed.

Lemma sl_glue a m e' (b : text) : a <= m -> m <= e' -> sl a m b ++ sl m e' b = sl a e' b.
Proof.
  intros H1 H2. unfold sl. replace (skipn m b) with (skipn (m - a) (skipn a b)) by (rewrite skipn_skipn'; f_equal; lia).
  replace (e' - m) with ((e' - a) - (m - a)) by lia. apply firstn_skipn_glue. lia.
Qed.

Lemma sl_length a e' (b : text) : e' <= List.length b -> List.length (sl a e' b) = e' - a.
Proof. intro H. unfold sl. rewrite firstn_length, skipn_length. lia. Qed.

Lemma sl_forallb (p : N -> bool) a e' b : forallb p b = true -> forallb p (sl a e' b) = true.
Proof.
  intro H. unfold sl.
  assert (H1 : forallb p (skipn a b) = true).
  { rewrite <- (firstn_skipn a b), forallb_app in H. apply andb_true_iff in H as [_ H]. exact H. }
  rewrite <- (firstn_skipn (e' - a) (skipn a b)), forallb_app in H1. apply andb_true_iff in H1 as [H1 _]. exact H1.
Qed.

Lemma sl_single a (b : text) : a < List.length b -> sl a (S a) b = [nth a b 0%N].
Proof.
  intro H. unfold sl. replace (S a - a) with 1 by lia.
  revert a H. induction b as [|c b IH]; intros [|a] H; simpl in *; try lia; try reflexivity.
  apply IH. lia.
Qed.

Lemma sl_all (b : text) : sl 0 (List.length b) b = b.
Proof. unfold sl. cbn [skipn]. rewrite Nat.sub_0_r. apply firstn_all. Qed.

Lemma nth_digit a b : forallb is_ascii_digit b = true -> a < List.length b -> is_ascii_digit (nth a b 0%N) = true.
Proof. intros H Ha. rewrite forallb_forall in H. apply H. apply nth_In. exact Ha. Qed.

(* a component of the row sits at [a, e) *)
Definition pos_is (r : row) (c : text) (a e' : nat) : bool :=
  Z.eqb (fst (position_range r c)) (Z.of_nat a) && Z.eqb (snd (position_range r c)) (Z.of_nat e') && Nat.leb a e'.

Lemma comp_sl r c a e' (b : text) :
  pos_is r c a e' = true -> e' <= List.length b ->
  (let p := position_range r c in get_slice b (fst p) (Some (snd p))) = sl a e' b.
Proof.
  intros H He. unfold pos_is in H. apply andb_true_iff in H as [H Hle]. apply andb_true_iff in H as [Hs Hee].
  apply Z.eqb_eq in Hs, Hee. apply Nat.leb_le in Hle. cbv zeta. rewrite Hs, Hee.
  rewrite get_slice_sub by (unfold len; lia). unfold sl. f_equal; [lia|f_equal; lia].
Qed.

(* ---- reduction to the algorithm's validate -------------------------------------------------------- *)
Section Reduce.
Variable e : env.
Variable cfg : iban_cfg.
Variable T : table.
Variable R : banks.
Variable nd : list (N * N).
Variable registered : list (text * (text * list text)).
Variable german : text -> list text -> option algo.
Hypothesis ONLYDE : algo_only_for (tx "DE") R = true.

Lemma national_reduce (cls : string) cc r accepts b al :
  text_eqb cc (tx "DE") = false -> find_row T cc = Some r ->
  registered_as registered cc cls = Some accepts ->
  national_class e nd (ic_alphabet cfg) (s2t cls) accepts = Some al ->
  validate_national T (the_find_algo e cfg nd registered german) (bank_code_entries R) cc b =
  (let comp c := let p := position_range r c in get_slice b (fst p) (Some (snd p)) in
   do ok <- al_validate al (map comp (al_accepts al)) (comp k_national);
   if ok then Ok true else Err EInvalidBBANChecksum).
Proof using ONLYDE.
  intros Hde Er Hreg Hcls.
  rewrite (validate_national_default T _ R ONLYDE cc r b Hde Er).
  unfold the_find_algo, find_algo. unfold registered_as in Hreg.
  destruct (assoc (cc ++ [58%N] ++ k_default) registered) as [[c acc]|]; [|discriminate].
  destruct (text_eqb c (s2t cls)) eqn:Ecls; [|discriminate].
  inversion Hreg; subst acc. apply text_eqb_eq in Ecls. subst c. rewrite Hcls. reflexivity.
Qed.
End Reduce.

(* ---- Poland ------------------------------------------------------------------------------------------ *)
Section PL.
Variable nd : list (N * N).
Hypothesis ND : nd_ok nd = true.

Lemma pl_validate (b : text) :
  8 <= List.length b -> forallb is_ascii_digit b = true ->
  default_validate (pl_compute nd) [sl 0 3 b; sl 3 7 b] (sl 7 8 b) = Ok (pub_pl b).
Proof using ND.
  intros Hl Hd. unfold default_validate, pl_compute, concat_text. cbn [List.concat]. rewrite app_nil_r.
  rewrite sl_glue by lia.
  rewrite (weighted_digits nd ND) by (apply sl_forallb; exact Hd). cbn [bind].
  rewrite sl_single by lia. set (k := nth 7 b 0%N).
  assert (Hk : is_ascii_digit k = true) by (apply nth_digit; [exact Hd|lia]).
  set (S7 := wsum [3; 9; 7; 1; 3; 9; 7]%Z (sl 0 7 b)).
  set (d := (S7 mod 10)%Z).
  assert (Hv : (0 <= (if (d =? 0)%Z then d else 10 - d) <= 99)%Z) by (unfold d; destruct (S7 mod 10 =? 0)%Z eqn:E; lia).
  rewrite (str_eq_digit _ k Hv Hk). f_equal.
  unfold pub_pl. rewrite <- (sl_glue 0 7 8 b) by lia. rewrite sl_single by lia. fold k.
  change [3; 9; 7; 1; 3; 9; 7; 1]%Z with ([3; 9; 7; 1; 3; 9; 7] ++ [1])%Z.
  rewrite wsum_app by (rewrite sl_length by lia; reflexivity). fold S7. cbn [wsum].
  unfold dv in *. unfold is_ascii_digit, c0, c9 in Hk. unfold d. destruct (S7 mod 10 =? 0)%Z eqn:E; lia.
Qed.
End PL.

(* ---- more slice helpers ------------------------------------------------------------------------------- *)
Lemma py_slice_to_firstn (s : text) k : k <= List.length s -> py_slice_to s (Z.of_nat k) = firstn k s.
Proof.
  intro H. unfold py_slice_to, py_slice, norm_idx, len.
  replace (0 <? 0)%Z with false by lia. replace (Z.of_nat k <? 0)%Z with false by lia.
  replace (Z.min 0 (Z.of_nat (List.length s))) with 0%Z by lia.
  replace (Z.min (Z.of_nat k) (Z.of_nat (List.length s))) with (Z.of_nat k) by lia.
  cbn [Z.to_nat skipn]. f_equal. lia.
Qed.

Lemma py_slice_from_skipn (s : text) k : k <= List.length s -> py_slice_from s (Z.of_nat k) = skipn k s.
Proof.
  intro H. unfold py_slice_from, norm_idx, len. replace (Z.of_nat k <? 0)%Z with false by lia.
  replace (Z.min (Z.of_nat k) (Z.of_nat (List.length s))) with (Z.of_nat k) by lia. f_equal. lia.
Qed.

Lemma py_index_nth (s : text) k : k < List.length s -> py_index s (Z.of_nat k) = Ok (nth k s 0%N).
Proof.
  intro H. unfold py_index, len. replace (Z.of_nat k <? 0)%Z with false by lia.
  replace ((Z.of_nat k <? 0) || (Z.of_nat (List.length s) <=? Z.of_nat k))%Z with false by lia.
  rewrite Nat2Z.id. destruct (nth_error s k) eqn:E.
  - rewrite (nth_error_nth _ _ _ E). reflexivity.
  - apply nth_error_None in E. lia.
Qed.

Lemma sl_firstn a e' k (b : text) : a + k <= e' -> firstn k (sl a e' b) = sl a (a + k) b.
Proof. intro H. unfold sl. rewrite firstn_firstn. f_equal. lia. Qed.

Lemma sl_skipn a e' k (b : text) : a + k <= e' -> skipn k (sl a e' b) = sl (a + k) e' b.
Proof.
  intro H. unfold sl. rewrite skipn_firstn_comm, skipn_skipn'. f_equal. lia.
Qed.

Lemma nth_firstn' {A} (d : A) : forall (l : list A) i n, i < n -> nth i (firstn n l) d = nth i l d.
Proof.
  induction l as [|x l IH]; intros [|i] [|n] H; simpl; try reflexivity; try lia. apply IH. lia.
Qed.

Lemma nth_skipn' {A} (d : A) : forall a (l : list A) i, nth i (skipn a l) d = nth (a + i) l d.
Proof.
  induction a as [|a IH]; intros l i; simpl; [reflexivity|]. destruct l; [destruct i; reflexivity|apply IH].
Qed.

Lemma sl_nth a e' i (b : text) : a + i < e' -> nth i (sl a e' b) 0%N = nth (a + i) b 0%N.
Proof. intro H. unfold sl. rewrite nth_firstn' by lia. apply nth_skipn'. Qed.

(* ---- Norway ----------------------------------------------------------------------------------------- *)
Section NO.
Variable nd : list (N * N).
Hypothesis ND : nd_ok nd = true.

Lemma no_validate (b : text) :
  List.length b = 11 -> forallb is_ascii_digit b = true ->
  exists ex, default_validate (no_compute nd) [sl 0 4 b; sl 4 10 b] (sl 10 11 b)
             = if pub_no b then Ok true else (match ex with Some x => Err x | None => Ok false end).
Proof using ND.
  intros Hl Hd. unfold default_validate, no_compute.
  change 2%Z with (Z.of_nat 2).
  rewrite py_slice_to_firstn by (rewrite sl_length by lia; lia).
  rewrite py_slice_from_skipn by (rewrite sl_length by lia; lia).
  rewrite (sl_firstn 4 10 2) by lia. rewrite (sl_skipn 4 10 2) by lia. cbn [Nat.add].
  unfold concat_text. cbn [List.concat]. rewrite app_nil_r, (sl_glue 0 4 10) by lia.
  unfold pub_no. change (tx "00") with [48%N; 48%N].
  set (value := if text_eqb (sl 4 6 b) [48%N; 48%N] then sl 6 10 b else sl 0 10 b).
  assert (Hvd : forallb is_ascii_digit value = true) by (unfold value; destruct (text_eqb _ _); apply sl_forallb; exact Hd).
  rewrite (weighted_sum_digits nd ND _ _ Hvd). cbn [bind]. change no_weights with no_w.
  set (S := wsum no_w value). rewrite sl_single by lia. set (k := nth 10 b 0%N).
  assert (Hk : is_ascii_digit k = true) by (apply nth_digit; [exact Hd|lia]).
  destruct (Z.eqb_spec (11 - S mod 11) 10) as [H10|H10].
  - exists (Some EInvalidAccountCode). cbn [bind].
    replace ((S + dv k) mod 11 =? 0)%Z with false; [reflexivity|].
    unfold dv. unfold is_ascii_digit, c0, c9 in Hk. lia.
  - exists None. cbn [bind].
    assert (Hv : (0 <= (11 - S mod 11) mod 11 <= 99)%Z) by lia.
    rewrite (str_eq_digit _ k Hv Hk).
    destruct ((S + dv k) mod 11 =? 0)%Z eqn:E.
    + f_equal. unfold dv in *. unfold is_ascii_digit, c0, c9 in Hk. lia.
    + f_equal. unfold dv in *. unfold is_ascii_digit, c0, c9 in Hk. lia.
Qed.
End NO.

(* ---- Estonia ------------------------------------------------------------------------------------------ *)
Lemma cycle_restart {A} (ws : list A) n : cycle_to ws [] n = cycle_to ws ws n.
Proof. destruct n; [reflexivity|]. destruct ws; reflexivity. Qed.

Lemma w731_cycle : forall v k,
  wsum (cycle_to [7; 3; 1]%Z (skipn (Nat.modulo k 3) [7; 3; 1]%Z) (List.length v)) v = w731 k v.
Proof.
  induction v as [|c v IH]; intro k; [reflexivity|].
  cbn [List.length w731]. specialize (IH (S k)).
  assert (Hm : Nat.modulo k 3 = 0 /\ Nat.modulo (S k) 3 = 1 \/ Nat.modulo k 3 = 1 /\ Nat.modulo (S k) 3 = 2
               \/ Nat.modulo k 3 = 2 /\ Nat.modulo (S k) 3 = 0).
  { pose proof (Nat.mod_upper_bound k 3 ltac:(lia)). pose proof (Nat.div_mod k 3 ltac:(lia)).
    pose proof (Nat.mod_upper_bound (S k) 3 ltac:(lia)). pose proof (Nat.div_mod (S k) 3 ltac:(lia)). lia. }
  destruct Hm as [[H0 H1]|[[H0 H1]|[H0 H1]]]; rewrite H0; rewrite H1 in IH; cbn [skipn cycle_to wsum nth] in *.
  - rewrite IH. reflexivity.
  - rewrite IH. reflexivity.
  - rewrite <- IH. rewrite <- cycle_restart. destruct (List.length v); reflexivity.
Qed.

Section EE.
Variable nd : list (N * N).
Hypothesis ND : nd_ok nd = true.

Lemma ee_validate (b : text) :
  List.length b = 16 -> forallb is_ascii_digit b = true ->
  default_validate (ee_compute nd) [sl 2 4 b; sl 4 15 b] (sl 15 16 b) = Ok (pub_ee b).
Proof using ND.
  intros Hl Hd. unfold default_validate, ee_compute, concat_text. cbn [List.concat]. rewrite app_nil_r, (sl_glue 2 4 15) by lia.
  set (v := rev (sl 2 15 b)).
  assert (Hvd : forallb is_ascii_digit v = true).
  { unfold v. rewrite forallb_forall. intros c Hc. apply in_rev in Hc.
    pose proof (sl_forallb is_ascii_digit 2 15 b Hd) as H. rewrite forallb_forall in H. apply H. exact Hc. }
  rewrite (weighted_digits nd ND _ _ _ Hvd). cbn [bind].
  rewrite cycle_restart. change (cycle_to [7; 3; 1]%Z [7; 3; 1]%Z) with (cycle_to [7; 3; 1]%Z (skipn (Nat.modulo 0 3) [7; 3; 1]%Z)). rewrite w731_cycle.
  rewrite sl_single by lia. set (k := nth 15 b 0%N).
  assert (Hk : is_ascii_digit k = true) by (apply nth_digit; [exact Hd|lia]).
  set (d := (w731 0 v mod 10)%Z).
  assert (Hv : (0 <= (if (d =? 0)%Z then d else 10 - d) <= 99)%Z) by (unfold d; destruct (_ =? 0)%Z; lia).
  rewrite (str_eq_digit _ k Hv Hk). f_equal. unfold pub_ee. fold v. fold k.
  unfold dv in *. unfold is_ascii_digit, c0, c9 in Hk. unfold d. destruct (w731 0 v mod 10 =? 0)%Z eqn:E; lia.
Qed.
End EE.

(* ---- Czechia / Slovakia ------------------------------------------------------------------------------- *)
Section CZ.
Variable nd : list (N * N).
Hypothesis ND : nd_ok nd = true.

Lemma cz_validate_eq (b : text) nat_digits :
  forallb is_ascii_digit b = true ->
  cz_validate nd [sl 4 10 b; sl 10 20 b] nat_digits = Ok (pub_cz b).
Proof using ND.
  intro Hd. unfold cz_validate, pub_cz.
  rewrite !(weighted_digits nd ND) by (apply sl_forallb; exact Hd). cbn [bind]. reflexivity.
Qed.
End CZ.

(* ---- Iceland ------------------------------------------------------------------------------------------ *)
Section IS.
Variable nd : list (N * N).
Hypothesis ND : nd_ok nd = true.

Lemma is_validate_eq (b : text) nat_digits :
  List.length b = 22 -> forallb is_ascii_digit b = true ->
  is_validate nd [sl 12 22 b] nat_digits = Ok (pub_is b).
Proof using ND.
  intros Hl Hd. unfold is_validate, is_compute, pub_is. set (h := sl 12 22 b).
  assert (Hh : forallb is_ascii_digit h = true) by (apply sl_forallb; exact Hd).
  assert (Hhl : List.length h = 10) by (unfold h; rewrite sl_length by lia; reflexivity).
  rewrite (weighted_digits nd ND _ _ _ Hh). cbn [bind].
  change 8%Z with (Z.of_nat 8). rewrite py_index_nth by lia. cbn [bind].
  set (x := nth 8 h 0%N). assert (Hx : is_ascii_digit x = true) by (apply nth_digit; [exact Hh|lia]).
  set (r := (wsum [3; 2; 7; 6; 5; 4; 3; 2]%Z h mod 11)%Z).
  destruct (Z.eqb_spec r 0) as [Hr|Hr].
  - rewrite (str_eq_digit r x ltac:(lia) Hx). f_equal. unfold dv in *. unfold is_ascii_digit, c0, c9 in Hx. unfold r in *. lia.
  - rewrite (str_eq_digit (11 - r) x ltac:(unfold r; lia) Hx). f_equal.
    unfold dv in *. unfold is_ascii_digit, c0, c9 in Hx. unfold r in *. lia.
Qed.
End IS.

(* ---- Spain -------------------------------------------------------------------------------------------- *)
Section ES.
Variable nd : list (N * N).
Hypothesis ND : nd_ok nd = true.

Lemma es_rec_range w : (0 <= w <= 10)%Z -> (0 <= es_reconcile (11 - w) <= 9)%Z.
Proof. intro H. unfold es_reconcile. destruct (11 - w =? 11)%Z eqn:E1; [lia|]. destruct (11 - w =? 10)%Z eqn:E2; lia. Qed.

Lemma es_validate (b : text) :
  List.length b = 20 -> forallb is_ascii_digit b = true ->
  default_validate (es_compute nd) [sl 0 4 b; sl 4 8 b; sl 10 20 b] (sl 8 10 b) = Ok (pub_es b).
Proof using ND.
  intros Hl Hd. unfold default_validate, es_compute. rewrite (sl_glue 0 4 8) by lia.
  rewrite !(weighted_digits nd ND) by (apply sl_forallb; exact Hd). cbn [bind].
  set (w1 := (wsum (skipn 2 Model.National.es_weights) (sl 0 8 b) mod 11)%Z).
  set (w2 := (wsum Model.National.es_weights (sl 10 20 b) mod 11)%Z).
  pose proof (es_rec_range w1 ltac:(unfold w1; lia)) as R1. pose proof (es_rec_range w2 ltac:(unfold w2; lia)) as R2.
  rewrite (str_one _ R1), (str_one _ R2). cbn [app].
  rewrite <- (sl_glue 8 9 10 b) by lia. rewrite !sl_single by lia. cbn [app text_eqb]. rewrite andb_true_r.
  set (k1 := nth 8 b 0%N). set (k2 := nth 9 b 0%N).
  assert (Hk1 : is_ascii_digit k1 = true) by (apply nth_digit; [exact Hd|lia]).
  assert (Hk2 : is_ascii_digit k2 = true) by (apply nth_digit; [exact Hd|lia]).
  f_equal. unfold pub_es. fold k1 k2. unfold es_digit.
  assert (E1 : wsum es_w ([48%N; 48%N] ++ sl 0 8 b) = wsum (skipn 2 Model.National.es_weights) (sl 0 8 b)).
  { cbn [app]. unfold es_w, Model.National.es_weights. cbn [wsum skipn].
    change (dv 48) with 0%Z. generalize (wsum [4; 8; 5; 10; 9; 7; 3; 6]%Z (sl 0 8 b)). intro z. lia. }
  rewrite E1. fold w1. change (wsum es_w (sl 10 20 b)) with (wsum Model.National.es_weights (sl 10 20 b)). fold w2.
  unfold es_reconcile in *. unfold dv. unfold is_ascii_digit, c0, c9 in Hk1, Hk2.
  destruct (11 - w1 =? 11)%Z eqn:A1; destruct (11 - w1 =? 10)%Z eqn:A2;
  destruct (11 - w2 =? 11)%Z eqn:B1; destruct (11 - w2 =? 10)%Z eqn:B2; lia.
Qed.
End ES.
