(* C11: an accepted IBAN decomposes losslessly; components are the published substrings. *)
From Coq Require Import Lia ZifyBool ZifyN.
From Schwifty Require Import Lib.Base Lib.Regex Model.Clean Model.Data Model.Iban Model.Bban Spec.Iso13616 Spec.RegistrySpec.
From Schwifty Require Import Proofs.CleanFacts Proofs.NumFacts Proofs.RunsFacts Proofs.IbanFacts Proofs.IbanTheorems.

Lemma get_slice_sub b s e' :
  (0 <= s <= e')%Z -> (e' <= len b)%Z ->
  get_slice b s (Some e') = firstn (Z.to_nat (e' - s)) (skipn (Z.to_nat s) b).
Proof.
  intros H1 H2. unfold get_slice. destruct (Z.ltb_spec s (len b)) as [Hlt|Hge].
  - replace (e' <=? len b)%Z with true by lia. cbn [andb]. unfold py_slice, norm_idx.
    replace (s <? 0)%Z with false by lia. replace (e' <? 0)%Z with false by lia.
    replace (Z.min s (len b)) with s by lia. replace (Z.min e' (len b)) with e' by lia. reflexivity.
  - cbn [andb]. assert (s = e') by lia. subst e'. replace (s - s)%Z with 0%Z by lia. reflexivity.
Qed.

Section Decomp.
Variable e : env.
Variable cfg : iban_cfg.
Variable T : table.
Variable national : text -> text -> outcome bool.
Variable comps : list text.
Variable find_algo : text -> text -> option algo.
Variable bank_index : text -> text -> list entry.
Hypothesis WF : env_wf e = true.
Hypothesis EA : env_alpha_ok e = true.
Hypothesis CFG : cfg_ok cfg = true.
Hypothesis TAB : forallb (row_ok (ic_format_method cfg)) T = true.
Hypothesis POS : forallb positions_wf T = true.

(* shape of an accepted IBAN *)
Lemma accepted_shape s :
  iso_ok T s = true ->
  exists c1 c2 d1 d2 b r, s = c1 :: c2 :: d1 :: d2 :: b /\ find_row T [c1; c2] = Some r
    /\ conforms_row r b = true /\ len b = r_bban_length r /\ cleaned e s = true
    /\ [d1; d2] = iso_check_digits [c1; c2] b.
Proof using All.
  intro H. pose proof H as H0. unfold iso_ok in H.
  destruct s as [|c1 [|c2 [|d1 [|d2 b]]]]; try discriminate.
  destruct (find_row T [c1; c2]) as [r|] eqn:Er; [|discriminate].
  apply andb_true_iff in H as [H _]. apply andb_true_iff in H as [H _].
  apply andb_true_iff in H as [H Hc]. apply andb_true_iff in H as [D1 D2].
  exists c1, c2, d1, d2, b, r. repeat split; auto.
  - destruct (row_facts cfg T TAB _ r Er) as (x1 & x2 & kds & _ & _ & _ & Hk & _ & Hl & _).
    unfold conforms_row in Hc. rewrite Hk in Hc. apply andb_true_iff in Hc as [Hc _]. apply Z.eqb_eq. exact Hc.
  - apply (alpha_cleaned e EA). apply (accepted_alphabet e cfg T national WF EA CFG TAB _ H0).
  - apply (iso_ok_pair e cfg T national WF EA CFG TAB c1 c2 d1 d2 b r Er Hc D1 D2). exact H0.
Qed.

(* country code + check digits + BBAN = compact form; re-assembly gives the same IBAN *)
Theorem iban_parts s :
  iso_ok T s = true ->
  iban_country_code s ++ iban_checksum_digits s ++ iban_bban e s = s
  /\ iban_from_bban e cfg T national (iban_country_code s) (iban_bban e s) false false = Ok s.
Proof using All.
  intro H. destruct (accepted_shape s H) as (c1 & c2 & d1 & d2 & b & r & -> & Er & Hc & Hl & Hcl & Hd).
  assert (Hb : cleaned e b = true) by (apply (cleaned_skipn e 4) in Hcl; exact Hcl).
  assert (Hbban : iban_bban e (c1 :: c2 :: d1 :: d2 :: b) = b).
  { unfold iban_bban. rewrite slice_bban. apply cleaned_fix. exact Hb. }
  rewrite cc_of, dd_of, Hbban. split; [reflexivity|].
  destruct (from_bban_valid e cfg T national WF EA CFG TAB [c1; c2] b r Er Hc) as [Hf _].
  rewrite Hf, <- Hd. reflexivity.
Qed.

(* every component of the BBAN is the substring at its published position, or empty *)
Theorem component_slice cc r b k :
  find_row T cc = Some r -> len b = r_bban_length r ->
  bban_component T cc b k =
  Ok (match r_positions r with
      | Some ps => match assoc k ps with
                   | Some p => firstn (Z.to_nat (snd p - fst p)) (skipn (Z.to_nat (fst p)) b)
                   | None => []
                   end
      | None => []
      end).
Proof using All.
  intros Er Hl. unfold bban_component, get_spec. rewrite Er. cbn [bind]. f_equal.
  unfold position_range.
  assert (Hempty : get_slice b 0 (Some 0%Z) = []).
  { unfold get_slice. destruct (0 <? len b)%Z; [|reflexivity]. cbn [andb].
    destruct (0 <=? len b)%Z; [|reflexivity]. unfold py_slice. rewrite Z.sub_diag. reflexivity. }
  destruct (r_positions r) as [ps|] eqn:Ep; [|exact Hempty].
  destruct (assoc k ps) as [p|] eqn:Ea; [|exact Hempty].
  rewrite forallb_forall in POS. apply find_row_in in Er as [Hin _]. specialize (POS r Hin).
  unfold positions_wf in POS. rewrite Ep in POS. apply andb_true_iff in POS as [Hr _].
  assert (Hp : range_in (r_bban_length r) p = true).
  { clear -Ea Hr. induction ps as [|[k' p'] ps IH]; [discriminate|]. cbn [assoc] in Ea. cbn [forallb] in Hr.
    apply andb_true_iff in Hr as [H1 H2]. destruct (text_eqb k k'); [inversion Ea; subst; exact H1|apply IH; assumption]. }
  unfold range_in in Hp. apply get_slice_sub; lia.
Qed.

End Decomp.
