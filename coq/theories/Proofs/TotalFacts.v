(* C05: validation is total (no foreign exception) and its errors name a defect really present. *)
From Coq Require Import Lia ZifyBool ZifyN.
From Schwifty Require Import Lib.Base Lib.Regex Model.Clean Model.Data Model.Iban Model.Bic.
From Schwifty Require Import Spec.Iso13616 Spec.Iso9362 Spec.Defects.
From Schwifty Require Import Proofs.RegexFacts Proofs.CleanFacts Proofs.NumFacts Proofs.RunsFacts Proofs.IbanFacts
  Proofs.IbanTheorems Proofs.BicFacts.
Ltac Zify.zify_post_hook ::= Z.to_euclidean_division_equations.

(* ---- obligations ---------------------------------------------------------------------------- *)

(* every checksum step is preceded by the character check and the format check *)
Fixpoint steps_guarded (seen_chars seen_format : bool) (l : list istep) : bool :=
  match l with
  | [] => true
  | SChars :: r => steps_guarded true seen_format r
  | SFormat :: r => steps_guarded seen_chars true r
  | SChecksum :: r => seen_chars && seen_format && steps_guarded seen_chars seen_format r
  | _ :: r => steps_guarded seen_chars seen_format r
  end.

(* with national validation requested, the national step too must come after the character and format checks *)
Fixpoint steps_guarded_b (seen_chars seen_format : bool) (l : list istep) : bool :=
  match l with
  | [] => true
  | SChars :: r => steps_guarded_b true seen_format r
  | SFormat :: r => steps_guarded_b seen_chars true r
  | SChecksum :: r => seen_chars && seen_format && steps_guarded_b seen_chars seen_format r
  | SNational :: r => seen_chars && seen_format && steps_guarded_b seen_chars seen_format r
  | _ :: r => steps_guarded_b seen_chars seen_format r
  end.

(* the national step, if present, is the last one *)
Fixpoint nat_last (l : list istep) : bool :=
  match l with
  | [] => true
  | [SNational] => true
  | SNational :: _ => false
  | _ :: r => nat_last r
  end.

(* the character check forces two capitals and two ASCII digits at the start *)
Definition chars_strict (cfg : iban_cfg) : bool :=
  match rp_body (ic_chars_pat cfg) with
  | RSeq a (RSeq b _) =>
    match runs_of a, runs_of b with
    | Some ra, Some rb => kinds_agree (expand (ra ++ rb)) [Ka; Ka; Kn; Kn]
    | _, _ => false
    end
  | _ => false
  end
  && match ic_chars_method cfg with MSearch => rp_bol (ic_chars_pat cfg) | _ => true end.

(* the structure regex admits only the ISO classes (exact class lists, ASCII digits) *)
Definition row_strict (r : row) : bool :=
  match runs_of (rp_body (r_regex r)), row_kinds r with
  | Some rs, Some kds => kinds_agree (expand rs) kds
  | _, _ => false
  end.

Lemma no_lower_app a b :
  forallb (fun c => negb (is_ascii_lower c)) (a ++ b) = true ->
  forallb (fun c => negb (is_ascii_lower c)) a = true /\ forallb (fun c => negb (is_ascii_lower c)) b = true.
Proof. rewrite forallb_app. apply andb_true_iff. Qed.

Lemma conforms4 (u : text) :
  conforms [Ka; Ka; Kn; Kn] u = true ->
  exists c1 c2 d1 d2, u = [c1; c2; d1; d2] /\ is_ascii_upper c1 = true /\ is_ascii_upper c2 = true
     /\ is_ascii_digit d1 = true /\ is_ascii_digit d2 = true.
Proof.
  destruct u as [|c1 [|c2 [|d1 [|d2 [|x u]]]]]; cbn [conforms]; intro H;
    try (rewrite ?andb_false_r in H; discriminate).
  apply andb_true_iff in H as [U1 H]. apply andb_true_iff in H as [U2 H].
  apply andb_true_iff in H as [D1 H]. apply andb_true_iff in H as [D2 _].
  cbn [kind_ok] in *. exists c1, c2, d1, d2. auto.
Qed.

Section Total.
Variable e : env.
Variable cfg : iban_cfg.
Variable T : table.
Variable national : text -> text -> outcome bool.
Hypothesis WF : env_wf e = true.
Hypothesis EA : env_alpha_ok e = true.
Hypothesis CFG : cfg_ok cfg = true.
Hypothesis TAB : forallb (row_ok (ic_format_method cfg)) T = true.
Hypothesis GUARD : steps_guarded false false (ic_steps cfg) = true.
Hypothesis CHARS : chars_strict cfg = true.
Hypothesis STRICT : forallb row_strict T = true.

Let ALPHA : ic_alphabet cfg = std_alphabet.
Proof.
  unfold cfg_ok in CFG. repeat (apply andb_true_iff in CFG as [CFG ?]). apply text_eqb_eq. exact CFG.
Qed.

Lemma chars_head s :
  forallb (fun c => negb (is_ascii_lower c)) s = true ->
  validate_characters cfg s = Ok tt -> head_ok s = true.
Proof using CHARS.
  intros Hnl H. unfold validate_characters in H.
  destruct (pat_apply (ic_chars_method cfg) (ic_chars_pat cfg) s) eqn:Ep; [|discriminate]. clear H.
  unfold chars_strict in CHARS. apply andb_true_iff in CHARS as [Hshape Hm].
  destruct (rp_body (ic_chars_pat cfg)) as [| |a bb| |] eqn:Eb; try discriminate.
  destruct bb as [| |b rest| |]; try discriminate.
  destruct (runs_of a) as [ra|] eqn:Ea; [|discriminate]. destruct (runs_of b) as [rb|] eqn:Erb; [|discriminate].
  assert (Hpre : exists p q, s = p ++ q /\ lang (compile (RSeq a (RSeq b rest))) p).
  { unfold pat_apply in Ep. rewrite Eb in Ep. destruct (ic_chars_method cfg).
    - exists s, []. rewrite app_nil_r. split; [reflexivity|]. apply matches_lang. exact Ep.
    - apply prefix_match_spec in Ep as (p & q & -> & Hp & _). eauto.
    - rewrite Hm in Ep. apply prefix_match_spec in Ep as (p & q & -> & Hp & _). eauto. }
  destruct Hpre as (p & q & -> & Hp). cbn [compile] in Hp.
  apply lang_seq_iff in Hp as (u & vw & -> & Hu & Hvw). apply lang_seq_iff in Hvw as (v & w & -> & Hv & Hw).
  apply (runs_lang a ra) in Hu; [|exact Ea]. apply (runs_lang b rb) in Hv; [|exact Erb].
  assert (Huv : conforms_cls (expand (ra ++ rb)) (u ++ v) = true).
  { rewrite expand_app. apply conforms_cls_app. exists u, v. auto. }
  assert (Hnl' : forallb (fun c => negb (is_ascii_lower c)) (u ++ v) = true).
  { rewrite <- !app_assoc in Hnl. rewrite app_assoc in Hnl. apply no_lower_app in Hnl as [Hnl _]. exact Hnl. }
  rewrite (kinds_agree_conforms _ _ _ Hshape Hnl') in Huv.
  apply conforms4 in Huv as (c1 & c2 & d1 & d2 & Euv & U1 & U2 & D1 & D2).
  rewrite <- !app_assoc. rewrite (app_assoc u v). rewrite Euv. cbn [app head_ok]. rewrite U1, U2, D1, D2. reflexivity.
Qed.

Lemma head_alpha s : head_ok s = true -> forallb in_alpha (firstn 4 s) = true /\ exists c1 c2 d1 d2 b, s = c1 :: c2 :: d1 :: d2 :: b.
Proof.
  destruct s as [|c1 [|c2 [|d1 [|d2 b]]]]; cbn [head_ok]; intro H; try discriminate.
  apply andb_true_iff in H as [H D2]. apply andb_true_iff in H as [H D1]. apply andb_true_iff in H as [U1 U2].
  split; [|eauto 6]. cbn [firstn forallb].
  unfold in_alpha. rewrite U1, U2, D1, D2. rewrite !orb_true_r. reflexivity.
Qed.

Lemma row_strict_of cc r : find_row T cc = Some r -> row_strict r = true.
Proof using STRICT. intro H. apply find_row_in in H as [Hin _]. rewrite forallb_forall in STRICT. apply STRICT. exact Hin. Qed.

(* the checksum step cannot raise a foreign exception once characters and format have passed *)
Lemma checksum_no_crash s c :
  cleaned e s = true -> forallb (fun c => negb (is_ascii_lower c)) s = true ->
  validate_characters cfg s = Ok tt -> validate_format e cfg T s = Ok tt ->
  validate_iban_checksum e cfg s <> Crash c.
Proof using WF EA CFG TAB CHARS STRICT.
  intros Hcl Hnl Hc Hf.
  apply (chars_head s Hnl) in Hc. apply head_alpha in Hc as [H4 (c1 & c2 & d1 & d2 & b & ->)].
  cbn [firstn] in H4.
  assert (Hb : cleaned e b = true) by (apply (cleaned_skipn e 4) in Hcl; exact Hcl).
  assert (Hbban : iban_bban e (c1 :: c2 :: d1 :: d2 :: b) = b).
  { unfold iban_bban. rewrite slice_bban. apply cleaned_fix. exact Hb. }
  unfold validate_format, iban_spec in Hf. rewrite cc_of in Hf.
  destruct (find_row T [c1; c2]) as [r|] eqn:Er; [|discriminate]. cbn [bind] in Hf.
  pose proof (row_ok_of cfg T TAB _ _ Er) as Hok. pose proof (row_strict_of _ _ Er) as Hst.
  unfold row_strict in Hst.
  destruct (runs_of (rp_body (r_regex r))) as [rs|] eqn:Ers; [|discriminate].
  destruct (row_kinds r) as [kds|] eqn:Ek; [|discriminate].
  rewrite Hbban, (format_iff e cfg T WF TAB r b rs Hok Hb Ers) in Hf.
  destruct (conforms_cls (expand rs) b) eqn:Ecf; [|discriminate].
  assert (Hnlb : forallb (fun c => negb (is_ascii_lower c)) b = true).
  { change (c1 :: c2 :: d1 :: d2 :: b) with ([c1; c2; d1; d2] ++ b) in Hnl. apply no_lower_app in Hnl as [_ H]. exact H. }
  rewrite (kinds_agree_conforms _ _ _ Hst Hnlb) in Ecf.
  assert (Eb : forallb in_alpha b = true).
  { apply (conforms_alpha kds); [|exact Ecf].
    unfold row_ok in Hok. rewrite Ers, Ek in Hok. repeat (apply andb_true_iff in Hok as [Hok ?]).
    apply (agree_not_e (expand rs)). exact Hok. }
  unfold validate_iban_checksum, iban_numeric. rewrite Hbban, slice_head4, cc_of, dd_of.
  rewrite (numerify_nonempty cfg ALPHA) by (destruct b; discriminate).
  rewrite forallb_app, Eb, H4. cbn [andb bind].
  destruct (negb (iso_num (b ++ [c1; c2; d1; d2]) mod 97 =? 1)%Z); [discriminate|].
  unfold iso7064_compute, concat_text. cbn [concat]. rewrite app_nil_r.
  rewrite (numerify_nonempty cfg ALPHA) by (destruct b; discriminate).
  assert (Ecc : forallb in_alpha [c1; c2] = true).
  { change [c1; c2; d1; d2] with ([c1; c2] ++ [d1; d2]) in H4. rewrite forallb_app in H4.
    apply andb_true_iff in H4 as [H4 _]. exact H4. }
  rewrite forallb_app, Eb, Ecc. cbn [andb bind].
  destruct (text_eqb _ _); discriminate.
Qed.

Lemma other_steps_no_crash s st c :
  st <> SChecksum -> run_step e cfg T national false s st <> Crash c.
Proof.
  intro Hne. destruct st; cbn [run_step]; try congruence;
    unfold validate_characters, validate_length, validate_format, iban_spec;
    repeat (match goal with |- context [match ?x with _ => _ end] => destruct x; cbn [bind] end); discriminate.
Qed.

Lemma run_steps_no_crash s c :
  cleaned e s = true -> forallb (fun c => negb (is_ascii_lower c)) s = true ->
  forall l sc sf,
    steps_guarded sc sf l = true ->
    (sc = true -> validate_characters cfg s = Ok tt) ->
    (sf = true -> validate_format e cfg T s = Ok tt) ->
    run_steps e cfg T national false s l <> Crash c.
Proof using WF EA CFG TAB CHARS STRICT.
  intros Hcl Hnl. induction l as [|st l IH]; intros sc sf Hg Hc Hf; cbn [run_steps]; [discriminate|].
  destruct st; cbn [steps_guarded] in Hg.
  - cbn [run_step]. destruct (validate_characters cfg s) as [[]| |] eqn:E; cbn [bind].
    + apply (IH true sf Hg); auto.
    + discriminate.
    + exfalso. revert E. unfold validate_characters. destruct (pat_apply _ _ _); discriminate.
  - destruct (run_step e cfg T national false s SLength) as [[]| |] eqn:E; cbn [bind].
    + apply (IH sc sf Hg); auto.
    + discriminate.
    + exfalso. exact (other_steps_no_crash s SLength c0 ltac:(discriminate) E).
  - cbn [run_step]. destruct (validate_format e cfg T s) as [[]| |] eqn:E; cbn [bind].
    + apply (IH sc true Hg); auto.
    + discriminate.
    + exfalso. exact (other_steps_no_crash s SFormat c0 ltac:(discriminate) E).
  - apply andb_true_iff in Hg as [Hg Hr]. apply andb_true_iff in Hg as [-> ->].
    cbn [run_step]. destruct (validate_iban_checksum e cfg s) as [[]| |] eqn:E; cbn [bind].
    + apply (IH true true Hr); auto.
    + discriminate.
    + exfalso. exact (checksum_no_crash s c0 Hcl Hnl (Hc eq_refl) (Hf eq_refl) E).
  - cbn [run_step bind]. apply (IH sc sf Hg); auto.
Qed.

(* C05, IBAN side: nothing but the library's own exceptions; is_valid never raises and agrees with
   the validating constructor *)
Theorem iban_total txt c :
  iban_new e cfg T national txt false false <> Crash c.
Proof using WF EA CFG TAB GUARD CHARS STRICT.
  unfold iban_new, iban_validate. cbn [bind].
  pose proof (run_steps_no_crash (clean e txt) c (clean_cleaned e WF txt) (clean_no_lower e WF txt)
                (ic_steps cfg) false false GUARD ltac:(discriminate) ltac:(discriminate)) as H.
  destruct (run_steps e cfg T national false (clean e txt) (ic_steps cfg)) as [[]| |]; cbn [bind]; congruence.
Qed.

(* ---- with national validation ------------------------------------------------------------------------------------ *)
(* once characters and format have passed, the text is country code, check digits and a BBAN that conforms to the
   country's structure *)
Lemma format_conforms s :
  cleaned e s = true -> forallb (fun c => negb (is_ascii_lower c)) s = true ->
  validate_characters cfg s = Ok tt -> validate_format e cfg T s = Ok tt ->
  exists r, find_row T (iban_country_code s) = Some r /\ conforms_row r (iban_bban e s) = true.
Proof using WF EA CFG TAB CHARS STRICT.
  intros Hcl Hnl Hc Hf.
  apply (chars_head s Hnl) in Hc. apply head_alpha in Hc as [H4 (c1 & c2 & d1 & d2 & b & ->)].
  assert (Hb : cleaned e b = true) by (apply (cleaned_skipn e 4) in Hcl; exact Hcl).
  assert (Hbban : iban_bban e (c1 :: c2 :: d1 :: d2 :: b) = b).
  { unfold iban_bban. rewrite slice_bban. apply cleaned_fix. exact Hb. }
  unfold validate_format, iban_spec in Hf. rewrite cc_of in Hf. rewrite cc_of, Hbban.
  destruct (find_row T [c1; c2]) as [r|] eqn:Er; [|discriminate]. cbn [bind] in Hf.
  exists r. split; [reflexivity|].
  pose proof (row_ok_of cfg T TAB _ _ Er) as Hok. pose proof (row_strict_of _ _ Er) as Hst.
  unfold row_strict in Hst.
  destruct (runs_of (rp_body (r_regex r))) as [rs|] eqn:Ers; [|discriminate].
  destruct (row_kinds r) as [kds|] eqn:Ek; [|discriminate].
  rewrite Hbban, (format_iff e cfg T WF TAB r b rs Hok Hb Ers) in Hf.
  destruct (conforms_cls (expand rs) b) eqn:Ecf; [|discriminate].
  assert (Hnlb : forallb (fun c => negb (is_ascii_lower c)) b = true).
  { change (c1 :: c2 :: d1 :: d2 :: b) with ([c1; c2; d1; d2] ++ b) in Hnl. apply no_lower_app in Hnl as [_ H]. exact H. }
  rewrite (kinds_agree_conforms _ _ _ Hst Hnlb) in Ecf.
  unfold conforms_row. rewrite Ek, Ecf, andb_true_r.
  destruct (row_facts cfg T TAB _ r Er) as (_ & _ & kds' & _ & _ & _ & Hk' & _ & Hl & _).
  rewrite Ek in Hk'. inversion Hk'; subst kds'. apply Z.eqb_eq. unfold len.
  rewrite (Proofs.RunsFacts.conforms_length _ _ Ecf). exact Hl.
Qed.

Section WithNational.
(* the national step raises no foreign exception on a structurally conforming BBAN of a known country *)
Hypothesis NAT : forall cc r b c, find_row T cc = Some r -> conforms_row r b = true -> national cc b <> Crash c.

Lemma run_steps_no_crash_b s c :
  cleaned e s = true -> forallb (fun c => negb (is_ascii_lower c)) s = true ->
  forall l sc sf,
    steps_guarded_b sc sf l = true ->
    (sc = true -> validate_characters cfg s = Ok tt) ->
    (sf = true -> validate_format e cfg T s = Ok tt) ->
    run_steps e cfg T national true s l <> Crash c.
Proof using WF EA CFG TAB CHARS STRICT NAT.
  intros Hcl Hnl. induction l as [|st l IH]; intros sc sf Hg Hc Hf; cbn [run_steps]; [discriminate|].
  destruct st; cbn [steps_guarded_b] in Hg.
  - cbn [run_step]. destruct (validate_characters cfg s) as [[]| |] eqn:E; cbn [bind].
    + apply (IH true sf Hg); auto.
    + discriminate.
    + exfalso. revert E. unfold validate_characters. destruct (pat_apply _ _ _); discriminate.
  - destruct (run_step e cfg T national true s SLength) as [[]| |] eqn:E; cbn [bind].
    + apply (IH sc sf Hg); auto.
    + discriminate.
    + exfalso. cbn [run_step] in E. unfold validate_length, iban_spec in E.
      repeat (match type of E with context [match ?x with _ => _ end] => destruct x; cbn [bind] in E end); discriminate.
  - cbn [run_step]. destruct (validate_format e cfg T s) as [[]| |] eqn:E; cbn [bind].
    + apply (IH sc true Hg); auto.
    + discriminate.
    + exfalso. unfold validate_format, iban_spec in E.
      repeat (match type of E with context [match ?x with _ => _ end] => destruct x; cbn [bind] in E end); discriminate.
  - apply andb_true_iff in Hg as [Hg Hr]. apply andb_true_iff in Hg as [-> ->].
    cbn [run_step]. destruct (validate_iban_checksum e cfg s) as [[]|x|x] eqn:E; cbn [bind].
    + apply (IH true true Hr); auto.
    + discriminate.
    + exfalso. exact (checksum_no_crash s x Hcl Hnl (Hc eq_refl) (Hf eq_refl) E).
  - apply andb_true_iff in Hg as [Hg Hr]. apply andb_true_iff in Hg as [-> ->].
    cbn [run_step].
    destruct (format_conforms s Hcl Hnl (Hc eq_refl) (Hf eq_refl)) as (r & Er & Hconf).
    destruct (national (iban_country_code s) (iban_bban e s)) as [v|x|x] eqn:E; cbn [bind].
    + apply (IH true true Hr); auto.
    + discriminate.
    + exfalso. exact (NAT _ r _ x Er Hconf E).
Qed.

Theorem iban_total_b txt c :
  steps_guarded_b false false (ic_steps cfg) = true ->
  iban_new e cfg T national txt false true <> Crash c.
Proof using WF EA CFG TAB CHARS STRICT NAT.
  intro GUARDB. unfold iban_new, iban_validate. cbn [bind].
  pose proof (run_steps_no_crash_b (clean e txt) c (clean_cleaned e WF txt) (clean_no_lower e WF txt)
                (ic_steps cfg) false false GUARDB ltac:(discriminate) ltac:(discriminate)) as H.
  destruct (run_steps e cfg T national true (clean e txt) (ic_steps cfg)) as [[]| |]; cbn [bind]; congruence.
Qed.
End WithNational.


Theorem iban_is_valid_total txt :
  exists b, iban_is_valid e cfg T national (clean e txt) = Ok b
    /\ (b = true <-> exists s, iban_new e cfg T national txt false false = Ok s).
Proof using WF EA CFG TAB GUARD CHARS STRICT.
  unfold iban_is_valid, iban_new, iban_validate. cbn [bind].
  destruct (run_steps e cfg T national false (clean e txt) (ic_steps cfg)) as [[]| |] eqn:E; cbn [bind].
  - exists true. split; [reflexivity|]. split; [eauto|reflexivity].
  - exists false. split; [reflexivity|]. split; [discriminate|]. intros [s Hs]. discriminate.
  - exfalso. exact (run_steps_no_crash (clean e txt) c (clean_cleaned e WF txt) (clean_no_lower e WF txt)
                (ic_steps cfg) false false GUARD ltac:(discriminate) ltac:(discriminate) E).
Qed.

End Total.

(* BIC side: the model has no partial operation at all *)
Theorem bic_total e cfg countries txt ai strict c : bic_new e cfg countries txt ai strict <> Crash c.
Proof.
  unfold bic_new, bic_validate. destruct ai; [discriminate|]. cbn [bind].
  assert (H : forall l, bic_run_steps cfg countries strict (clean e txt) l <> Crash c).
  { induction l as [|st l IH]; cbn [bic_run_steps]; [discriminate|].
    destruct st; cbn [bic_run_step].
    - destruct (memZ _ _); cbn [bind]; [exact IH|discriminate].
    - destruct (pat_apply _ _ _); cbn [bind]; [exact IH|discriminate].
    - destruct (mem_text _ _); cbn [bind]; [exact IH|discriminate]. }
  specialize (H (bc_steps cfg)).
  destruct (bic_run_steps cfg countries strict (clean e txt) (bc_steps cfg)) as [[]| |]; cbn [bind]; congruence.
Qed.

Theorem bic_is_valid_total e cfg countries txt :
  exists b, bic_is_valid cfg countries (clean e txt) = Ok b
    /\ (b = true <-> exists s, bic_new e cfg countries txt false false = Ok s).
Proof.
  unfold bic_is_valid, bic_new, bic_validate. cbn [bind].
  destruct (bic_run_steps cfg countries false (clean e txt) (bc_steps cfg)) as [[]| |] eqn:E; cbn [bind].
  - exists true. split; [reflexivity|]. split; [eauto|reflexivity].
  - exists false. split; [reflexivity|]. split; [discriminate|]. intros [s Hs]. discriminate.
  - exfalso. pose proof (bic_total e cfg countries txt false false c) as H.
    unfold bic_new, bic_validate in H. cbn [bind] in H. rewrite E in H. cbn [bind] in H. congruence.
Qed.

(* ---- errors name a defect that is present ---------------------------------------------------- *)

Lemma slice4_skipn s : get_slice s 4 None = skipn 4 s.
Proof.
  unfold get_slice. destruct (Z.ltb_spec 4 (len s)) as [H|H].
  - unfold py_slice_from, norm_idx. replace (4 <? 0)%Z with false by lia.
    replace (Z.min 4 (len s)) with 4%Z by lia. reflexivity.
  - symmetry. apply skipn_all2. unfold len in H. lia.
Qed.

Lemma numerify_go_not_err cfg : forall s acc ex, numerify_go cfg acc s <> Err ex.
Proof.
  induction s as [|c s IH]; intros acc ex; cbn [numerify_go]; [discriminate|].
  destruct (index_of c (ic_alphabet cfg)); [apply IH|discriminate].
Qed.

Lemma numerify_not_err cfg s ex : numerify cfg s <> Err ex.
Proof. unfold numerify. destruct s; [discriminate|apply numerify_go_not_err]. Qed.

Section Named.
Variable e : env.
Variable cfg : iban_cfg.
Variable T : table.
Variable national : text -> text -> outcome bool.
Hypothesis WF : env_wf e = true.
Hypothesis EA : env_alpha_ok e = true.
Hypothesis CFG : cfg_ok cfg = true.
Hypothesis TAB : forallb (row_ok (ic_format_method cfg)) T = true.

Let ALPHA : ic_alphabet cfg = std_alphabet.
Proof.
  unfold cfg_ok in CFG. repeat (apply andb_true_iff in CFG as [CFG ?]). apply text_eqb_eq. exact CFG.
Qed.

Lemma find_row_len2 cc r : find_row T cc = Some r -> length cc = 2.
Proof using All. intro H. destruct (row_facts cfg T TAB cc r H) as (c1 & c2 & _ & -> & _). reflexivity. Qed.

Lemma cc_firstn s : find_row T (iban_country_code s) = find_row T (firstn 2 s).
Proof using All.
  destruct s as [|c1 [|c2 r]].
  - reflexivity.
  - assert (H : iban_country_code [c1] = []) by reflexivity. rewrite H. cbn [firstn].
    destruct (find_row T []) eqn:E1; [apply find_row_len2 in E1; discriminate|].
    destruct (find_row T [c1]) eqn:E2; [apply find_row_len2 in E2; discriminate|]. reflexivity.
  - rewrite cc_of. reflexivity.
Qed.

Lemma run_steps_err vb s l ex :
  run_steps e cfg T national vb s l = Err ex -> exists st, In st l /\ run_step e cfg T national vb s st = Err ex.
Proof.
  induction l as [|st l IH]; cbn [run_steps]; [discriminate|].
  destruct (run_step e cfg T national vb s st) as [[]| |] eqn:E; cbn [bind]; intro H.
  - destruct (IH H) as (st' & Hin & Hst). exists st'. split; [right; exact Hin|exact Hst].
  - inversion H; subst. exists st. split; [left; reflexivity|exact E].
  - discriminate.
Qed.

Lemma checksum_pass s :
  cleaned e s = true -> mod97_ok s = true -> validate_iban_checksum e cfg s = Ok tt.
Proof using All.
  intros Hcl H. unfold mod97_ok in H. destruct s as [|c1 [|c2 [|d1 [|d2 b]]]]; try discriminate.
  apply andb_true_iff in H as [H Hrange]. apply andb_true_iff in H as [H Hmod].
  apply andb_true_iff in H as [H D2]. apply andb_true_iff in H as [Hal D1]. apply Z.eqb_eq in Hmod.
  change (forallb alpha_char (c1 :: c2 :: d1 :: d2 :: b)) with (forallb in_alpha ([c1; c2; d1; d2] ++ b)) in Hal.
  rewrite forallb_app in Hal. apply andb_true_iff in Hal as [E4 Eb].
  assert (Hb : cleaned e b = true) by (apply (cleaned_skipn e 4) in Hcl; exact Hcl).
  assert (Hbban : iban_bban e (c1 :: c2 :: d1 :: d2 :: b) = b).
  { unfold iban_bban. rewrite slice_bban. apply cleaned_fix. exact Hb. }
  unfold validate_iban_checksum, iban_numeric. rewrite Hbban, slice_head4, cc_of, dd_of.
  rewrite (numerify_nonempty cfg ALPHA) by (destruct b; discriminate).
  rewrite forallb_app, Eb, E4. cbn [andb bind]. rewrite Hmod. cbn [Z.eqb negb Pos.eqb].
  unfold iso7064_compute, concat_text. cbn [concat]. rewrite app_nil_r.
  rewrite (numerify_nonempty cfg ALPHA) by (destruct b; discriminate).
  assert (Ecc : forallb in_alpha [c1; c2] = true).
  { change [c1; c2; d1; d2] with ([c1; c2] ++ [d1; d2]) in E4. rewrite forallb_app in E4.
    apply andb_true_iff in E4 as [E4 _]. exact E4. }
  rewrite forallb_app, Eb, Ecc. cbn [andb bind].
  set (M := iso_num (b ++ [c1; c2])) in *.
  pose proof (check_value_range M) as Hv. rewrite two_digits_fmt by lia.
  assert (Hnum : iso_num (b ++ [c1; c2; d1; d2]) = (M * 100 + (Z.of_N (d1 - 48) * 10 + Z.of_N (d2 - 48)))%Z).
  { change [c1; c2; d1; d2] with ([c1; c2] ++ [d1; d2]). rewrite app_assoc, iso_num_from, iso_from_app.
    rewrite iso_from_digits by assumption. reflexivity. }
  rewrite Hnum in Hmod.
  set (dd := (Z.of_N (d1 - 48) * 10 + Z.of_N (d2 - 48))%Z) in *.
  assert (Hdd : (0 <= dd <= 99)%Z) by (unfold dd; unfold is_ascii_digit, c0, c9 in D1, D2; lia).
  assert (Heq : dd = (98 - (M * 100) mod 97)%Z) by (apply mod97_unique; [exact Hdd|split; [exact Hmod|lia]]).
  rewrite <- Heq. unfold dd. rewrite two_digits_inv by assumption. rewrite text_eqb_refl. reflexivity.
Qed.

Theorem iban_named s ex :
  cleaned e s = true ->
  iban_validate e cfg T national false s = Err ex -> iban_defect T ex s = true.
Proof using All.
  intros Hcl H. unfold iban_validate in H.
  destruct (run_steps e cfg T national false s (ic_steps cfg)) as [[]| |] eqn:E; cbn [bind] in H; try discriminate.
  inversion H; subst e0. clear H. apply run_steps_err in E as (st & _ & Hst).
  destruct st; cbn [run_step] in Hst.
  - (* characters *)
    unfold validate_characters in Hst. destruct (pat_apply _ _ _) eqn:Ep; [discriminate|]. inversion Hst; subst ex.
    cbn [iban_defect]. destruct (head_ok s) eqn:Eh; [|reflexivity]. exfalso.
    destruct s as [|c1 [|c2 [|d1 [|d2 b]]]]; try discriminate. cbn [head_ok] in Eh.
    apply andb_true_iff in Eh as [Eh D2]. apply andb_true_iff in Eh as [Eh D1]. apply andb_true_iff in Eh as [U1 U2].
    assert (Hp : validate_characters cfg (c1 :: c2 :: d1 :: d2 :: b) = Ok tt) by (apply chars_pass; assumption).
    unfold validate_characters in Hp.
    rewrite Ep in Hp. discriminate.
  - (* length *)
    unfold validate_length, iban_spec in Hst. rewrite cc_firstn in Hst.
    destruct (find_row T (firstn 2 s)) as [r|] eqn:Er; cbn [bind] in Hst.
    + destruct (Z.eqb_spec (r_iban_length r) (len s)) as [Hl|Hl]; [discriminate|]. inversion Hst; subst ex.
      cbn [iban_defect]. rewrite Er. apply negb_true_iff. apply Z.eqb_neq. congruence.
    + inversion Hst; subst ex. cbn [iban_defect]. rewrite Er. reflexivity.
  - (* format *)
    unfold validate_format, iban_spec in Hst. rewrite cc_firstn in Hst.
    destruct (find_row T (firstn 2 s)) as [r|] eqn:Er; cbn [bind] in Hst.
    + destruct (pat_apply _ _ _) eqn:Ep; [discriminate|]. inversion Hst; subst ex.
      cbn [iban_defect]. rewrite Er. apply orb_true_iff. right. apply negb_true_iff.
      pose proof (row_ok_of cfg T TAB _ _ Er) as Hok. pose proof Hok as Hok'. unfold row_ok in Hok'.
      destruct (runs_of (rp_body (r_regex r))) as [rs|] eqn:Ers; [|discriminate].
      destruct (row_kinds r) as [kds|] eqn:Ek; [|discriminate].
      repeat (apply andb_true_iff in Hok' as [Hok' ?]).
      assert (Hb : cleaned e (skipn 4 s) = true) by (apply cleaned_skipn; exact Hcl).
      unfold iban_bban in Ep. rewrite slice4_skipn, (cleaned_fix e _ Hb) in Ep.
      rewrite (format_iff e cfg T WF TAB r _ rs Hok Hb Ers) in Ep.
      unfold conforms_row. rewrite Ek. destruct (conforms kds (skipn 4 s)) eqn:Ec; [|apply andb_false_r].
      exfalso. pose proof (conforms_alpha kds _ (agree_not_e _ _ Hok') Ec) as Hal.
      rewrite (agree_conforms _ _ _ Hok' Hal) in Ep. congruence.
    + inversion Hst; subst ex. cbn [iban_defect]. rewrite Er. reflexivity.
  - (* checksum *)
    destruct (mod97_ok s) eqn:Em.
    + rewrite (checksum_pass s Hcl Em) in Hst. discriminate.
    + assert (ex = EInvalidChecksumDigits) as ->.
      { revert Hst. unfold validate_iban_checksum, iban_numeric.
        destruct (numerify cfg _) eqn:En; cbn [bind]; try discriminate;
          [|intros _; exfalso; exact (numerify_not_err _ _ _ En)].
        destruct (negb _); [congruence|]. unfold iso7064_compute.
        destruct (numerify cfg (concat_text _)) eqn:En2; cbn [bind]; try discriminate;
          [|intros _; exfalso; exact (numerify_not_err _ _ _ En2)].
        destruct (text_eqb _ _); congruence. }
      cbn [iban_defect]. rewrite Em. reflexivity.
  - discriminate.
Qed.


(* ---- errors with national validation: a defect of the text as before, or - every ISO 13616 check having passed - the
        national check's own error ---------------------------------------------------------------------------------------- *)
Lemma run_steps_true_err s : forall l ex,
  nat_last l = true -> run_steps e cfg T national true s l = Err ex ->
  run_steps e cfg T national false s l = Err ex
  \/ (run_steps e cfg T national false s l = Ok tt /\ national (iban_country_code s) (iban_bban e s) = Err ex).
Proof.
  induction l as [|st l IH]; intros ex Hl H; cbn [run_steps] in *; [discriminate|].
  assert (Hcase : st = SNational \/ (run_step e cfg T national true s st = run_step e cfg T national false s st /\ nat_last l = true)).
  { destruct st; try (right; split; [reflexivity|destruct l; exact Hl]). left; reflexivity. }
  destruct Hcase as [->|[Hsame Hl']].
  - destruct l as [|st' l']; [|cbn [nat_last] in Hl; discriminate].
    cbn [run_step run_steps bind] in *. right. split; [reflexivity|].
    destruct (national (iban_country_code s) (iban_bban e s)) as [v|x|x]; cbn [bind] in H; try discriminate.
    inversion H. reflexivity.
  - rewrite Hsame in H. destruct (run_step e cfg T national false s st) as [[]|x|x]; cbn [bind] in *; try discriminate.
    + exact (IH ex Hl' H).
    + left. exact H.
Qed.

Theorem iban_named_b s ex :
  nat_last (ic_steps cfg) = true -> cleaned e s = true ->
  iban_validate e cfg T national true s = Err ex ->
  iban_defect T ex s = true
  \/ (iso_ok T s = true /\ national (iban_country_code s) (iban_bban e s) = Err ex).
Proof using All.
  intros Hl Hcl H. unfold iban_validate in H.
  destruct (run_steps e cfg T national true s (ic_steps cfg)) as [[]|x|x] eqn:E; cbn [bind] in H; try discriminate.
  inversion H; subst x. clear H.
  destruct (run_steps_true_err s (ic_steps cfg) ex Hl E) as [Hf|[Hok Hn]].
  - left. apply (iban_named s ex Hcl). unfold iban_validate. rewrite Hf. reflexivity.
  - right. split; [|exact Hn]. apply (validate_iff e cfg T national WF CFG TAB s Hcl).
    unfold iban_validate. rewrite Hok. reflexivity.
Qed.


(* acceptance with national validation = ISO 13616 validity and an accepting national check *)
Lemma run_steps_true_ok s : forall l,
  nat_last l = true -> existsb (fun st => match st with SNational => true | _ => false end) l = true ->
  (run_steps e cfg T national true s l = Ok tt <->
   run_steps e cfg T national false s l = Ok tt /\ exists v, national (iban_country_code s) (iban_bban e s) = Ok v).
Proof.
  induction l as [|st l IH]; intros Hl Hin; [discriminate|]. cbn [run_steps].
  assert (Hcase : st = SNational \/ (st <> SNational /\ run_step e cfg T national true s st = run_step e cfg T national false s st /\ nat_last l = true)).
  { destruct st; try (right; split; [discriminate|split; [reflexivity|destruct l; exact Hl]]). left; reflexivity. }
  destruct Hcase as [->|(Hne & Hsame & Hl')].
  - destruct l as [|st' l']; [|cbn [nat_last] in Hl; discriminate].
    cbn [run_step run_steps bind].
    destruct (national (iban_country_code s) (iban_bban e s)) as [v|x|x]; cbn [bind]; split; intro H.
    + split; [reflexivity|exists v; reflexivity].
    + reflexivity.
    + discriminate.
    + destruct H as [_ [v Hv]]. discriminate.
    + discriminate.
    + destruct H as [_ [v Hv]]. discriminate.
  - rewrite Hsame. assert (Hin' : existsb (fun st0 => match st0 with SNational => true | _ => false end) l = true).
    { cbn [existsb] in Hin. destruct st; try exact Hin. congruence. }
    destruct (run_step e cfg T national false s st) as [[]|x|x]; cbn [bind].
    + exact (IH Hl' Hin').
    + split; [discriminate|intros [H _]; discriminate].
    + split; [discriminate|intros [H _]; discriminate].
Qed.

Theorem iban_accept_b s :
  nat_last (ic_steps cfg) = true ->
  existsb (fun st => match st with SNational => true | _ => false end) (ic_steps cfg) = true ->
  cleaned e s = true ->
  (iban_validate e cfg T national true s = Ok true <->
   iso_ok T s = true /\ exists v, national (iban_country_code s) (iban_bban e s) = Ok v).
Proof using All.
  intros Hl Hin Hcl. unfold iban_validate.
  pose proof (run_steps_true_ok s (ic_steps cfg) Hl Hin) as R.
  pose proof (validate_iff e cfg T national WF CFG TAB s Hcl) as V. unfold iban_validate in V.
  destruct (run_steps e cfg T national true s (ic_steps cfg)) as [[]|x|x]; cbn [bind].
  - destruct (proj1 R eq_refl) as [Hf Hn]. split; [intros _|reflexivity]. split; [|exact Hn].
    apply V. rewrite Hf. reflexivity.
  - split; [discriminate|]. intros [Hi Hn]. apply V in Hi.
    destruct (run_steps e cfg T national false s (ic_steps cfg)) as [[]|y|y] eqn:Ef; cbn [bind] in Hi; try discriminate.
    pose proof (proj2 R (conj eq_refl Hn)) as Hc. discriminate.
  - split; [discriminate|]. intros [Hi Hn]. apply V in Hi.
    destruct (run_steps e cfg T national false s (ic_steps cfg)) as [[]|y|y] eqn:Ef; cbn [bind] in Hi; try discriminate.
    pose proof (proj2 R (conj eq_refl Hn)) as Hc. discriminate.
Qed.

End Named.

Section BicNamed.
Variable e : env.
Variable cfg : bic_cfg.
Variable countries : list text.
Hypothesis WF : env_wf e = true.
Hypothesis CFG : bic_cfg_ok cfg = true.
Hypothesis CODES : forallb (fun c => Nat.eqb (length c) 2) countries = true.

Lemma bic_steps_err strict s l ex :
  bic_run_steps cfg countries strict s l = Err ex ->
  exists st, In st l /\ bic_run_step cfg countries strict s st = Err ex.
Proof.
  induction l as [|st l IH]; cbn [bic_run_steps]; [discriminate|].
  destruct (bic_run_step cfg countries strict s st) as [[]| |] eqn:E; cbn [bind]; intro H.
  - destruct (IH H) as (st' & Hin & Hst). exists st'. split; [right; exact Hin|exact Hst].
  - inversion H; subst. exists st. split; [left; reflexivity|exact E].
  - discriminate.
Qed.

Theorem bic_named strict s ex :
  cleaned e s = true -> forallb (fun c => negb (is_ascii_lower c)) s = true ->
  bic_validate cfg countries strict s = Err ex -> bic_defect countries strict ex s = true.
Proof using All.
  intros Hcl Hnl H. unfold bic_validate in H.
  destruct (bic_run_steps cfg countries strict s (bc_steps cfg)) as [[]| |] eqn:E; cbn [bind] in H; try discriminate.
  inversion H; subst e0. clear H. apply bic_steps_err in E as (st & _ & Hst).
  pose proof CFG as C. unfold bic_cfg_ok in C.
  apply andb_true_iff in C as [C Hc6]. apply andb_true_iff in C as [C Hc4].
  apply andb_true_iff in C as [C _]. apply andb_true_iff in C as [C _].
  apply andb_true_iff in C as [C M11]. apply andb_true_iff in C as [C M8]. apply Z.eqb_eq in Hc4, Hc6.
  destruct st; cbn [bic_run_step] in Hst.
  - destruct (memZ (len s) (bc_lengths cfg)) eqn:El; [discriminate|]. inversion Hst; subst ex. cbn [bic_defect].
    apply negb_true_iff. apply orb_false_iff. split; apply Z.eqb_neq; intro Hl; rewrite Hl in El; congruence.
  - rewrite (structure_iff e cfg WF CFG strict s Hcl Hnl) in Hst.
    destruct (conforms _ s || conforms _ s) eqn:Ek; [discriminate|]. inversion Hst; subst ex.
    cbn [bic_defect]. rewrite Ek. reflexivity.
  - destruct (mem_text (bic_country_code cfg s) countries) eqn:Em; [discriminate|]. inversion Hst; subst ex.
    cbn [bic_defect]. apply negb_true_iff. unfold known_country.
    destruct (Z.leb_spec 6 (len s)) as [H6|H6].
    + unfold bic_country_code, part in Em. rewrite Hc4, Hc6, (slice_4_6 s H6) in Em. exact Em.
    + destruct (existsb _ countries) eqn:Ex; [|reflexivity]. exfalso.
      apply existsb_exists in Ex as (c & Hin & Hc). apply text_eqb_eq in Hc.
      rewrite forallb_forall in CODES. specialize (CODES c Hin). apply Nat.eqb_eq in CODES.
      rewrite <- Hc in CODES. rewrite firstn_length, skipn_length in CODES. unfold len in H6. lia.
Qed.

End BicNamed.
