(* C14 / C15: abstract theorems about calls as step programs over shared cells. *)
From Coq Require Import Lia.
From Schwifty Require Import Lib.Base Model.Shared.

Definition memN (c : N) (l : list N) : bool := existsb (N.eqb c) l.

(* ---- C15: a call that writes every cell before it reads it does not depend on the store it starts from *)
Fixpoint wbr_prog (written : list N) (p : list step) : bool :=
  match p with
  | [] => true
  | Rd c _ :: r => memN c written && wbr_prog written r
  | Wr c _ :: r => wbr_prog (c :: written) r
  | Loc _ :: r => wbr_prog written r
  end.

Lemma wbr_independent p : forall written acc s1 s2,
  wbr_prog written p = true ->
  (forall c, memN c written = true -> s1 c = s2 c) ->
  fst (run_solo p acc s1) = fst (run_solo p acc s2).
Proof.
  induction p as [|st p IH]; intros written acc s1 s2 H Hag; [reflexivity|].
  destruct st as [c f|c f|f]; cbn [wbr_prog run_solo exec] in *.
  - apply andb_true_iff in H as [Hc H]. rewrite (Hag c Hc). eapply IH; eassumption.
  - apply (IH (c :: written)); [exact H|]. intros c' Hc'. unfold upd.
    destruct (N.eqb_spec c c') as [->|Hne]; [reflexivity|].
    apply Hag. unfold memN in *. cbn [existsb] in Hc'. apply orb_true_iff in Hc' as [Hc'|Hc']; [|exact Hc'].
    apply N.eqb_eq in Hc'. congruence.
  - eapply IH; eassumption.
Qed.

(* any history of such calls: the outcome of the last call is what it is in a fresh process *)
Fixpoint run_history (h : list (list step * Z)) (s : store) : store :=
  match h with
  | [] => s
  | (p, acc) :: r => run_history r (snd (run_solo p acc s))
  end.

Theorem history_independent h p acc s0 :
  wbr_prog [] p = true ->
  fst (run_solo p acc (run_history h s0)) = fst (run_solo p acc s0).
Proof. intro H. apply (wbr_independent p [] acc _ _ H). intros c Hc. discriminate. Qed.

(* ---- C14: threads that read no cell anybody writes get their solo results under every schedule ---- *)
Fixpoint reads (p : list step) : list N :=
  match p with [] => [] | Rd c _ :: r => c :: reads r | _ :: r => reads r end.
Fixpoint writes (p : list step) : list N :=
  match p with [] => [] | Wr c _ :: r => c :: writes r | _ :: r => writes r end.

(* the accumulator a thread ends with when every read sees the store s0 *)
Fixpoint final_acc (p : list step) (acc : Z) (s0 : store) : Z :=
  match p with
  | [] => acc
  | st :: r => final_acc r (fst (exec st acc s0)) s0
  end.

Definition race_free (ts : threads) : Prop :=
  forall p1 a1 p2 a2 c, In (p1, a1) ts -> In (p2, a2) ts -> In c (reads p1) -> ~ In c (writes p2).

Lemma exec_store_other st acc s c : ~ In c (writes [st]) -> snd (exec st acc s) c = s c.
Proof.
  destruct st as [c' f|c' f|f]; cbn [exec snd writes]; intro H; try reflexivity.
  unfold upd. destruct (N.eqb_spec c' c) as [->|]; [exfalso; apply H; left; reflexivity|reflexivity].
Qed.

Lemma exec_acc_agree st acc s s0 :
  (forall c, In c (reads [st]) -> s c = s0 c) -> fst (exec st acc s) = fst (exec st acc s0).
Proof.
  destruct st as [c f|c f|f]; cbn [exec fst reads]; intro H; try reflexivity.
  rewrite (H c (or_introl eq_refl)). reflexivity.
Qed.

Lemma nth_error_set_nth {A} (l : list A) n x y :
  nth_error l n = Some y -> nth_error (set_nth n x l) n = Some x.
Proof. revert n. induction l as [|z l IH]; intros [|n] H; simpl in *; try discriminate; auto. Qed.

Lemma nth_error_set_nth_other {A} (l : list A) n m x : n <> m -> nth_error (set_nth n x l) m = nth_error l m.
Proof.
  revert n m. induction l as [|z l IH]; intros [|n] [|m] H; simpl; try reflexivity; try congruence.
  apply IH. congruence.
Qed.

Lemma set_nth_length {A} (l : list A) n x : List.length (set_nth n x l) = List.length l.
Proof. revert n. induction l as [|z l IH]; intros [|n]; simpl; auto. Qed.

(* the invariant carried along a schedule: every cell some thread may still read has its initial value,
   and every thread's remaining program still leads to its solo result *)
Theorem noninterference sched : forall (ts0 ts : threads) (s0 s : store),
  List.length ts = List.length ts0 ->
  (forall i p0 a0 p a, nth_error ts0 i = Some (p0, a0) -> nth_error ts i = Some (p, a) ->
     final_acc p a s0 = final_acc p0 a0 s0
     /\ (forall c, In c (reads p) -> In c (reads p0)) /\ (forall c, In c (writes p) -> In c (writes p0))) ->
  (forall p1 a1 p2 a2 c, In (p1, a1) ts0 -> In (p2, a2) ts0 -> In c (reads p1) -> ~ In c (writes p2)) ->
  (forall p1 a1 c, In (p1, a1) ts0 -> In c (reads p1) -> s c = s0 c) ->
  forall ts' s', run_sched sched ts s = (ts', s') ->
  forall i p0 a0 p a, nth_error ts0 i = Some (p0, a0) -> nth_error ts' i = Some (p, a) ->
    final_acc p a s0 = final_acc p0 a0 s0.
Proof.
  induction sched as [|t sched IH]; intros ts0 ts s0 s Hlen Hinv Hrf Hs ts' s' Hrun i p0 a0 p a H0 H'.
  - cbn [run_sched] in Hrun. inversion Hrun; subst. exact (proj1 (Hinv i p0 a0 p a H0 H')).
  - cbn [run_sched] in Hrun.
    destruct (nth_error ts t) as [[[|st pt] at_]|] eqn:Et;
      try (eapply (IH ts0 ts s0 s); eassumption).
    destruct (exec st at_ s) as [a1 s1] eqn:Eex.
    assert (Ht0 : exists pt0 at0, nth_error ts0 t = Some (pt0, at0)).
    { destruct (nth_error ts0 t) as [[pt0 at0]|] eqn:E0; [eauto|].
      apply nth_error_None in E0. assert (t < List.length ts) by (apply nth_error_Some; congruence). lia. }
    destruct Ht0 as (pt0 & at0 & Et0).
    destruct (Hinv t pt0 at0 (st :: pt) at_ Et0 Et) as (Hfin & Hrd & Hwr).
    assert (Hin0 : In (pt0, at0) ts0) by (eapply nth_error_In; exact Et0).
    assert (L : List.length (set_nth t (pt, a1) ts) = List.length ts0) by (rewrite set_nth_length; exact Hlen).
    assert (I : forall j q0 b0 q b, nth_error ts0 j = Some (q0, b0) -> nth_error (set_nth t (pt, a1) ts) j = Some (q, b) ->
       final_acc q b s0 = final_acc q0 b0 s0
       /\ (forall c, In c (reads q) -> In c (reads q0)) /\ (forall c, In c (writes q) -> In c (writes q0))).
    { intros j q0 b0 q b Hq0 Hq.
      destruct (Nat.eq_dec t j) as [<-|Hne].
      - rewrite (nth_error_set_nth ts t (pt, a1) _ Et) in Hq. inversion Hq; subst q b.
        rewrite Et0 in Hq0. inversion Hq0; subst q0 b0.
        assert (Ha1 : a1 = fst (exec st at_ s0)).
        { replace a1 with (fst (exec st at_ s)) by (rewrite Eex; reflexivity).
          apply exec_acc_agree. intros c Hc. apply (Hs pt0 at0 c Hin0). apply Hrd.
          destruct st; cbn [reads] in Hc |- *; try (destruct Hc as [<-|[]]; left; reflexivity); destruct Hc. }
        split; [|split].
        + rewrite <- Hfin. cbn [final_acc]. rewrite Ha1. reflexivity.
        + intros c Hc. apply Hrd. destruct st; cbn [reads]; auto. right; exact Hc.
        + intros c Hc. apply Hwr. destruct st; cbn [writes]; auto. right; exact Hc.
      - rewrite (nth_error_set_nth_other ts t j _ Hne) in Hq. exact (Hinv j q0 b0 q b Hq0 Hq). }
    assert (S1 : forall p1 b1 c, In (p1, b1) ts0 -> In c (reads p1) -> s1 c = s0 c).
    { intros p1 b1 c Hp1 Hc.
      replace s1 with (snd (exec st at_ s)) by (rewrite Eex; reflexivity).
      rewrite exec_store_other; [apply (Hs p1 b1 c Hp1 Hc)|].
      intro Hw. apply (Hrf p1 b1 pt0 at0 c Hp1 Hin0 Hc). apply Hwr.
      destruct st; cbn [writes] in Hw |- *; try (destruct Hw as [<-|[]]; left; reflexivity); destruct Hw. }
    exact (IH ts0 _ s0 s1 L I Hrf S1 ts' s' Hrun i p0 a0 p a H0 H').
Qed.
