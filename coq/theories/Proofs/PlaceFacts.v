(* List surgery behind BBAN.from_components: writing a value of the field's width into a slice leaves
   every other in-range slice untouched and can be read back; lifted to the whole sequence of
   placements. *)
From Coq Require Import Lia ZArith List Bool.
From Schwifty Require Import Lib.Base Lib.Lit Model.Clean Model.Data Model.Bban Spec.Iso13616 Spec.RegistrySpec.
From Schwifty Require Import Proofs.CleanFacts Proofs.DecompFacts.
Import ListNotations.

(* ---- pointwise view of firstn / skipn / app --------------------------------------------------------- *)
Lemma nth_error_ext {A} (l l' : list A) : (forall i, nth_error l i = nth_error l' i) -> l = l'.
Proof.
  revert l'; induction l as [|x l IH]; intros [|y l'] H.
  - reflexivity.
  - specialize (H 0); discriminate.
  - specialize (H 0); discriminate.
  - pose proof (H 0) as H0. cbn in H0. inversion H0; subst. f_equal. apply IH. intro i. exact (H (S i)).
Qed.

Lemma nth_error_firstn' {A} : forall n (l : list A) i,
  nth_error (firstn n l) i = if i <? n then nth_error l i else None.
Proof.
  induction n as [|n IH]; intros l i.
  - cbn [firstn]. destruct i; reflexivity.
  - destruct l as [|x l]; [cbn [firstn]; destruct i; cbn [nth_error]; destruct (Nat.ltb _ _); reflexivity|].
    destruct i as [|i]; [reflexivity|]. cbn [firstn nth_error]. rewrite IH.
    change (S i <? S n) with (i <? n). reflexivity.
Qed.

Lemma nth_error_skipn' {A} : forall n (l : list A) i, nth_error (skipn n l) i = nth_error l (n + i).
Proof.
  induction n as [|n IH]; intros l i; [reflexivity|].
  destruct l as [|x l]; [cbn [skipn]; destruct i; reflexivity|]. cbn [skipn Nat.add nth_error]. apply IH.
Qed.

Definition pl {A} (s e : nat) (v acc : list A) : list A := firstn s acc ++ v ++ skipn e acc.
Definition cutn {A} (s e : nat) (l : list A) : list A := firstn (e - s) (skipn s l).

Lemma nth_pl {A} s e (v acc : list A) i :
  s <= e <= List.length acc -> List.length v = e - s ->
  nth_error (pl s e v acc) i =
  if i <? s then nth_error acc i else if i <? e then nth_error v (i - s) else nth_error acc i.
Proof.
  intros H Hv. unfold pl.
  assert (Hf : List.length (firstn s acc) = s) by (rewrite firstn_length; lia).
  destruct (Nat.ltb_spec i s) as [Hi|Hi].
  - rewrite nth_error_app1 by lia. rewrite nth_error_firstn'. replace (i <? s) with true; [reflexivity|].
    symmetry. apply Nat.ltb_lt. exact Hi.
  - rewrite nth_error_app2 by lia. rewrite Hf. destruct (Nat.ltb_spec i e) as [Hie|Hie].
    + rewrite nth_error_app1 by lia. reflexivity.
    + rewrite nth_error_app2 by lia. rewrite nth_error_skipn'. f_equal. lia.
Qed.

Lemma nth_cutn {A} s e (l : list A) i :
  nth_error (cutn s e l) i = if i <? e - s then nth_error l (s + i) else None.
Proof. unfold cutn. rewrite nth_error_firstn', nth_error_skipn'. reflexivity. Qed.

Lemma pl_length {A} s e (v acc : list A) :
  s <= e <= List.length acc -> List.length v = e - s -> List.length (pl s e v acc) = List.length acc.
Proof. intros H Hv. unfold pl. rewrite !app_length, firstn_length, skipn_length. lia. Qed.

Lemma cutn_pl_same {A} s e (v acc : list A) :
  s <= e <= List.length acc -> List.length v = e - s -> cutn s e (pl s e v acc) = v.
Proof.
  intros H Hv. apply nth_error_ext. intro i. rewrite nth_cutn.
  destruct (Nat.ltb_spec i (e - s)) as [Hi|Hi].
  - rewrite nth_pl by assumption. replace (s + i <? s) with false by (symmetry; apply Nat.ltb_ge; lia).
    replace (s + i <? e) with true by (symmetry; apply Nat.ltb_lt; lia). f_equal. lia.
  - symmetry. apply nth_error_None. lia.
Qed.

Lemma cutn_pl_other {A} s e (v acc : list A) s' e' :
  s <= e <= List.length acc -> List.length v = e - s -> s' <= e' -> (e' <= s \/ e <= s') ->
  cutn s' e' (pl s e v acc) = cutn s' e' acc.
Proof.
  intros H Hv H' Hd. apply nth_error_ext. intro i. rewrite !nth_cutn.
  destruct (Nat.ltb_spec i (e' - s')) as [Hi|Hi]; [|reflexivity].
  rewrite nth_pl by assumption.
  destruct (Nat.ltb_spec (s' + i) s) as [H1|H1]; [reflexivity|].
  destruct (Nat.ltb_spec (s' + i) e) as [H2|H2]; [lia|reflexivity].
Qed.

(* ---- the same at Python-slice level ------------------------------------------------------------------- *)
Lemma place_pl (p : Z * Z) (v acc : text) :
  (0 <= fst p <= snd p)%Z -> (snd p <= len acc)%Z ->
  place p v acc = pl (Z.to_nat (fst p)) (Z.to_nat (snd p)) v acc.
Proof.
  intros H1 H2. unfold place, pl, len in *.
  unfold py_slice_to, py_slice, py_slice_from, norm_idx, len.
  replace (0 <? 0)%Z with false by lia. replace (fst p <? 0)%Z with false by lia.
  replace (snd p <? 0)%Z with false by lia.
  replace (Z.min 0 (Z.of_nat (List.length acc))) with 0%Z by lia.
  replace (Z.min (fst p) (Z.of_nat (List.length acc))) with (fst p) by lia.
  replace (Z.min (snd p) (Z.of_nat (List.length acc))) with (snd p) by lia.
  rewrite Z.sub_0_r. reflexivity.
Qed.

Lemma get_slice_cutn (b : text) (p : Z * Z) :
  (0 <= fst p <= snd p)%Z -> (snd p <= len b)%Z ->
  get_slice b (fst p) (Some (snd p)) = cutn (Z.to_nat (fst p)) (Z.to_nat (snd p)) b.
Proof.
  intros H1 H2. rewrite get_slice_sub by lia. unfold cutn. f_equal. lia.
Qed.

Lemma place_len p v acc :
  (0 <= fst p <= snd p)%Z -> (snd p <= len acc)%Z -> len v = (snd p - fst p)%Z -> len (place p v acc) = len acc.
Proof.
  intros H1 H2 Hv. rewrite place_pl by assumption. unfold len in *. f_equal. apply pl_length; lia.
Qed.

Lemma place_same p v acc :
  (0 <= fst p <= snd p)%Z -> (snd p <= len acc)%Z -> len v = (snd p - fst p)%Z ->
  get_slice (place p v acc) (fst p) (Some (snd p)) = v.
Proof.
  intros H1 H2 Hv. rewrite get_slice_cutn by (rewrite ?place_len; assumption).
  rewrite place_pl by assumption. unfold len in *. apply cutn_pl_same; lia.
Qed.

Lemma place_other p v acc q :
  (0 <= fst p <= snd p)%Z -> (snd p <= len acc)%Z -> len v = (snd p - fst p)%Z ->
  (0 <= fst q <= snd q)%Z -> (snd q <= len acc)%Z -> disjoint p q = true ->
  get_slice (place p v acc) (fst q) (Some (snd q)) = get_slice acc (fst q) (Some (snd q)).
Proof.
  intros H1 H2 Hv Q1 Q2 Hd. rewrite !get_slice_cutn by (rewrite ?place_len; assumption).
  rewrite place_pl by assumption. unfold len in *. unfold disjoint in Hd. apply cutn_pl_other; lia.
Qed.

Lemma place_cleaned e p v acc :
  (0 <= fst p <= snd p)%Z -> (snd p <= len acc)%Z ->
  cleaned e v = true -> cleaned e acc = true -> cleaned e (place p v acc) = true.
Proof.
  intros H1 H2 Hv Ha. rewrite place_pl by assumption. unfold pl. rewrite !cleaned_app.
  rewrite cleaned_firstn, cleaned_skipn, Hv by assumption. reflexivity.
Qed.


Lemma forallb_firstn' {A} (p : A -> bool) : forall n l, forallb p l = true -> forallb p (firstn n l) = true.
Proof.
  induction n as [|n IH]; intros l H; [reflexivity|]. destruct l as [|x l]; [reflexivity|].
  cbn [firstn forallb] in *. apply andb_true_iff in H as [H1 H2]. rewrite H1. exact (IH l H2).
Qed.
Lemma forallb_skipn' {A} (p : A -> bool) : forall n l, forallb p l = true -> forallb p (skipn n l) = true.
Proof.
  induction n as [|n IH]; intros l H; [exact H|]. destruct l as [|x l]; [reflexivity|].
  cbn [skipn forallb] in *. apply andb_true_iff in H as [_ H2]. exact (IH l H2).
Qed.

Lemma place_pred (P : N -> bool) p v acc :
  (0 <= fst p <= snd p)%Z -> (snd p <= len acc)%Z ->
  forallb P v = true -> forallb P acc = true -> forallb P (place p v acc) = true.
Proof.
  intros H1 H2 Hv Ha. rewrite place_pl by assumption. unfold pl. rewrite !forallb_app.
  rewrite forallb_firstn', forallb_skipn', Hv by assumption. reflexivity.
Qed.

(* ---- the whole sequence of placements ------------------------------------------------------------------ *)
Section Fold.
Variable e : env.
Variable components : list text.
Variable r : row.
Let L := r_bban_length r.
Let rng := fc_rng components r.
Let step := fc_step components r.

Definition item_ok (kv : text * text) : Prop :=
  range_is_empty (rng (fst kv)) = true \/
  (range_in L (rng (fst kv)) = true /\ len (snd kv) = range_length (rng (fst kv))).

Lemma range_in_spec n p : range_in n p = true <-> (0 <= fst p <= snd p)%Z /\ (snd p <= n)%Z.
Proof. unfold range_in. rewrite !andb_true_iff, !Z.leb_le. tauto. Qed.

Lemma step_len acc kv : item_ok kv -> len acc = L -> len (step acc kv) = L.
Proof.
  intros [He|[Hr Hl]] Ha; unfold step, fc_step; fold rng.
  - rewrite He. exact Ha.
  - destruct (range_is_empty _); [exact Ha|]. apply range_in_spec in Hr as [H1 H2].
    rewrite place_len; [exact Ha|lia|lia|exact Hl].
Qed.

Lemma step_cleaned acc kv :
  item_ok kv -> len acc = L -> (range_is_empty (rng (fst kv)) = true \/ cleaned e (snd kv) = true) ->
  cleaned e acc = true -> cleaned e (step acc kv) = true.
Proof.
  intros [He|[Hr Hl]] Ha Hv Hc; unfold step, fc_step; fold rng.
  - rewrite He. exact Hc.
  - destruct (range_is_empty _) eqn:Ee; [exact Hc|]. apply range_in_spec in Hr as [H1 H2].
    destruct Hv as [Hv|Hv]; [discriminate|]. apply place_cleaned; try assumption; lia.
Qed.

Lemma fold_len items : forall acc,
  (forall kv, In kv items -> item_ok kv) -> len acc = L -> len (fold_left step items acc) = L.
Proof.
  induction items as [|kv items IH]; intros acc Hok Ha; [exact Ha|].
  cbn [fold_left]. apply IH; [intros; apply Hok; right; assumption|].
  apply step_len; [apply Hok; left; reflexivity|exact Ha].
Qed.

Lemma fold_cleaned items : forall acc,
  (forall kv, In kv items -> item_ok kv) ->
  (forall kv, In kv items -> range_is_empty (rng (fst kv)) = true \/ cleaned e (snd kv) = true) ->
  len acc = L -> cleaned e acc = true -> cleaned e (fold_left step items acc) = true.
Proof.
  induction items as [|kv items IH]; intros acc Hok Hcl Ha Hc; [exact Hc|].
  cbn [fold_left]. apply IH; try (intros; first [apply Hok|apply Hcl]; right; assumption).
  - apply step_len; [apply Hok; left; reflexivity|exact Ha].
  - apply step_cleaned; try assumption; [apply Hok|apply Hcl]; left; reflexivity.
Qed.


Lemma step_pred (P : N -> bool) acc kv :
  item_ok kv -> len acc = L -> (range_is_empty (rng (fst kv)) = true \/ forallb P (snd kv) = true) ->
  forallb P acc = true -> forallb P (step acc kv) = true.
Proof.
  intros [He|[Hr Hl]] Ha Hv Hc; unfold step, fc_step; fold rng.
  - rewrite He. exact Hc.
  - destruct (range_is_empty _) eqn:Ee; [exact Hc|]. apply range_in_spec in Hr as [H1 H2].
    destruct Hv as [Hv|Hv]; [discriminate|]. apply place_pred; try assumption; lia.
Qed.

Lemma fold_pred (P : N -> bool) items : forall acc,
  (forall kv, In kv items -> item_ok kv) ->
  (forall kv, In kv items -> range_is_empty (rng (fst kv)) = true \/ forallb P (snd kv) = true) ->
  len acc = L -> forallb P acc = true -> forallb P (fold_left step items acc) = true.
Proof.
  induction items as [|kv items IH]; intros acc Hok Hcl Ha Hc; [exact Hc|].
  cbn [fold_left]. apply IH; try (intros; first [apply Hok|apply Hcl]; right; assumption).
  - apply step_len; [apply Hok; left; reflexivity|exact Ha].
  - apply step_pred; try assumption; [apply Hok|apply Hcl]; left; reflexivity.
Qed.

Lemma step_other acc kv q :
  item_ok kv -> len acc = L -> range_in L q = true -> disjoint (rng (fst kv)) q = true ->
  get_slice (step acc kv) (fst q) (Some (snd q)) = get_slice acc (fst q) (Some (snd q)).
Proof.
  intros [He|[Hr Hl]] Ha Hq Hd; unfold step, fc_step; fold rng.
  - rewrite He. reflexivity.
  - destruct (range_is_empty _); [reflexivity|]. apply range_in_spec in Hr as [H1 H2].
    apply range_in_spec in Hq as [Q1 Q2]. apply place_other; try assumption; lia.
Qed.

Lemma fold_other q items : forall acc,
  (forall kv, In kv items -> item_ok kv) -> len acc = L -> range_in L q = true ->
  forallb (fun k => disjoint (rng k) q) (map fst items) = true ->
  get_slice (fold_left step items acc) (fst q) (Some (snd q)) = get_slice acc (fst q) (Some (snd q)).
Proof.
  induction items as [|kv items IH]; intros acc Hok Ha Hq Hd; [reflexivity|].
  cbn [fold_left]. cbn [map forallb] in Hd. apply andb_true_iff in Hd as [Hd1 Hd2].
  rewrite IH; try assumption.
  - apply step_other; try assumption. apply Hok; left; reflexivity.
  - intros; apply Hok; right; assumption.
  - apply step_len; [apply Hok; left; reflexivity|exact Ha].
Qed.

Lemma fold_get items : forall acc k v,
  (forall kv, In kv items -> item_ok kv) -> len acc = L ->
  pairwise (fun a b => disjoint (rng a) (rng b)) (map fst items) = true ->
  In (k, v) items -> range_is_empty (rng k) = false ->
  get_slice (fold_left step items acc) (fst (rng k)) (Some (snd (rng k))) = v.
Proof.
  induction items as [|kv items IH]; intros acc k v Hok Ha Hp Hin Hne; [destruct Hin|].
  cbn [fold_left]. cbn [map pairwise] in Hp. apply andb_true_iff in Hp as [Hp1 Hp2].
  assert (Hkv : item_ok kv) by (apply Hok; left; reflexivity).
  assert (Hl : len (step acc kv) = L) by (apply step_len; assumption).
  destruct Hin as [Heq|Hin].
  - subst kv. destruct Hkv as [He|[Hr Hlv]]; [cbn [fst] in He; congruence|]. cbn [fst snd] in *.
    assert (Hok' : forall kv, In kv items -> item_ok kv) by (intros; apply Hok; right; assumption).
    assert (Hp1' : forallb (fun b => disjoint (rng b) (rng k)) (map fst items) = true).
    { rewrite forallb_forall in *. intros b Hb. unfold disjoint. rewrite orb_comm. exact (Hp1 b Hb). }
    rewrite (fold_other (rng k) items (step acc (k, v)) Hok' Hl Hr Hp1').
    unfold step, fc_step; fold rng. cbn [fst snd]. rewrite Hne.
    apply range_in_spec in Hr as [H1 H2]. apply place_same; try assumption; lia.
  - apply IH; try assumption. intros; apply Hok; right; assumption.
Qed.
End Fold.

(* ---- association lists with distinct keys ---------------------------------------------------------------- *)
Definition nodup_keys (l : list text) : bool := pairwise (fun a b => negb (text_eqb a b)) l.

Lemma map_fst_set_assoc k v l : map fst (set_assoc k v l) = map fst l.
Proof.
  induction l as [|[k' v'] l IH]; [reflexivity|]. cbn [set_assoc].
  destruct (text_eqb k k'); cbn [map fst]; [reflexivity|f_equal; exact IH].
Qed.

Lemma get_val_set_same k v l : In k (map fst l) -> get_val k (set_assoc k v l) = v.
Proof.
  unfold get_val. induction l as [|[k' v'] l IH]; intro H; [destruct H|]. cbn [set_assoc].
  destruct (text_eqb k k') eqn:E; cbn [assoc]; rewrite E; [reflexivity|].
  apply IH. destruct H as [H|H]; [|exact H]. cbn [fst] in H. subst k'. rewrite text_eqb_refl in E. discriminate.
Qed.

Lemma get_val_set_other k k' v l : text_eqb k' k = false -> get_val k' (set_assoc k v l) = get_val k' l.
Proof.
  intro Hne. unfold get_val. induction l as [|[k2 v2] l IH]; [reflexivity|]. cbn [set_assoc].
  destruct (text_eqb k k2) eqn:E; cbn [assoc].
  - apply text_eqb_eq in E. subst k2. rewrite Hne. reflexivity.
  - destruct (text_eqb k' k2); [reflexivity|exact IH].
Qed.

Lemma in_get_val k v (l : list (text * text)) : nodup_keys (map fst l) = true -> In (k, v) l -> get_val k l = v.
Proof.
  unfold get_val, nodup_keys. induction l as [|[k' v'] l IH]; intros Hn Hin; [destruct Hin|].
  cbn [map fst pairwise] in Hn. apply andb_true_iff in Hn as [Hn1 Hn2]. cbn [assoc].
  destruct Hin as [Heq|Hin].
  - inversion Heq; subst. rewrite text_eqb_refl. reflexivity.
  - destruct (text_eqb k k') eqn:E; [|apply IH; assumption].
    apply text_eqb_eq in E. subst k'. rewrite forallb_forall in Hn1.
    specialize (Hn1 k (in_map fst _ _ Hin)). cbn [fst] in Hn1. rewrite text_eqb_refl in Hn1. discriminate.
Qed.

Lemma get_val_map (g : text -> text) k comps : In k comps -> get_val k (map (fun c => (c, g c)) comps) = g k.
Proof.
  unfold get_val. induction comps as [|c comps IH]; intro H; [destruct H|]. cbn [map assoc].
  destruct (text_eqb k c) eqn:E; [apply text_eqb_eq in E; subst; reflexivity|].
  apply IH. destruct H as [H|H]; [subst; rewrite text_eqb_refl in E; discriminate|exact H].
Qed.

Lemma in_map_val (g : text -> text) k v comps : In (k, v) (map (fun c => (c, g c)) comps) -> In k comps /\ v = g k.
Proof. intro H. apply in_map_iff in H as (c & Hc & Hin). inversion Hc; subst. split; [exact Hin|reflexivity]. Qed.

(* ---- str.zfill -------------------------------------------------------------------------------------------- *)
Lemma zeros_length n : List.length (zeros n) = n.
Proof. apply repeat_length. Qed.

Lemma zfill_len s w : len (zfill s w) = Z.max (len s) w.
Proof.
  unfold zfill. destruct (Z.leb_spec w (len s)) as [H|H]; [lia|].
  destruct s as [|c s'].
  - unfold len. rewrite zeros_length. cbn [List.length]. unfold len in H. cbn [List.length] in H. lia.
  - unfold len in *. destruct (N.eqb c cplus || N.eqb c cminus); cbn [List.length]; rewrite ?app_length, zeros_length;
      cbn [List.length] in *; lia.
Qed.

Lemma zeros_pred (P : N -> bool) n : P c0 = true -> forallb P (zeros n) = true.
Proof. intro H. unfold zeros. induction n as [|n IH]; [reflexivity|]. cbn [repeat forallb]. rewrite H. exact IH. Qed.

Lemma zeros_cleaned e n : clean_char e c0 = true -> cleaned e (zeros n) = true.
Proof. intro H. unfold cleaned, zeros. induction n as [|n IH]; [reflexivity|]. cbn [repeat forallb]. rewrite H. exact IH. Qed.

Lemma zfill_cleaned e s w : clean_char e c0 = true -> cleaned e s = true -> cleaned e (zfill s w) = true.
Proof.
  intros H0 Hs. unfold zfill. destruct (Z.leb w (len s)); [exact Hs|].
  destruct s as [|c s']; [apply zeros_cleaned; exact H0|].
  unfold cleaned in Hs. cbn [forallb] in Hs. apply andb_true_iff in Hs as [Hc Hs'].
  destruct (N.eqb c cplus || N.eqb c cminus).
  - unfold cleaned. cbn [forallb]. rewrite Hc. cbn [andb]. fold (cleaned e (zeros (Z.to_nat (w - len (c :: s'))) ++ s')).
    rewrite cleaned_app. rewrite zeros_cleaned by exact H0. exact Hs'.
  - rewrite cleaned_app. rewrite zeros_cleaned by exact H0. unfold cleaned. cbn [forallb]. rewrite Hc. exact Hs'.
Qed.

(* zfill only ever prepends (after a sign): the supplied characters survive as they are *)
Lemma zfill_unsigned s w :
  match s with c :: _ => (N.eqb c cplus || N.eqb c cminus) = false | [] => True end ->
  zfill s w = zeros (Z.to_nat (w - len s)) ++ s.
Proof.
  intro H. unfold zfill. destruct (Z.leb_spec w (len s)) as [Hl|Hl].
  - replace (Z.to_nat (w - len s)) with 0 by lia. reflexivity.
  - destruct s as [|c s']; [rewrite app_nil_r; reflexivity|]. rewrite H. reflexivity.
Qed.

Lemma py_slice_sub (s : text) a b :
  (0 <= a <= b)%Z -> (b <= len s)%Z -> py_slice s a b = firstn (Z.to_nat (b - a)) (skipn (Z.to_nat a) s).
Proof.
  intros H1 H2. unfold py_slice, norm_idx.
  replace (a <? 0)%Z with false by lia. replace (b <? 0)%Z with false by lia.
  replace (Z.min a (len s)) with a by lia. replace (Z.min b (len s)) with b by lia. reflexivity.
Qed.

Lemma split_glue (s : text) a b :
  (0 <= a)%Z -> (0 <= b)%Z -> len s = (a + b)%Z -> py_slice_to s a ++ py_slice s a (a + b) = s.
Proof.
  intros Ha Hb Hl. unfold py_slice_to. rewrite !py_slice_sub by lia.
  replace (Z.to_nat (a - 0)) with (Z.to_nat a) by lia. replace (Z.to_nat (a + b - a)) with (Z.to_nat b) by lia.
  cbn [Z.to_nat skipn]. rewrite (firstn_all2 (n := Z.to_nat b)) by (rewrite skipn_length; unfold len in Hl; lia).
  apply firstn_skipn.
Qed.

Lemma assoc_map {A} (g : text -> A) k comps : In k comps -> assoc k (map (fun c => (c, g c)) comps) = Some (g k).
Proof.
  induction comps as [|c comps IH]; intro H; [destruct H|]. cbn [map assoc].
  destruct (text_eqb k c) eqn:E; [apply text_eqb_eq in E; subst; reflexivity|].
  apply IH. destruct H as [H|H]; [subst; rewrite text_eqb_refl in E; discriminate|exact H].
Qed.

Lemma existsb_in k comps : existsb (text_eqb k) comps = true -> In k comps.
Proof. intro H. apply existsb_exists in H as (x & Hx & E). apply text_eqb_eq in E. subst. exact Hx. Qed.

Lemma get_slice_00 (b : text) : get_slice b 0 (Some 0%Z) = [].
Proof.
  unfold get_slice. destruct ((0 <? len b)%Z && (0 <=? len b)%Z); [|reflexivity].
  unfold py_slice, norm_idx. cbn [Z.ltb Z.compare]. replace (Z.min 0 (len b)) with 0%Z by (unfold len; lia). reflexivity.
Qed.

Lemma py_slice_to_0 (s : text) : py_slice_to s 0 = [].
Proof.
  unfold py_slice_to, py_slice, norm_idx. change (0 <? 0)%Z with false. cbv iota.
  replace (Z.min 0 (len s)) with 0%Z by (unfold len; lia). reflexivity.
Qed.

Lemma empty_range p : range_is_empty p = true -> p = (0, 0)%Z.
Proof. destruct p as [a b]. unfold range_is_empty. cbn [fst snd]. rewrite andb_true_iff, !Z.eqb_eq. intros [-> ->]. reflexivity. Qed.

(* ---- BBAN.from_components ------------------------------------------------------------------------------------ *)
Section FromComponents.
Variable e : env.
Variable components : list text.
Variable T : table.
Variable find_algo : text -> text -> option algo.
Hypothesis WF : env_wf e = true.
Hypothesis ZERO : clean_char e c0 = true.

(* what the placement needs of a country's position table: every component's range lies inside the BBAN,
   ranges are pairwise disjoint, component names are distinct and include the four the code names *)
Definition fc_layout_ok (r : row) : bool :=
  let rng := fc_rng components r in
  (0 <=? r_bban_length r)%Z
  && forallb (fun c => range_in (r_bban_length r) (rng c)) components
  && pairwise (fun a b => disjoint (rng a) (rng b)) components
  && nodup_keys components
  && existsb (text_eqb k_bank) components && existsb (text_eqb k_branch) components
  && existsb (text_eqb k_account) components && existsb (text_eqb k_national) components
  && negb (text_eqb k_bank k_branch) && negb (text_eqb k_bank k_account) && negb (text_eqb k_bank k_national)
  && negb (text_eqb k_branch k_account) && negb (text_eqb k_branch k_national) && negb (text_eqb k_account k_national).

Variable cc : text.
Variable r : row.
Variable values : list (text * text).
Hypothesis Er : find_row T cc = Some r.
Hypothesis LAY : fc_layout_ok r = true.
Let L := r_bban_length r.
Let rng := fc_rng components r.
Let wd k := range_length (rng k).
(* components other than the bank, branch and account codes are absent or fit their fields (those three are guarded
   by the code itself) *)
Hypothesis ONLY : forall k, In k components ->
  text_eqb k k_bank = false -> text_eqb k k_branch = false -> text_eqb k k_account = false ->
  (len (clean e (get_val k values)) <= wd k)%Z.
Let G c := zfill (clean e (get_val c values)) (wd c).
Let comps0 := fc_comps0 e components r values.
Let comps1 := fc_comps1 components r comps0.

Lemma lay_facts :
  (0 <= L)%Z /\ (forall c, In c components -> range_in L (rng c) = true)
  /\ pairwise (fun a b => disjoint (rng a) (rng b)) components = true
  /\ nodup_keys components = true
  /\ In k_bank components /\ In k_branch components /\ In k_account components /\ In k_national components
  /\ text_eqb k_bank k_branch = false /\ text_eqb k_bank k_account = false /\ text_eqb k_bank k_national = false
  /\ text_eqb k_branch k_account = false /\ text_eqb k_branch k_national = false /\ text_eqb k_account k_national = false.
Proof using All.
  unfold fc_layout_ok in LAY. fold rng L in LAY.
  repeat (apply andb_true_iff in LAY as [LAY ?]).
  repeat match goal with H : negb _ = true |- _ => apply negb_true_iff in H end.
  repeat match goal with H : existsb _ _ = true |- _ => apply existsb_in in H end.
  rewrite forallb_forall in *. apply Z.leb_le in LAY. repeat split; assumption.
Qed.

Lemma rng_in c : In c components -> rng c = position_range r c.
Proof using All. intro H. unfold rng, fc_rng, fc_ranges. rewrite (assoc_map (position_range r) c components H). reflexivity. Qed.

Lemma comps0_map : comps0 = map (fun c => (c, G c)) components.
Proof using All.
  unfold comps0, fc_comps0, fc_ranges. rewrite map_map. apply map_ext_in. intros c Hc. cbn [fst snd].
  unfold G, wd. rewrite (rng_in c Hc). reflexivity.
Qed.

Lemma comps0_keys : map fst comps0 = components.
Proof using All. rewrite comps0_map, map_map. cbn [fst]. apply map_id. Qed.

Lemma comps1_keys : map fst comps1 = components.
Proof using All.
  unfold comps1, fc_comps1. destruct (fc_split _ _ _); [rewrite !map_fst_set_assoc|]; apply comps0_keys.
Qed.

Lemma wd_nonneg c : In c components -> (0 <= wd c)%Z.
Proof using All.
  intro H. destruct lay_facts as (_ & Hr & _). specialize (Hr c H). apply range_in_spec in Hr.
  unfold wd, range_length. lia.
Qed.

Lemma G_cleaned c : cleaned e (G c) = true.
Proof using All. unfold G. apply zfill_cleaned; [exact ZERO|apply clean_cleaned; exact WF]. Qed.

Lemma G_len c : len (G c) = Z.max (len (clean e (get_val c values))) (wd c).
Proof using All. unfold G. apply zfill_len. Qed.

Lemma G_len_other c :
  In c components -> text_eqb c k_bank = false -> text_eqb c k_branch = false -> text_eqb c k_account = false ->
  len (G c) = wd c.
Proof using All.
  intros Hc H1 H2 H3. rewrite G_len. pose proof (ONLY c Hc H1 H2 H3). lia.
Qed.

(* the value each component has when the guards have passed *)
Definition V1 (k : text) : text := get_val k comps1.

Lemma V1_nosplit k : fc_split components r comps0 = false -> In k components -> V1 k = G k.
Proof using All.
  intros Hs Hk. unfold V1, comps1, fc_comps1. rewrite Hs, comps0_map. apply get_val_map. exact Hk.
Qed.

Lemma text_eqb_sym a b : text_eqb a b = text_eqb b a.
Proof.
  destruct (text_eqb a b) eqn:E1, (text_eqb b a) eqn:E2; try reflexivity.
  - apply text_eqb_eq in E1. subst. rewrite text_eqb_refl in E2. discriminate.
  - apply text_eqb_eq in E2. subst. rewrite text_eqb_refl in E1. discriminate.
Qed.

Lemma V1_split k :
  fc_split components r comps0 = true -> In k components ->
  V1 k = if text_eqb k k_bank then py_slice_to (G k_bank) (wd k_bank)
         else if text_eqb k k_branch then py_slice (G k_bank) (wd k_bank) (wd k_bank + wd k_branch)
         else G k.
Proof using All.
  intros Hs Hk. destruct lay_facts as (_ & _ & _ & _ & Hb & Hbr & _ & _ & Nbb & _).
  unfold V1, comps1, fc_comps1. rewrite Hs. cbv zeta. fold rng. fold (wd k_bank) (wd k_branch).
  assert (EB : get_val k_bank comps0 = G k_bank) by (rewrite comps0_map; apply get_val_map; exact Hb).
  rewrite EB.
  destruct (text_eqb k k_bank) eqn:E1.
  - apply text_eqb_eq in E1. subst k. apply get_val_set_same. rewrite map_fst_set_assoc, comps0_keys. exact Hb.
  - rewrite get_val_set_other by exact E1. destruct (text_eqb k k_branch) eqn:E2.
    + apply text_eqb_eq in E2. subst k. apply get_val_set_same. rewrite comps0_keys. exact Hbr.
    + rewrite get_val_set_other by exact E2. rewrite comps0_map. apply get_val_map. exact Hk.
Qed.

Lemma split_spec :
  fc_split components r comps0 = true <-> (wd k_branch <> 0 /\ len (G k_bank) = wd k_bank + wd k_branch)%Z.
Proof using All.
  destruct lay_facts as (_ & _ & _ & _ & Hb & _).
  unfold fc_split. fold rng. fold (wd k_bank) (wd k_branch).
  assert (EB : get_val k_bank comps0 = G k_bank) by (rewrite comps0_map; apply get_val_map; exact Hb).
  rewrite EB, andb_true_iff, negb_true_iff, Z.eqb_neq, Z.eqb_eq. tauto.
Qed.

(* with the three length guards passed, every component value has exactly its field's width and is clean *)
Lemma V1_ok :
  (len (V1 k_bank) <= wd k_bank)%Z -> (len (V1 k_branch) <= wd k_branch)%Z -> (len (V1 k_account) <= wd k_account)%Z ->
  forall k, In k components -> len (V1 k) = wd k /\ cleaned e (V1 k) = true.
Proof using All.
  intros GB GR GA k Hk.
  destruct lay_facts as (_ & _ & _ & _ & Hb & Hbr & Hac & _ & Nbb & Nba & _ & Nra & _).
  pose proof (wd_nonneg _ Hb) as Wb. pose proof (wd_nonneg _ Hbr) as Wr. pose proof (wd_nonneg _ Hk) as Wk.
  destruct (fc_split components r comps0) eqn:Hs.
  - pose proof (proj1 split_spec Hs) as [Hne Hlen].
    rewrite (V1_split k Hs Hk). rewrite (V1_split _ Hs Hac) in GA.
    rewrite (text_eqb_sym k_account k_bank), Nba, (text_eqb_sym k_account k_branch), Nra in GA.
    destruct (text_eqb k k_bank) eqn:E1; [|destruct (text_eqb k k_branch) eqn:E2].
    + apply text_eqb_eq in E1. subst k. split.
      * unfold py_slice_to. rewrite py_slice_sub by lia. unfold len. rewrite firstn_length, skipn_length.
        unfold len in Hlen. cbn [Z.to_nat]. lia.
      * unfold py_slice_to. rewrite py_slice_sub by lia. apply cleaned_firstn, cleaned_skipn, G_cleaned.
    + apply text_eqb_eq in E2. subst k. split.
      * rewrite py_slice_sub by lia. unfold len. rewrite firstn_length, skipn_length. unfold len in Hlen. lia.
      * rewrite py_slice_sub by lia. apply cleaned_firstn, cleaned_skipn, G_cleaned.
    + split; [|apply G_cleaned]. destruct (text_eqb k k_account) eqn:E3.
      * apply text_eqb_eq in E3. subst k. rewrite G_len in *. lia.
      * apply G_len_other; assumption.
  - rewrite (V1_nosplit _ Hs Hb) in GB. rewrite (V1_nosplit _ Hs Hbr) in GR. rewrite (V1_nosplit _ Hs Hac) in GA.
    rewrite (V1_nosplit k Hs Hk). split; [|apply G_cleaned].
    destruct (text_eqb k k_bank) eqn:E1; [apply text_eqb_eq in E1; subst k; rewrite G_len in *; lia|].
    destruct (text_eqb k k_branch) eqn:E2; [apply text_eqb_eq in E2; subst k; rewrite G_len in *; lia|].
    destruct (text_eqb k k_account) eqn:E3; [apply text_eqb_eq in E3; subst k; rewrite G_len in *; lia|].
    apply G_len_other; assumption.
Qed.

Definition shape_ok (K : text) : Prop :=
  K = [] \/ range_is_empty (rng k_national) = true \/ (cleaned e K = true /\ len K = wd k_national).

Definition V2 (K : text) (k : text) : text := get_val k (fc_comps2 K comps1).

Lemma comps2_keys K : map fst (fc_comps2 K comps1) = components.
Proof using All. unfold fc_comps2. destruct K; [|rewrite map_fst_set_assoc]; apply comps1_keys. Qed.

Lemma V2_eq K k :
  V2 K k = match K with [] => V1 k | _ => if text_eqb k k_national then K else V1 k end.
Proof using All.
  destruct lay_facts as (_ & _ & _ & _ & _ & _ & _ & Hn & _).
  unfold V2, fc_comps2. destruct K as [|c K']; [reflexivity|].
  destruct (text_eqb k k_national) eqn:E.
  - apply text_eqb_eq in E. subst k. apply get_val_set_same. rewrite comps1_keys. exact Hn.
  - apply get_val_set_other. exact E.
Qed.

Theorem fc_result_ext b :
  from_components e components T find_algo cc values = Ok b ->
  (forall K, compute_national find_algo cc comps1 = Ok K -> shape_ok K) ->
  exists K, compute_national find_algo cc comps1 = Ok K /\
    len b = L /\ cleaned e b = true /\
    (forall k, In k components -> len (V1 k) = wd k) /\
    (forall k, In k components -> range_is_empty (rng k) = false ->
      get_slice b (fst (rng k)) (Some (snd (rng k))) = V2 K k /\ len (V2 K k) = wd k) /\
    (* any character predicate that holds of "0" and of every placed value holds of the result *)
    (forall P : N -> bool, P c0 = true ->
       (forall k, In k components -> range_is_empty (rng k) = false -> forallb P (V2 K k) = true) ->
       forallb P b = true) /\
    (* positions that belong to no component keep the zero filler *)
    (forall q, range_in L q = true ->
       (forall k, In k components -> range_is_empty (rng k) = true \/ disjoint (rng k) q = true) ->
       get_slice b (fst q) (Some (snd q)) = get_slice (zeros (Z.to_nat L)) (fst q) (Some (snd q))).
Proof using All.
  intros H HK. unfold from_components, get_spec in H. rewrite Er in H. cbn [bind] in H.
  destruct (r_positions r) as [ps|] eqn:Eps; [|discriminate]. cbv zeta in H.
  change (fc_comps0 e components r values) with comps0 in H.
  change (fc_comps1 components r comps0) with comps1 in H.
  destruct (fc_split components r comps0 && nonempty_text (get_val k_branch values)); [discriminate|].
  fold rng in H. fold (wd k_bank) (wd k_branch) (wd k_account) in H. fold (V1 k_bank) (V1 k_branch) (V1 k_account) in H.
  destruct (Z.ltb_spec (wd k_bank) (len (V1 k_bank))) as [|GB]; [discriminate|].
  destruct (Z.ltb_spec (wd k_branch) (len (V1 k_branch))) as [|GR]; [discriminate|].
  destruct (Z.ltb_spec (wd k_account) (len (V1 k_account))) as [|GA]; [discriminate|].
  destruct (fc_check components r values comps1) as [[]|x|x]; try discriminate. cbn [bind] in H.
  destruct (compute_national find_algo cc comps1) as [K|x|x] eqn:EK; try discriminate. cbn [bind] in H.
  specialize (HK K eq_refl). exists K. split; [reflexivity|].
  pose proof (V1_ok GB GR GA) as HV.
  destruct lay_facts as (HL & Hrange & Hpair & Hnodup & _ & _ & _ & Hn & _).
  set (items := fc_comps2 K comps1) in *.
  assert (Hkeys : map fst items = components) by apply comps2_keys.
  assert (Hitem : forall kv, In kv items -> In (fst kv) components /\ snd kv = V2 K (fst kv)).
  { intros [k v] Hin. cbn [fst snd]. split.
    - rewrite <- Hkeys. apply (in_map fst _ _ Hin).
    - symmetry. apply (in_get_val k v items); [rewrite Hkeys; exact Hnodup|exact Hin]. }
  assert (HV2 : forall k, In k components ->
            (range_is_empty (rng k) = true \/ (len (V2 K k) = wd k /\ cleaned e (V2 K k) = true))).
  { intros k Hk. rewrite V2_eq. destruct K as [|c K']; [right; apply HV; exact Hk|].
    destruct (text_eqb k k_national) eqn:E; [|right; apply HV; exact Hk].
    apply text_eqb_eq in E. subst k. destruct HK as [HK|[HK|[HK1 HK2]]]; [discriminate|left; exact HK|right; split; assumption]. }
  assert (Hok : forall kv, In kv items -> item_ok components r kv).
  { intros kv Hin. destruct (Hitem kv Hin) as [Hc Hv]. unfold item_ok. fold rng. fold L.
    destruct (HV2 _ Hc) as [He|[Hl _]]; [left; exact He|right]. split; [apply Hrange; exact Hc|].
    rewrite Hv. exact Hl. }
  assert (Hcl : forall kv, In kv items -> range_is_empty (rng (fst kv)) = true \/ cleaned e (snd kv) = true).
  { intros kv Hin. destruct (Hitem kv Hin) as [Hc Hv].
    destruct (HV2 _ Hc) as [He|[_ Hcl]]; [left; exact He|right]. rewrite Hv. exact Hcl. }
  assert (Hz : len (zeros (Z.to_nat L)) = L) by (unfold len; rewrite zeros_length; lia).
  assert (Hpre_len : len (fc_place components r items) = L)
    by (apply (fold_len components r items _ Hok Hz)).
  assert (Hpre_cl : cleaned e (fc_place components r items) = true)
    by (apply (fold_cleaned e components r items _ Hok Hcl Hz); apply zeros_cleaned; exact ZERO).
  rewrite (cleaned_fix e _ Hpre_cl) in H. inversion H; subst b. clear H.
  split; [exact Hpre_len|]. split; [exact Hpre_cl|]. split; [intros k Hk; apply HV; exact Hk|]. split.
  - intros k Hk Hne. destruct (HV2 k Hk) as [He|[Hl _]]; [fold rng in He; congruence|]. split; [|exact Hl].
    apply (fold_get components r items); try assumption.
    + rewrite Hkeys. exact Hpair.
    + (* (k, V2 K k) is an item *)
      rewrite <- Hkeys in Hk. apply in_map_iff in Hk as ([k' v] & Ek & Hin). cbn [fst] in Ek. subst k'.
      destruct (Hitem _ Hin) as [_ Hv]. cbn [fst snd] in Hv. rewrite <- Hv. exact Hin.
  - split.
    + intros P P0 HP. apply (fold_pred components r P items _ Hok); [|exact Hz|].
      * intros kv Hin. destruct (Hitem kv Hin) as [Hc Hv]. destruct (range_is_empty (rng (fst kv))) eqn:Ee; [left; exact Ee|right].
        rewrite Hv. exact (HP _ Hc Ee).
      * apply zeros_pred. exact P0.
    + intros q Hq Hdis. unfold fc_place.
      assert (Hgen : forall its acc, (forall kv, In kv its -> item_ok components r kv) -> len acc = L ->
                (forall kv, In kv its -> range_is_empty (rng (fst kv)) = true \/ disjoint (rng (fst kv)) q = true) ->
                get_slice (fold_left (fc_step components r) its acc) (fst q) (Some (snd q)) = get_slice acc (fst q) (Some (snd q))).
      { induction its as [|kv its IH]; intros acc Hok' Ha Hd'; [reflexivity|]. cbn [fold_left].
        assert (Hkv : item_ok components r kv) by (apply Hok'; left; reflexivity).
        rewrite IH.
        - destruct (Hd' kv (or_introl eq_refl)) as [He|Hdj].
          + unfold fc_step. fold rng. rewrite He. reflexivity.
          + apply (step_other components r acc kv q Hkv Ha Hq Hdj).
        - intros; apply Hok'; right; assumption.
        - apply step_len; assumption.
        - intros; apply Hd'; right; assumption. }
      apply Hgen; [exact Hok|exact Hz|]. intros kv Hin. destruct (Hitem kv Hin) as [Hc _]. exact (Hdis _ Hc).
Qed.

Theorem fc_result b :
  from_components e components T find_algo cc values = Ok b ->
  (forall K, compute_national find_algo cc comps1 = Ok K -> shape_ok K) ->
  exists K, compute_national find_algo cc comps1 = Ok K /\
    len b = L /\ cleaned e b = true /\
    (forall k, In k components -> len (V1 k) = wd k) /\
    forall k, In k components -> range_is_empty (rng k) = false ->
      get_slice b (fst (rng k)) (Some (snd (rng k))) = V2 K k /\ len (V2 K k) = wd k.
Proof using All.
  intros H HK. destruct (fc_result_ext b H HK) as (K & A1 & A2 & A3 & A4 & A5 & _ & _).
  exists K. split; [exact A1|]. split; [exact A2|]. split; [exact A3|]. split; [exact A4|exact A5].
Qed.

(* a value supplied under one of the three code names sits, cleaned and zero-padded to the field width, at the
   published position (no bank code of combined width) *)
Theorem fc_placed_any b k :
  from_components e components T find_algo cc values = Ok b ->
  (forall K, compute_national find_algo cc comps1 = Ok K -> shape_ok K) ->
  fc_split components r comps0 = false ->
  In k components -> text_eqb k k_national = false ->
  get_slice b (fst (rng k)) (Some (snd (rng k))) = zfill (clean e (get_val k values)) (wd k)
  /\ len (zfill (clean e (get_val k values)) (wd k)) = wd k.
Proof using All.
  intros H HK Hs Hin Hnn.
  destruct (fc_result b H HK) as (K & _ & _ & _ & Hlen & Hget).
  pose proof (Hlen k Hin) as Hl. rewrite (V1_nosplit k Hs Hin) in Hl. fold (G k). split; [|exact Hl].
  destruct (range_is_empty (rng k)) eqn:Ee.
  - pose proof (empty_range _ Ee) as Ep. unfold wd, range_length in Hl. rewrite Ep in *. cbn [fst snd] in *.
    rewrite get_slice_00. destruct (G k); [reflexivity|]. unfold len in Hl. cbn [List.length] in Hl. lia.
  - destruct (Hget k Hin Ee) as [Hg _]. rewrite Hg, V2_eq, Hnn. rewrite (V1_nosplit k Hs Hin).
    destruct K; reflexivity.
Qed.

Theorem fc_placed b k :
  from_components e components T find_algo cc values = Ok b ->
  (forall K, compute_national find_algo cc comps1 = Ok K -> shape_ok K) ->
  fc_split components r comps0 = false ->
  k = k_bank \/ k = k_branch \/ k = k_account ->
  get_slice b (fst (rng k)) (Some (snd (rng k))) = zfill (clean e (get_val k values)) (wd k)
  /\ len (zfill (clean e (get_val k values)) (wd k)) = wd k.
Proof using All.
  intros H HK Hs Hk.
  destruct lay_facts as (_ & _ & _ & _ & Hb & Hbr & Hac & _ & _ & _ & Nbn & _ & Nrn & Nan).
  assert (Hin : In k components) by (destruct Hk as [-> | [-> | ->]]; assumption).
  assert (Hnn : text_eqb k k_national = false) by (destruct Hk as [-> | [-> | ->]]; assumption).
  exact (fc_placed_any b k H HK Hs Hin Hnn).
Qed.

(* a bank code of combined bank-plus-branch width is split across both fields *)
Theorem fc_placed_split b :
  from_components e components T find_algo cc values = Ok b ->
  (forall K, compute_national find_algo cc comps1 = Ok K -> shape_ok K) ->
  fc_split components r comps0 = true ->
  get_slice b (fst (rng k_bank)) (Some (snd (rng k_bank))) ++ get_slice b (fst (rng k_branch)) (Some (snd (rng k_branch)))
    = zfill (clean e (get_val k_bank values)) (wd k_bank)
  /\ len (zfill (clean e (get_val k_bank values)) (wd k_bank)) = (wd k_bank + wd k_branch)%Z
  /\ get_slice b (fst (rng k_account)) (Some (snd (rng k_account))) = zfill (clean e (get_val k_account values)) (wd k_account)
  /\ get_val k_branch values = [].
Proof using All.
  intros H HK Hs.
  destruct (fc_result b H HK) as (K & _ & _ & _ & Hlen & Hget).
  destruct lay_facts as (_ & _ & _ & _ & Hb & Hbr & Hac & _ & Nbb & Nba & Nbn & Nra & Nrn & Nan).
  pose proof (proj1 split_spec Hs) as [Hne Hl]. fold (G k_bank) (G k_account).
  pose proof (wd_nonneg _ Hb) as Wb. pose proof (wd_nonneg _ Hbr) as Wr.
  assert (Hbranch_given : get_val k_branch values = []).
  { unfold from_components, get_spec in H. rewrite Er in H. cbn [bind] in H.
    destruct (r_positions r); [|discriminate]. cbv zeta in H.
    change (fc_comps0 e components r values) with comps0 in H. rewrite Hs in H. cbn [andb] in H.
    destruct (get_val k_branch values); [reflexivity|discriminate]. }
  assert (Eb : range_is_empty (rng k_bank) = false \/ wd k_bank = 0%Z).
  { destruct (range_is_empty (rng k_bank)) eqn:Ee; [right|left; reflexivity].
    apply empty_range in Ee. unfold wd, range_length. rewrite Ee. reflexivity. }
  assert (Ebr : range_is_empty (rng k_branch) = false).
  { destruct (range_is_empty (rng k_branch)) eqn:Ee; [|reflexivity].
    apply empty_range in Ee. unfold wd, range_length in Hne. rewrite Ee in Hne. cbn [fst snd] in Hne. lia. }
  assert (Gbank : get_slice b (fst (rng k_bank)) (Some (snd (rng k_bank))) = py_slice_to (G k_bank) (wd k_bank)).
  { destruct (range_is_empty (rng k_bank)) eqn:Ee.
    - pose proof (empty_range _ Ee) as Ep. unfold wd, range_length. rewrite Ep. cbn [fst snd]. rewrite get_slice_00.
      change (0 - 0)%Z with 0%Z. symmetry. apply py_slice_to_0.
    - destruct (Hget _ Hb Ee) as [Hg _]. rewrite Hg, V2_eq, Nbn, (V1_split _ Hs Hb), text_eqb_refl.
      destruct K; reflexivity. }
  assert (Gbranch : get_slice b (fst (rng k_branch)) (Some (snd (rng k_branch)))
                    = py_slice (G k_bank) (wd k_bank) (wd k_bank + wd k_branch)).
  { destruct (Hget _ Hbr Ebr) as [Hg _]. rewrite Hg, V2_eq, Nrn, (V1_split _ Hs Hbr).
    rewrite (text_eqb_sym k_branch k_bank), Nbb, text_eqb_refl. destruct K; reflexivity. }
  rewrite Gbank, Gbranch. split; [apply split_glue; assumption|]. split; [exact Hl|]. split; [|exact Hbranch_given].
  pose proof (Hlen _ Hac) as Hla. rewrite (V1_split _ Hs Hac) in Hla.
  rewrite (text_eqb_sym k_account k_bank), Nba, (text_eqb_sym k_account k_branch), Nra in Hla.
  destruct (range_is_empty (rng k_account)) eqn:Ee.
  - pose proof (empty_range _ Ee) as Ep. unfold wd, range_length in Hla. rewrite Ep in *. cbn [fst snd] in *.
    rewrite get_slice_00. destruct (G k_account); [reflexivity|]. unfold len in Hla. cbn [List.length] in Hla. lia.
  - destruct (Hget _ Hac Ee) as [Hg _]. rewrite Hg, V2_eq, Nan, (V1_split _ Hs Hac).
    rewrite (text_eqb_sym k_account k_bank), Nba, (text_eqb_sym k_account k_branch), Nra. destruct K; reflexivity.
Qed.

(* the placed check digits are what the country's algorithm computes from the placed components: so the default
   validation (compute and compare) accepts what from_components builds *)
Theorem fc_checksum_agrees b al :
  from_components e components T find_algo cc values = Ok b ->
  (forall K, compute_national find_algo cc comps1 = Ok K -> shape_ok K) ->
  find_algo cc k_default = Some al ->
  (forall k, In k (al_accepts al) -> In k components /\ text_eqb k k_national = false) ->
  let comp k := get_slice b (fst (rng k)) (Some (snd (rng k))) in
  exists K, al_compute al (map comp (al_accepts al)) = Ok K /\
    (K <> [] -> range_is_empty (rng k_national) = false -> comp k_national = K).
Proof using All.
  intros H HK Hal Hacc comp.
  destruct (fc_result b H HK) as (K & EK & _ & _ & Hlen & Hget). exists K.
  destruct lay_facts as (_ & _ & _ & _ & _ & _ & _ & Hn & _).
  assert (Hcomp : forall k, In k components -> text_eqb k k_national = false -> comp k = V1 k).
  { intros k Hk Hnn. unfold comp. destruct (range_is_empty (rng k)) eqn:Ee.
    - pose proof (Hlen k Hk) as Hl. pose proof (empty_range _ Ee) as Ep. unfold wd, range_length in Hl.
      rewrite Ep in *. cbn [fst snd] in *. rewrite get_slice_00. destruct (V1 k); [reflexivity|].
      unfold len in Hl. cbn [List.length] in Hl. lia.
    - destruct (Hget k Hk Ee) as [Hg _]. rewrite Hg, V2_eq, Hnn. destruct K; reflexivity. }
  split.
  - unfold compute_national in EK. rewrite Hal in EK. rewrite <- EK. f_equal.
    apply map_ext_in. intros k Hk. destruct (Hacc k Hk) as [Hc Hnn]. rewrite (Hcomp k Hc Hnn). reflexivity.
  - intros HK0 Hne. unfold comp. destruct (Hget _ Hn Hne) as [Hg _]. rewrite Hg, V2_eq, text_eqb_refl.
    destruct K; [congruence|reflexivity].
Qed.

(* ---- what the structure check leaves: every component value is of its positions' classes, or all zeros ----------- *)
Definition checked_key (k : text) : bool :=
  text_eqb k k_bank || text_eqb k k_branch || text_eqb k k_account || nonempty_text (get_val k values).

Lemma fc_check_ok : forall l, fc_check components r values l = Ok tt ->
  forall k v, In (k, v) l -> checked_key k = true -> matches_structure r (rng k) v = Ok true.
Proof using All.
  induction l as [|[k0 v0] l IH]; intros H k v Hin Hck; [destruct Hin|].
  cbn [fc_check] in H. fold (checked_key k0) in H. fold rng in H.
  destruct Hin as [Heq|Hin].
  - inversion Heq; subst k0 v0. rewrite Hck in H.
    destruct (matches_structure r (rng k) v) as [[|]|x|x]; cbn [bind] in H; try discriminate. reflexivity.
  - apply (IH); [|exact Hin|exact Hck].
    destruct (if checked_key k0 then matches_structure r (rng k0) v0 else Ok true) as [[|]|x|x]; cbn [bind] in H; try discriminate.
    exact H.
Qed.

Lemma zfill_empty w : (0 <= w)%Z -> zfill [] w = zeros (Z.to_nat w).
Proof.
  intro H. unfold zfill. change (len []) with 0%Z. destruct (Z.leb_spec w 0).
  - replace w with 0%Z by lia. reflexivity.
  - rewrite Z.sub_0_r. reflexivity.
Qed.

Theorem V1_conf_checked :
  (len (V1 k_bank) <= wd k_bank)%Z -> (len (V1 k_branch) <= wd k_branch)%Z -> (len (V1 k_account) <= wd k_account)%Z ->
  fc_check components r values comps1 = Ok tt ->
  forall k, In k components ->
    matches_structure r (rng k) (V1 k) = Ok true \/ (checked_key k = false /\ V1 k = zeros (Z.to_nat (wd k))).
Proof using All.
  intros GB GR GA Hchk k Hk.
  destruct lay_facts as (_ & _ & _ & Hnodup & Hb & Hbr & Hac & _).
  assert (Hin : In (k, V1 k) comps1).
  { pose proof comps1_keys as Hkeys. rewrite <- Hkeys in Hk. apply in_map_iff in Hk as ([k' v] & Ek & Hin). cbn [fst] in Ek. subst k'.
    assert (Ev : V1 k = v) by (unfold V1; apply in_get_val; [rewrite Hkeys; exact Hnodup|exact Hin]).
    rewrite Ev. exact Hin. }
  destruct (checked_key k) eqn:Eck; [left; exact (fc_check_ok comps1 Hchk k (V1 k) Hin Eck)|right]. split; [reflexivity|].
  unfold checked_key in Eck. repeat (apply orb_false_iff in Eck as [Eck ?]).
  assert (Hempty : get_val k values = []) by (destruct (get_val k values); [reflexivity|discriminate]).
  assert (Hk' : In k components) by (rewrite <- comps1_keys; apply (in_map fst _ _ Hin)).
  assert (EV : V1 k = G k).
  { destruct (fc_split components r comps0) eqn:Hs.
    - rewrite (V1_split k Hs Hk'). rewrite Eck. match goal with X : text_eqb k k_branch = false |- _ => rewrite X end. reflexivity.
    - apply (V1_nosplit k Hs Hk'). }
  rewrite EV. unfold G. rewrite Hempty. change (clean e []) with (@nil N). apply zfill_empty. apply wd_nonneg. exact Hk'.
Qed.

Theorem V1_conf :
  (len (V1 k_bank) <= wd k_bank)%Z -> (len (V1 k_branch) <= wd k_branch)%Z -> (len (V1 k_account) <= wd k_account)%Z ->
  fc_check components r values comps1 = Ok tt ->
  forall k, In k components ->
    matches_structure r (rng k) (V1 k) = Ok true \/ V1 k = zeros (Z.to_nat (wd k)).
Proof using All.
  intros GB GR GA Hchk k Hk. destruct (V1_conf_checked GB GR GA Hchk k Hk) as [H|[_ H]]; [left|right]; exact H.
Qed.

(* ---- the error class of an over-long component ------------------------------------------------------------- *)
Ltac fc_open ps Hps :=
  unfold from_components, get_spec; rewrite Er; cbn [bind]; rewrite Hps; cbv zeta;
  change (fc_comps0 e components r values) with comps0;
  change (fc_comps1 components r comps0) with comps1;
  fold rng; fold (wd k_bank) (wd k_branch) (wd k_account);
  change (get_val k_bank comps1) with (V1 k_bank);
  change (get_val k_branch comps1) with (V1 k_branch);
  change (get_val k_account comps1) with (V1 k_account).

Theorem fc_bank_too_long ps :
  r_positions r = Some ps -> fc_split components r comps0 = false ->
  (wd k_bank < len (clean e (get_val k_bank values)))%Z ->
  from_components e components T find_algo cc values = Err EInvalidBankCode.
Proof using All.
  intros Hps Hs Hlong. destruct lay_facts as (_ & _ & _ & _ & Hb & _).
  fc_open ps Hps. rewrite Hs. cbn [andb].
  rewrite (V1_nosplit _ Hs Hb), G_len. destruct (Z.ltb_spec (wd k_bank) (Z.max (len (clean e (get_val k_bank values))) (wd k_bank))); [reflexivity|lia].
Qed.

Theorem fc_branch_too_long ps :
  r_positions r = Some ps -> fc_split components r comps0 = false ->
  (len (clean e (get_val k_bank values)) <= wd k_bank)%Z ->
  (wd k_branch < len (clean e (get_val k_branch values)))%Z ->
  from_components e components T find_algo cc values = Err EInvalidBranchCode.
Proof using All.
  intros Hps Hs Hfit Hlong. destruct lay_facts as (_ & _ & _ & _ & Hb & Hbr & _).
  fc_open ps Hps. rewrite Hs. cbn [andb].
  rewrite (V1_nosplit _ Hs Hb), (V1_nosplit _ Hs Hbr), !G_len.
  destruct (Z.ltb_spec (wd k_bank) (Z.max (len (clean e (get_val k_bank values))) (wd k_bank))); [lia|].
  destruct (Z.ltb_spec (wd k_branch) (Z.max (len (clean e (get_val k_branch values))) (wd k_branch))); [reflexivity|lia].
Qed.

Theorem fc_account_too_long ps :
  r_positions r = Some ps ->
  (fc_split components r comps0 = false /\ (len (clean e (get_val k_bank values)) <= wd k_bank)%Z
     /\ (len (clean e (get_val k_branch values)) <= wd k_branch)%Z)
  \/ (fc_split components r comps0 = true /\ get_val k_branch values = []) ->
  (wd k_account < len (clean e (get_val k_account values)))%Z ->
  from_components e components T find_algo cc values = Err EInvalidAccountCode.
Proof using All.
  intros Hps Hcase Hlong.
  destruct lay_facts as (_ & _ & _ & _ & Hb & Hbr & Hac & _ & Nbb & Nba & _ & Nra & _).
  pose proof (wd_nonneg _ Hb) as Wb. pose proof (wd_nonneg _ Hbr) as Wr.
  fc_open ps Hps. destruct Hcase as [(Hs & F1 & F2)|(Hs & Hnb)].
  - rewrite Hs. cbn [andb]. rewrite (V1_nosplit _ Hs Hb), (V1_nosplit _ Hs Hbr), (V1_nosplit _ Hs Hac), !G_len.
    destruct (Z.ltb_spec (wd k_bank) (Z.max (len (clean e (get_val k_bank values))) (wd k_bank))); [lia|].
    destruct (Z.ltb_spec (wd k_branch) (Z.max (len (clean e (get_val k_branch values))) (wd k_branch))); [lia|].
    destruct (Z.ltb_spec (wd k_account) (Z.max (len (clean e (get_val k_account values))) (wd k_account))); [reflexivity|lia].
  - rewrite Hs, Hnb. cbn [andb nonempty_text]. pose proof (proj1 split_spec Hs) as [Hne Hl].
    rewrite (V1_split _ Hs Hb), (V1_split _ Hs Hbr), (V1_split _ Hs Hac), text_eqb_refl.
    rewrite (text_eqb_sym k_branch k_bank), Nbb, text_eqb_refl.
    rewrite (text_eqb_sym k_account k_bank), Nba, (text_eqb_sym k_account k_branch), Nra.
    assert (L1 : len (py_slice_to (G k_bank) (wd k_bank)) = wd k_bank).
    { unfold py_slice_to. rewrite py_slice_sub by lia. unfold len. rewrite firstn_length, skipn_length.
      unfold len in Hl. cbn [Z.to_nat]. lia. }
    assert (L2 : len (py_slice (G k_bank) (wd k_bank) (wd k_bank + wd k_branch)) = wd k_branch).
    { rewrite py_slice_sub by lia. unfold len. rewrite firstn_length, skipn_length. unfold len in Hl. lia. }
    rewrite L1, L2, G_len.
    destruct (Z.ltb_spec (wd k_bank) (wd k_bank)); [lia|]. destruct (Z.ltb_spec (wd k_branch) (wd k_branch)); [lia|].
    destruct (Z.ltb_spec (wd k_account) (Z.max (len (clean e (get_val k_account values))) (wd k_account))); [reflexivity|lia].
Qed.

Theorem fc_branch_twice ps :
  r_positions r = Some ps -> fc_split components r comps0 = true -> get_val k_branch values <> [] ->
  from_components e components T find_algo cc values = Err EInvalidBranchCode.
Proof using All.
  intros Hps Hs Hnb. fc_open ps Hps. rewrite Hs. cbn [andb]. destruct (get_val k_branch values); [congruence|reflexivity].
Qed.

(* never an exception from outside the library's family *)
Lemma fc_check_no_crash items l :
  parse_structure (r_bban_spec r) = Some items -> is_crash (fc_check components r values l) = false.
Proof using All.
  intro Hp. induction l as [|[k v] l IH]; [reflexivity|]. cbn [fc_check].
  destruct (text_eqb k k_bank || text_eqb k k_branch || text_eqb k k_account || nonempty_text (get_val k values)).
  - unfold matches_structure. rewrite Hp. cbn [bind]. destruct (all_in_class _ _); [exact IH|reflexivity].
  - cbn [bind]. exact IH.
Qed.

Theorem fc_no_crash items :
  parse_structure (r_bban_spec r) = Some items ->
  (forall vals, is_crash (compute_national find_algo cc vals) = false) ->
  is_crash (from_components e components T find_algo cc values) = false.
Proof using All.
  intros Hp Hc. unfold from_components, get_spec. rewrite Er. cbn [bind].
  destruct (r_positions r); [|reflexivity]. cbv zeta.
  repeat match goal with |- context [if ?c then _ else _] => destruct c; [reflexivity|] end.
  pose proof (fc_check_no_crash items (fc_comps1 components r (fc_comps0 e components r values)) Hp) as H1.
  destruct (fc_check _ _ _ _) as [[]|x|x]; [|reflexivity|discriminate]. cbn [bind].
  specialize (Hc (fc_comps1 components r (fc_comps0 e components r values))).
  destruct (compute_national _ _ _) as [K|x|x]; [reflexivity|reflexivity|discriminate].
Qed.

Theorem fc_no_crash_if items :
  parse_structure (r_bban_spec r) = Some items ->
  ((len (V1 k_bank) <= wd k_bank)%Z -> (len (V1 k_branch) <= wd k_branch)%Z -> (len (V1 k_account) <= wd k_account)%Z ->
   fc_check components r values comps1 = Ok tt -> is_crash (compute_national find_algo cc comps1) = false) ->
  is_crash (from_components e components T find_algo cc values) = false.
Proof using All.
  intros Hp Hc. unfold from_components, get_spec. rewrite Er. cbn [bind].
  destruct (r_positions r); [|reflexivity]. cbv zeta.
  change (fc_comps0 e components r values) with comps0. change (fc_comps1 components r comps0) with comps1.
  destruct (fc_split components r comps0 && nonempty_text (get_val k_branch values)); [reflexivity|].
  fold rng. fold (wd k_bank) (wd k_branch) (wd k_account). fold (V1 k_bank) (V1 k_branch) (V1 k_account).
  destruct (Z.ltb_spec (wd k_bank) (len (V1 k_bank))) as [|GB]; [reflexivity|].
  destruct (Z.ltb_spec (wd k_branch) (len (V1 k_branch))) as [|GR]; [reflexivity|].
  destruct (Z.ltb_spec (wd k_account) (len (V1 k_account))) as [|GA]; [reflexivity|].
  pose proof (fc_check_no_crash items comps1 Hp) as H1.
  destruct (fc_check components r values comps1) as [[]|x|x] eqn:Echk; [|reflexivity|discriminate]. cbn [bind].
  specialize (Hc GB GR GA eq_refl).
  destruct (compute_national find_algo cc comps1) as [K|x|x]; [reflexivity|reflexivity|discriminate].
Qed.
End FromComponents.

Lemma fc_unknown_country e components T find_algo cc values :
  find_row T cc = None -> from_components e components T find_algo cc values = Err EInvalidCountryCode.
Proof. intro H. unfold from_components, get_spec. rewrite H. reflexivity. Qed.

Lemma fc_no_positions e components T find_algo cc r values :
  find_row T cc = Some r -> r_positions r = None -> from_components e components T find_algo cc values = Err ESchwifty.
Proof. intros H Hp. unfold from_components, get_spec. rewrite H. cbn [bind]. rewrite Hp. reflexivity. Qed.
